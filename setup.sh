#!/bin/sh
# Build the framework offline from files on disk: regenerate the translated
# definitions from /repo, build model + proofs + driver, warm the harness build.
set -e
cd "$(dirname "$0")"
export GOFLAGS=-mod=mod GOPROXY=off GOSUMDB=off GOTOOLCHAIN=local
mkdir -p .work evidence replays
(cd translator && go run . -repo /repo -out ../lean/Gen/Generated.lean)
# the driver and the model must build; proof modules are (re)built by each check,
# which reports a module that no longer checks as a broken obligation
(cd lean && lake build Plenc driver)
(cd lean && lake build Proofs Props Gen) || echo "setup: some proof modules do not build (the affected checks will report it)"
cp /repo/go.sum harness/go.sum
(cd harness && go build -tags verif -o ../.work/harness-setup . && rm -f ../.work/harness-setup)
echo setup ok
