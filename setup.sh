#!/bin/sh
# Build the framework offline from files on disk: regenerate the translated
# definitions from /repo, build model + proofs + driver, warm the harness build.
set -e
cd "$(dirname "$0")"
export GOFLAGS=-mod=mod GOPROXY=off GOSUMDB=off GOTOOLCHAIN=local
mkdir -p .work evidence replays
(cd translator && go run . -repo /repo -out ../lean/Gen/Generated.lean)
(cd lean && lake build Plenc Proofs Props Gen driver)
cp /repo/go.sum harness/go.sum
(cd harness && go build -tags verif -o ../.work/harness-setup . && rm -f ../.work/harness-setup)
echo setup ok
