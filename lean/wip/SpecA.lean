import Plenc.Spec.Format
import Proofs.RoundTrip

namespace SpecP
open Spec

theorem tag_eq (wt : WT) (i : Nat) (h : i < 2 ^ 61) : appendTag wt i = varint (i * 8 + wt.code) := by
  have hc := code_lt wt
  unfold appendTag varint
  rw [Nat.mod_eq_of_lt (by omega)]

theorem wtOf_eq : (t : Ty) → wtOf t = t.wt
  | .ptr t => by simp only [wtOf, Ty.wt]; exact wtOf_eq t
  | .map _ _ true | .map _ _ false => rfl
  | .bool | .int _ | .uint _ | .flat _ | .f32 | .f64 | .str _ | .bytes | .time _
  | .vslice _ | .fslice _ | .lslice _ | .pslice _ | .struct _ _ => rfl

theorem omit_eq_absent (t : Ty) (v : Val) (h : t.hasTy v) : v.omit = absent v := by
  cases v with
  | f32 b =>
    cases t <;> simp only [Ty.hasTy] at h
    simp only [Val.omit, absent]
    have : (b % 2 ^ 31 == 0) = (b == 0 || b == 0x80000000) := by
      rw [Bool.eq_iff_iff]; simp only [beq_iff_eq, Bool.or_eq_true]; omega
    exact this
  | f64 b =>
    cases t <;> simp only [Ty.hasTy] at h
    simp only [Val.omit, absent]
    have : (b % 2 ^ 63 == 0) = (b == 0 || b == 0x8000000000000000) := by
      rw [Bool.eq_iff_iff]; simp only [beq_iff_eq, Bool.or_eq_true]; omega
    exact this
  | bool b => cases b <;> rfl
  | str s => cases s <;> rfl
  | bytes s => cases s <;> rfl
  | slice s => cases s <;> rfl
  | ptr o => cases o <;> rfl
  | map o => cases o <;> rfl
  | int _ | uint _ | time _ _ | struct _ => rfl

theorem renderRec_len (i : Nat) (h : i < 2 ^ 61) (p : Bytes) :
    renderRec ⟨i, .len, p⟩ = appendTag .len i ++ appendVarUint p.length ++ p := by
  simp only [renderRec, tag_eq _ _ h, ↓reduceIte, varint]

theorem renderRec_other (i : Nat) (h : i < 2 ^ 61) (wt : WT) (hw : wt ≠ .len) (p : Bytes) :
    renderRec ⟨i, wt, p⟩ = appendTag wt i ++ p := by
  simp only [renderRec, tag_eq _ _ h, hw, ↓reduceIte, List.append_nil]

theorem render_single (r : Rec) : render [r] = renderRec r := by
  simp [render]

end SpecP

namespace SpecP
open Spec

/-- the two halves of "the model writes what the specification says":
untagged (payload) and under a field tag (records). -/
def EncLaw (t : Ty) : Prop :=
  t.wf →
    (∀ v, t.hasTy v → t.app v [] = payload t v) ∧
    (∀ i v, i < 2 ^ 61 → t.hasTy v → t.app v (appendTag t.wt i) = render (recsOf t i v))

theorem encLaw_single (t : Ty) (hnp : t.isPtr = false) (hnr : t.isProtoRep = false)
    (hrec : ∀ i v, t.hasTy v → recsOf t i v = [⟨i, wtOf t, payload t v⟩])
    (hA : t.wf → ∀ v, t.hasTy v → t.app v [] = payload t v) : EncLaw t := by
  intro hwf
  refine ⟨hA hwf, fun i v hi hty => ?_⟩
  have hp := present_of_not_ptr t v hnp hty
  rw [hrec i v hty, render_single, wtOf_eq]
  by_cases hw : t.wt = .len
  · rw [app_frame_len t v _ hwf hty hp hw (by rw [RT.deref_of_not_ptr t hnp]; exact hnr)
      (RT.appendTag_ne_nil _ _), hA hwf v hty, hw, renderRec_len i hi]
  · rw [app_frame_other t v _ hwf hty hp hw, hA hwf v hty, renderRec_other i hi _ hw]

theorem encLaw_bool : EncLaw .bool :=
  encLaw_single _ rfl rfl (fun i v h => by cases v <;> simp [Ty.hasTy] at h <;> simp [recsOf])
    (fun _ v h => by cases v <;> simp [Ty.hasTy] at h <;> simp [Ty.app, payload, varint])

end SpecP

namespace SpecP
open Spec

theorem encLaw_int (w : Nat) : EncLaw (.int w) :=
  encLaw_single _ rfl rfl (fun i v h => by cases v <;> simp [Ty.hasTy] at h <;> simp [recsOf])
    (fun _ v h => by cases v <;> simp [Ty.hasTy] at h <;> simp [Ty.app, payload, varint, svarint, appendVarInt])

theorem encLaw_uint (w : Nat) : EncLaw (.uint w) :=
  encLaw_single _ rfl rfl (fun i v h => by cases v <;> simp [Ty.hasTy] at h <;> simp [recsOf])
    (fun _ v h => by cases v <;> simp [Ty.hasTy] at h <;> simp [Ty.app, payload, varint])

theorem encLaw_flat (w : Nat) : EncLaw (.flat w) :=
  encLaw_single _ rfl rfl (fun i v h => by cases v <;> simp [Ty.hasTy] at h <;> simp [recsOf])
    (fun _ v h => by cases v <;> simp [Ty.hasTy] at h <;> simp [Ty.app, payload, varint])

theorem encLaw_f32 : EncLaw .f32 :=
  encLaw_single _ rfl rfl (fun i v h => by cases v <;> simp [Ty.hasTy] at h <;> simp [recsOf])
    (fun _ v h => by cases v <;> simp [Ty.hasTy] at h <;> simp [Ty.app, payload])

theorem encLaw_f64 : EncLaw .f64 :=
  encLaw_single _ rfl rfl (fun i v h => by cases v <;> simp [Ty.hasTy] at h <;> simp [recsOf])
    (fun _ v h => by cases v <;> simp [Ty.hasTy] at h <;> simp [Ty.app, payload])

theorem encLaw_str (b : Bool) : EncLaw (.str b) :=
  encLaw_single _ rfl rfl (fun i v h => by cases v <;> simp [Ty.hasTy] at h <;> simp [recsOf])
    (fun _ v h => by cases v <;> simp [Ty.hasTy] at h <;> simp [Ty.app, payload, frame])

theorem encLaw_bytes : EncLaw .bytes :=
  encLaw_single _ rfl rfl (fun i v h => by cases v <;> simp [Ty.hasTy] at h <;> simp [recsOf])
    (fun _ v h => by cases v <;> simp [Ty.hasTy] at h <;> simp [Ty.app, payload, frame])

theorem tag1_eq : tag1 = varint (1 * 8 + WT.varint.code) := tag_eq _ _ (by omega)
theorem tag2_eq : tag2 = varint (2 * 8 + WT.varint.code) := tag_eq _ _ (by omega)

theorem encLaw_time (c : Bool) : EncLaw (.time c) :=
  encLaw_single _ rfl rfl (fun i v h => by cases v <;> simp [Ty.hasTy] at h <;> simp [recsOf])
    (fun _ v h => by
      cases v with
      | time s n =>
        simp only [Ty.hasTy] at h
        have hn : wrapU 32 (n : Int) = n := wrapU_natCast 32 n (by simp [validWidth]) (by omega)
        cases c <;>
          simp [Ty.app, payload, frame, timeBody, render, renderRec, tag1_eq, tag2_eq, svarint, varint,
            appendVarInt, hn]
      | _ => simp [Ty.hasTy] at h)

end SpecP
