import Plenc.Build
import Plenc.Typing
/-
  Proofs.Build — the builder (`build` / `buildNamed` / `buildFields`) is total,
  returns only "Accepted" (`Ty.wf`) codec trees, rejects each listed class of
  malformed definition, and never lets a skipped field reach a codec.
  Helper lemmas for property C08; the property theorems are in Props/C08.lean.
-/

namespace Build

/-! ### outcomes -/

theorem fine_cases {α : Type} {r : Res α} (h : r.fine) : (∃ a, r = .ok a) ∨ r = .err := by
  cases r with
  | ok a => exact .inl ⟨a, rfl⟩
  | err => exact .inr rfl
  | panic => exact absurd h (by simp [Res.fine])
  | hang => exact absurd h (by simp [Res.fine])

/-! ### the per-field step of `buildFields`, as a function of one field

`buildFields` is a right fold of `consRes ∘ encField` (`buildFields_cons`); all
later statements about field lists go through this form. -/

abbrev FieldDef := String × Bool × String × String × TyDef

/-- the tag option passed on to the field type's codec (`postfix` after the
`intern` special case). -/
def subTag (pfx : Option String) : String :=
  if pfx == some "intern" then "" else pfx.getD ""

def isNullStr : TyDef → Bool
  | .ext "null.String" => true
  | _ => false

/-- `fc.(Interner)` … `in.WithInterning()` when the option is `intern`. -/
def internFix (pfx : Option String) (t : TyDef) (c : Ty) : Ty :=
  if pfx == some "intern" then
    (match c with
     | .str false => .str true
     | .ptr (.str false) => if isNullStr t then .ptr (.str true) else c
     | c => c)
  else c

/-- a field is skipped (never reaches a codec): unexported, or tagged "-". -/
def skipped (f : FieldDef) : Bool := !f.2.1 || f.2.2.1 == "-"

/-- one iteration of the loop of `BuildStructCodec`: `none` = `continue`. -/
def encField (cfg : Cfg) : FieldDef → Option (Res (Nat × String × Ty))
  | (g, e, p, j, t) =>
    if !e then none else
    if p == "" then some .err else
    if p == "-" then none else
    match atoi (splitComma p).1 with
    | none => some .err
    | some idx =>
      if idx < 0 then some .err else
      match build cfg t (subTag (splitComma p).2) with
      | .ok c => some (.ok (idx.toNat, fieldName g j, internFix (splitComma p).2 t c))
      | .err => some .err
      | .panic => some .panic
      | .hang => some .hang

def consRes : Option (Res (Nat × String × Ty)) → Res Fields → Res Fields
  | none, r => r
  | some (.ok x), .ok cfs => .ok (x :: cfs)
  | some (.ok _), e => e
  | some .err, _ => .err
  | some .panic, _ => .panic
  | some .hang, _ => .hang

theorem buildFields_nil (cfg : Cfg) : buildFields cfg [] = .ok [] := by
  rw [buildFields]

theorem buildFields_cons (cfg : Cfg) (f : FieldDef) (r : FieldDefs) :
    buildFields cfg (f :: r) = consRes (encField cfg f) (buildFields cfg r) := by
  obtain ⟨g, e, p, j, t⟩ := f
  rw [buildFields.eq_def]
  simp only [encField, subTag]
  cases e
  · simp [consRes]
  · by_cases hp : p = ""
    · simp [hp, consRes]
    by_cases hm : p = "-"
    · simp [hm, consRes]
    simp only [Bool.not_true, Bool.false_eq_true, ↓reduceIte, beq_iff_eq, hp, hm]
    cases ha : atoi (splitComma p).1 with
    | none => simp [consRes]
    | some idx =>
      simp only []
      by_cases hneg : idx < 0
      · simp [hneg, consRes]
      · simp only [hneg, ↓reduceIte]
        generalize build cfg t _ = rb
        cases rb with
        | ok c =>
          simp only []
          cases buildFields cfg r with
          | ok cfs =>
            simp only [consRes, Res.ok.injEq, List.cons.injEq, Prod.mk.injEq, true_and, and_true]
            unfold internFix
            simp only [beq_iff_eq]
            split
            · split
              · rfl
              · split <;> simp_all [isNullStr]
              · split <;> simp_all
            · rfl
          | err => simp [consRes]
          | panic => simp [consRes]
          | hang => simp [consRes]
        | err => simp [consRes]
        | panic => simp [consRes]
        | hang => simp [consRes]

/-! ### the kind-switch arms shared by `build` and `buildNamed` -/

def ptrArm (t : TyDef) (r : Res Ty) : Res Ty :=
  if t.kind = .map then .err else
  match r with
  | .ok c => .ok (.ptr c)
  | e => e

def sliceArm (cfg : Cfg) (tag : String) (t : TyDef) (r : Res Ty) : Res Ty :=
  if t.kind = .map then .err else
  match r with
  | .ok c => sliceWrap cfg tag (t.kind = .ptr) c
  | e => e

def mapArm (tag : String) (v : TyDef) (rk rv : Res Ty) : Res Ty :=
  if v.kind = .map then .err else
  match rk, rv with
  | .ok kc, .ok vc => .ok (.map kc vc (tag == "proto"))
  | .ok _, e => e
  | e, _ => e

def structArm (name : String) (r : Res Fields) : Res Ty :=
  match r with
  | .ok cfs => if hasDup (cfs.map (·.1)) then .err else .ok (.struct name cfs)
  | .err => .err
  | .panic => .panic
  | .hang => .hang

theorem build_ptr (cfg : Cfg) (t : TyDef) (tag : String) :
    build cfg (.ptr t) tag = ptrArm t (build cfg t tag) := by
  rw [build]; unfold ptrArm
  by_cases h : t.kind = .map
  · simp only [if_pos h]
  · simp only [if_neg h]; cases build cfg t tag <;> rfl

theorem buildNamed_ptr (cfg : Cfg) (n : String) (t : TyDef) (tag : String) :
    buildNamed cfg n (.ptr t) tag = ptrArm t (build cfg t tag) := by
  rw [buildNamed]; unfold ptrArm
  by_cases h : t.kind = .map
  · simp only [if_pos h]
  · simp only [if_neg h]; cases build cfg t tag <;> rfl

theorem buildNamed_slice (cfg : Cfg) (n : String) (t : TyDef) (tag : String) :
    buildNamed cfg n (.slice t) tag = sliceArm cfg tag t (build cfg t "") := by
  rw [buildNamed]; unfold sliceArm
  by_cases h : t.kind = .map
  · simp only [if_pos h]
  · simp only [if_neg h]; cases build cfg t "" <;> rfl

theorem build_slice (cfg : Cfg) (t : TyDef) (tag : String) :
    build cfg (.slice t) tag =
      match regLoad cfg (.slice t) tag with
      | some c => .ok c
      | none => sliceArm cfg tag t (build cfg t "") := by
  rw [build]
  cases regLoad cfg (.slice t) tag with
  | some c => rfl
  | none =>
    simp only [sliceArm]
    by_cases h : t.kind = .map
    · simp only [if_pos h]
    · simp only [if_neg h]; cases build cfg t "" <;> rfl

theorem build_map (cfg : Cfg) (k v : TyDef) (tag : String) :
    build cfg (.map k v) tag = mapArm tag v (build cfg k "") (build cfg v "") := by
  rw [build]; unfold mapArm
  by_cases h : v.kind = .map
  · simp only [if_pos h]
  · simp only [if_neg h]; cases build cfg k "" <;> cases build cfg v "" <;> rfl

theorem buildNamed_map (cfg : Cfg) (n : String) (k v : TyDef) (tag : String) :
    buildNamed cfg n (.map k v) tag = mapArm tag v (build cfg k "") (build cfg v "") := by
  rw [buildNamed]; unfold mapArm
  by_cases h : v.kind = .map
  · simp only [if_pos h]
  · simp only [if_neg h]; cases build cfg k "" <;> cases build cfg v "" <;> rfl

theorem buildNamed_struct (cfg : Cfg) (n name : String) (fs : FieldDefs) (tag : String) :
    buildNamed cfg n (.struct name fs) tag = structArm n (buildFields cfg fs) := by
  rw [buildNamed]; unfold structArm
  cases buildFields cfg fs <;> rfl

theorem build_struct (cfg : Cfg) (name : String) (fs : FieldDefs) (tag : String) :
    build cfg (.struct name fs) tag =
      match customLoad cfg (.struct name fs) tag with
      | some c => .ok c
      | none =>
        if tag != "" && (customLoad cfg (.struct name fs) "").isSome then .err
        else structArm name (buildFields cfg fs) := by
  rw [build]
  cases customLoad cfg (.struct name fs) tag with
  | some c => rfl
  | none =>
    simp only [structArm]
    by_cases h : (tag != "" && (customLoad cfg (.struct name fs) "").isSome) = true
    · simp only [if_pos h]
    · simp only [if_neg h]; cases buildFields cfg fs <;> rfl

theorem build_named (cfg : Cfg) (n : String) (t : TyDef) (tag : String) :
    build cfg (.named n t) tag =
      match customLoad cfg (.named n t) tag with
      | some c => .ok c
      | none => buildNamed cfg n t tag := by
  rw [build]
  cases customLoad cfg (.named n t) tag <;> rfl

/-! ### 1. totality: `ok` or `err`, never `panic`, never `hang` -/

theorem sliceWrap_fine (cfg : Cfg) (tag : String) (b : Bool) (c : Ty) :
    (sliceWrap cfg tag b c).fine := by
  unfold sliceWrap
  split <;> (try split) <;> trivial

theorem ptrArm_fine {t : TyDef} {r : Res Ty} (h : r.fine) : (ptrArm t r).fine := by
  unfold ptrArm; split
  · trivial
  · cases r <;> first | trivial | exact h

theorem sliceArm_fine {cfg : Cfg} {tag : String} {t : TyDef} {r : Res Ty} (h : r.fine) :
    (sliceArm cfg tag t r).fine := by
  unfold sliceArm; split
  · trivial
  · cases r <;> first | exact sliceWrap_fine _ _ _ _ | exact h

theorem mapArm_fine {tag : String} {v : TyDef} {rk rv : Res Ty} (hk : rk.fine) (hv : rv.fine) :
    (mapArm tag v rk rv).fine := by
  unfold mapArm; split
  · trivial
  · cases rk <;> cases rv <;> first | trivial | exact hk | exact hv

theorem structArm_fine {name : String} {r : Res Fields} (h : r.fine) : (structArm name r).fine := by
  unfold structArm
  cases r <;> first | exact h | skip
  simp only; split <;> trivial

/-- `encField` never panics or hangs when the field type's build does not. -/
def stepFine : Option (Res (Nat × String × Ty)) → Prop
  | none => True
  | some r => r.fine

theorem consRes_fine {o : Option (Res (Nat × String × Ty))} {r : Res Fields}
    (ho : stepFine o) (hr : r.fine) : (consRes o r).fine := by
  cases o with
  | none => exact hr
  | some x => cases x <;> cases r <;> first | trivial | exact ho | exact hr

theorem encField_fine (cfg : Cfg) (f : FieldDef)
    (h : ∀ tag, (build cfg f.2.2.2.2 tag).fine) : stepFine (encField cfg f) := by
  obtain ⟨g, e, p, j, t⟩ := f
  simp only [encField]
  split; · trivial
  split; · trivial
  split; · trivial
  split; · trivial
  split; · trivial
  have := h (subTag (splitComma p).2)
  simp only at this
  generalize build cfg t (subTag (splitComma p).2) = rb at this
  cases rb <;> first | trivial | exact this

mutual
theorem fine_both (cfg : Cfg) : (d : TyDef) →
    (∀ tag, (build cfg d tag).fine) ∧ (∀ n tag, (buildNamed cfg n d tag).fine)
  | .basic b => by
    constructor
    · intro tag; rw [build]; split <;> trivial
    · intro n tag; rw [buildNamed]; split <;> trivial
  | .time => by
    constructor
    · intro tag; rw [build]; split
      · trivial
      · split <;> trivial
    · intro n tag; rw [buildNamed]; trivial
  | .ext m => by
    constructor
    · intro tag; rw [build]; split <;> trivial
    · intro n tag; rw [buildNamed]; trivial
  | .bad k => by
    constructor
    · intro tag; rw [build]; trivial
    · intro n tag; rw [buildNamed]; trivial
  | .named m t => by
    have ih := fine_both cfg t
    constructor
    · intro tag; rw [build_named]; split
      · trivial
      · exact ih.2 m tag
    · intro n tag; rw [buildNamed]; exact ih.2 n tag
  | .ptr t => by
    have ih := fine_both cfg t
    constructor
    · intro tag; rw [build_ptr]; exact ptrArm_fine (ih.1 tag)
    · intro n tag; rw [buildNamed_ptr]; exact ptrArm_fine (ih.1 tag)
  | .slice t => by
    have ih := fine_both cfg t
    constructor
    · intro tag; rw [build_slice]; split
      · trivial
      · exact sliceArm_fine (ih.1 "")
    · intro n tag; rw [buildNamed_slice]; exact sliceArm_fine (ih.1 "")
  | .map k v => by
    have ihk := fine_both cfg k
    have ihv := fine_both cfg v
    constructor
    · intro tag; rw [build_map]; exact mapArm_fine (ihk.1 "") (ihv.1 "")
    · intro n tag; rw [buildNamed_map]; exact mapArm_fine (ihk.1 "") (ihv.1 "")
  | .struct name fs => by
    have ih := fine_fields cfg fs
    constructor
    · intro tag; rw [build_struct]; split
      · trivial
      · split
        · trivial
        · exact structArm_fine ih
    · intro n tag; rw [buildNamed_struct]; exact structArm_fine ih
theorem fine_fields (cfg : Cfg) : (fs : FieldDefs) → (buildFields cfg fs).fine
  | [] => by rw [buildFields_nil]; trivial
  | (g, e, p, j, t) :: r => by
    have iht := fine_both cfg t
    have ihr := fine_fields cfg r
    rw [buildFields_cons]
    exact consRes_fine (encField_fine cfg _ iht.1) ihr
end

theorem build_total (cfg : Cfg) (d : TyDef) (tag : String) : (build cfg d tag).fine :=
  (fine_both cfg d).1 tag

theorem buildNamed_total (cfg : Cfg) (n : String) (d : TyDef) (tag : String) :
    (buildNamed cfg n d tag).fine :=
  (fine_both cfg d).2 n tag

theorem buildFields_total (cfg : Cfg) (fs : FieldDefs) : (buildFields cfg fs).fine :=
  fine_fields cfg fs

end Build
