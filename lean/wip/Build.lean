import Plenc.Build
import Plenc.Typing
/-
  Proofs.Build — the builder (`build` / `buildNamed` / `buildFields`) is total,
  returns only "Accepted" (`Ty.wf`) codec trees, rejects each listed class of
  malformed definition, and never lets a skipped field reach a codec.
  Helper lemmas for property C08; the property theorems are in Props/C08.lean.
-/

namespace Build

/-! ### outcomes -/

theorem fine_cases {α : Type} {r : Res α} (h : r.fine) : (∃ a, r = .ok a) ∨ r = .err := by
  cases r with
  | ok a => exact .inl ⟨a, rfl⟩
  | err => exact .inr rfl
  | panic => exact absurd h (by simp [Res.fine])
  | hang => exact absurd h (by simp [Res.fine])

/-! ### the per-field step of `buildFields`, as a function of one field

`buildFields` is a right fold of `consRes ∘ encField` (`buildFields_cons`); all
later statements about field lists go through this form. -/

abbrev FieldDef := String × Bool × String × String × TyDef

/-- the tag option passed on to the field type's codec (`postfix` after the
`intern` special case). -/
def subTag (pfx : Option String) : String :=
  if pfx == some "intern" then "" else pfx.getD ""

def isNullStr : TyDef → Bool
  | .ext "null.String" => true
  | _ => false

/-- `fc.(Interner)` … `in.WithInterning()` when the option is `intern`. -/
def internFix (pfx : Option String) (t : TyDef) (c : Ty) : Ty :=
  if pfx == some "intern" then
    (match c with
     | .str false => .str true
     | .ptr (.str false) => if isNullStr t then .ptr (.str true) else c
     | c => c)
  else c

/-- a field is skipped (never reaches a codec): unexported, or tagged "-". -/
def skipped (f : FieldDef) : Bool := !f.2.1 || f.2.2.1 == "-"

/-- one iteration of the loop of `BuildStructCodec`: `none` = `continue`. -/
def encField (cfg : Cfg) : FieldDef → Option (Res (Nat × String × Ty))
  | (g, e, p, j, t) =>
    if !e then none else
    if p == "" then some .err else
    if p == "-" then none else
    match atoi (splitComma p).1 with
    | none => some .err
    | some idx =>
      if idx < 0 then some .err else
      match build cfg t (subTag (splitComma p).2) with
      | .ok c => some (.ok (idx.toNat, fieldName g j, internFix (splitComma p).2 t c))
      | .err => some .err
      | .panic => some .panic
      | .hang => some .hang

def consRes : Option (Res (Nat × String × Ty)) → Res Fields → Res Fields
  | none, r => r
  | some (.ok x), .ok cfs => .ok (x :: cfs)
  | some (.ok _), e => e
  | some .err, _ => .err
  | some .panic, _ => .panic
  | some .hang, _ => .hang

theorem buildFields_nil (cfg : Cfg) : buildFields cfg [] = .ok [] := by
  rw [buildFields]

theorem buildFields_cons (cfg : Cfg) (f : FieldDef) (r : FieldDefs) :
    buildFields cfg (f :: r) = consRes (encField cfg f) (buildFields cfg r) := by
  obtain ⟨g, e, p, j, t⟩ := f
  rw [buildFields.eq_def]
  simp only [encField, subTag]
  cases e
  · simp [consRes]
  · by_cases hp : p = ""
    · simp [hp, consRes]
    by_cases hm : p = "-"
    · simp [hm, consRes]
    simp only [Bool.not_true, Bool.false_eq_true, ↓reduceIte, beq_iff_eq, hp, hm]
    cases ha : atoi (splitComma p).1 with
    | none => simp [consRes]
    | some idx =>
      simp only []
      by_cases hneg : idx < 0
      · simp [hneg, consRes]
      · simp only [hneg, ↓reduceIte]
        generalize build cfg t _ = rb
        cases rb with
        | ok c =>
          simp only []
          cases buildFields cfg r with
          | ok cfs =>
            simp only [consRes, Res.ok.injEq, List.cons.injEq, Prod.mk.injEq, true_and, and_true]
            unfold internFix
            simp only [beq_iff_eq]
            split
            · split
              · rfl
              · split <;> simp_all [isNullStr]
              · split <;> simp_all
            · rfl
          | err => simp [consRes]
          | panic => simp [consRes]
          | hang => simp [consRes]
        | err => simp [consRes]
        | panic => simp [consRes]
        | hang => simp [consRes]

end Build
