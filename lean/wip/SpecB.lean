import Proofs.Spec

namespace SpecP
open Spec

/-! ## Part 2: the struct reader, one record at a time -/

/-- every record of a value written under index `i` carries index `i` and the
wire type of the field's codec. -/
theorem recsOf_index_wt : (t : Ty) → t.wf → ∀ (i : Nat) (v : Val), ∀ r ∈ recsOf t i v, r.index = i ∧ r.wt = t.wt
  | .ptr t => by
      intro hwf i v r hr
      simp only [Ty.wf] at hwf
      cases v with
      | ptr o =>
        cases o with
        | none => simp [recsOf] at hr
        | some x =>
          simp only [recsOf] at hr
          simp only [Ty.wt]
          exact recsOf_index_wt t hwf.1 i x r hr
      | _ => simp only [recsOf, List.mem_singleton] at hr; subst hr; exact ⟨rfl, wtOf_eq _⟩
  | .pslice t => by
      intro hwf i v r hr
      simp only [Ty.wf] at hwf
      cases v with
      | slice vs =>
        simp only [recsOf, List.mem_flatMap, orEmpty] at hr
        obtain ⟨a, _, hr⟩ := hr
        split at hr
        · simp only [List.mem_singleton] at hr; subst hr; exact ⟨rfl, rfl⟩
        · have := recsOf_index_wt t hwf.1 i a r hr
          rw [hwf.2.1] at this
          exact this
      | _ => simp only [recsOf, List.mem_singleton] at hr; subst hr; exact ⟨rfl, wtOf_eq _⟩
  | .map k v true => by
      intro _ i x r hr
      cases x with
      | map o =>
        cases o with
        | none => simp [recsOf] at hr
        | some es =>
          simp only [recsOf, List.mem_map] at hr
          obtain ⟨e, _, rfl⟩ := hr
          exact ⟨rfl, rfl⟩
      | _ => simp only [recsOf, List.mem_singleton] at hr; subst hr; exact ⟨rfl, wtOf_eq _⟩
  | .map k v false => by
      intro _ i x r hr
      cases x with
      | map o => cases o <;> (simp only [recsOf, List.mem_singleton] at hr; subst hr; exact ⟨rfl, wtOf_eq _⟩)
      | _ => simp only [recsOf, List.mem_singleton] at hr; subst hr; exact ⟨rfl, wtOf_eq _⟩
  | .bool | .int _ | .uint _ | .flat _ | .f32 | .f64 | .str _ | .bytes | .time _
  | .vslice _ | .fslice _ | .lslice _ | .struct _ _ => by
      intro _ i v r hr
      cases v <;> (simp only [recsOf, List.mem_singleton] at hr; subst hr; exact ⟨rfl, wtOf_eq _⟩)

/-- the indexes of the records of a struct value are indexes of its fields. -/
theorem fieldsOf_index (fs : Fields) (hwf : fieldsWf fs) :
    ∀ (vs : List Val), ∀ r ∈ fieldsOf fs vs, r.index ∈ fs.map (·.1) := by
  induction fs with
  | nil => intro vs r hr; cases vs <;> simp [fieldsOf] at hr
  | cons f fs ih =>
    obtain ⟨i, n, t⟩ := f
    simp only [fieldsWf] at hwf
    intro vs r hr
    cases vs with
    | nil => simp [fieldsOf] at hr
    | cons v vs =>
      simp only [fieldsOf, List.mem_append] at hr
      rcases hr with hr | hr
      · split at hr
        · simp at hr
        · simp [(recsOf_index_wt t hwf.1 i v r hr).1]
      · simp only [List.map_cons, List.mem_cons]
        exact Or.inr (ih hwf.2 vs r hr)

end SpecP

namespace SpecP
open Spec

/-- the records of field index `i` in a message, in wire order. -/
def recsAt (i : Nat) (recs : List Rec) : List Rec := recs.filter (fun r => r.index == i)

/-- one iteration of the struct loop over the record `r` of a field with codec
`t` and index `i`: the field's value goes from `a` to `a'`, nothing else of the
accumulator changes (`put` places the field's value into the accumulator), and
exactly the bytes of the record are consumed. -/
def Step (t : Ty) (i : Nat) (r : Rec) (a a' : Val) : Prop :=
  ∀ (rd : Nat → WT → Bytes → List Val → Res (List Val × Nat)) (put : Val → List Val),
    (∀ wt body x, rd i wt body (put x) = Res.mapFst put (RT.fieldRead t wt body x)) →
    ∀ (fuel : Nat) (rest : Bytes) (off : Nat), (renderRec r ++ rest).length < fuel →
      structLoop rd fuel (renderRec r ++ rest) off (put a)
        = structLoop rd fuel rest (off + (renderRec r).length) (put a')

/-- the successive values of one field under the records addressed to it. -/
def Chain (t : Ty) (i : Nat) : Val → List Rec → Val → Prop
  | a, [], b => a = b
  | a, r :: rs, b => ∃ m, Step t i r a m ∧ Chain t i m rs b

/-- every field of the accumulator `acc` goes to the corresponding field of
`res` under the records of `recs` addressed to it. -/
def FieldChains (recs : List Rec) : Fields → List Val → List Val → Prop
  | [], [], [] => True
  | (i, _, t) :: fs, a :: acc, b :: res => Chain t i a (recsAt i recs) b ∧ FieldChains recs fs acc res
  | _, _, _ => False

theorem fieldChains_congr (R R' : List Rec) : ∀ (fs : Fields) (acc res : List Val),
    (∀ j ∈ fs.map (·.1), recsAt j R = recsAt j R') → FieldChains R fs acc res → FieldChains R' fs acc res := by
  intro fs
  induction fs with
  | nil => intro acc res _ h; cases acc <;> cases res <;> simp_all [FieldChains]
  | cons f fs ih =>
    obtain ⟨i, n, t⟩ := f
    intro acc res hj h
    cases acc with
    | nil => simp [FieldChains] at h
    | cons a acc =>
      cases res with
      | nil => simp [FieldChains] at h
      | cons b res =>
        simp only [FieldChains] at h ⊢
        refine ⟨?_, ih acc res (fun j hjm => hj j (by simp only [List.map_cons, List.mem_cons]; exact Or.inr hjm)) h.2⟩
        rw [← hj i (by simp)]
        exact h.1

theorem fieldChains_nil : ∀ (fs : Fields) (acc res : List Val), FieldChains [] fs acc res → acc = res := by
  intro fs
  induction fs with
  | nil => intro acc res h; cases acc <;> cases res <;> simp_all [FieldChains]
  | cons f fs ih =>
    obtain ⟨i, n, t⟩ := f
    intro acc res h
    cases acc with
    | nil => simp [FieldChains] at h
    | cons a acc =>
      cases res with
      | nil => simp [FieldChains] at h
      | cons b res =>
        simp only [FieldChains, recsAt, List.filter_nil, Chain] at h
        rw [h.1, ih acc res h.2]

theorem fieldChains_split (R : List Rec) (i : Nat) (n : String) (t : Ty) (suf : Fields) :
    ∀ (pre : Fields) (acc res : List Val), FieldChains R (pre ++ (i, n, t) :: suf) acc res →
      ∃ apre a asuf rpre b rsuf, acc = apre ++ a :: asuf ∧ res = rpre ++ b :: rsuf ∧ apre.length = pre.length ∧
        FieldChains R pre apre rpre ∧ Chain t i a (recsAt i R) b ∧ FieldChains R suf asuf rsuf := by
  intro pre
  induction pre with
  | nil =>
    intro acc res h
    cases acc with
    | nil => simp [FieldChains] at h
    | cons a acc =>
      cases res with
      | nil => simp [FieldChains] at h
      | cons b res =>
        simp only [List.nil_append, FieldChains] at h
        exact ⟨[], a, acc, [], b, res, rfl, rfl, rfl, by simp [FieldChains], h.1, h.2⟩
  | cons f pre ih =>
    obtain ⟨j, nj, tj⟩ := f
    intro acc res h
    cases acc with
    | nil => simp [FieldChains] at h
    | cons a0 acc =>
      cases res with
      | nil => simp [FieldChains] at h
      | cons b0 res =>
        simp only [List.cons_append, FieldChains] at h
        obtain ⟨apre, a, asuf, rpre, b, rsuf, h1, h2, h3, h4, h5, h6⟩ := ih acc res h.2
        refine ⟨a0 :: apre, a, asuf, b0 :: rpre, b, rsuf, by simp [h1], by simp [h2], by simp [h3], ?_, h5, h6⟩
        simp only [FieldChains]
        exact ⟨h.1, h4⟩

theorem fieldChains_join (R : List Rec) (i : Nat) (n : String) (t : Ty) (suf : Fields) (a b : Val)
    (asuf rsuf : List Val) (hc : Chain t i a (recsAt i R) b) (hs : FieldChains R suf asuf rsuf) :
    ∀ (pre : Fields) (apre rpre : List Val), FieldChains R pre apre rpre →
      FieldChains R (pre ++ (i, n, t) :: suf) (apre ++ a :: asuf) (rpre ++ b :: rsuf) := by
  intro pre
  induction pre with
  | nil =>
    intro apre rpre h
    cases apre <;> cases rpre <;> simp_all [FieldChains]
  | cons f pre ih =>
    obtain ⟨j, nj, tj⟩ := f
    intro apre rpre h
    cases apre with
    | nil => simp [FieldChains] at h
    | cons a0 apre =>
      cases rpre with
      | nil => simp [FieldChains] at h
      | cons b0 rpre =>
        simp only [FieldChains] at h
        simp only [List.cons_append, FieldChains]
        exact ⟨h.1, ih apre rpre h.2⟩

theorem recsAt_cons_ne (r : Rec) (rs : List Rec) (j : Nat) (h : r.index ≠ j) :
    recsAt j (r :: rs) = recsAt j rs := by
  simp [recsAt, List.filter_cons, h]

theorem recsAt_cons_eq (r : Rec) (rs : List Rec) : recsAt r.index (r :: rs) = r :: recsAt r.index rs := by
  simp [recsAt, List.filter_cons]

theorem render_cons (r : Rec) (rs : List Rec) : render (r :: rs) = renderRec r ++ render rs := by
  simp [render]

/-- the struct loop over the rendering of ANY list of records addressed to fields
of `fs`: the result is determined, field by field, by the records of that field
in their relative order. -/
theorem loop_chains (fs : Fields) (hnd : (fs.map (·.1)).Nodup) :
    ∀ (recs : List Rec) (acc res : List Val), (∀ r ∈ recs, r.index ∈ fs.map (·.1)) →
      FieldChains recs fs acc res → ∀ (fuel off : Nat), (render recs).length < fuel →
      structLoop (fun idx wt body acc => readField fs acc idx wt body) fuel (render recs) off acc
        = .ok (res, off + (render recs).length) := by
  intro recs
  induction recs with
  | nil =>
    intro acc res _ h fuel off hf
    rw [fieldChains_nil fs acc res h]
    simp only [render_nil, List.length_nil, Nat.add_zero]
    exact RT.structLoop_nil _ _ _ _ (by omega)
  | cons r rs ih =>
    intro acc res hidx h fuel off hf
    have hmem := hidx r (by simp)
    obtain ⟨f, hf_mem, hfi⟩ := List.mem_map.mp hmem
    obtain ⟨pre, suf, hfs⟩ := List.append_of_mem hf_mem
    obtain ⟨i, n, t⟩ := f
    simp only at hfi
    subst hfi
    rw [hfs] at hnd
    simp only [List.map_append, List.map_cons] at hnd
    have hnd' := List.nodup_append.mp hnd
    have hni : r.index ∉ pre.map (·.1) := fun hm => hnd'.2.2 _ hm _ (by simp) rfl
    have hns : r.index ∉ suf.map (·.1) := (List.nodup_cons.mp hnd'.2.1).1
    rw [hfs] at h
    obtain ⟨apre, a, asuf, rpre, b, rsuf, rfl, rfl, hl, hp, hc, hs⟩ := fieldChains_split _ _ n t suf pre acc res h
    rw [recsAt_cons_eq] at hc
    obtain ⟨m, hstep, hc'⟩ := hc
    rw [render_cons] at hf ⊢
    have := hstep (fun idx wt body acc => readField fs acc idx wt body) (fun x => apre ++ x :: asuf)
      (fun wt body x => by
        simp only [hfs]
        exact RT.readField_at pre r.index n t suf hni apre hl x asuf wt body)
      fuel (render rs) off hf
    simp only at this
    rw [this]
    have hp' : FieldChains rs pre apre rpre :=
      fieldChains_congr _ _ pre apre rpre (fun j hj => recsAt_cons_ne r rs j (fun e => hni (e ▸ hj))) hp
    have hs' : FieldChains rs suf asuf rsuf :=
      fieldChains_congr _ _ suf asuf rsuf (fun j hj => recsAt_cons_ne r rs j (fun e => hns (e ▸ hj))) hs
    have hall := fieldChains_join rs r.index n t suf m b asuf rsuf hc' hs' pre apre rpre hp'
    rw [← hfs] at hall
    simp only [List.length_append] at hf
    rw [ih _ _ (fun x hx => hidx x (by simp [hx])) hall fuel _ (by omega)]
    simp only [List.length_append, Nat.add_assoc]

end SpecP
