import Plenc.Registry
open Registry
def gAB : Nat → TNode
  | 0 => .struct [2] | 1 => .struct [3] | 2 => .ptr 1 | 3 => .ptr 0 | _ => .bad
#eval ((runScheduleOld (init gAB [[0],[3]]) (List.replicate 14 0 ++ List.replicate 5 1)).map (·.summary 2))
#eval ((runSchedule (init gAB [[0],[3]]) (List.replicate 14 0 ++ List.replicate 2 1)).map (·.summary 2))
#eval ((runSchedule (init gAB [[0],[3]]) (List.replicate 60 0)).map (·.summary 2))
def rr : Nat → State → List Nat → State × List Nat
  | 0, s, acc => (s, acc.reverse)
  | n+1, s, acc =>
    let i := n % 2
    match stepThread s i with
    | some s' => rr n s' (i :: acc)
    | none => match stepThread s (1 - i) with
      | some s' => rr n s' ((1-i) :: acc)
      | none => (s, acc.reverse)
#eval let r := rr 200 (init gAB [[0],[3]]) []; (r.1.summary 2, r.2, r.2.length)
