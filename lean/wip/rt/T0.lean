import Plenc.Typing
import Proofs.Wire

example (v : Val) : Ty.norm .bool v = v := by simp only [Ty.norm]
example (v : Val) : Ty.norm .bool v = v := by rfl
example (w : Nat) (d : Bytes) (p : Val) : Ty.read (.int w) .varint d p = 
  (let r := readVarUint d
      if r.2 < 0 then .err else .ok (.int (wrapS w (zagZig r.1)), r.2.toNat)) := by simp only [Ty.read]
example (t : Ty) (x : Val) : Ty.norm (.ptr t) (.ptr (some x)) = .ptr (some (t.norm x)) := by simp only [Ty.norm]
example (t : Ty) (vs : List Val) : Ty.norm (.fslice t) (.slice vs) = .slice (vs.map t.norm) := by simp only [Ty.norm]
#print axioms Ty.norm
#check @Ty.norm.eq_1
#check @Ty.read.eq_10
#check @Ty.app.eq_12
