import Plenc.Typing
import Proofs.Wire
/-
  Proofs.Total — decoding arbitrary bytes is total (helper lemmas and the main
  theorem for property C04): `Ty.read` returns a value or an error, never
  `panic` (Go panic) and never `hang` (a loop combinator out of fuel), and never
  reports more bytes consumed than it was given.
-/

namespace Total

/-! ### outcomes -/

theorem fine_cases {α : Type} {r : Res α} (h : r.fine) : (∃ a, r = .ok a) ∨ r = .err := by
  cases r with
  | ok a => exact .inl ⟨a, rfl⟩
  | err => exact .inr rfl
  | panic => exact absurd h (by simp [Res.fine])
  | hang => exact absurd h (by simp [Res.fine])

theorem fine_ok {α : Type} (a : α) : (Res.ok a).fine := trivial
theorem fine_err {α : Type} : (Res.err : Res α).fine := trivial

/-- the unchecked varint read never reports more than the input. -/
theorem readVarUint_toNat_le (d : Bytes) : (readVarUint d).2.toNat ≤ d.length := by
  have := readVarUint_le d
  simp only [Int.ofNat_eq_natCast] at this
  omega

/-! ### the prior-value shape -/

mutual
/-- what `Ty.read` needs of the prior value of its target: a struct prior has
one value per field (recursively); the values already stored in a map prior
have the shape of the value codec (entries are read into the existing slot);
a pointer prior's pointee has the pointee's shape.  Everything else is
arbitrary: the other arms ignore the prior, or replace a prior of the wrong
kind by the zero value. -/
def Shape : Ty → Val → Prop
  | .ptr t, p => match p with
      | .ptr (some x) => Shape t x
      | _ => True
  | .struct _ fs, p => match p with
      | .struct vs => ShapeL fs vs
      | _ => True
  | .map _ v _, p => match p with
      | .map (some es) => ∀ e ∈ es, Shape v e.2
      | _ => True
  | _, _ => True
def ShapeL : Fields → List Val → Prop
  | [], vs => vs = []
  | (_, _, t) :: r, vs => match vs with
      | v :: vs => Shape t v ∧ ShapeL r vs
      | [] => False
end

mutual
theorem shape_zero : (t : Ty) → Shape t t.zero
  | .bool | .int _ | .uint _ | .flat _ | .f32 | .f64 | .str _ | .bytes | .time _ => by simp [Shape]
  | .vslice _ | .fslice _ | .lslice _ | .pslice _ => by simp [Shape]
  | .ptr _ => by simp [Shape, Ty.zero]
  | .map _ _ _ => by simp [Shape, Ty.zero]
  | .struct _ fs => by simp only [Ty.zero, Shape]; exact shapeL_zeros fs
theorem shapeL_zeros : (fs : Fields) → ShapeL fs (zeros fs)
  | [] => by simp [zeros, ShapeL]
  | (_, _, t) :: r => by simp only [zeros, ShapeL]; exact ⟨shape_zero t, shapeL_zeros r⟩
end

/-! ### what totality of one reader means -/

/-- `rd` is total on every input, stays inside it, and establishes `P`. -/
def GoodRd (rd : Bytes → Res (Val × Nat)) (P : Val → Prop) : Prop :=
  ∀ b, (rd b).fine ∧ ∀ v n, rd b = .ok (v, n) → n ≤ b.length ∧ P v

def Good (t : Ty) : Prop :=
  ∀ (wt : WT) (d : Bytes) (p : Val), Shape t p →
    (t.read wt d p).fine ∧ ∀ v n, t.read wt d p = .ok (v, n) → n ≤ d.length ∧ Shape t v

def GoodField (fs : Fields) : Prop :=
  ∀ acc idx wt body, ShapeL fs acc →
    (readField fs acc idx wt body).fine ∧
    ∀ acc' m, readField fs acc idx wt body = .ok (acc', m) → m ≤ body.length ∧ ShapeL fs acc'

/-! ### loop combinators -/

/-- `structLoop`: with fuel above the remaining input the loop ends, keeps the
invariant and reports an offset inside the input. -/
theorem structLoop_total (rd : Nat → WT → Bytes → List Val → Res (List Val × Nat))
    (I : List Val → Prop)
    (hrd : ∀ idx wt body acc, I acc → (rd idx wt body acc).fine ∧
      ∀ acc' m, rd idx wt body acc = .ok (acc', m) → m ≤ body.length ∧ I acc') :
    ∀ fuel data off acc, data.length < fuel → I acc →
      (structLoop rd fuel data off acc).fine ∧
      ∀ acc' n, structLoop rd fuel data off acc = .ok (acc', n) → n ≤ off + data.length ∧ I acc' := by
  intro fuel
  induction fuel with
  | zero => intro data off acc h; omega
  | succ f ih =>
    intro data off acc hl hs
    rw [structLoop]
    by_cases hd : data.isEmpty
    · simp only [hd, ↓reduceIte, Res.fine, true_and]
      intro acc' n h
      injection h with h; injection h with h1 h2
      subst h1; subst h2
      exact ⟨by omega, hs⟩
    · simp only [hd]
      unfold readTag
      cases hr : readU data with
      | none => simp [Res.fine]
      | some q =>
        obtain ⟨tag, n⟩ := q
        have ⟨hn0, hnl⟩ := readU_le data tag n hr
        simp only
        have hg := hrd (tag / 8) (WT.ofCode (tag % 8)) (data.drop n) acc hs
        rcases fine_cases hg.1 with ⟨⟨acc', m⟩, e⟩ | e
        · have ⟨hm, hs'⟩ := hg.2 acc' m e
          simp only [List.length_drop] at hm
          simp only [e]
          have := ih (data.drop (n + m)) (off + (n + m)) acc'
            (by simp only [List.length_drop]; omega) hs'
          refine ⟨this.1, fun a k h => ?_⟩
          have := this.2 a k h
          simp only [List.length_drop] at this
          exact ⟨by omega, this.2⟩
        · simp [e, Res.fine]

theorem countVarints_fine : ∀ fuel data c, data.length < fuel → (countVarints fuel data c).fine := by
  intro fuel
  induction fuel with
  | zero => intro data c h; omega
  | succ f ih =>
    intro data c hl
    rw [countVarints]
    by_cases hd : data.isEmpty
    · simp [hd, Res.fine]
    · simp only [hd]
      cases hr : readU data with
      | none => simp [Res.fine]
      | some q =>
        obtain ⟨x, n⟩ := q
        have ⟨hn0, hnl⟩ := readU_le data x n hr
        simp only
        exact ih _ _ (by simp only [List.length_drop]; omega)

theorem readN_total (rd : Bytes → Res (Val × Nat)) (P : Val → Prop) (hrd : GoodRd rd P) :
    ∀ c data, (readN rd c data).fine ∧ ∀ vs n, readN rd c data = .ok (vs, n) → n ≤ data.length := by
  intro c
  induction c with
  | zero =>
    intro data
    simp only [readN, Res.fine, true_and]
    intro vs n h; injection h with h; injection h with h1 h2; omega
  | succ c ih =>
    intro data
    rw [readN]
    rcases fine_cases (hrd data).1 with ⟨⟨v, m⟩, e⟩ | e
    · have ⟨hm, _⟩ := (hrd data).2 v m e
      simp only [e]
      have hi := ih (data.drop m)
      rcases fine_cases hi.1 with ⟨⟨vs, k⟩, e2⟩ | e2
      · have hk := hi.2 vs k e2
        simp only [List.length_drop] at hk
        simp only [e2, Res.fine, true_and]
        intro vs' n h; injection h with h; injection h with h1 h2; omega
      · simp [e2, Res.fine]
    · simp [e, Res.fine]

theorem elemLoop_total (rd : Bytes → Res (Val × Nat)) (P : Val → Prop) (hrd : GoodRd rd P) :
    ∀ c data, (elemLoop rd c data).fine ∧ ∀ vs n, elemLoop rd c data = .ok (vs, n) → n ≤ data.length := by
  intro c
  induction c with
  | zero =>
    intro data
    simp only [elemLoop, Res.fine, true_and]
    intro vs n h; injection h with h; injection h with h1 h2; omega
  | succ c ih =>
    intro data
    rw [elemLoop]
    cases hr : readU data with
    | none => simp [Res.fine]
    | some q =>
      obtain ⟨s, n⟩ := q
      have ⟨hn0, hnl⟩ := readU_le data s n hr
      simp only
      by_cases hs : s > (data.drop n).length
      · rw [if_pos hs]; simp [Res.fine]
      · rw [if_neg hs]
        have hg := hrd ((data.drop n).take s)
        rcases fine_cases hg.1 with ⟨⟨v, m⟩, e⟩ | e
        · have ⟨hm, _⟩ := hg.2 v m e
          simp only [List.length_take, List.length_drop] at hm hs
          simp only [e]
          have hi := ih (data.drop (n + m))
          rcases fine_cases hi.1 with ⟨⟨vs, k⟩, e2⟩ | e2
          · have hk := hi.2 vs k e2
            simp only [List.length_drop] at hk
            simp only [e2, Res.fine, true_and]
            intro vs' n' h; injection h with h; injection h with h1 h2; omega
          · simp [e2, Res.fine]
        · simp [e, Res.fine]

theorem mapLoop_total (rdE : Bytes → List (Val × Val) → Res (List (Val × Val) × Nat))
    (I : List (Val × Val) → Prop)
    (hrd : ∀ b es, I es → (rdE b es).fine ∧
      ∀ es' m, rdE b es = .ok (es', m) → m ≤ b.length ∧ I es') :
    ∀ c data off es, I es →
      (mapLoop rdE c data off es).fine ∧
      ∀ es' n, mapLoop rdE c data off es = .ok (es', n) → n ≤ off + data.length ∧ I es' := by
  intro c
  induction c with
  | zero =>
    intro data off es hI
    simp only [mapLoop, Res.fine, true_and]
    intro es' n h; injection h with h; injection h with h1 h2
    subst h1; subst h2
    exact ⟨by omega, hI⟩
  | succ c ih =>
    intro data off es hI
    rw [mapLoop]
    cases hr : readU data with
    | none => simp [Res.fine]
    | some q =>
      obtain ⟨el, n⟩ := q
      have ⟨hn0, hnl⟩ := readU_le data el n hr
      simp only
      by_cases hs : el > (data.drop n).length
      · rw [if_pos hs]; simp [Res.fine]
      · rw [if_neg hs]
        have hg := hrd ((data.drop n).take el) es hI
        rcases fine_cases hg.1 with ⟨⟨es1, m⟩, e⟩ | e
        · have ⟨hm, hI1⟩ := hg.2 es1 m e
          simp only [List.length_take, List.length_drop] at hm hs
          simp only [e]
          have hi := ih (data.drop (n + m)) (off + (n + m)) es1 hI1
          refine ⟨hi.1, fun a k h => ?_⟩
          have := hi.2 a k h
          simp only [List.length_drop] at this
          exact ⟨by omega, this.2⟩
        · simp [e, Res.fine]

/-! ### map entries -/

theorem readTagAndLength_le (d : Bytes) (wt : WT) (idx off fl : Nat)
    (h : readTagAndLength d = some (wt, idx, off, fl)) : off + fl ≤ d.length := by
  unfold readTagAndLength readTagRaw at h
  have hle := readVarUint_toNat_le d
  simp only at h
  split at h
  · simp at h
  · split at h
    · cases hr : readU (d.drop (readVarUint d).2.toNat) with
      | none => simp [hr] at h
      | some q =>
        obtain ⟨l, m⟩ := q
        have ⟨_, hml⟩ := readU_le _ l m hr
        simp only [hr] at h
        split at h
        · simp at h
        · rename_i hfl
          injection h with h; injection h with _ h; injection h with _ h; injection h with h1 h2
          simp only [List.length_drop] at hfl hml
          omega
    · injection h with h; injection h with _ h; injection h with _ h; injection h with h1 h2
      simp only [List.length_drop] at h2
      omega

theorem mapLookup_mem (k : Val) : ∀ (es : List (Val × Val)) (v : Val),
    mapLookup k es = some v → ∃ e ∈ es, e.2 = v
  | [], v, h => by simp [mapLookup] at h
  | (k', v') :: r, v, h => by
    simp only [mapLookup] at h
    split at h
    · injection h with h; exact ⟨(k', v'), by simp, h⟩
    · obtain ⟨e, he, hv⟩ := mapLookup_mem k r v h
      exact ⟨e, by simp [he], hv⟩

theorem mapSet_all (P : Val → Prop) (k v : Val) (hv : P v) : ∀ (es : List (Val × Val)),
    (∀ e ∈ es, P e.2) → ∀ e ∈ mapSet k v es, P e.2
  | [], _ => by simp [mapSet, hv]
  | (k', v') :: r, h => by
    simp only [mapSet]
    split
    · intro e he
      rcases List.mem_cons.mp he with h1 | h1
      · subst h1; exact hv
      · exact h e (by simp [h1])
    · intro e he
      rcases List.mem_cons.mp he with h1 | h1
      · subst h1; exact h (k', v') (by simp)
      · exact mapSet_all P k v hv r (fun e he => h e (by simp [he])) e h1

theorem readMapEntry_total (rdK : WT → Bytes → Res (Val × Nat))
    (rdV : WT → Bytes → Val → Res (Val × Nat)) (kz vz : Val) (P : Val → Prop)
    (hK : ∀ wt b, (rdK wt b).fine ∧ ∀ k n, rdK wt b = .ok (k, n) → n ≤ b.length)
    (hV : ∀ wt b s, P s → (rdV wt b s).fine ∧ ∀ v n, rdV wt b s = .ok (v, n) → n ≤ b.length ∧ P v)
    (hvz : P vz) (d : Bytes) (es : List (Val × Val)) (hes : ∀ e ∈ es, P e.2) :
    (readMapEntry rdK rdV kz vz d es).fine ∧
    ∀ es' m, readMapEntry rdK rdV kz vz d es = .ok (es', m) → m ≤ d.length ∧ ∀ e ∈ es', P e.2 := by
  -- the slot the value is read into has the value shape
  have hslot : ∀ k, P ((mapLookup k es).getD vz) := by
    intro k
    cases hl : mapLookup k es with
    | none => simpa using hvz
    | some v =>
      obtain ⟨e, he, hv⟩ := mapLookup_mem k es v hl
      simp only [Option.getD_some]
      rw [← hv]; exact hes e he
  -- the part after the key is known: `k` read, `off ≤ |d|` consumed so far
  have tail : ∀ (wt : WT) (idx fl : Nat) (k : Val) (off off0 : Nat), off ≤ d.length → off0 + fl ≤ d.length →
      (idx ≠ 1 → off = off0) →
      let slot := (mapLookup k es).getD vz
      let r : Res (List (Val × Val) × Nat) :=
        if off < d.length ∨ idx = 2 then
          if idx = 1 then
            match readTagAndLength (d.drop off) with
            | none => .err
            | some (wt2, _, off2, fl2) =>
              (match rdV wt2 ((d.drop (off + off2)).take fl2) slot with
               | .ok (v, n) => .ok (mapSet k v es, (off + off2) + n)
               | .err => .err | .panic => .panic | .hang => .hang)
          else
            (match rdV wt ((d.drop off).take fl) slot with
             | .ok (v, n) => .ok (mapSet k v es, off + n)
             | .err => .err | .panic => .panic | .hang => .hang)
        else .ok (mapSet k vz es, off)
      r.fine ∧ ∀ es' m, r = .ok (es', m) → m ≤ d.length ∧ ∀ e ∈ es', P e.2 := by
    intro wt idx fl k off off0 hoff hfl hidx
    simp only
    split
    · split
      · cases hr : readTagAndLength (d.drop off) with
        | none => simp [Res.fine]
        | some q =>
          obtain ⟨wt2, i2, off2, fl2⟩ := q
          have hle := readTagAndLength_le _ _ _ _ _ hr
          simp only [List.length_drop] at hle
          simp only
          have hg := hV wt2 ((d.drop (off + off2)).take fl2) _ (hslot k)
          rcases fine_cases hg.1 with ⟨⟨v, n⟩, e⟩ | e
          · have ⟨hn, hPv⟩ := hg.2 v n e
            simp only [List.length_take, List.length_drop] at hn
            simp only [e, Res.fine, true_and]
            intro es' m h; injection h with h; injection h with h1 h2
            subst h1; subst h2
            exact ⟨by omega, mapSet_all P k v hPv es hes⟩
          · simp [e, Res.fine]
      · rename_i hi1
        have := hidx hi1; subst this
        have hg := hV wt ((d.drop off).take fl) _ (hslot k)
        rcases fine_cases hg.1 with ⟨⟨v, n⟩, e⟩ | e
        · have ⟨hn, hPv⟩ := hg.2 v n e
          simp only [List.length_take, List.length_drop] at hn
          simp only [e, Res.fine, true_and]
          intro es' m h; injection h with h; injection h with h1 h2
          subst h1; subst h2
          exact ⟨by omega, mapSet_all P k v hPv es hes⟩
        · simp [e, Res.fine]
    · simp only [Res.fine, true_and]
      intro es' m h; injection h with h; injection h with h1 h2
      subst h1; subst h2
      exact ⟨hoff, mapSet_all P k vz hvz es hes⟩
  unfold readMapEntry
  cases hr : readTagAndLength d with
  | none => simp [Res.fine]
  | some q =>
    obtain ⟨wt, idx, off, fl⟩ := q
    have hle := readTagAndLength_le _ _ _ _ _ hr
    simp only
    by_cases hi : idx = 1
    · subst hi
      rw [if_pos rfl]
      have hg := hK wt ((d.drop off).take fl)
      rcases fine_cases hg.1 with ⟨⟨k, n⟩, e⟩ | e
      · have hn := hg.2 k n e
        simp only [List.length_take, List.length_drop] at hn
        simp only [e]
        exact tail wt 1 fl k (off + n) off (by omega) hle (by simp)
      · simp [e, Res.fine]
    · rw [if_neg hi]
      exact tail wt idx fl kz off off (by omega) hle (by simp)

/-! ### time -/

def TimeAcc (acc : List Val) : Prop := ∃ s ns, acc = [.int s, .int ns]

theorem timeField_total (c : Bool) (idx : Nat) (wt : WT) (body : Bytes) (acc : List Val)
    (h : TimeAcc acc) :
    (timeField c idx wt body acc).fine ∧
    ∀ acc' m, timeField c idx wt body acc = .ok (acc', m) → m ≤ body.length ∧ TimeAcc acc' := by
  obtain ⟨s, ns, rfl⟩ := h
  have hle := readVarUint_toNat_le body
  simp only [timeField]
  split
  · split
    · simp [Res.fine]
    · simp only [Res.fine, true_and]
      intro acc' m h; injection h with h; injection h with h1 h2
      subst h1; subst h2
      exact ⟨hle, _, _, rfl⟩
  · split
    · split
      · simp [Res.fine]
      · simp only [Res.fine, true_and]
        intro acc' m h; injection h with h; injection h with h1 h2
        subst h1; subst h2
        exact ⟨hle, _, _, rfl⟩
    · have hs := skip_total body wt
      rcases fine_cases hs.1 with ⟨n, e⟩ | e
      · have := hs.2 n e
        simp only [e, Res.fine, true_and]
        intro acc' m h; injection h with h; injection h with h1 h2
        subst h1; subst h2
        exact ⟨this, _, _, rfl⟩
      · simp [e, Res.fine]

/-! ### struct fields -/

theorem goodField_of (fs : Fields) (hall : ∀ f ∈ fs, Good f.2.2) : GoodField fs := by
  induction fs with
  | nil =>
    intro acc idx wt body _
    simp only [readField]
    have hs := skip_total body wt
    rcases fine_cases hs.1 with ⟨n, e⟩ | e
    · have := hs.2 n e
      simp only [e, Res.fine, true_and]
      intro acc' m h; injection h with h; injection h with h1 h2
      subst h1; subst h2
      exact ⟨this, by simp [ShapeL]⟩
    · simp [e, Res.fine]
  | cons f r ih =>
    obtain ⟨i, nm, t⟩ := f
    intro acc idx wt body hs
    cases acc with
    | nil => simp [ShapeL] at hs
    | cons a as =>
      simp only [ShapeL] at hs
      have hgt : Good t := hall (i, nm, t) (by simp)
      rw [readField]
      by_cases hi : i = idx
      · rw [if_pos hi]
        by_cases hw : wt = .len
        · rw [if_pos hw]
          cases hr : readU body with
          | none => simp [Res.fine]
          | some q =>
            obtain ⟨l, n⟩ := q
            have ⟨hn0, hnl⟩ := readU_le body l n hr
            simp only
            by_cases hgt2 : l > (body.drop n).length
            · rw [if_pos hgt2]; simp [Res.fine]
            · rw [if_neg hgt2]
              have hg := hgt wt ((body.drop n).take l) a hs.1
              rcases fine_cases hg.1 with ⟨⟨v, m⟩, e⟩ | e
              · have ⟨hm, hsv⟩ := hg.2 v m e
                simp only [e, Res.mapFst, Res.addN, Res.fine, true_and]
                intro acc' m' h
                injection h with h; injection h with h1 h2
                subst h1; subst h2
                simp only [List.length_take, List.length_drop] at hm hgt2
                refine ⟨by omega, ?_⟩
                simp only [ShapeL]; exact ⟨hsv, hs.2⟩
              · simp [e, Res.mapFst, Res.addN, Res.fine]
        · rw [if_neg hw]
          have hg := hgt wt body a hs.1
          rcases fine_cases hg.1 with ⟨⟨v, m⟩, e⟩ | e
          · have ⟨hm, hsv⟩ := hg.2 v m e
            simp only [e, Res.mapFst, Res.fine, true_and]
            intro acc' m' h
            injection h with h; injection h with h1 h2
            subst h1; subst h2
            exact ⟨hm, by simp only [ShapeL]; exact ⟨hsv, hs.2⟩⟩
          · simp [e, Res.mapFst, Res.fine]
      · rw [if_neg hi]
        have hgr := ih (fun p hp => hall p (by simp [hp])) as idx wt body hs.2
        rcases fine_cases hgr.1 with ⟨⟨as', m⟩, e⟩ | e
        · have ⟨hm, hsr⟩ := hgr.2 as' m e
          simp only [e, Res.mapFst, Res.fine, true_and]
          intro acc' m' h
          injection h with h; injection h with h1 h2
          subst h1; subst h2
          exact ⟨hm, by simp only [ShapeL]; exact ⟨hs.1, hsr⟩⟩
        · simp [e, Res.mapFst, Res.fine]

/-! ### the only arithmetic precondition: no packed fixed-size slice of a zero-size element -/

mutual
/-- every `WTFixedSliceWrapper` in the tree has an element codec whose
`Size` is not zero (`Read` divides the input length by it). This is all that
totality of `Ty.read` needs from `Ty.wf`. -/
def NoDiv0 : Ty → Prop
  | .ptr t | .vslice t | .lslice t | .pslice t => NoDiv0 t
  | .fslice t => t.size t.zero [] ≠ 0 ∧ NoDiv0 t
  | .struct _ fs => NoDiv0L fs
  | .map k v _ => NoDiv0 k ∧ NoDiv0 v
  | _ => True
def NoDiv0L : Fields → Prop
  | [] => True
  | (_, _, t) :: r => NoDiv0 t ∧ NoDiv0L r
end

mutual
theorem noDiv0_of_wf : (t : Ty) → t.wf → NoDiv0 t
  | .bool | .int _ | .uint _ | .flat _ | .f32 | .f64 | .str _ | .bytes | .time _ => by simp [NoDiv0]
  | .ptr t => by intro h; simp only [Ty.wf] at h; simp only [NoDiv0]; exact noDiv0_of_wf t h.1
  | .vslice t => by intro h; simp only [Ty.wf] at h; simp only [NoDiv0]; exact noDiv0_of_wf t h.1
  | .lslice t => by intro h; simp only [Ty.wf] at h; simp only [NoDiv0]; exact noDiv0_of_wf t h.1
  | .pslice t => by intro h; simp only [Ty.wf] at h; simp only [NoDiv0]; exact noDiv0_of_wf t h.1
  | .fslice t => by
      intro h; simp only [Ty.wf] at h
      rcases h with h | h <;> subst h <;> simp [NoDiv0, Ty.size, Ty.zero]
  | .struct _ fs => by
      intro h; simp only [Ty.wf] at h; simp only [NoDiv0]; exact noDiv0L_of_wf fs h.2.2
  | .map k v _ => by
      intro h; simp only [Ty.wf] at h; simp only [NoDiv0]
      exact ⟨noDiv0_of_wf k h.1, noDiv0_of_wf v h.2.1⟩
theorem noDiv0L_of_wf : (fs : Fields) → fieldsWf fs → NoDiv0L fs
  | [] => by simp [NoDiv0L]
  | (_, _, t) :: r => by
      intro h; simp only [fieldsWf] at h; simp only [NoDiv0L]
      exact ⟨noDiv0_of_wf t h.1, noDiv0L_of_wf r h.2⟩
end

/-! ### the readers -/

/-- the four varint scalars: `readVarUint` then a conversion. -/
theorem varint_arm (d : Bytes) (f : Nat → Val) (Q : Val → Prop) (hQ : ∀ x, Q (f x)) :
    let r : Res (Val × Nat) :=
      if (readVarUint d).2 < 0 then .err else .ok (f (readVarUint d).1, (readVarUint d).2.toNat)
    r.fine ∧ ∀ v n, r = .ok (v, n) → n ≤ d.length ∧ Q v := by
  have hle := readVarUint_toNat_le d
  simp only
  split
  · simp [Res.fine]
  · simp only [Res.fine, true_and]
    intro v n h; injection h with h; injection h with h1 h2
    subst h1; subst h2
    exact ⟨hle, hQ _⟩

/-- lift a `Good` codec to a `GoodRd` reader at a fixed wire type and zero prior. -/
theorem goodRd_of (t : Ty) (h : Good t) (wt : WT) :
    GoodRd (fun b => t.read wt b t.zero) (fun _ => True) := by
  intro b
  have := h wt b t.zero (shape_zero t)
  exact ⟨this.1, fun v n e => ⟨(this.2 v n e).1, trivial⟩⟩

/-- wrap an inner list reader's result as a slice. -/
theorem slice_wrap (r : Res (List Val × Nat)) (k L : Nat)
    (h : r.fine ∧ ∀ vs n, r = .ok (vs, n) → k + n ≤ L) :
    let r' : Res (Val × Nat) := match r with
      | .ok (vs, n) => .ok (.slice vs, k + n)
      | .err => .err | .panic => .panic | .hang => .hang
    r'.fine ∧ ∀ v n, r' = .ok (v, n) → n ≤ L ∧ True := by
  rcases fine_cases h.1 with ⟨⟨vs, n⟩, e⟩ | e
  · have := h.2 vs n e
    subst e
    simp only [Res.fine, true_and, and_true]
    intro v n' h; injection h with h; injection h with h1 h2; omega
  · subst e; simp [Res.fine]

/-- the protobuf repeated form: one element appended to the prior slice. -/
theorem append_arm (t : Ty) (h : Good t) (d : Bytes) (prior : List Val) :
    let r : Res (Val × Nat) := match t.read .len d t.zero with
      | .ok (v, n) => .ok (.slice (prior ++ [v]), n)
      | .err => .err | .panic => .panic | .hang => .hang
    r.fine ∧ ∀ v n, r = .ok (v, n) → n ≤ d.length ∧ True := by
  have hg := h .len d t.zero (shape_zero t)
  rcases fine_cases hg.1 with ⟨⟨v, n⟩, e⟩ | e
  · have := (hg.2 v n e).1
    simp only [e, Res.fine, true_and, and_true]
    intro v n' h; injection h with h; injection h with h1 h2; omega
  · simp [e, Res.fine]

theorem mapEntry_arm (k v : Ty) (hk : Good k) (hv : Good v) (d : Bytes) (es : List (Val × Val))
    (hes : ∀ e ∈ es, Shape v e.2) :
    (readMapEntry (fun wt b => k.read wt b k.zero) (fun wt b s => v.read wt b s) k.zero v.zero d es).fine ∧
    ∀ es' m, readMapEntry (fun wt b => k.read wt b k.zero) (fun wt b s => v.read wt b s) k.zero v.zero d es
        = .ok (es', m) → m ≤ d.length ∧ ∀ e ∈ es', Shape v e.2 :=
  readMapEntry_total _ _ _ _ (Shape v)
    (fun wt b => ⟨(hk wt b k.zero (shape_zero k)).1, fun x n e => ((hk wt b k.zero (shape_zero k)).2 x n e).1⟩)
    (fun wt b s hs => hv wt b s hs) (shape_zero v) d es hes

mutual
theorem good_ty : (t : Ty) → NoDiv0 t → Good t
  | .bool => by
      intro _ wt d p _; simp only [Ty.read]
      exact varint_arm d (fun x => .bool (x != 0)) _ (fun _ => by simp [Shape])
  | .int w => by
      intro _ wt d p _; simp only [Ty.read]
      exact varint_arm d (fun x => .int (wrapS w (zagZig x))) _ (fun _ => by simp [Shape])
  | .uint w => by
      intro _ wt d p _; simp only [Ty.read]
      exact varint_arm d (fun x => .uint (wrapU w x)) _ (fun _ => by simp [Shape])
  | .flat w => by
      intro _ wt d p _; simp only [Ty.read]
      exact varint_arm d (fun x => .int (wrapS w x)) _ (fun _ => by simp [Shape])
  | .f32 => by
      intro _ wt d p _; simp only [Ty.read]
      split
      · split
        · simp only [Res.fine, true_and]
          intro v n h; injection h with h; injection h with h1 h2
          subst h1; subst h2; exact ⟨by omega, by simp [Shape]⟩
        · simp [Res.fine]
      · simp only [Res.fine, true_and]
        intro v n h; injection h with h; injection h with h1 h2
        subst h1; subst h2; exact ⟨by omega, by simp [Shape]⟩
  | .f64 => by
      intro _ wt d p _; simp only [Ty.read]
      split
      · split
        · simp only [Res.fine, true_and]
          intro v n h; injection h with h; injection h with h1 h2
          subst h1; subst h2; exact ⟨by omega, by simp [Shape]⟩
        · simp [Res.fine]
      · simp only [Res.fine, true_and]
        intro v n h; injection h with h; injection h with h1 h2
        subst h1; subst h2; exact ⟨by omega, by simp [Shape]⟩
  | .str _ => by
      intro _ wt d p _; simp only [Ty.read, Res.fine, true_and]
      intro v n h; injection h with h; injection h with h1 h2
      subst h1; subst h2; exact ⟨Nat.le_refl _, by simp [Shape]⟩
  | .bytes => by
      intro _ wt d p _; simp only [Ty.read, Res.fine, true_and]
      intro v n h; injection h with h; injection h with h1 h2
      subst h1; subst h2; exact ⟨Nat.le_refl _, by simp [Shape]⟩
  | .time c => by
      intro _ wt d p _; simp only [Ty.read]
      split
      · simp only [Res.fine, true_and]
        intro v n h; injection h with h; injection h with h1 h2
        subst h1; subst h2; exact ⟨by omega, by simp [Shape]⟩
      · have hl := structLoop_total (timeField c) TimeAcc (timeField_total c)
          (d.length + 1) d 0 [.int 0, .int 0] (by omega) ⟨0, 0, rfl⟩
        rcases fine_cases hl.1 with ⟨⟨acc, n⟩, e⟩ | e
        · obtain ⟨hn, s, ns, rfl⟩ := hl.2 acc n e
          simp only [e, Res.fine, true_and]
          intro v n' h; injection h with h; injection h with h1 h2
          subst h1; subst h2; exact ⟨by omega, by simp [Shape]⟩
        · simp [e, Res.fine]
  | .ptr t => by
      intro hok wt d p hp
      simp only [NoDiv0] at hok
      simp only [Ty.read]
      have hprior : Shape t (match p with | .ptr (some x) => x | _ => t.zero) := by
        split
        · simpa [Shape] using hp
        · exact shape_zero t
      have hg := good_ty t hok wt d _ hprior
      rcases fine_cases hg.1 with ⟨⟨v, n⟩, e⟩ | e
      · have ⟨hn, hs⟩ := hg.2 v n e
        simp only [e, Res.fine, true_and]
        intro v' n' h; injection h with h; injection h with h1 h2
        subst h1; subst h2; exact ⟨hn, by simpa [Shape] using hs⟩
      · simp [e, Res.fine]
  | .vslice t => by
      intro hok wt d p _
      simp only [NoDiv0] at hok
      simp only [Ty.read]
      have hc := countVarints_fine (d.length + 1) d 0 (by omega)
      rcases fine_cases hc with ⟨count, e⟩ | e
      · simp only [e]
        have hr := readN_total _ _ (goodRd_of t (good_ty t hok) .varint) count d
        have := slice_wrap _ 0 d.length ⟨hr.1, fun vs n h => by have := hr.2 vs n h; omega⟩
        simpa [Shape] using this
      · simp [e, Res.fine]
  | .fslice t => by
      intro hok wt d p _
      simp only [NoDiv0] at hok
      simp only [Ty.read]
      rw [if_neg hok.1]
      have hr := readN_total _ _ (goodRd_of t (good_ty t hok.2) t.wt) (d.length / t.size t.zero []) d
      have := slice_wrap _ 0 d.length ⟨hr.1, fun vs n h => by have := hr.2 vs n h; omega⟩
      simpa [Shape] using this
  | .lslice t => by
      intro hok wt d p _
      simp only [NoDiv0] at hok
      simp only [Ty.read]
      split
      · simpa [Shape] using append_arm t (good_ty t hok) d _
      · split
        · simp [Res.fine]
        · have hle := readVarUint_toNat_le d
          split
          · simp [Res.fine]
          · have hr := elemLoop_total _ _ (goodRd_of t (good_ty t hok) .len) (readVarUint d).1
              (d.drop (readVarUint d).2.toNat)
            have := slice_wrap _ (readVarUint d).2.toNat d.length
              ⟨hr.1, fun vs n h => by have := hr.2 vs n h; simp only [List.length_drop] at this; omega⟩
            simpa [Shape] using this
  | .pslice t => by
      intro hok wt d p _
      simp only [NoDiv0] at hok
      simp only [Ty.read]
      simpa [Shape] using append_arm t (good_ty t hok) d _
  | .struct _ fs => by
      intro hok wt d p hp
      simp only [NoDiv0] at hok
      simp only [Ty.read]
      have hprior : ShapeL fs (match p with | .struct vs => vs | _ => zeros fs) := by
        split
        · simpa [Shape] using hp
        · exact shapeL_zeros fs
      have hgf := goodField_of fs (good_fields fs hok)
      have hl := structLoop_total (fun idx wt body acc => readField fs acc idx wt body) (ShapeL fs)
        (fun idx wt body acc h => hgf acc idx wt body h) (d.length + 1) d 0 _ (by omega) hprior
      rcases fine_cases hl.1 with ⟨⟨vs, n⟩, e⟩ | e
      · have ⟨hn, hs⟩ := hl.2 vs n e
        simp only [e, Res.fine, true_and]
        intro v' n' h; injection h with h; injection h with h1 h2
        subst h1; subst h2; exact ⟨by omega, by simpa [Shape] using hs⟩
      · simp [e, Res.fine]
  | .map k v false => by
      intro hok wt d p hp
      simp only [NoDiv0] at hok
      simp only [Ty.read]
      split
      · simp only [Res.fine, true_and]
        intro v' n' h; injection h with h; injection h with h1 h2
        subst h1; subst h2; exact ⟨by omega, hp⟩
      · cases hr : readU d with
        | none => simp [Res.fine]
        | some q =>
          obtain ⟨count, n⟩ := q
          have ⟨hn0, hnl⟩ := readU_le d count n hr
          simp only
          split
          · simp [Res.fine]
          · have hprior : ∀ e ∈ (match p with | .map (some es) => es | _ => []), Shape v e.2 := by
              split
              · simpa [Shape] using hp
              · simp
            have hl := mapLoop_total _ (fun es => ∀ e ∈ es, Shape v e.2)
              (fun b es h => mapEntry_arm k v (good_ty k hok.1) (good_ty v hok.2) b es h)
              count (d.drop n) n _ hprior
            rcases fine_cases hl.1 with ⟨⟨es, off⟩, e⟩ | e
            · have ⟨ho, hs⟩ := hl.2 es off e
              simp only [List.length_drop] at ho
              simp only [e, Res.fine, true_and]
              intro v' n' h; injection h with h; injection h with h1 h2
              subst h1; subst h2; exact ⟨by omega, by simpa [Shape] using hs⟩
            · simp [e, Res.fine]
  | .map k v true => by
      intro hok wt d p hp
      simp only [NoDiv0] at hok
      simp only [Ty.read]
      have hprior : ∀ e ∈ (match p with | .map (some es) => es | _ => []), Shape v e.2 := by
        split
        · simpa [Shape] using hp
        · simp
      have hl := mapEntry_arm k v (good_ty k hok.1) (good_ty v hok.2) d _ hprior
      rcases fine_cases hl.1 with ⟨⟨es, off⟩, e⟩ | e
      · have ⟨ho, hs⟩ := hl.2 es off e
        simp only [e, Res.fine, true_and]
        intro v' n' h; injection h with h; injection h with h1 h2
        subst h1; subst h2; exact ⟨ho, by simpa [Shape] using hs⟩
      · simp [e, Res.fine]
theorem good_fields : (fs : Fields) → NoDiv0L fs → ∀ f ∈ fs, Good f.2.2
  | [] => by simp
  | (i, nm, t) :: r => by
      intro hok f hf
      simp only [NoDiv0L] at hok
      rcases List.mem_cons.mp hf with h | h
      · subst h; exact good_ty t hok.1
      · exact good_fields r hok.2 f h
end

end Total
