import Proofs.Evolve
open RT Evolve
#check @Evolve.evolve_loop
example (u : Ty) (h : Ty.Evolves (.ptr u) .bool) : False := by
  simp [Ty.Evolves] at h
example (u u' : Ty) (h : Ty.Evolves (.ptr u) (.ptr u')) : Ty.Evolves u u' := by
  simpa only [Ty.Evolves] using h
example (u t' : Ty) (h : Ty.Evolves (.ptr u) t') : ∃ u', t' = .ptr u' ∧ Ty.Evolves u u' := by
  cases t' <;> simp [Ty.Evolves] at h ⊢
  exact h
example (u t' : Ty) (h : Ty.Evolves (.vslice u) t') : t' = .vslice u := by
  simpa [Ty.Evolves] using h
example (t' : Ty) (h : Ty.Evolves (.bool) t') : t' = .bool := by
  simpa [Ty.Evolves] using h
example (u u' : Ty) (x : Val) : Ty.proj (.ptr u) (.ptr u') (.ptr (some x)) = .ptr (some (u.proj u' x)) := by
  simp only [Ty.proj]
example (u  : Ty) (x : Val) : Ty.proj (.vslice u) (.vslice u) x = (Ty.vslice u).norm x := by
  simp only [Ty.proj]
example (x : Val) : Ty.proj (.bool) (.bool) x = (Ty.bool).norm x := by
  simp only [Ty.proj]
