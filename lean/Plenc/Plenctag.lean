import Plenc.Build
/-
  Plenc.Plenctag — the tag-rewriting tool cmd/plenctag/main.go and the part of
  github.com/fatih/structtag v1.2.0 (tags.go) it uses.

  What is modelled
  * `structtag.Parse` on the UNQUOTED tag text: the key / quoted-value scanner
    with its three errors, the nil result for an all-blank tag, `Tags.Get`,
    `Tags.Set`, `Tags.String`, `Tag.String`/`Tag.Value`.
  * `reflect.StructTag.Lookup` (what plenc itself uses to read a tag): the same
    scanner, but it stops silently at the first malformed pair and unquotes only
    the value it returns.
  * main.go: `fieldName`, `extractTags`, `hasPlencTag`, `plencValue`,
    `isExcluded`, `quote`, `appendTag` (for back-quoted literals) and the two
    passes of `rewrite` with the `maxFieldIndex` test.

  Text is a Lean `String` (a sequence of Unicode scalar values) where Go has a
  byte string.  The Go scanners look at single bytes, but every byte they test
  for is ASCII (`' '`, `':'`, `'"'`, `'\\'`, `0x7f`, `<= ' '`) and every byte of
  a multi-byte UTF-8 sequence is >= 0x80, so on valid UTF-8 scanning runes and
  scanning bytes cut the text at the same places.

  Restrictions (the driver must skip what is outside; the model says so itself
  by answering `Out.unsupported`):
  * the quoted VALUE of a `key:"value"` pair may contain any rune literally and
    the escapes `\"` and `\\`.  A raw newline is a definite `errTagValueSyntax`
    (strconv.Unquote rejects it) and is modelled.  Any other backslash escape
    (`\t`, `\x41`, `\'`, an invalid escape …) gives `unsupported`:
    `strconv.Unquote` may or may not accept it.  KEYS are unrestricted.
    (The tool no longer prints existing tags back, so `%q` only ever sees the
    plenc tag's own `-` or decimal number; `Tags.render` is exact for values of
    printable ASCII.)
  * the tag literal of a field is a back-quoted raw string: `Field.rawTag` is
    the text between the back quotes, as delivered by go/scanner (which has
    already removed carriage returns, so `strconv.Unquote` returns it verbatim;
    it contains no back quote).  Interpreted (double-quoted) tag literals are
    not modelled.
  * Go's `int` is 64 bits.
-/
namespace Plenctag

/-! ## outcomes -/

/-- the error classes the tool can record for a field. -/
inductive Err where
  | tagSyntax        -- structtag.errTagSyntax      "bad syntax for struct tag pair"
  | tagKeySyntax     -- structtag.errTagKeySyntax   "bad syntax for struct tag key"
  | tagValueSyntax   -- structtag.errTagValueSyntax "bad syntax for struct tag value"
  | atoi             -- strconv.Atoi failed on an existing plenc tag's name
  | multiName        -- `X, Y T` without a plenc tag
  | noIndexLeft      -- a field needs a number but `maxPlenc >= maxFieldIndex`
deriving DecidableEq, Repr

/-- `Res` of the codec model plus the error class and the `unsupported` outcome
(input outside the modelled fragment: the differential tester skips the case). -/
inductive Out (α : Type) where
  | ok (a : α)
  | err (e : Err)
  | panic
  | hang
  | unsupported
deriving DecidableEq, Repr

/-- forget the error class.  `unsupported` is mapped to `.err`; callers that
need to know use the `…X` functions or `supportedFile`. -/
def Out.toRes {α} : Out α → Res α
  | .ok a => .ok a
  | .err _ => .err
  | .panic => .panic
  | .hang => .hang
  | .unsupported => .err

def Out.cast {α β} : Out α → Out β
  | .ok _ => .panic      -- never used on `ok`
  | .err e => .err e
  | .panic => .panic
  | .hang => .hang
  | .unsupported => .unsupported

/-! ## structtag -/

structure Tag where
  key : String
  name : String
  options : List String
deriving DecidableEq, Repr

abbrev Tags := List Tag

/-- `(*Tags).Get`: the first tag with this key (`none` = errTagNotExist). -/
def Tags.get (ts : Tags) (key : String) : Option Tag :=
  ts.find? (fun t => t.key == key)

/-- `(*Tags).Set` (no longer used by the tool, kept for the library model): every entry with the key is replaced in place; appended when
there is none; nothing happens (errKeyNotSet) for the empty key. -/
def Tags.set (ts : Tags) (t : Tag) : Tags :=
  if t.key == "" then ts
  else if ts.any (fun x => x.key == t.key) then
    ts.map (fun x => if x.key == t.key then t else x)
  else ts ++ [t]

/-- `strings.Join(xs, ",")` -/
def joinComma : List (List Char) → List Char
  | [] => []
  | [a] => a
  | a :: b :: r => a ++ ',' :: joinComma (b :: r)

/-- `strings.Split(v, ",")`: never empty. -/
def splitCommaAll : List Char → List (List Char)
  | [] => [[]]
  | c :: r =>
    if c = ',' then [] :: splitCommaAll r
    else match splitCommaAll r with
      | h :: t => (c :: h) :: t
      | [] => [[c]]

/-- `(*Tag).Value`: `name`, or `name,options…` when the joined options are not
the empty string (so `options = [""]`, i.e. a value written `name,`, prints as
just `name`). -/
def Tag.value (t : Tag) : List Char :=
  let opts := joinComma (t.options.map String.toList)
  if opts.isEmpty then t.name.toList else t.name.toList ++ ',' :: opts

/-- the value as it was written: `name` and the options joined by commas. -/
def Tag.rawValue (t : Tag) : String :=
  String.ofList (joinComma (t.name.toList :: t.options.map String.toList))

/-- what re-parsing the printed tag yields: the lone empty option is gone. -/
def Tag.norm (t : Tag) : Tag :=
  if t.options = [""] then { t with options := [] } else t

/-- the body of `%q` for text made of printable ASCII: only `"` and `\` are escaped. -/
def quoteChars : List Char → List Char
  | [] => []
  | c :: r => if c = '"' ∨ c = '\\' then '\\' :: c :: quoteChars r else c :: quoteChars r

/-- `(*Tag).String`: `key:"value"` with the value printed by `%q`. -/
def Tag.render (t : Tag) : List Char :=
  t.key.toList ++ ':' :: '"' :: (quoteChars t.value ++ ['"'])

def renderChars : Tags → List Char
  | [] => []
  | [t] => t.render
  | t :: u :: r => t.render ++ ' ' :: renderChars (u :: r)

/-- `(*Tags).String`: the tags in order, separated by single spaces. -/
def Tags.render (ts : Tags) : String := String.ofList (renderChars ts)

/-- a byte the key scanner accepts: `> ' '`, not `:`, not `"`, not DEL. -/
def keyChar (c : Char) : Bool :=
  decide (32 < c.toNat) && c != ':' && c != '"' && c.toNat != 0x7f

/-- the quoted-string scan of `Parse`/`Lookup`, started after the opening
quote: `for i < len && tag[i] != '"' { if tag[i] == '\\' { i++ }; i++ }`, error
when the end is reached.  Result: the text between the quotes, still escaped,
and the text after the closing quote.  `esc`: the previous rune was a backslash
(the rune is stepped over whatever it is). -/
def scanQ : Bool → List Char → Option (List Char × List Char)
  | _, [] => none
  | true, d :: r => (scanQ false r).map fun p => (d :: p.1, p.2)
  | false, c :: r =>
    if c = '"' then some ([], r)
    else if c = '\\' then (scanQ true r).map fun p => (c :: p.1, p.2)
    else (scanQ false r).map fun p => (c :: p.1, p.2)

def scanQuoted (cs : List Char) : Option (List Char × List Char) := scanQ false cs

inductive Unq where
  | ok (v : List Char)
  | bad            -- strconv.Unquote certainly fails
  | unsupported    -- outside the modelled fragment
deriving DecidableEq, Repr

def Unq.cons (c : Char) : Unq → Unq
  | .ok v => .ok (c :: v)
  | e => e

/-- `strconv.Unquote` on `"body"`, left to right, first problem wins.  `esc`:
the previous rune was a backslash. -/
def unq : Bool → List Char → Unq
  | false, [] => .ok []
  | true, [] => .bad
  | true, d :: r => if d = '"' ∨ d = '\\' then (unq false r).cons d else .unsupported
  | false, c :: r =>
    if c = '\\' then unq true r
    else if c = '\n' then .bad
    else (unq false r).cons c

def unquoteBody (cs : List Char) : Unq := unq false cs

/-- one round of the scanner shared by `structtag.Parse` and
`reflect.StructTag.Lookup`. -/
inductive Scan where
  | done                                -- nothing but spaces left
  | bad (e : Err)
  | pair (key body rest : List Char)
deriving DecidableEq, Repr

/-- after the key (`i` runes long, `i > 0`): `tag[i]` must be a colon followed
by something, and that something must be a double quote. -/
def scanAfterKey (key : List Char) : List Char → Scan
  | [] => .bad .tagSyntax                     -- i+1 >= len(tag)
  | [_] => .bad .tagSyntax                    -- i+1 >= len(tag)
  | c :: d :: r =>
    if c ≠ ':' then .bad .tagSyntax
    else if d ≠ '"' then .bad .tagValueSyntax
    else
      match scanQuoted r with
      | none => .bad .tagValueSyntax
      | some (body, rest) => .pair key body rest

/-- "Scan to colon": the key is the longest prefix of key bytes. -/
def scanKey (t : List Char) : Scan :=
  let key := t.takeWhile keyChar
  if key.isEmpty then .bad .tagKeySyntax      -- i == 0
  else scanAfterKey key (t.dropWhile keyChar)

/-- "Skip leading space", stop when nothing is left. -/
def scanPair (cs : List Char) : Scan :=
  let t := cs.dropWhile (fun c => c = ' ')
  if t.isEmpty then .done else scanKey t

/-- the `for tag != ""` loop of `structtag.Parse`.  The fuel is the length of
the text plus one; running out of it (`hang`) and the empty result of
`strings.Split` (`panic`, Go's `res[0]`) are shown unreachable. -/
def parseLoop : Nat → List Char → Out Tags
  | 0, _ => .hang
  | n + 1, cs =>
    match scanPair cs with
    | .done => .ok []
    | .bad e => .err e
    | .pair key body rest =>
      match unquoteBody body with
      | .bad => .err .tagValueSyntax
      | .unsupported => .unsupported
      | .ok v =>
        match splitCommaAll v with
        | [] => .panic
        | name :: opts =>
          match parseLoop n rest with
          | .ok ts => .ok (⟨String.ofList key, String.ofList name, opts.map String.ofList⟩ :: ts)
          | e => e

/-- `structtag.Parse`: `none` is the `nil, nil` result for a non-empty tag
without any pair (only spaces). -/
def structtagParse (s : String) : Out (Option Tags) :=
  match parseLoop (s.toList.length + 1) s.toList with
  | .ok ts => if s ≠ "" ∧ ts.isEmpty then .ok none else .ok (some ts)
  | e => e.cast

/-- main.go `extractTags` applied to a field's tag literal (`none`: the empty
`ast.BasicLit{}` the tool installs on a field without a tag). -/
def extractTags : Option String → Out Tags
  | none => .ok []
  | some raw =>
    match structtagParse raw with
    | .ok none => .ok []           -- "structtag returns nil, nil for a tag that is empty or all spaces"
    | .ok (some ts) => .ok ts
    | e => e.cast

/-- `structtag.Parse` on the unquoted tag text, with main.go's treatment of the
nil result, keeping the error class and the `unsupported` outcome. -/
def parseTagsX (s : String) : Out Tags := extractTags (some s)

/-- the same with the project's `Res` (all three syntax errors are `.err`;
`unsupported` is also `.err` — test `supportedTagText` first). -/
def parseTags (s : String) : Res (List Tag) := (parseTagsX s).toRes

def supportedTagText (s : String) : Bool :=
  match parseTagsX s with
  | .unsupported => false
  | _ => true

/-! ## reflect.StructTag.Lookup -/

def reflectLoop (key : String) : Nat → List Char → Option String
  | 0, _ => none
  | n + 1, cs =>
    match scanPair cs with
    | .pair k body rest =>
      if String.ofList k = key then
        match unquoteBody body with
        | .ok v => some (String.ofList v)
        | _ => none
      else reflectLoop key n rest
    | _ => none

/-- `reflect.StructTag(raw).Lookup(key)`; `Get` is `.getD ""`. -/
def reflectLookup (raw key : String) : Option String :=
  reflectLoop key (raw.toList.length + 1) raw.toList

def reflectGet (raw key : String) : String := (reflectLookup raw key).getD ""

/-! ## main.go -/

structure Field where
  /-- `f.Names` -/
  names : List String
  /-- `embeddedName(f.Type)`; only read when `names = []` -/
  embeddedName : String
  /-- text between the back quotes of `f.Tag`; `none` when `f.Tag == nil` -/
  rawTag : Option String
deriving DecidableEq, Repr

/-- `-json`, `-sql`, `-private`; `isUpper` answers `unicode.IsUpper` for the
non-ASCII runes (ASCII is decided by the model). -/
structure Flags where
  json : Bool
  sql : Bool
  priv : Bool
  isUpper : Char → Bool := fun _ => false

/-- Go's `f.Names[0]`. -/
def index0 : List String → Out String
  | [] => .panic
  | n :: _ => .ok n

/-- `fieldName`: the embedded type's name, or all names joined by ", ". -/
def fieldName (f : Field) : Out String :=
  if f.names.length = 0 then .ok f.embeddedName
  else
    match index0 f.names with
    | .ok n0 => .ok (f.names.tail.foldl (fun a n => a ++ ", " ++ n) n0)
    | e => e

/-- `r, _ := utf8.DecodeRuneInString(name); !unicode.IsUpper(r)`: the name is not
exported by Go's rule (the empty name decodes to U+FFFD, which is not upper
case). The name `lowerFirst` is historical: until repair "plenctag leaves every
unexported field alone" the test was `unicode.IsLower`, which let `_` and
caseless scripts through. -/
def lowerFirst (fl : Flags) (name : String) : Bool :=
  match name.toList with
  | [] => true
  | c :: _ => if c.toNat < 128 then !c.isUpper else !fl.isUpper c

def isExcluded (fl : Flags) (tags : Tags) : Bool :=
  (fl.sql && match Tags.get tags "sql" with
            | some t => t.name == "-"
            | none => false)
  ||
  (fl.json && match Tags.get tags "json" with
             | some t => t.name == "-"
             | none => false)

/-- `plencValue` on a tag literal. -/
def plencValue (raw : String) : Out Int :=
  match extractTags (some raw) with
  | .ok tags =>
    match Tags.get tags "plenc" with
    | none => .ok 0
    | some t =>
      if t.name = "-" then .ok 0
      else match atoi t.name with
        | some v => .ok v
        | none => .err .atoi
  | e => e.cast

/-- `strconv.Itoa` -/
def itoa (v : Int) : String :=
  if v < 0 then "-" ++ Nat.repr (-v).toNat else Nat.repr v.toNat

/-- main.go `maxFieldIndex = 1<<29 - 1`, the largest protobuf field number. -/
def maxFieldIndex : Int := 536870911

/-- one step of the first loop of `rewrite`. -/
def maxStep (m : Int) (f : Field) : Int :=
  match f.rawTag with
  | none => m
  | some raw =>
    match plencValue raw with
    | .ok v => if v > m then v else m
    | _ => m

/-- the first pass: the largest existing plenc index (0 when there is none;
`-` counts as 0, unreadable tags are skipped). -/
def maxPlenc (fs : List Field) : Int := fs.foldl maxStep 0

/-- what is recorded while looking at a struct. -/
inductive Status where
  | fine
  | failed (e : Err)     -- `errs` is non-empty; `e` is the first one
  | unsup
  | crash
  | hang
deriving DecidableEq, Repr

/-- a Go panic aborts everything; an unsupported construct makes the outcome
unknown; otherwise the first recorded error is kept. -/
def Status.merge : Status → Status → Status
  | .crash, _ => .crash
  | _, .crash => .crash
  | .hang, _ => .hang
  | _, .hang => .hang
  | .unsup, _ => .unsup
  | _, .unsup => .unsup
  | .failed e, _ => .failed e
  | .fine, b => b

def Out.status {α} : Out α → Status
  | .ok _ => .fine
  | .err e => .failed e
  | .panic => .crash
  | .hang => .hang
  | .unsupported => .unsup

/-- what the first loop records for a field. -/
def status1 (f : Field) : Status :=
  match f.rawTag with
  | none => .fine
  | some raw => (plencValue raw).status

/-- what the body of the second loop decides for a field, up to the question
whether a number is left (only that depends on `maxPlenc`). -/
inductive Act where
  | skip                                  -- `continue`, nothing recorded
  | stop (s : Status)                     -- `recordError(...); continue`, or worse
  | add (tags : Tags) (excluded : Bool)   -- the field gets a plenc tag
deriving DecidableEq, Repr

def classify (fl : Flags) (f : Field) : Act :=
  match fieldName f with
  | .ok name =>
    if fl.priv && lowerFirst fl name then .skip
    else if f.names.length > 1 then
      -- `if f.Tag == nil || !hasPlencTag(f.Tag.Value) { recordError }; continue`
      match f.rawTag with
      | none => .stop (.failed .multiName)
      | some raw =>
        match extractTags (some raw) with
        | .ok tags =>
          if (Tags.get tags "plenc").isSome then .skip else .stop (.failed .multiName)
        | .err _ => .stop (.failed .multiName)
        | e => .stop e.status
    else
      match extractTags f.rawTag with
      | .ok tags =>
        if (Tags.get tags "plenc").isSome then .skip
        else .add tags (isExcluded fl tags)
      | e => .stop e.status
  | e => .stop e.status

def Act.status : Act → Status
  | .stop s => s
  | _ => .fine

def plencTag (name : String) : Tag := ⟨"plenc", name, []⟩

/-- `unicode.IsSpace`, which `strings.TrimSpace` uses. -/
def goIsSpace (c : Char) : Bool :=
  let n := c.toNat
  (decide (9 ≤ n) && decide (n ≤ 13)) || n == 32 || n == 0x85 || n == 0xA0 || n == 0x1680 ||
  (decide (0x2000 ≤ n) && decide (n ≤ 0x200a)) || n == 0x2028 || n == 0x2029 || n == 0x202f ||
  n == 0x205f || n == 0x3000

/-- `strings.TrimRight(s, " ")` -/
def trimRightSpaces (cs : List Char) : List Char :=
  (cs.reverse.dropWhile (fun c => c = ' ')).reverse

/-- main.go `appendTag(lit, add)` for a field without tag literal (`none`, the
empty `ast.BasicLit{}`) or with a back-quoted one: the content of the new
back-quoted literal.  The old text stays as it is, minus trailing spaces; the
new tag follows after one space; a blank old text is dropped.  (The content of a
raw string literal has no back quote and `add` has none, so the tool's fallback
to `strconv.Quote` is not reached; `strconv.Unquote` of a raw string literal
cannot fail.) -/
def appendTag (lit : Option String) (add : String) : String :=
  match lit with
  | none => add
  | some old =>
    let o := trimRightSpaces old.toList
    if o.all goIsSpace then add else String.ofList (o ++ ' ' :: add.toList)

/-- `f.Tag.Value = appendTag(f.Tag.Value, tag.String())` with `tag = plenc:"name"` -/
def setTag (f : Field) (name : String) : Field :=
  { f with rawTag := some (appendTag f.rawTag (Tags.render [plencTag name])) }

/-- the second loop, started with `maxPlenc = m`: the fields.  A field that
needs a number when none is left is skipped (an error is recorded, see
`status2`).  `maxPlenc++` cannot wrap: it only happens below `maxFieldIndex`. -/
def pass2 (fl : Flags) : Int → List Field → List Field
  | _, [] => []
  | m, f :: r =>
    match classify fl f with
    | .add _ true => setTag f "-" :: pass2 fl m r
    | .add _ false =>
      if m ≥ maxFieldIndex then f :: pass2 fl m r
      else setTag f (itoa (m + 1)) :: pass2 fl (m + 1) r
    | _ => f :: pass2 fl m r

/-- the second loop: what is recorded, field by field. -/
def status2 (fl : Flags) : Int → List Field → List Status
  | _, [] => []
  | m, f :: r =>
    match classify fl f with
    | .add _ true => .fine :: status2 fl m r
    | .add _ false =>
      if m ≥ maxFieldIndex then .failed .noIndexLeft :: status2 fl m r
      else .fine :: status2 fl (m + 1) r
    | a => a.status :: status2 fl m r

/-- everything recorded for one struct: first loop, then second loop. -/
def structStatus (fl : Flags) (fs : List Field) : Status :=
  ((fs.map status1) ++ status2 fl (maxPlenc fs) fs).foldl Status.merge .fine

def Status.toOut {α} (a : α) : Status → Out α
  | .fine => .ok a
  | .failed e => .err e
  | .unsup => .unsupported
  | .crash => .panic
  | .hang => .hang

/-- the body of `rewriteFunc` for one `*ast.StructType`, with the tool's final
"any error ⇒ nothing is written" applied to this struct alone. -/
def rewriteStructX (fl : Flags) (fs : List Field) : Out (List Field) :=
  (structStatus fl fs).toOut (pass2 fl (maxPlenc fs) fs)

def rewriteStruct (fl : Flags) (fs : List Field) : Res (List Field) :=
  (rewriteStructX fl fs).toRes

/-- `rewrite` on a file: the structs in `ast.Inspect` order (nested, anonymous
and function-local struct types are just further entries).  Errors are
collected over all structs; with any error nothing is written. -/
def rewriteFileX (fl : Flags) (ss : List (List Field)) : Out (List (List Field)) :=
  ((ss.map (structStatus fl)).foldl Status.merge .fine).toOut
    (ss.map fun fs => pass2 fl (maxPlenc fs) fs)

def rewriteFile (fl : Flags) (ss : List (List Field)) : Res (List (List Field)) :=
  (rewriteFileX fl ss).toRes

/-- `false`: some tag of the file is outside the modelled fragment and the
answer of `rewriteFile` means nothing. -/
def supportedFile (fl : Flags) (ss : List (List Field)) : Bool :=
  match rewriteFileX fl ss with
  | .unsupported => false
  | _ => true

end Plenctag
