import Plenc.Wire
/-
  Plenc.JSONAny — plenccodec/json.go (JSONMapCodec for `map[string]any`,
  JSONArrayCodec for `[]any`, sizeJSONValue, appendJSONValue, readJSONKV) and
  the descriptor walk for these codecs (plenccodec/descriptor.go: `read` for
  FieldTypeJSONObject / FieldTypeJSONArray, `readAsJSON`, `readJSONObjectKV`).

  The model follows the repaired code line by line: one branch per Go `if` /
  `case`, in the same order, with the same ok/err decisions.  As in
  `Plenc/Codec.lean`, `data[offset:]` is `data.drop _` and every reader returns
  the number of bytes it consumed.  Sizes are mathematical naturals (Go `int`;
  the property restricts to encodings below 2^63 bytes).

  Recursion.  The Go readers recurse through `readJSONKV → Read → readJSONKV`;
  the model indexes that recursion by `depth` (one unit per nested codec call)
  and the only open-ended loop (`for offset < len(data)` in readJSONKV /
  readJSONObjectKV) by `fuel`.  Running out of either gives `hang`; the entry
  points use `data.length + 1`, and `C16.jsonany_total` shows that `hang` and
  `panic` are unreachable with that choice.  `for i := range a` and
  `for ; count > 0; count--` are bounded loops: structural on the count.
-/

namespace JSONAny

/-- A JSON-model value as the Go codecs see it.  `arr none` is a nil `[]any`,
`obj none` a nil `map[string]any`; object entries are an association list in
the map's iteration order (Go maps: keys distinct, order arbitrary — the
theorems quantify over every list, hence every order). -/
inductive JVal where
  | null
  | str (s : Bytes)
  | int (i : Int)
  | float (bits : Nat)
  | bool (b : Bool)
  | num (tok : Bytes)
  | arr (xs : Option (List JVal))
  | obj (kvs : Option (List (Bytes × JVal)))
deriving Repr

/-- The Outputter calls the descriptor walk makes (plenccodec/output.go). -/
inductive OCall where
  | startObj | endObj | startArr | endArr
  | name (raw : Bytes)
  | str (raw : Bytes)
  | int64 (v : Int)
  | f64 (bits : Nat)
  | bool (b : Bool)
  | raw (tok : Bytes)
deriving Repr, DecidableEq

/-! ### the `jsonType` constants -/

def jsonTypeNil : Nat := 0
def jsonTypeString : Nat := 1
def jsonTypeInt : Nat := 2
def jsonTypeFloat : Nat := 3
def jsonTypeBool : Nat := 4
def jsonTypeArray : Nat := 5
def jsonTypeObject : Nat := 6
def jsonTypeNumber : Nat := 7

/-! ### the package-level tags -/

/-- `keyTag = AppendTag(nil, StringCodec{}.WireType(), 1)`. -/
def keyTag : Bytes := appendTag .len 1
def valueWTLTag : Bytes := appendTag .len 3
def valueWTVITag : Bytes := appendTag .varint 3
def valueWT64Tag : Bytes := appendTag .w64 3
def valueWTSliceTag : Bytes := appendTag .slice 3

/-! ### the scalar codecs used by json.go (`Size(ptr, tag)` / `Append(data, ptr, tag)`) -/

/-- `StringCodec.Size`. -/
def strSize (s : Bytes) (tag : Bytes) : Nat :=
  if tag.length > 0 then s.length + (tag.length + sizeVarUint s.length) else s.length

/-- `StringCodec.Append`. -/
def strAppend (s : Bytes) (tag : Bytes) : Bytes :=
  if tag.length ≠ 0 then tag ++ appendVarUint s.length ++ s else s

/-- `sizeKV` given `sizeJSONValue(v)`. -/
def kvSizeOf (k : Bytes) (sv : Nat) : Nat :=
  sizeTag .len 1 + sizeVarUint k.length + k.length + sv

/-! ### sizeJSONValue / JSONArrayCodec.size / JSONMapCodec.size -/

mutual
/-- `sizeJSONValue`. -/
def sizeValue : JVal → Nat
  | .null => sizeTag .varint 2 + sizeVarUint jsonTypeNil
  | .str s => sizeTag .varint 2 + sizeVarUint jsonTypeString + strSize s valueWTLTag
  | .int i => sizeTag .varint 2 + sizeVarUint jsonTypeInt + (sizeVarInt i + valueWTVITag.length)
  | .float _ => sizeTag .varint 2 + sizeVarUint jsonTypeFloat + (8 + valueWT64Tag.length)
  | .bool _ => sizeTag .varint 2 + sizeVarUint jsonTypeBool + (1 + valueWTVITag.length)
  | .arr xs => sizeTag .varint 2 + sizeVarUint jsonTypeArray + (arrBodySize xs + valueWTSliceTag.length)
  | .obj kvs => sizeTag .varint 2 + sizeVarUint jsonTypeObject + (mapBodySize kvs + valueWTSliceTag.length)
  | .num t => sizeTag .varint 2 + sizeVarUint jsonTypeNumber + strSize t valueWTLTag
/-- `JSONArrayCodec.size` (a nil slice has length 0). -/
def arrBodySize : Option (List JVal) → Nat
  | none => sizeVarUint 0
  | some xs => sizeVarUint xs.length + itemsSize xs
/-- the `for _, val := range a` loop of `JSONArrayCodec.size`. -/
def itemsSize : List JVal → Nat
  | [] => 0
  | v :: r => (sizeVarUint (sizeValue v) + sizeValue v) + itemsSize r
/-- `JSONMapCodec.size` (a nil map has length 0). -/
def mapBodySize : Option (List (Bytes × JVal)) → Nat
  | none => sizeVarUint 0
  | some kvs => sizeVarUint kvs.length + kvsSize kvs
/-- the `for k, v := range m` loop of `JSONMapCodec.size`. -/
def kvsSize : List (Bytes × JVal) → Nat
  | [] => 0
  | (k, v) :: r => (sizeVarUint (kvSizeOf k (sizeValue v)) + kvSizeOf k (sizeValue v)) + kvsSize r
end

/-! ### appendJSONValue / JSONArrayCodec.append / JSONMapCodec.append

`append…` return the bytes appended to `data`. -/

mutual
/-- `appendJSONValue`. -/
def appendValue : JVal → Bytes
  | .null => appendTag .varint 2 ++ appendVarUint jsonTypeNil
  | .str s => appendTag .varint 2 ++ appendVarUint jsonTypeString ++ strAppend s valueWTLTag
  | .int i => appendTag .varint 2 ++ appendVarUint jsonTypeInt ++ (valueWTVITag ++ appendVarInt i)
  | .float bits => appendTag .varint 2 ++ appendVarUint jsonTypeFloat ++ (valueWT64Tag ++ leBytes 8 bits)
  | .bool b => appendTag .varint 2 ++ appendVarUint jsonTypeBool
                 ++ (valueWTVITag ++ appendVarUint (if b then 1 else 0))
  | .arr xs => appendTag .varint 2 ++ appendVarUint jsonTypeArray ++ (valueWTSliceTag ++ arrBody xs)
  | .obj kvs => appendTag .varint 2 ++ appendVarUint jsonTypeObject ++ (valueWTSliceTag ++ mapBody kvs)
  | .num t => appendTag .varint 2 ++ appendVarUint jsonTypeNumber ++ strAppend t valueWTLTag
/-- `JSONArrayCodec.append`. -/
def arrBody : Option (List JVal) → Bytes
  | none => appendVarUint 0
  | some xs => appendVarUint xs.length ++ itemsApp xs
def itemsApp : List JVal → Bytes
  | [] => []
  | v :: r => (appendVarUint (sizeValue v) ++ appendValue v) ++ itemsApp r
/-- `JSONMapCodec.append`. -/
def mapBody : Option (List (Bytes × JVal)) → Bytes
  | none => appendVarUint 0
  | some kvs => appendVarUint kvs.length ++ kvsApp kvs
/-- each entry: `AppendVarUint(sizeKV)` then `appendKV` = key field then value. -/
def kvsApp : List (Bytes × JVal) → Bytes
  | [] => []
  | (k, v) :: r =>
      (appendVarUint (kvSizeOf k (sizeValue v)) ++ (strAppend k keyTag ++ appendValue v)) ++ kvsApp r
end

/-- `JSONMapCodec.Size(ptr, tag)`; `tag = []` is the unexported `size`. -/
def mapSize (m : Option (List (Bytes × JVal))) (tag : Bytes) : Nat := mapBodySize m + tag.length
/-- `JSONMapCodec.Append(nil, ptr, tag)`; `tag = []` is the unexported `append`. -/
def mapAppend (m : Option (List (Bytes × JVal))) (tag : Bytes) : Bytes := tag ++ mapBody m
/-- `JSONArrayCodec.Size(ptr, tag)`. -/
def arrSize (a : Option (List JVal)) (tag : Bytes) : Nat := arrBodySize a + tag.length
/-- `JSONArrayCodec.Append(nil, ptr, tag)`. -/
def arrAppend (a : Option (List JVal)) (tag : Bytes) : Bytes := tag ++ arrBody a

/-- `JSONMapCodec.Omit`: `ptr == nil` (the map pointer itself). -/
def omitMap (m : Option (List (Bytes × JVal))) : Bool := m.isNone
/-- `JSONArrayCodec.Omit`: nil or empty. -/
def omitArr : Option (List JVal) → Bool
  | none => true
  | some xs => xs.isEmpty

/-! ### readers -/

/-- `m[key] = val` on the association-list view: in place if the key exists,
appended otherwise. -/
def mapSet (k : Bytes) (v : JVal) : List (Bytes × JVal) → List (Bytes × JVal)
  | [] => [(k, v)]
  | (k', v') :: r => if k' = k then (k', v) :: r else (k', v') :: mapSet k v r

/-- `case 3:` of readJSONKV — the `switch jType` — on `d = data[offset:]` just
after the tag.  Returns the value stored in `*val` and what was consumed.
`rdArr` / `rdMap` are `JSONArrayCodec{}.Read` / `JSONMapCodec{}.Read` into a
fresh `var v`. -/
def readValue (rdArr : WT → Bytes → Res (Option (List JVal) × Nat))
    (rdMap : WT → Bytes → Res (Option (List (Bytes × JVal)) × Nat))
    (jt : Nat) (wt : WT) (d : Bytes) : Res (JVal × Nat) :=
  if jt = jsonTypeString then
    match readU d with
    | none => .err
    | some (l, n) =>
      if l > (d.drop n).length then .err
      else .ok (.str ((d.drop n).take l), n + l)           -- StringCodec.Read returns len(data)
  else if jt = jsonTypeInt then
    let r := readVarUint d                                  -- IntCodec[int].Read
    if r.2 < 0 then .err else .ok (.int (wrapS 64 (zagZig r.1)), r.2.toNat)
  else if jt = jsonTypeFloat then
    if d.length < 8 then (if d.isEmpty then .ok (.float 0, 0) else .err)
    else .ok (.float (leVal (d.take 8)), 8)
  else if jt = jsonTypeBool then
    let r := readVarUint d
    if r.2 < 0 then .err else .ok (.bool (r.1 != 0), r.2.toNat)
  else if jt = jsonTypeArray then
    match rdArr wt d with
    | .ok (xs, n) => .ok (.arr xs, n)
    | .err => .err | .panic => .panic | .hang => .hang
  else if jt = jsonTypeObject then
    match rdMap wt d with
    | .ok (m, n) => .ok (.obj m, n)
    | .err => .err | .panic => .panic | .hang => .hang
  else if jt = jsonTypeNumber then
    match readU d with
    | none => .err
    | some (l, n) =>
      if l > (d.drop n).length then .err
      else .ok (.num ((d.drop n).take l), n + l)
  else .err                                                 -- default: unexpected json type

/-- the `for offset < len(data)` loop of `readJSONKV`.  `data` is what is left
of the entry, `off` what has been consumed; `hasKey` is `key != nil`, `key` and
`val` the current contents of `*key` / `*val`, `jt` the local `jType`. -/
def kvLoop (rdArr : WT → Bytes → Res (Option (List JVal) × Nat))
    (rdMap : WT → Bytes → Res (Option (List (Bytes × JVal)) × Nat)) :
    (fuel : Nat) → (data : Bytes) → (off : Nat) → (jt : Nat) → (hasKey : Bool) → (key : Bytes) →
    (val : JVal) → Res ((Bytes × JVal) × Nat)
  | 0, _, _, _, _, _, _ => .hang
  | fuel+1, data, off, jt, hasKey, key, val =>
    if data.isEmpty then .ok ((key, val), off) else
    match readTag data with
    | none => .err
    | some (wt, idx, n) =>
      if idx = 1 then
        match readU (data.drop n) with
        | none => .err
        | some (l, m) =>
          if l > (data.drop (n + m)).length then .err else
          if !hasKey then
            kvLoop rdArr rdMap fuel (data.drop (n + m + l)) (off + (n + m + l)) jt hasKey key val
          else
            kvLoop rdArr rdMap fuel (data.drop (n + m + l)) (off + (n + m + l)) jt hasKey
              ((data.drop (n + m)).take l) val
      else if idx = 2 then
        match readU (data.drop n) with
        | none => .err
        | some (v, m) => kvLoop rdArr rdMap fuel (data.drop (n + m)) (off + (n + m)) v hasKey key val
      else if idx = 3 then
        match readValue rdArr rdMap jt wt (data.drop n) with
        | .ok (v, m) => kvLoop rdArr rdMap fuel (data.drop (n + m)) (off + (n + m)) jt hasKey key v
        | .err => .err | .panic => .panic | .hang => .hang
      else .err                                             -- unexpected json field index

/-- the `for i := range a` loop of `JSONArrayCodec.Read`: `count` entries, each
a varint length and then `readJSONKV(data[offset:offset+l], nil, &a[i])`. -/
def arrLoop (rdKV : Bytes → Res ((Bytes × JVal) × Nat)) : (count : Nat) → Bytes → Res (List JVal × Nat)
  | 0, _ => .ok ([], 0)
  | c+1, data =>
    match readU data with
    | none => .err
    | some (l, n) =>
      if l > (data.drop n).length then .err else
      match rdKV ((data.drop n).take l) with
      | .ok ((_, v), m) =>
        (match arrLoop rdKV c (data.drop (n + m)) with
         | .ok (vs, k) => .ok (v :: vs, (n + m) + k)
         | .err => .err | .panic => .panic | .hang => .hang)
      | .err => .err | .panic => .panic | .hang => .hang

/-- the `for ; count > 0; count--` loop of `JSONMapCodec.Read`. -/
def mapLoop (rdKV : Bytes → Res ((Bytes × JVal) × Nat)) :
    (count : Nat) → Bytes → (off : Nat) → List (Bytes × JVal) → Res (List (Bytes × JVal) × Nat)
  | 0, _, off, m => .ok (m, off)
  | c+1, data, off, m =>
    match readU data with
    | none => .err
    | some (l, n) =>
      if l > (data.drop n).length then .err else
      match rdKV ((data.drop n).take l) with
      | .ok ((k, v), j) => mapLoop rdKV c (data.drop (n + j)) (off + (n + j)) (mapSet k v m)
      | .err => .err | .panic => .panic | .hang => .hang

mutual
/-- `readJSONKV(data, key, val)`; `hasKey = (key != nil)`. Returns the final
`(*key, *val)` and `offset`. -/
def readKV : (depth : Nat) → Bytes → (hasKey : Bool) → (key : Bytes) → (val : JVal) →
    Res ((Bytes × JVal) × Nat)
  | 0, _, _, _, _ => .hang
  | d+1, data, hasKey, key, val =>
    kvLoop (fun wt b => arrRead d b wt none) (fun wt b => mapRead d b wt none)
      (data.length + 1) data 0 jsonTypeNil hasKey key val
/-- `JSONArrayCodec.Read(data, ptr, wt)`; `prior` is `*ptr` before the call. -/
def arrRead : (depth : Nat) → Bytes → WT → (prior : Option (List JVal)) →
    Res (Option (List JVal) × Nat)
  | 0, _, _, _ => .hang
  | d+1, data, _, prior =>
    let r := readVarUint data
    if r.2 = 0 then .ok (prior, 0)
    else if r.2 < 0 then .err
    else
      let n := r.2.toNat
      if r.1 > data.length - n then .err else
      -- a := make([]any, count); *ptr = a
      match arrLoop (fun b => readKV d b false [] .null) r.1 (data.drop n) with
      | .ok (xs, k) => .ok (some xs, n + k)
      | .err => .err | .panic => .panic | .hang => .hang
/-- `JSONMapCodec.Read(data, ptr, wt)`; `prior` is `*ptr` before the call. -/
def mapRead : (depth : Nat) → Bytes → WT → (prior : Option (List (Bytes × JVal))) →
    Res (Option (List (Bytes × JVal)) × Nat)
  | 0, _, _, _ => .hang
  | d+1, data, _, prior =>
    let r := readVarUint data
    if r.2 = 0 then .ok (prior, 0)
    else if r.2 < 0 then .err
    else
      let n := r.2.toNat
      if r.1 > data.length - n then .err else
      -- if m == nil { m = make(map[string]any, count) }
      match mapLoop (fun b => readKV d b true [] .null) r.1 (data.drop n) n (prior.getD []) with
      | .ok (m, off) => .ok (some m, off)
      | .err => .err | .panic => .panic | .hang => .hang
end

/-! ### the descriptor walk (descriptor.go) -/

def nullTok : Bytes := [110, 117, 108, 108]   -- "null"

/-- `case 3:` of readJSONObjectKV. `rdNested isObj d` is
`Descriptor{Type: FieldTypeJSONObject / FieldTypeJSONArray}.read(out, d)`. -/
def descValue (rdNested : Bool → Bytes → Res (List OCall × Nat))
    (jt : Nat) (d : Bytes) : Res (List OCall × Nat) :=
  if jt = jsonTypeString then
    match readU d with
    | none => .err
    | some (l, n) =>
      if l > (d.drop n).length then .err
      else .ok ([.str ((d.drop n).take l)], n + l)
  else if jt = jsonTypeInt then
    let r := readVarUint d                                  -- IntCodec[int64].Read
    if r.2 < 0 then .err else .ok ([.int64 (wrapS 64 (zagZig r.1))], r.2.toNat)
  else if jt = jsonTypeFloat then
    if d.length < 8 then (if d.isEmpty then .ok ([.f64 0], 0) else .err)
    else .ok ([.f64 (leVal (d.take 8))], 8)
  else if jt = jsonTypeBool then
    let r := readVarUint d
    if r.2 < 0 then .err else .ok ([.bool (r.1 != 0)], r.2.toNat)
  else if jt = jsonTypeArray then rdNested false d
  else if jt = jsonTypeObject then rdNested true d
  else if jt = jsonTypeNumber then
    match readU d with
    | none => .err
    | some (l, n) =>
      if l > (d.drop n).length then .err
      else .ok ([.raw ((d.drop n).take l)], n + l)
  else .err

/-- the loop of `readJSONObjectKV`; `acc` are the calls made so far. -/
def descKVLoop (rdNested : Bool → Bytes → Res (List OCall × Nat)) :
    (fuel : Nat) → (data : Bytes) → (off : Nat) → (jt : Nat) → (valueDone : Bool) →
    Res (List OCall × Nat)
  | 0, _, _, _, _ => .hang
  | fuel+1, data, off, jt, valueDone =>
    if data.isEmpty then
      .ok (if !valueDone then [.raw nullTok] else [], off)   -- nil has no value field
    else
    match readTag data with
    | none => .err
    | some (_, idx, n) =>
      if idx = 1 then
        match readU (data.drop n) with
        | none => .err
        | some (l, m) =>
          if l > (data.drop (n + m)).length then .err else
          match descKVLoop rdNested fuel (data.drop (n + m + l)) (off + (n + m + l)) jt valueDone with
          | .ok (cs, o) => .ok (.name ((data.drop (n + m)).take l) :: cs, o)
          | .err => .err | .panic => .panic | .hang => .hang
      else if idx = 2 then
        match readU (data.drop n) with
        | none => .err
        | some (v, m) => descKVLoop rdNested fuel (data.drop (n + m)) (off + (n + m)) v valueDone
      else if idx = 3 then
        match descValue rdNested jt (data.drop n) with
        | .ok (cs, m) =>
          (match descKVLoop rdNested fuel (data.drop (n + m)) (off + (n + m)) jt true with
           | .ok (cs', o) => .ok (cs ++ cs', o)
           | .err => .err | .panic => .panic | .hang => .hang)
        | .err => .err | .panic => .panic | .hang => .hang
      else .err

/-- the `for i := uint64(0); i < count; i++` loop of `readAsJSON`. -/
def descLoop (rdKV : Bytes → Res (List OCall × Nat)) :
    (count : Nat) → Bytes → (off : Nat) → Res (List OCall × Nat)
  | 0, _, off => .ok ([], off)
  | c+1, data, off =>
    if data.isEmpty then .err else                          -- offset >= len(data)
    match readU data with
    | none => .err
    | some (s, n) =>
      if s > (data.drop n).length then .err else
      if s = 0 then descLoop rdKV c (data.drop n) (off + n) else
      match rdKV ((data.drop n).take s) with
      | .ok (cs, m) =>
        (match descLoop rdKV c (data.drop (n + m)) (off + (n + m)) with
         | .ok (cs', o) => .ok (cs ++ cs', o)
         | .err => .err | .panic => .panic | .hang => .hang)
      | .err => .err | .panic => .panic | .hang => .hang

/-- `Descriptor.read` for `FieldTypeJSONObject` (`isObj`) / `FieldTypeJSONArray`:
Start…, `readAsJSON`, the deferred End…. -/
def descRead : (depth : Nat) → (isObj : Bool) → Bytes → Res (List OCall × Nat)
  | 0, _, _ => .hang
  | d+1, isObj, data =>
    let r := readVarUint data
    if r.2 < 0 then .err else
    match descLoop (fun b => descKVLoop (fun o b' => descRead d o b') (b.length + 1) b 0 jsonTypeNil false)
            r.1 (data.drop r.2.toNat) r.2.toNat with
    | .ok (cs, off) =>
      .ok ((if isObj then OCall.startObj else OCall.startArr) :: cs
             ++ [if isObj then OCall.endObj else OCall.endArr], off)
    | .err => .err | .panic => .panic | .hang => .hang

/-- `Descriptor{Type: FieldTypeJSONObject}.read(out, data)`: the calls and the
bytes consumed. -/
def descCallsObj (data : Bytes) : Res (List OCall × Nat) := descRead (data.length + 1) true data
/-- `Descriptor{Type: FieldTypeJSONArray}.read(out, data)`. -/
def descCallsArr (data : Bytes) : Res (List OCall × Nat) := descRead (data.length + 1) false data

/-! ### specification functions (what the theorems of `Props/C16.lean` say) -/

mutual
/-- What a value reads back as when it was encoded as an array element or as
the value of an object entry (a *nested* position): scalars, strings, numbers
and nil are unchanged; a nil `[]any` comes back as an empty non-nil `[]any`
(`make([]any, 0)`); a nil `map[string]any` comes back as an empty non-nil map
(`make(map[string]any, 0)`); non-empty containers keep their entries (in
order), each normalised the same way. -/
def jnorm : JVal → JVal
  | .null => .null
  | .str s => .str s
  | .int i => .int i
  | .float b => .float b
  | .bool b => .bool b
  | .num t => .num t
  | .arr xs => .arr (some (jnormArr xs))
  | .obj m => .obj (some (jnormMap m))
def jnormArr : Option (List JVal) → List JVal
  | none => []
  | some xs => jnormList xs
def jnormList : List JVal → List JVal
  | [] => []
  | v :: r => jnorm v :: jnormList r
def jnormMap : Option (List (Bytes × JVal)) → List (Bytes × JVal)
  | none => []
  | some kvs => jnormKvs kvs
def jnormKvs : List (Bytes × JVal) → List (Bytes × JVal)
  | [] => []
  | (k, v) :: r => (k, jnorm v) :: jnormKvs r
end

/-- What a value marshalled at top level (or as a struct field) reads back as
in a fresh target: a nil map is omitted and stays nil, an empty non-nil map is
encoded (count 0) and comes back empty non-nil; a nil **or empty** `[]any` is
omitted and the target stays nil; everything nested is `jnorm`alised. -/
def jnormTop : JVal → JVal
  | .obj none => .obj none
  | .obj (some kvs) => .obj (some (jnormKvs kvs))
  | .arr none => .arr none
  | .arr (some []) => .arr none
  | .arr (some (x :: xs)) => .arr (some (jnormList (x :: xs)))
  | v => v

mutual
/-- The Outputter calls that render a value: nil is `Raw("null")`, a
`json.Number` is `Raw(token)`, containers are bracketed, nil containers render
like empty ones. -/
def toCalls : JVal → List OCall
  | .null => [.raw nullTok]
  | .str s => [.str s]
  | .int i => [.int64 i]
  | .float b => [.f64 b]
  | .bool b => [.bool b]
  | .num t => [.raw t]
  | .arr xs => .startArr :: arrCalls xs ++ [.endArr]
  | .obj m => .startObj :: mapCalls m ++ [.endObj]
def arrCalls : Option (List JVal) → List OCall
  | none => []
  | some xs => itemsCalls xs
def itemsCalls : List JVal → List OCall
  | [] => []
  | v :: r => toCalls v ++ itemsCalls r
def mapCalls : Option (List (Bytes × JVal)) → List OCall
  | none => []
  | some kvs => kvsCalls kvs
def kvsCalls : List (Bytes × JVal) → List OCall
  | [] => []
  | (k, v) :: r => (.name k :: toCalls v) ++ kvsCalls r
end

mutual
/-- Well-formed JSON-model values: ints are Go `int` (64-bit), float bit
patterns are 64-bit, the keys of every object are pairwise distinct. -/
def WF : JVal → Prop
  | .int i => -(2 ^ 63 : Int) ≤ i ∧ i < (2 ^ 63 : Int)
  | .float b => b < 2 ^ 64
  | .arr xs => WFArr xs
  | .obj m => WFMap m
  | _ => True
def WFArr : Option (List JVal) → Prop
  | none => True
  | some xs => WFList xs
def WFList : List JVal → Prop
  | [] => True
  | v :: r => WF v ∧ WFList r
def WFMap : Option (List (Bytes × JVal)) → Prop
  | none => True
  | some kvs => WFKvs kvs
def WFKvs : List (Bytes × JVal) → Prop
  | [] => True
  | (k, v) :: r => WF v ∧ (∀ p ∈ r, p.1 ≠ k) ∧ WFKvs r
end

/-! ### entry points for differential testing -/

/-- `plenc.Marshal(nil, v)` with the JSON codecs registered: `Omit → no bytes`.
Only containers have a JSON-any codec; other values give no bytes. -/
def jsonEncodeTop : JVal → Bytes
  | .obj m => if omitMap m then [] else mapAppend m []
  | .arr a => if omitArr a then [] else arrAppend a []
  | _ => []

/-- `plenc.Unmarshal(data, &target)` into a nil `map[string]any` (`isObj`) or a
nil `[]any`. -/
def jsonDecodeTop (isObj : Bool) (data : Bytes) : Res JVal :=
  if isObj then
    match mapRead (data.length + 1) data .slice none with
    | .ok (m, _) => .ok (.obj m)
    | .err => .err | .panic => .panic | .hang => .hang
  else
    match arrRead (data.length + 1) data .slice none with
    | .ok (a, _) => .ok (.arr a)
    | .err => .err | .panic => .panic | .hang => .hang

/-- marshal at top level (including the Omit rule), then unmarshal into a fresh
target of the same kind. Non-containers have no JSON-any codec: `err`. -/
def jsonRoundTripTop : JVal → Res JVal
  | .obj m => jsonDecodeTop true (jsonEncodeTop (.obj m))
  | .arr a => jsonDecodeTop false (jsonEncodeTop (.arr a))
  | _ => .err

/-- `Descriptor.Read(out, data)` for the codec's descriptor: the Outputter calls. -/
def jsonDescTop (isObj : Bool) (data : Bytes) : Res (List OCall) :=
  match (if isObj then descCallsObj data else descCallsArr data) with
  | .ok (cs, _) => .ok cs
  | .err => .err | .panic => .panic | .hang => .hang

/-- a struct field of JSON-any type with plenc index `idx`: what
`StructCodec.append` emits for it (nothing when `Omit`). -/
def fieldAppend (idx : Nat) : JVal → Bytes
  | .obj m => if omitMap m then [] else mapAppend m (appendTag .slice idx)
  | .arr a => if omitArr a then [] else arrAppend a (appendTag .slice idx)
  | _ => []

end JSONAny
