import Plenc.Codec
/-
  Plenc.Typing — which values inhabit a codec tree (`hasTy`), which codec trees
  the builder can produce (`wf`, "Accepted"), and the documented round-trip
  normalisation (`norm`).
-/

def intRange (w : Nat) (i : Int) : Prop := -(2 ^ (w - 1) : Int) ≤ i ∧ i < (2 ^ (w - 1) : Int)

def validWidth (w : Nat) : Prop := w = 8 ∨ w = 16 ∨ w = 32 ∨ w = 64

/-- keys of an entry list are pairwise distinct under Go `==` (`Val.beq`). -/
def keysDistinct : List (Val × Val) → Prop
  | [] => True
  | (k, _) :: r => (∀ e ∈ r, e.1.beq k = false) ∧ keysDistinct r

mutual
/-- `v` is a value of the Go type the codec `t` was built for. -/
def Ty.hasTy : Ty → Val → Prop
  | .bool, .bool _ => True
  | .int w, .int i => intRange w i
  | .uint w, .uint n => n < 2 ^ w
  | .flat w, .int i => intRange w i
  | .f32, .f32 b => b < 2 ^ 32
  | .f64, .f64 b => b < 2 ^ 64
  | .str _, .str _ => True
  | .bytes, .bytes _ => True
  | .time _, .time sec nsec => intRange 64 sec ∧ nsec < 1000000000
  | .ptr _, .ptr none => True
  | .ptr t, .ptr (some v) => t.hasTy v
  | .vslice t, .slice vs => ∀ v ∈ vs, t.hasTy v
  | .fslice t, .slice vs => ∀ v ∈ vs, t.hasTy v
  | .lslice t, .slice vs => ∀ v ∈ vs, t.hasTy v
  | .pslice t, .slice vs => ∀ v ∈ vs, t.hasTy v
  | .struct _ fs, .struct vs => fieldsHaveTy fs vs
  | .map _ _ _, .map none => True
  | .map k v _, .map (some es) => (∀ e ∈ es, k.hasTy e.1 ∧ v.hasTy e.2) ∧ keysDistinct es
  | _, _ => False
def fieldsHaveTy : Fields → List Val → Prop
  | [], [] => True
  | (_, _, t) :: r, v :: vs => t.hasTy v ∧ fieldsHaveTy r vs
  | _, _ => False
end

def Ty.isMap : Ty → Bool | .map _ _ _ => true | _ => false
def Ty.isPtr : Ty → Bool | .ptr _ => true | _ => false
def Ty.isProtoRep : Ty → Bool | .pslice _ => true | .map _ _ true => true | _ => false

mutual
/-- "Accepted": the shapes `build` can return (proved in Proofs/Build.lean):
integer widths are Go's, wrapper choice matches the element wire type, field
indexes are pairwise distinct and small enough for a tag, maps occur only where
the codec gets the map pointer (struct fields, top level), and the protobuf
repeated form (directly or behind pointers) is never a slice element, a map key
or a map value (`isProtoSlice` checks in codec.go / map.go). -/
def Ty.wf : Ty → Prop
  | .bool | .f32 | .f64 | .str _ | .bytes | .time _ => True
  | .int w | .uint w | .flat w => validWidth w
  | .ptr t => t.wf ∧ t.isMap = false
  | .vslice t => t.wf ∧ t.wt = .varint ∧ t.isMap = false
  | .fslice t => t = .f32 ∨ t = .f64
  | .lslice t => t.wf ∧ t.wt = .len ∧ t.isMap = false ∧ t.isProtoSlice = false
  | .pslice t => t.wf ∧ t.wt = .len ∧ t.isMap = false ∧ t.isProtoSlice = false
  | .struct _ fs => (fs.map (·.1)).Nodup ∧ (∀ f ∈ fs, f.1 < 2 ^ 61) ∧ fieldsWf fs
  | .map k v _ => k.wf ∧ v.wf ∧ k.isMap = false ∧ v.isMap = false ∧ v.isProtoSlice = false ∧
      k.isProtoSlice = false
def fieldsWf : Fields → Prop
  | [] => True
  | (_, _, t) :: r => t.wf ∧ fieldsWf r
end

mutual
/-- map key types whose Go `==` is structural equality of the modelled value and
which `norm` leaves unchanged: bools, integers, strings and structs of those
(no floats: ±0 and NaN; no pointers, times: identity / location). -/
def Ty.keySafe : Ty → Prop
  | .bool | .int _ | .uint _ | .flat _ | .str _ => True
  | .struct _ fs => fieldsKeySafe fs
  | _ => False
def fieldsKeySafe : Fields → Prop
  | [] => True
  | (_, _, t) :: r => t.keySafe ∧ fieldsKeySafe r
end

mutual
/-- the shapes for which the round trip is exact up to `norm`: what remains
after the known findings are excluded — the protobuf repeated forms are
self-delimiting only directly in a struct field (`fld = true`; finding F02, the
code comment on ProtoSliceWrapper documents it), and a pointer to a pointer has
no wire representation for "outer set, inner nil" (finding F03). -/
def Ty.rtShape : Bool → Ty → Prop
  | _, .bool | _, .int _ | _, .uint _ | _, .flat _ | _, .f32 | _, .f64 | _, .str _ | _, .bytes | _, .time _ => True
  | _, .ptr t => t.isPtr = false ∧ Ty.rtShape false t
  | _, .vslice t => Ty.rtShape false t
  | _, .fslice _ => True
  | _, .lslice t => Ty.rtShape false t
  | fld, .pslice t => fld = true ∧ Ty.rtShape false t
  | _, .struct _ fs => fieldsRtShape fs
  | fld, .map k v p => (p = true → fld = true) ∧ k.keySafe ∧ Ty.rtShape false v
def fieldsRtShape : Fields → Prop
  | [] => True
  | (_, _, t) :: r => Ty.rtShape true t ∧ fieldsRtShape r
end

mutual
/-- the documented normalisation of a value *inside* a container position
(slice element, pointer target): what `read` produces for a value that is
present on the wire. -/
def Ty.norm : Ty → Val → Val
  | .ptr t, .ptr (some v) => .ptr (some (t.norm v))
  | .vslice t, .slice vs =>
      -- nil entries of integer-pointer slices are dropped
      .slice ((vs.filter fun v => match v with | .ptr none => false | _ => true).map t.norm)
  | .fslice t, .slice vs => .slice (vs.map t.norm)
  | .lslice t, .slice vs =>
      -- nil entries of pointer slices become pointers to zero values
      .slice (vs.map fun v => match t, v with
        | .ptr u, .ptr none => .ptr (some u.zero)
        | _, v => t.norm v)
  | .pslice t, .slice vs =>
      .slice (vs.map fun v => match t, v with
        | .ptr u, .ptr none => .ptr (some u.zero)
        | _, v => t.norm v)
  | .struct _ fs, .struct vs => .struct (fieldsNorm fs vs)
  | .map k v p, .map (some es) =>
      if p = true ∧ es.isEmpty then .map none
      else .map (some (es.map fun e =>
        ((if e.1.omit then k.zero else k.norm e.1), (if e.2.omit then v.zero else v.norm e.2))))
  | _, v => v
/-- struct fields are zero-omitting positions: an omitted value (including -0.0
and empty containers) reads back as the zero value. -/
def fieldsNorm : Fields → List Val → List Val
  | (_, _, t) :: r, v :: vs => (if v.omit then t.zero else t.norm v) :: fieldsNorm r vs
  | _, _ => []
end

/-- normalisation at a zero-omitting position (top level, struct field, map key/value). -/
def Ty.normPos (t : Ty) (v : Val) : Val := if v.omit then t.zero else t.norm v
