/-
  Registry — a small transition system for the concurrent codec-construction
  protocol of plenc (codec.go `CodecForTypeRegistry` + `baseRegistry`,
  plenccodec/struct.go `BuildStructCodec` + `wrappedCodecRegistry`).

  What is modelled
  * the type graph is a parameter `graph : Nat → TNode` (type ids are `Nat`;
    a (type, tag) pair of the Go code is one type id);
  * codec values live in a heap `List CNode` addressed by `Nat`.  Only struct
    nodes are mutable: allocated with no fields and `complete = false`, fields
    appended one at a time, then `complete := true` (= `fieldsByIndex` filled);
  * the shared registry (`sync.Map`) is an association list with atomic `load`
    and atomic `loadOrStore`;
  * every goroutine has a stack of frames for the recursion
    `CodecForTypeRegistry → BuildStructCodec → CodecForTypeRegistry → …`.
    A struct frame that is still building carries its overlay registry
    (`wrappedCodecRegistry`): own type, node under construction, `pending`.
    The registry view of a frame = overlays of the enclosing building struct
    frames, innermost first, then the shared registry.
  * one atomic step per shared access or node mutation.  Purely local control
    transfers are fused with the next action of the same goroutine: "return to
    the parent frame" is fused with what the parent does with the value
    (allocate the pointer/slice/map wrapper — allocation of an immutable node
    is private —, or append the field to the struct node); pushing the child
    frame is fused with the dispatch on the kind.
  * `publish()` hands over ONE pending entry per step (the Go loop is not
    atomic, each `StoreOrSwap` is).  Go iterates the map in arbitrary order:
    `Reach` (end of this file) has an extra transition that permutes the
    pending list of a publishing frame, so every order is covered.
  * errors: a `bad` type makes the whole top-level call fail.  Go unwinds the
    stack returning `err` at every level without touching shared state or
    codec nodes, so the unwinding is one step: the stack is dropped, nothing is
    published.  (A struct-level error found after the fields are built, e.g. a
    duplicate index, is a `struct` whose last field type is `bad`.)
  * `use`: after a successful top-level call the goroutine walks the codec it
    got (depth-limited breadth-first walk, one node read per step).  Reading an
    incomplete struct node sets `fault`.
  * bookkeeping only: `ret` frames and `results` carry the type of the call,
    `cur` is the type of the top-level call in progress (used to state that
    results have the shape of the requested type).
  * `stepThreadOld`: the protocol before the repair — an overlay's
    `StoreOrSwap` writes straight through to the shared registry.

  Folded: slices and pointers share one frame kind (`elemW`, a flag picks the
  node); the slice arm's `subc.WireType()` dispatch is not modelled.
-/
namespace Registry

/-- a node of the type graph. -/
inductive TNode where
  | basic
  | ptr (e : Nat)
  | slice (e : Nat)
  | map (k v : Nat)
  | struct (fields : List Nat)
  | bad
deriving Repr, DecidableEq

/-- a codec value in the heap; arguments are heap addresses. -/
inductive CNode where
  | basicC
  | ptrC (t : Nat)
  | sliceC (e : Nat)
  | mapC (k v : Nat)
  | structC (ty : Nat) (fields : List Nat) (complete : Bool)
deriving Repr, DecidableEq

/-- outgoing edges of a codec node. -/
def CNode.kids : CNode → List Nat
  | .basicC => []
  | .ptrC t => [t]
  | .sliceC e => [e]
  | .mapC k v => [k, v]
  | .structC _ fs _ => fs

/-- `false` exactly for a struct node whose fields are not all filled in. -/
def CNode.ok : CNode → Bool
  | .structC _ _ false => false
  | _ => true

abbrev Heap := List CNode
abbrev Reg := List (Nat × Nat)

/-- the node at an address (out of range: a harmless leaf). -/
def get (h : Heap) (a : Nat) : CNode := (h[a]?).getD .basicC

def kids (h : Heap) (a : Nat) : List Nat := (get h a).kids
def okAt (h : Heap) (a : Nat) : Bool := (get h a).ok

/-- `c.fields = append(c.fields, f)` on a struct node. -/
def addField (h : Heap) (a c : Nat) : Heap :=
  match get h a with
  | .structC ty fs b => h.set a (.structC ty (fs ++ [c]) b)
  | _ => h

/-- `fieldsByIndex` filled: the node is complete. -/
def setComplete (h : Heap) (a : Nat) : Heap :=
  match get h a with
  | .structC ty fs _ => h.set a (.structC ty fs true)
  | _ => h

def lookup : Reg → Nat → Option Nat
  | [], _ => none
  | (k, v) :: r, ty => if k = ty then some v else lookup r ty

/-- `sync.Map.LoadOrStore`: the new registry and the winning value. -/
def loadOrStore (r : Reg) (ty c : Nat) : Reg × Nat :=
  match lookup r ty with
  | some c' => (r, c')
  | none => (r ++ [(ty, c)], c)

/-- one activation record of `CodecForTypeRegistry` (for type `ty`). -/
inductive Frame where
  /-- at entry: about to `registry.Load(ty)` -/
  | call (ty : Nat)
  /-- the load missed: about to dispatch on the kind -/
  | miss (ty : Nat)
  /-- pointer (`sl = false`) or slice arm waiting for the element codec -/
  | elemW (ty : Nat) (sl : Bool)
  /-- map arm waiting for the key codec; `v` = value type -/
  | mapK (ty v : Nat)
  /-- map arm waiting for the value codec; `kc` = key codec -/
  | mapV (ty kc : Nat)
  /-- `BuildStructCodec` in its field loop, with its overlay registry:
      `node` under construction, `pending`, field types still to do -/
  | structB (ty node : Nat) (pending : Reg) (todo : List Nat)
  /-- `BuildStructCodec` after completion, in `publish()` -/
  | structP (ty node : Nat) (pending : Reg)
  /-- codec `c` built: about to `registry.StoreOrSwap(ty, c)` -/
  | store (ty c : Nat)
  /-- returning codec `c` for type `ty` to the caller -/
  | ret (ty c : Nat)
deriving Repr, DecidableEq

/-- `registry.Load(ty)` through the overlays of the enclosing frames
(`wrappedCodecRegistry.Load`: own type, then pending, then the parent). -/
def viewLoad : List Frame → Reg → Nat → Option Nat
  | [], reg, ty => lookup reg ty
  | f :: rest, reg, ty =>
    match f with
    | .structB t node pend _ =>
      if ty = t then some node
      else match lookup pend ty with
        | some c => some c
        | none => viewLoad rest reg ty
    | _ => viewLoad rest reg ty

/-- `registry.StoreOrSwap(ty, c)` through the view: the innermost enclosing
overlay records into its `pending` only; with no overlay it is the shared
`LoadOrStore`.  Result: enclosing frames, shared registry, winning codec. -/
def viewStore : List Frame → Reg → Nat → Nat → List Frame × Reg × Nat
  | [], reg, ty, c => ([], loadOrStore reg ty c)
  | f :: rest, reg, ty, c =>
    match f with
    | .structB t node pend todo =>
      match lookup pend ty with
      | some c' => (.structB t node pend todo :: rest, reg, c')
      | none => (.structB t node (pend ++ [(ty, c)]) todo :: rest, reg, c)
    | _ =>
      let r := viewStore rest reg ty c
      (f :: r.1, r.2)

/-- the protocol before the repair: every overlay passes `StoreOrSwap` on to
its parent, so the write lands in the shared registry. -/
def viewStoreOld (below : List Frame) (reg : Reg) (ty c : Nat) : List Frame × Reg × Nat :=
  (below, loadOrStore reg ty c)

structure Thread where
  /-- innermost frame first -/
  stack : List Frame
  /-- top-level calls not yet started (type ids) -/
  requests : List Nat
  /-- the type of the top-level call in progress (meaningful while the stack
      is not empty) -/
  cur : Nat
  /-- (type, outcome) of the finished top-level calls, most recent first;
      outcome `none` = the call returned an error -/
  results : List (Nat × Option Nat)
  /-- work list of the walk over the last returned codec: (address, depth left) -/
  useQ : List (Nat × Nat)
  /-- the walk has read an incomplete struct node -/
  fault : Bool
deriving Repr, DecidableEq

structure State where
  graph : Nat → TNode
  /-- depth to which `use` walks a returned codec -/
  useDepth : Nat
  registry : Reg
  heap : Heap
  threads : Nat → Thread

def Thread.idle (reqs : List Nat) : Thread := ⟨[], reqs, 0, [], [], false⟩

/-- empty registry and heap; goroutine `i` will make the top-level calls
`requests[i]` in order (goroutines beyond the list have nothing to do). -/
def init (graph : Nat → TNode) (requests : List (List Nat)) (useDepth : Nat := 4) : State :=
  ⟨graph, useDepth, [], [], fun i => Thread.idle ((requests[i]?).getD [])⟩

def State.upd (s : State) (i : Nat) (reg : Reg) (heap : Heap) (t : Thread) : State :=
  { s with registry := reg, heap := heap,
           threads := fun j => if j = i then t else s.threads j }

/-- One atomic step of a goroutine on the shared registry and heap.
`old = true`: the protocol before the repair.  `none`: nothing left to do. -/
def stepCore (old : Bool) (g : Nat → TNode) (depth : Nat) (reg : Reg) (heap : Heap)
    (t : Thread) : Option (Reg × Heap × Thread) :=
  let vstore := if old then viewStoreOld else viewStore
  match t.stack with
  | [] =>
    match t.useQ with
    | (a, d) :: q =>
      -- use: read one node of the returned codec
      let more := match d with
        | 0 => []
        | d' + 1 => (kids heap a).map (fun c => (c, d'))
      some (reg, heap, { t with useQ := q ++ more, fault := t.fault || !okAt heap a })
    | [] =>
      match t.requests with
      | [] => none
      | r :: rs => some (reg, heap, { t with stack := [.call r], requests := rs, cur := r })
  | top :: below =>
    match top with
    | .call ty =>
      -- registry.Load through the view
      match viewLoad below reg ty with
      | some c => some (reg, heap, { t with stack := .ret ty c :: below })
      | none => some (reg, heap, { t with stack := .miss ty :: below })
    | .miss ty =>
      match g ty with
      | .basic =>
        some (reg, heap ++ [.basicC], { t with stack := .store ty heap.length :: below })
      | .ptr e => some (reg, heap, { t with stack := .call e :: .elemW ty false :: below })
      | .slice e => some (reg, heap, { t with stack := .call e :: .elemW ty true :: below })
      | .map k v => some (reg, heap, { t with stack := .call k :: .mapK ty v :: below })
      | .struct fs =>
        -- c := StructCodec{}; wrapped := wrappedCodecRegistry{…}
        some (reg, heap ++ [.structC ty [] false],
              { t with stack := .structB ty heap.length [] fs :: below })
      | .bad =>
        -- error: unwinds the whole top-level call, nothing is published
        some (reg, heap, { t with stack := [], results := (t.cur, none) :: t.results })
    | .structB ty node pend todo =>
      match todo with
      | f :: todo' =>
        some (reg, heap, { t with stack := .call f :: .structB ty node pend todo' :: below })
      | [] =>
        -- fieldsByIndex filled
        some (reg, setComplete heap node, { t with stack := .structP ty node pend :: below })
    | .structP ty node pend =>
      match pend with
      | (k, c) :: pend' =>
        -- publish(): one parent.StoreOrSwap
        let r := vstore below reg k c
        some (r.2.1, heap, { t with stack := .structP ty node pend' :: r.1 })
      | [] => some (reg, heap, { t with stack := .store ty node :: below })
    | .store ty c =>
      -- the final registry.StoreOrSwap(typ, tag, c)
      let r := vstore below reg ty c
      some (r.2.1, heap, { t with stack := .ret ty r.2.2 :: r.1 })
    | .ret _ c =>
      match below with
      | [] =>
        some (reg, heap, { t with stack := [], results := (t.cur, some c) :: t.results,
                                  useQ := [(c, depth)] })
      | parent :: below' =>
        match parent with
        | .elemW ty sl =>
          some (reg, heap ++ [if sl then .sliceC c else .ptrC c],
                { t with stack := .store ty heap.length :: below' })
        | .mapK ty v => some (reg, heap, { t with stack := .call v :: .mapV ty c :: below' })
        | .mapV ty kc =>
          some (reg, heap ++ [.mapC kc c], { t with stack := .store ty heap.length :: below' })
        | .structB ty node pend todo =>
          -- field.codec = fc
          some (reg, addField heap node c,
                { t with stack := .structB ty node pend todo :: below' })
        | _ => none
    | _ => none

def stepGen (old : Bool) (s : State) (i : Nat) : Option State :=
  (stepCore old s.graph s.useDepth s.registry s.heap (s.threads i)).map
    fun r => s.upd i r.1 r.2.1 r.2.2

/-- one atomic step of goroutine `i` (repaired protocol). -/
def stepThread (s : State) (i : Nat) : Option State := stepGen false s i

/-- one atomic step of goroutine `i`, protocol before the repair. -/
def stepThreadOld (s : State) (i : Nat) : Option State := stepGen true s i

def runWith (step : State → Nat → Option State) : State → List Nat → Option State
  | s, [] => some s
  | s, i :: is =>
    match step s i with
    | none => none
    | some s' => runWith step s' is

/-- replay a schedule: the `k`-th element is the goroutine taking the `k`-th step. -/
def runSchedule (s : State) (sched : List Nat) : Option State := runWith stepThread s sched
def runScheduleOld (s : State) (sched : List Nat) : Option State := runWith stepThreadOld s sched

/-- observable summary of a state for the first `n` goroutines (for examples). -/
def State.summary (s : State) (n : Nat) :
    Reg × Heap × List (List (Nat × Option Nat) × Bool × Bool) :=
  (s.registry, s.heap,
   (List.range n).map fun i =>
     ((s.threads i).results, (s.threads i).fault,
      (s.threads i).stack.isEmpty && (s.threads i).useQ.isEmpty && (s.threads i).requests.isEmpty))

/-- Go iterates the `pending` map in arbitrary order: a publishing frame may
have its remaining pending entries permuted at any time (not a step of the
executable model, but a transition of `Reach`). -/
inductive Reorder (s : State) (i : Nat) : State → Prop where
  | mk {ty node : Nat} {pend pend' : Reg} {below : List Frame} :
    (s.threads i).stack = .structP ty node pend :: below → pend'.Perm pend →
    Reorder s i (s.upd i s.registry s.heap
      { s.threads i with stack := .structP ty node pend' :: below })

/-- states reachable from `s0` by any interleaving of the goroutines' atomic
steps (repaired protocol), with any publication order. -/
inductive Reach (s0 : State) : State → Prop where
  | refl : Reach s0 s0
  | step {s s' : State} {i : Nat} : Reach s0 s → stepThread s i = some s' → Reach s0 s'
  | reorder {s s' : State} {i : Nat} : Reach s0 s → Reorder s i s' → Reach s0 s'

/-- finite unfoldings of codecs and of types, for comparing results. -/
inductive Tree where
  | cut
  | basic
  | ptr (t : Tree)
  | slice (t : Tree)
  | map (k v : Tree)
  | struct (ty : Nat) (fields : List Tree)
  | unfinished (ty : Nat)
  | bad
deriving Repr

/-- the codec at address `c`, unfolded to depth `n`. -/
def unfoldC (h : Heap) : Nat → Nat → Tree
  | 0, _ => .cut
  | n + 1, c =>
    match get h c with
    | .basicC => .basic
    | .ptrC t => .ptr (unfoldC h n t)
    | .sliceC e => .slice (unfoldC h n e)
    | .mapC k v => .map (unfoldC h n k) (unfoldC h n v)
    | .structC ty fs true => .struct ty (fs.map (unfoldC h n))
    | .structC ty _ false => .unfinished ty

/-- the type `ty` of the graph, unfolded to depth `n`: the codec tree that
`CodecForType(ty)` is meant to produce. -/
def unfoldT (g : Nat → TNode) : Nat → Nat → Tree
  | 0, _ => .cut
  | n + 1, ty =>
    match g ty with
    | .basic => .basic
    | .ptr e => .ptr (unfoldT g n e)
    | .slice e => .slice (unfoldT g n e)
    | .map k v => .map (unfoldT g n k) (unfoldT g n v)
    | .struct fs => .struct ty (fs.map (unfoldT g n))
    | .bad => .bad

end Registry
