import Plenc.Codec
/-
  Plenc.Build — codec.go `CodecForTypeRegistry`, struct.go `BuildStructCodec`,
  map.go `BuildMapCodec`, plenc.go `RegisterDefaultCodecs`: from a Go type
  definition and a tag option to the codec tree.
-/

inductive Basic where
  | bool | int (w : Nat) | uint (w : Nat) | f32 | f64 | str
deriving DecidableEq, Repr

/-- What the user writes. A struct field is
`(goName, exported, plencTag, jsonTag, type)`; `plencTag = ""` when the key is
absent. `named` is a defined type (`type N T`): it never matches an entry of the
default registry exactly and falls back to the codec of its underlying kind.
`time` is `time.Time` itself. `bad k` is a kind with no arm in the builder's
switch (complex, array, chan, func, interface, uintptr, unsafe pointer). -/
inductive TyDef where
  | basic (b : Basic)
  | time
  | named (n : String) (t : TyDef)
  | ptr (t : TyDef)
  | slice (t : TyDef)
  | map (k v : TyDef)
  | struct (name : String) (fs : List (String × Bool × String × String × TyDef))
  | bad (kind : String)
  | ext (name : String)      -- a library struct type known by name: null.Int, null.Bool, null.Float, null.String, null.Time
deriving Repr

abbrev FieldDefs := List (String × Bool × String × String × TyDef)

/-- A Plenc instance's configuration: the two options, whether the `null`
package's codecs were added, and the user's own registrations
`(Go type name, tag, codec)` (a later registration for the same key wins, as
`sync.Map.Store` overwrites). -/
structure Cfg where
  protoTime : Bool := false
  protoArrays : Bool := false
  nullCodecs : Bool := false
  custom : List (String × String × Ty) := []
deriving Repr

/-- `reflect.Kind` classes the builder switches on. -/
inductive Kind where
  | basic (b : Basic) | ptr | slice | map | struct | other
deriving DecidableEq, Repr

def TyDef.kind : TyDef → Kind
  | .basic b => .basic b
  | .time => .struct
  | .named _ t => t.kind
  | .ptr _ => .ptr
  | .slice _ => .slice
  | .map _ _ => .map
  | .struct _ _ => .struct
  | .bad _ => .other
  | .ext _ => .struct

/-- the `(type, tag) → codec` table of `RegisterDefaultCodecs` for the unnamed
basic types. Pinned to the source by `Gen/Tie.lean`. -/
def regBasic (b : Basic) (tag : String) : Option Ty :=
  match b, tag with
  | .bool, "" => some .bool
  | .f64, "" => some .f64
  | .f32, "" => some .f32
  | .int w, "" => some (.int w)
  | .int w, "flat" => some (.flat w)
  | .uint w, "" => some (.uint w)
  | .str, "" => some (.str false)
  | .str, "intern" => some (.str true)
  | _, _ => none

def Basic.goName : Basic → String
  | .bool => "bool" | .f32 => "float32" | .f64 => "float64" | .str => "string"
  | .int w => if w = 64 then "int64" else s!"int{w}"
  | .uint w => if w = 64 then "uint64" else s!"uint{w}"

/-- the name under which a type can carry a user registration (exact type match). -/
def TyDef.regName : TyDef → Option String
  | .basic b => some b.goName
  | .time => some "time.Time"
  | .named n _ => some n
  | .struct n _ => if n = "" then none else some n
  | .ext n => some n
  | .slice (.basic (.uint 8)) => some "[]byte"
  | _ => none

def customLoad (cfg : Cfg) (d : TyDef) (tag : String) : Option Ty :=
  match d.regName with
  | none => none
  | some n => (cfg.custom.reverse.find? fun e => e.1 == n && e.2.1 == tag).map (·.2.2)

/-- the codecs of package `null` (null/null.go `AddCodecs`): at the value level a
null.X is "absent, or present with a payload", i.e. exactly a pointer to the
payload type (Omit = !Valid, Read sets Valid, Descriptor flags explicit
presence); null.Time always uses the non-compat TimeCodec. -/
def nullCodec : String → Option Ty
  | "null.Int" => some (.ptr (.int 64))
  | "null.Bool" => some (.ptr .bool)
  | "null.Float" => some (.ptr .f64)
  | "null.String" => some (.ptr (.str false))
  | "null.Time" => some (.ptr (.time false))
  | _ => none

/-- `registry.Load(typ, tag)`: exact type match only; user registrations shadow the defaults. -/
def regLoad (cfg : Cfg) (d : TyDef) (tag : String) : Option Ty :=
  match customLoad cfg d tag with
  | some c => some c
  | none =>
    match d, tag with
    | .basic b, tag => regBasic b tag
    | .slice (.basic (.uint 8)), "" => some .bytes
    | .time, "" => some (.time cfg.protoTime)
    | .ext n, "" => if cfg.nullCodecs then nullCodec n else none
    | _, _ => none

/-- `strconv.Atoi` restricted to what a tag can hold: optional sign, decimal
digits, error on anything else or on int64 overflow. -/
def atoi (s : String) : Option Int :=
  let cs := s.toList
  let (neg, ds) := match cs with
    | '-' :: r => (true, r)
    | '+' :: r => (false, r)
    | r => (false, r)
  if ds.isEmpty then none else
  if ds.all Char.isDigit then
    let n : Nat := ds.foldl (fun a c => a * 10 + (c.toNat - 48)) 0
    let v : Int := if neg then -(n : Int) else n
    if v < -(2 ^ 63 : Int) ∨ v ≥ (2 ^ 63 : Int) then none else some v
  else none

/-- `strings.IndexByte(tag, ',')` split. -/
def splitComma (s : String) : String × Option String :=
  match s.toList.span (· ≠ ',') with
  | (a, []) => (String.ofList a, none)
  | (a, _ :: b) => (String.ofList a, some (String.ofList b))

/-- `strings.Cut(json, ",")` then "use it if non-empty". -/
def fieldName (goName json : String) : String :=
  let n := (splitComma json).1
  if n.isEmpty then goName else n

def hasDup : List Nat → Bool
  | [] => false
  | a :: r => r.contains a || hasDup r

/-- the element type's kind is float32 or float64 (defined float types included). -/
def TyDef.isFloatKind (d : TyDef) : Bool :=
  match d.kind with
  | .basic .f32 | .basic .f64 => true
  | _ => false

/-- which wrapper a slice of `sub` gets. `notFloat`: the element *type* is not of
kind float32/float64 — a pointer to a float or a nullable float, whose codec has
a fixed wire type but whose elements can be absent: rejected. -/
def sliceWrap (cfg : Cfg) (tag : String) (notFloat : Bool) (sub : Ty) : Res Ty :=
  match sub.wt with
  | .varint => .ok (.vslice sub)
  | .w64 | .w32 => if notFloat then .err else .ok (.fslice sub)
  | .len =>
      -- `isProtoSlice(subc)`: the protobuf repeated form has no length of its own, so
      -- it cannot be an element (directly or behind pointers) of another slice
      if sub.isProtoSlice then .err
      else if cfg.protoArrays || tag == "proto" then .ok (.pslice sub) else .ok (.lslice sub)
  | _ => .err

mutual
/-- `Plenc.CodecForTypeRegistry(registry, typ, tag)`: `registry.Load` first
(`regLoad`), then the kind switch. -/
def build (cfg : Cfg) : TyDef → String → Res Ty
  | .basic b, tag =>
      match regLoad cfg (.basic b) tag with
      | some c => .ok c
      | none => .err                        -- codecForBasicType: "no codec available"
  | .time, tag =>
      match regLoad cfg .time tag with
      | some c => .ok c
      | none =>
        -- a struct type with its own codec under "" but none under this tag: error
        if tag != "" && (regLoad cfg .time "").isSome then .err
        else .ok (.struct "Time" [])
  | .ext n, tag =>
      match regLoad cfg (.ext n) tag with
      | some c => .ok c
      | none => .err                        -- exported fields without plenc tags
  | .named n t, tag =>
      match customLoad cfg (.named n t) tag with
      | some c => .ok c
      | none => buildNamed cfg n t tag
  | .ptr t, tag =>
      if t.kind = .map then .err else
      match build cfg t tag with
      | .ok c => .ok (.ptr c)
      | e => e
  | .slice t, tag =>
      match regLoad cfg (.slice t) tag with
      | some c => .ok c
      | none =>
        if t.kind = .map then .err else
        match build cfg t "" with
        | .ok c => sliceWrap cfg tag (!t.isFloatKind) c
        | e => e
  | .map k v, tag =>
      if v.kind = .map then .err else
      match build cfg k "", build cfg v "" with
      | .ok kc, .ok vc =>
          -- `isProtoSlice(valueCodec) || isProtoSlice(keyCodec)`: an entry holds one key and one value field,
          -- the repeated form writes one per element
          if vc.isProtoSlice || kc.isProtoSlice then .err else .ok (.map kc vc (tag == "proto"))
      | .ok _, e => e
      | e, _ => e
  | .struct name fs, tag =>
      match customLoad cfg (.struct name fs) tag with
      | some c => .ok c
      | none =>
        if tag != "" && (customLoad cfg (.struct name fs) "").isSome then .err else
        match buildFields cfg fs with
        | .ok cfs => if hasDup (cfs.map (·.1)) then .err else .ok (.struct name cfs)
        | .err => .err | .panic => .panic | .hang => .hang
  | .bad _, _ => .err
/-- a defined type: the kind switch on its underlying type, without the exact
registry hits of the unnamed type. -/
def buildNamed (cfg : Cfg) (n : String) : TyDef → String → Res Ty
  | .basic b, tag =>
      match regLoad cfg (.basic b) tag with
      | some c => .ok c
      | none => .err
  | .time, _ => .ok (.struct n [])
  | .ext _, _ => .err
  | .named _ t, tag => buildNamed cfg n t tag
  | .ptr t, tag =>
      if t.kind = .map then .err else
      match build cfg t tag with
      | .ok c => .ok (.ptr c)
      | e => e
  | .slice t, tag =>
      if t.kind = .map then .err else
      match build cfg t "" with
      | .ok c => sliceWrap cfg tag (!t.isFloatKind) c
      | e => e
  | .map k v, tag =>
      if v.kind = .map then .err else
      match build cfg k "", build cfg v "" with
      | .ok kc, .ok vc =>
          -- `isProtoSlice(valueCodec) || isProtoSlice(keyCodec)`: an entry holds one key and one value field,
          -- the repeated form writes one per element
          if vc.isProtoSlice || kc.isProtoSlice then .err else .ok (.map kc vc (tag == "proto"))
      | .ok _, e => e
      | e, _ => e
  | .struct _ fs, _ =>
      match buildFields cfg fs with
      | .ok cfs => if hasDup (cfs.map (·.1)) then .err else .ok (.struct n cfs)
      | .err => .err | .panic => .panic | .hang => .hang
  | .bad _, _ => .err
/-- the per-field loop of `BuildStructCodec`. -/
def buildFields (cfg : Cfg) : FieldDefs → Res Fields
  | [] => .ok []
  | (goName, exported, ptag, json, t) :: r =>
      if !exported then buildFields cfg r else
      if ptag == "" then .err else
      if ptag == "-" then buildFields cfg r else
      let (idxS, pfx) := splitComma ptag
      match atoi idxS with
      | none => .err
      | some idx =>
        -- negative, or beyond the protobuf field number range (maxFieldIndex = 2^29 - 1)
        if idx < 0 ∨ idx > 536870911 then .err else
        let wantIntern := pfx == some "intern"
        let sub := if wantIntern then "" else pfx.getD ""
        match build cfg t sub with
        | .ok c =>
          -- `fc.(Interner)`: StringCodec and the null.String codec implement it
          let isNullStr := match t with | .ext "null.String" => true | _ => false
          let c := if wantIntern then
              (match c with
               | .str false => .str true
               | .ptr (.str false) => if isNullStr then .ptr (.str true) else c
               | c => c)
            else c
          (match buildFields cfg r with
           | .ok cfs => .ok ((idx.toNat, fieldName goName json, c) :: cfs)
           | e => e)
        | .err => .err | .panic => .panic | .hang => .hang
end
