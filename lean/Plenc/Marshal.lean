import Plenc.Codec
/-
  Plenc.Marshal — marshal.go / unsafetricks.go: the top-level entry point with a
  caller-supplied buffer and the two calling conventions.

  `Codec.Append(data, ptr, tag)` of every codec is `append(data, …)`; the model's
  `Ty.app` is the appended suffix, so "the prefix is preserved" is the statement
  that the model may be written that way at all — which only the correspondence
  run (prefix contents, spare capacity, buffer reuse) validates.
-/

/-- `Plenc.Marshal(buf, v)` (repaired code: an omitted value returns `buf`). -/
def marshalInto (buf : Bytes) (t : Ty) (v : Val) : Bytes :=
  if v.omit then buf else buf ++ t.app v []

/-- How a Go value sits in the `interface{}` handed to Marshal. -/
inductive Shape where
  | pointer | map | chan | func | unsafePtr       -- pointer-shaped kinds
  | array (n : Nat) (e : Shape)
  | struct (fs : List Shape)
  | other                                          -- everything else: stored behind a pointer

/-- `isDirectIface` (unsafetricks.go), the compiler's rule: the interface data
word holds the value itself for pointer-shaped types. -/
def Shape.direct : Shape → Bool
  | .pointer | .map | .chan | .func | .unsafePtr => true
  | .array n e => n == 1 && e.direct
  | .struct [f] => f.direct
  | _ => false

/-- the interface data word for a value stored at address `addr` whose first
machine word is `word`: the value itself when pointer-shaped, else its address. -/
def ifaceWord (s : Shape) (addr word : Nat) : Nat := if s.direct then word else addr

inductive Conv | byValue | byPointer

/-- the address `Marshal` hands to the codec, given where the value really lives
(`addr`), its first word (`word`, the map pointer for a map) and where the local
copy of the interface word is (`tmp`). A map codec wants the map pointer itself;
every other codec wants the address of the value. Returns `(pointer, what that
pointer designates)`: `true` = the value / the map, `false` = something else. -/
def marshalPtr (c : Conv) (s : Shape) (isMap : Bool) (addr word tmp : Nat) : Nat × Bool :=
  match c with
  | .byPointer =>
      -- typ.Kind() == Ptr: the data word is the address; a map is dereferenced once
      if isMap then (word, true) else (addr, true)
  | .byValue =>
      let w := ifaceWord s addr word
      if isMap then (w, s.direct)               -- maps are direct: w = the map pointer
      else if s.direct then (tmp, true)         -- &word: a copy of the (one-word) value
      else (w, true)                            -- address of the boxed copy
