import Plenc.Varint
/-
  Plenc.Alloc — what a counted container asks the allocator for.

  `entriesPresent` in plenccodec/wrapper.go (fix bbb7821): the readers of counted
  slices, maps and JSON arrays size their container for the length-prefixed
  entries that the data really holds (going by the lengths the entries
  declare), not for the count the data claims.
-/

/-- the loop of `entriesPresent(data, max)`: `i` entries counted so far, `d` the
data that remains. -/
def entriesPresentAux : (fuel : Nat) → Bytes → (max : Nat) → (i : Nat) → Nat
  | 0, _, _, i => i
  | fuel+1, d, max, i =>
    if i ≥ max ∨ d.isEmpty then i else
    match readU d with
    | none => i
    | some (l, n) =>
      if l > d.length - n then i
      else entriesPresentAux fuel (d.drop (n + l)) max (i + 1)

/-- `entriesPresent(data, max)`. -/
def entriesPresent (d : Bytes) (max : Nat) : Nat := entriesPresentAux (d.length + 1) d max 0
