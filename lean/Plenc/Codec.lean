import Plenc.Wire
/-
  Plenc.Codec — the codecs of plenccodec (bool.go, int.go, float.go, string.go,
  time.go, wrapper.go, struct.go, map.go) as total functions over a codec tree
  `Ty` and value trees `Val`.

  One `match` arm per Go codec type; the order of checks and the ok/err decisions
  follow the Go methods.  `Ty` is what `CodecForTypeRegistry` builds (see
  `Plenc/Build.lean`), not what the user writes.
-/

/-- The codec tree. `struct` fields are `(index, name, codec)` for the encoded
fields only, in declaration order (skipped fields never reach a codec). -/
inductive Ty where
  | bool
  | int (w : Nat)            -- IntCodec[intW]      (zig-zag varint)
  | uint (w : Nat)           -- UintCodec[uintW]    (plain varint)
  | flat (w : Nat)           -- FlatIntCodec[uintW] registered for intW under tag "flat"
  | f32 | f64
  | str (intern : Bool)      -- StringCodec / InternedStringCodec
  | bytes                    -- BytesCodec
  | time (compat : Bool)     -- TimeCodec / TimeCompatCodec
  | ptr (t : Ty)             -- PointerWrapper
  | vslice (t : Ty)          -- WTVarIntSliceWrapper
  | fslice (t : Ty)          -- WTFixedSliceWrapper
  | lslice (t : Ty)          -- WTLengthSliceWrapper
  | pslice (t : Ty)          -- ProtoSliceWrapper
  | struct (name : String) (fs : List (Nat × String × Ty))
  | map (k v : Ty) (proto : Bool)   -- MapCodec / ProtoMapCodec
deriving Repr

inductive Val where
  | bool (b : Bool)
  | int (i : Int)
  | uint (n : Nat)
  | f32 (bits : Nat)
  | f64 (bits : Nat)
  | str (s : Bytes)
  | bytes (s : Bytes)
  | time (sec : Int) (nsec : Nat)     -- Unix seconds, nanosecond in [0, 1e9)
  | ptr (o : Option Val)
  | slice (vs : List Val)
  | struct (vs : List Val)
  | map (o : Option (List (Val × Val)))   -- none = nil map; entries in iteration / insertion order
deriving Repr

abbrev Fields := List (Nat × String × Ty)

/-- seconds of `time.Time{}` relative to the Unix epoch. -/
def zeroTimeSec : Int := -62135596800

/-! ### wire types -/

def Ty.wt : Ty → WT
  | .bool | .int _ | .uint _ | .flat _ => .varint
  | .f32 => .w32
  | .f64 => .w64
  | .str _ | .bytes | .time _ => .len
  | .ptr t => t.wt
  | .vslice _ | .fslice _ | .pslice _ => .len     -- BaseSliceWrapper.WireType
  | .lslice _ => .slice
  | .struct _ _ => .len
  | .map _ _ false => .slice
  | .map _ _ true => .len

/-- `isProtoSlice` in codec.go: the codec, or what it points to, is a ProtoSliceWrapper. -/
def Ty.isProtoSlice : Ty → Bool
  | .pslice _ => true
  | .ptr t => t.isProtoSlice
  | _ => false

/-! ### zero values -/

mutual
def Ty.zero : Ty → Val
  | .bool => .bool false
  | .int _ => .int 0
  | .uint _ => .uint 0
  | .flat _ => .int 0
  | .f32 => .f32 0
  | .f64 => .f64 0
  | .str _ => .str []
  | .bytes => .bytes []
  | .time _ => .time zeroTimeSec 0
  | .ptr _ => .ptr none
  | .vslice _ | .fslice _ | .lslice _ | .pslice _ => .slice []
  | .struct _ fs => .struct (zeros fs)
  | .map _ _ _ => .map none
def zeros : Fields → List Val
  | [] => []
  | (_, _, t) :: r => t.zero :: zeros r
end

/-! ### Omit -/

/-- `Codec.Omit`. Depends on the codec only through the kind of the value. -/
def Val.omit : Val → Bool
  | .bool b => !b
  | .int i => i == 0
  | .uint n => n == 0
  | .f32 bits => bits % 2 ^ 31 == 0          -- `== 0` on floats: +0 and -0
  | .f64 bits => bits % 2 ^ 63 == 0
  | .str s => s.isEmpty
  | .bytes s => s.isEmpty
  | .time sec nsec => sec == zeroTimeSec && nsec == 0
  | .ptr o => o.isNone
  | .slice vs => vs.isEmpty
  | .struct _ => false
  | .map o => o.isNone

/-! ### Size and Append

`size t v tag` / `app t v tag` are `Codec.Size(ptr, tag)` / `Codec.Append(nil, ptr, tag)`.
Ill-typed (codec, value) pairs give 0 / []. -/

/-- the `if len(tag) != 0 { tag, varuint(len) }` framing shared by the
length-delimited codecs. -/
def frame (tag : Bytes) (body : Bytes) (sz : Nat) : Bytes :=
  if tag.isEmpty then body else tag ++ appendVarUint sz ++ body

def frameSize (tag : Bytes) (sz : Nat) : Nat :=
  if tag.isEmpty then sz else sz + (tag.length + sizeVarUint sz)

def tag1 : Bytes := appendTag .varint 1
def tag2 : Bytes := appendTag .varint 2

def timeBodySize (compat : Bool) (sec : Int) (nsec : Nat) : Nat :=
  if compat then
    (sizeVarUint (wrapU 64 sec) + tag1.length) + (sizeVarUint (wrapU 32 nsec) + tag2.length)
  else
    (sizeVarInt sec + tag1.length) + (sizeVarInt nsec + tag2.length)

def timeBody (compat : Bool) (sec : Int) (nsec : Nat) : Bytes :=
  if compat then
    (tag1 ++ appendVarUint (wrapU 64 sec)) ++ (tag2 ++ appendVarUint (wrapU 32 nsec))
  else
    (tag1 ++ appendVarInt sec) ++ (tag2 ++ appendVarInt nsec)

mutual
def Ty.size : Ty → Val → Bytes → Nat
  | .bool, .bool _, tag => 1 + tag.length
  | .int _, .int i, tag => sizeVarInt i + tag.length
  | .uint _, .uint n, tag => sizeVarUint n + tag.length
  | .flat w, .int i, tag => sizeVarUint (wrapU w i) + tag.length
  | .f32, .f32 _, tag => 4 + tag.length
  | .f64, .f64 _, tag => 8 + tag.length
  | .str _, .str s, tag => frameSize tag s.length
  | .bytes, .bytes s, tag => frameSize tag s.length
  | .time c, .time sec nsec, tag => frameSize tag (timeBodySize c sec nsec)
  | .ptr _, .ptr none, _ => 0
  | .ptr t, .ptr (some v), tag => t.size v tag
  | .vslice t, .slice vs, tag => frameSize tag ((vs.map fun v => t.size v []).sum)
  | .fslice t, .slice vs, tag => frameSize tag ((t.size t.zero []) * vs.length)
  | .lslice t, .slice vs, tag =>
      (sizeVarUint vs.length + (vs.map fun v => t.size v [] + sizeVarUint (t.size v [])).sum) + tag.length
  | .pslice t, .slice vs, tag =>
      (vs.map fun v => let s := t.size v tag; if s = 0 ∧ ¬ tag.isEmpty then tag.length + 1 else s).sum
  | .struct _ fs, .struct vs, tag => frameSize tag (fieldsSize fs vs)
  | .map k v false, .map (some es), tag =>
      (sizeVarUint es.length + (es.map fun e =>
          let s := (if e.1.omit then 0 else k.size e.1 (appendTag k.wt 1))
                 + (if e.2.omit then 0 else v.size e.2 (appendTag v.wt 2))
          sizeVarUint s + s).sum) + tag.length
  | .map _ _ false, .map none, tag => 1 + tag.length     -- maplen(nil) = 0: the count alone
  | .map k v true, .map (some es), tag =>
      (es.map fun e =>
          let s := (if e.1.omit then 0 else k.size e.1 (appendTag k.wt 1))
                 + (if e.2.omit then 0 else v.size e.2 (appendTag v.wt 2))
          tag.length + sizeVarUint s + s).sum
  | _, _, _ => 0
def fieldsSize : Fields → List Val → Nat
  | (i, _, t) :: r, v :: vs =>
      (if v.omit then 0 else t.size v (appendTag t.wt i)) + fieldsSize r vs
  | _, _ => 0
end

mutual
def Ty.app : Ty → Val → Bytes → Bytes
  | .bool, .bool b, tag => tag ++ appendVarUint (if b then 1 else 0)
  | .int _, .int i, tag => tag ++ appendVarInt i
  | .uint _, .uint n, tag => tag ++ appendVarUint n
  | .flat w, .int i, tag => tag ++ appendVarUint (wrapU w i)
  | .f32, .f32 bits, tag => tag ++ leBytes 4 bits
  | .f64, .f64 bits, tag => tag ++ leBytes 8 bits
  | .str _, .str s, tag => frame tag s s.length
  | .bytes, .bytes s, tag => frame tag s s.length
  | .time c, .time sec nsec, tag => frame tag (timeBody c sec nsec) (timeBodySize c sec nsec)
  | .ptr _, .ptr none, _ => []
  | .ptr t, .ptr (some v), tag => t.app v tag
  | .vslice t, .slice vs, tag =>
      frame tag (vs.flatMap fun v => t.app v []) ((vs.map fun v => t.size v []).sum)
  | .fslice t, .slice vs, tag =>
      frame tag (vs.flatMap fun v => t.app v []) ((t.size t.zero []) * vs.length)
  | .lslice t, .slice vs, tag =>
      tag ++ (appendVarUint vs.length ++ vs.flatMap fun v => appendVarUint (t.size v []) ++ t.app v [])
  | .pslice t, .slice vs, tag =>
      vs.flatMap fun v => let b := t.app v tag; if b.isEmpty ∧ ¬ tag.isEmpty then tag ++ [0] else b
  | .struct _ fs, .struct vs, tag => frame tag (fieldsApp fs vs) (fieldsSize fs vs)
  | .map k v false, .map (some es), tag =>
      tag ++ (appendVarUint es.length ++ es.flatMap fun e =>
        let s := (if e.1.omit then 0 else k.size e.1 (appendTag k.wt 1))
               + (if e.2.omit then 0 else v.size e.2 (appendTag v.wt 2))
        appendVarUint s ++ ((if e.1.omit then [] else k.app e.1 (appendTag k.wt 1))
                         ++ (if e.2.omit then [] else v.app e.2 (appendTag v.wt 2))))
  | .map _ _ false, .map none, tag => tag ++ appendVarUint 0
  | .map k v true, .map (some es), tag =>
      es.flatMap fun e =>
        let s := (if e.1.omit then 0 else k.size e.1 (appendTag k.wt 1))
               + (if e.2.omit then 0 else v.size e.2 (appendTag v.wt 2))
        tag ++ (appendVarUint s ++ ((if e.1.omit then [] else k.app e.1 (appendTag k.wt 1))
                         ++ (if e.2.omit then [] else v.app e.2 (appendTag v.wt 2))))
  | _, _, _ => []
def fieldsApp : Fields → List Val → Bytes
  | (i, _, t) :: r, v :: vs =>
      (if v.omit then [] else t.app v (appendTag t.wt i)) ++ fieldsApp r vs
  | _, _ => []
end

/-! ### Read -/

/-- `time.Unix(sec, nsec).UTC()` observed through `Unix()` / `Nanosecond()`:
nanoseconds are normalised into [0, 1e9), the carry goes to the seconds, which
wrap in int64. -/
def timeNorm (sec nsec : Int) : Val :=
  .time (wrapS 64 (sec + nsec / 1000000000)) (nsec % 1000000000).toNat

/-- raw `ReadTag`: no check on `n` at all. -/
def readTagRaw (d : Bytes) : WT × Nat × Int :=
  let r := readVarUint d
  (WT.ofCode (r.1 % 8), r.1 / 8, r.2)

/- Go-`==` on the key kinds the generators use (structural; float keys and
pointer keys are outside the model, see DESIGN §5). -/
mutual
def Val.beq : Val → Val → Bool
  | .bool a, .bool b => a == b
  | .int a, .int b => a == b
  | .uint a, .uint b => a == b
  | .f32 a, .f32 b => a == b
  | .f64 a, .f64 b => a == b
  | .str a, .str b => a == b
  | .bytes a, .bytes b => a == b
  | .time a b, .time c d => a == c && b == d
  | .ptr none, .ptr none => true
  | .ptr (some a), .ptr (some b) => a.beq b
  | .slice a, .slice b => Val.beqList a b
  | .struct a, .struct b => Val.beqList a b
  | .map none, .map none => true
  | .map (some a), .map (some b) => Val.beqEntries a b
  | _, _ => false
def Val.beqList : List Val → List Val → Bool
  | [], [] => true
  | a :: as, b :: bs => a.beq b && Val.beqList as bs
  | _, _ => false
def Val.beqEntries : List (Val × Val) → List (Val × Val) → Bool
  | [], [] => true
  | (a, x) :: as, (b, y) :: bs => a.beq b && x.beq y && Val.beqEntries as bs
  | _, _ => false
end

/-- `mapassign` view of an association list: the current value under `k`. -/
def mapLookup (k : Val) : List (Val × Val) → Option Val
  | [] => none
  | (k', v) :: r => if k'.beq k then some v else mapLookup k r

/-- store `v` under `k`: in place if the key exists, appended otherwise. -/
def mapSet (k v : Val) : List (Val × Val) → List (Val × Val)
  | [] => [(k, v)]
  | (k', v') :: r => if k'.beq k then (k', v) :: r else (k', v') :: mapSet k v r

/-- the field loop of `StructCodec.Read` (also `for offset < l` in time.go):
`rd idx wt rest acc` handles one field body and returns what it consumed. -/
def structLoop (rd : Nat → WT → Bytes → List Val → Res (List Val × Nat)) :
    (fuel : Nat) → Bytes → Nat → List Val → Res (List Val × Nat)
  | 0, _, _, _ => .hang
  | fuel+1, data, off, acc =>
    if data.isEmpty then .ok (acc, off) else
    match readTag data with
    | none => .err
    | some (wt, idx, n) =>
      match rd idx wt (data.drop n) acc with
      | .ok (acc', m) => structLoop rd fuel (data.drop (n + m)) (off + (n + m)) acc'
      | .err => .err | .panic => .panic | .hang => .hang

/-- the element loop of `WTLengthSliceWrapper.Read`: `count` entries, each a
varint length then the element. -/
def elemLoop (rd : Bytes → Res (Val × Nat)) : (count : Nat) → Bytes → Res (List Val × Nat)
  | 0, _ => .ok ([], 0)
  | c+1, data =>
    match readU data with
    | none => .err
    | some (s, n) =>
      if s > (data.drop n).length then .err else
      match rd ((data.drop n).take s) with
      | .ok (v, m) =>
        (match elemLoop rd c (data.drop (n + m)) with
         | .ok (vs, k) => .ok (v :: vs, (n + m) + k)
         | .err => .err | .panic => .panic | .hang => .hang)
      | .err => .err | .panic => .panic | .hang => .hang

/-- first pass of `WTVarIntSliceWrapper.Read`: count the varints, rejecting a
malformed or truncated one. -/
def countVarints : (fuel : Nat) → Bytes → Nat → Res Nat
  | 0, _, _ => .hang
  | fuel+1, data, count =>
    if data.isEmpty then .ok count else
    match readU data with
    | none => .err
    | some (_, n) => countVarints fuel (data.drop n) (count + 1)

/-- second pass of the packed readers: `count` elements read back to back from
the rest of the data. -/
def readN (rd : Bytes → Res (Val × Nat)) : (count : Nat) → Bytes → Res (List Val × Nat)
  | 0, _ => .ok ([], 0)
  | c+1, data =>
    match rd data with
    | .ok (v, m) =>
      (match readN rd c (data.drop m) with
       | .ok (vs, k) => .ok (v :: vs, m + k)
       | .err => .err | .panic => .panic | .hang => .hang)
    | .err => .err | .panic => .panic | .hang => .hang

/-- the entry loop of `MapCodec.Read`. -/
def mapLoop (rdEntry : Bytes → List (Val × Val) → Res (List (Val × Val) × Nat)) :
    (count : Nat) → Bytes → Nat → List (Val × Val) → Res (List (Val × Val) × Nat)
  | 0, _, off, es => .ok (es, off)
  | c+1, data, off, es =>
    match readU data with
    | none => .err
    | some (el, n) =>
      if el > (data.drop n).length then .err else
      match rdEntry ((data.drop n).take el) es with
      | .ok (es', m) => mapLoop rdEntry c (data.drop (n + m)) (off + (n + m)) es'
      | .err => .err | .panic => .panic | .hang => .hang

/-- `MapCodec.readTagAndLength` on the rest of an entry: returns
`(wt, index, consumed, fieldLen)`, the field occupying `fieldLen` bytes after
`consumed`. -/
def readTagAndLength (d : Bytes) : Option (WT × Nat × Nat × Nat) :=
  let (wt, idx, n) := readTagRaw d
  if n < 0 then none else
  let n := n.toNat
  if wt = .len then
    match readU (d.drop n) with
    | none => none
    | some (fl, m) =>
      if fl > (d.drop (n + m)).length then none else some (wt, idx, n + m, fl)
  else some (wt, idx, n, (d.drop n).length)

/-- `MapCodec.readMapEntry`, parameterised by the key and value readers. -/
def readMapEntry (rdK : WT → Bytes → Res (Val × Nat)) (rdV : WT → Bytes → Val → Res (Val × Nat))
    (kz vz : Val) (d : Bytes) (es : List (Val × Val)) : Res (List (Val × Val) × Nat) :=
  match readTagAndLength d with
  | none => .err
  | some (wt, idx, off, fl) =>
    let keyR : Res (Val × Nat) :=
      if idx = 1 then
        (match rdK wt ((d.drop off).take fl) with
         | .ok (k, n) => .ok (k, off + n)
         | .err => .err | .panic => .panic | .hang => .hang)
      else .ok (kz, off)
    match keyR with
    | .ok (k, off) =>
      let slot := (mapLookup k es).getD vz
      if off < d.length ∨ idx = 2 then
        if idx = 1 then
          match readTagAndLength (d.drop off) with
          | none => .err
          | some (wt2, _, off2, fl2) =>
            (match rdV wt2 ((d.drop (off + off2)).take fl2) slot with
             | .ok (v, n) => .ok (mapSet k v es, (off + off2) + n)
             | .err => .err | .panic => .panic | .hang => .hang)
        else
          (match rdV wt ((d.drop off).take fl) slot with
           | .ok (v, n) => .ok (mapSet k v es, off + n)
           | .err => .err | .panic => .panic | .hang => .hang)
      else .ok (mapSet k vz es, off)
    | .err => .err | .panic => .panic | .hang => .hang

/-- `TimeCodec.Read` / `TimeCompatCodec.Read` field handler: index 1 seconds,
index 2 nanoseconds, anything else skipped. `acc = [sec, nsec]` as `Val.int`. -/
def timeField (compat : Bool) (idx : Nat) (wt : WT) (body : Bytes) (acc : List Val) :
    Res (List Val × Nat) :=
  match acc with
  | [.int s, .int ns] =>
    if idx = 1 then
      let r := readVarUint body
      if r.2 < 0 then .err
      else .ok ([.int (if compat then wrapS 64 r.1 else wrapS 64 (zagZig r.1)), .int ns], r.2.toNat)
    else if idx = 2 then
      let r := readVarUint body
      if r.2 < 0 then .err
      else .ok ([.int s, .int (if compat then wrapS 32 r.1 else wrapS 32 (zagZig r.1))], r.2.toNat)
    else
      match skip body wt with
      | .ok n => .ok (acc, n)
      | .err => .err | .panic => .panic | .hang => .hang
  | _ => .panic

mutual
/-- `Codec.Read(data, ptr, wt)`; `p` is the prior value of the target. Returns
the new value and the number of bytes consumed. -/
def Ty.read : Ty → WT → Bytes → Val → Res (Val × Nat)
  | .bool, _, d, _ =>
      let r := readVarUint d
      if r.2 < 0 then .err else .ok (.bool (r.1 != 0), r.2.toNat)
  | .int w, _, d, _ =>
      let r := readVarUint d
      if r.2 < 0 then .err else .ok (.int (wrapS w (zagZig r.1)), r.2.toNat)
  | .uint w, _, d, _ =>
      let r := readVarUint d
      if r.2 < 0 then .err else .ok (.uint (wrapU w r.1), r.2.toNat)
  | .flat w, _, d, _ =>
      let r := readVarUint d
      if r.2 < 0 then .err else .ok (.int (wrapS w r.1), r.2.toNat)
  | .f32, _, d, _ =>
      if d.length < 4 then (if d.isEmpty then .ok (.f32 0, 0) else .err)
      else .ok (.f32 (leVal (d.take 4)), 4)
  | .f64, _, d, _ =>
      if d.length < 8 then (if d.isEmpty then .ok (.f64 0, 0) else .err)
      else .ok (.f64 (leVal (d.take 8)), 8)
  | .str _, _, d, _ => .ok (.str d, d.length)
  | .bytes, _, d, _ => .ok (.bytes d, d.length)
  | .time c, _, d, _ =>
      if d.isEmpty then .ok (.time zeroTimeSec 0, 0) else
      match structLoop (timeField c) (d.length + 1) d 0 [.int 0, .int 0] with
      | .ok ([.int s, .int ns], n) => .ok (timeNorm s ns, n)
      | .ok _ => .panic
      | .err => .err | .panic => .panic | .hang => .hang
  | .ptr t, wt, d, p =>
      let prior := match p with | .ptr (some x) => x | _ => t.zero
      match t.read wt d prior with
      | .ok (v, n) => .ok (.ptr (some v), n)
      | .err => .err | .panic => .panic | .hang => .hang
  | .vslice t, _, d, _ =>
      match countVarints (d.length + 1) d 0 with
      | .ok count =>
        (match readN (fun b => t.read .varint b t.zero) count d with
         | .ok (vs, n) => .ok (.slice vs, n)
         | .err => .err | .panic => .panic | .hang => .hang)
      | .err => .err | .panic => .panic | .hang => .hang
  | .fslice t, _, d, _ =>
      let sz := t.size t.zero []
      if sz = 0 then .panic else          -- integer divide by zero
      match readN (fun b => t.read t.wt b t.zero) (d.length / sz) d with
      | .ok (vs, n) => .ok (.slice vs, n)
      | .err => .err | .panic => .panic | .hang => .hang
  | .lslice t, wt, d, p =>
      if wt = .len then
        -- readAsWTLength: protobuf repeated-field form, one element appended
        let prior := match p with | .slice vs => vs | _ => []
        match t.read .len d t.zero with
        | .ok (v, n) => .ok (.slice (prior ++ [v]), n)
        | .err => .err | .panic => .panic | .hang => .hang
      else
        let r := readVarUint d
        if r.2 < 0 then .err else
        let n := r.2.toNat
        if r.1 > d.length - n then .err else
        match elemLoop (fun b => t.read .len b t.zero) r.1 (d.drop n) with
        | .ok (vs, k) => .ok (.slice vs, n + k)
        | .err => .err | .panic => .panic | .hang => .hang
  | .pslice t, _, d, p =>
      let prior := match p with | .slice vs => vs | _ => []
      match t.read .len d t.zero with
      | .ok (v, n) => .ok (.slice (prior ++ [v]), n)
      | .err => .err | .panic => .panic | .hang => .hang
  | .struct _ fs, _, d, p =>
      let prior := match p with | .struct vs => vs | _ => zeros fs
      match structLoop (fun idx wt body acc => readField fs acc idx wt body) (d.length + 1) d 0 prior with
      | .ok (vs, n) => .ok (.struct vs, n)
      | .err => .err | .panic => .panic | .hang => .hang
  | .map k v false, _, d, p =>
      if d.isEmpty then .ok (p, 0) else
      match readU d with
      | none => .err
      | some (count, n) =>
        if count > d.length - n then .err else
        let prior := match p with | .map (some es) => es | _ => []
        match mapLoop (readMapEntry (fun wt b => k.read wt b k.zero) (fun wt b s => v.read wt b s) k.zero v.zero)
                count (d.drop n) n prior with
        | .ok (es, off) => .ok (.map (some es), off)
        | .err => .err | .panic => .panic | .hang => .hang
  | .map k v true, _, d, p =>
      let prior := match p with | .map (some es) => es | _ => []
      match readMapEntry (fun wt b => k.read wt b k.zero) (fun wt b s => v.read wt b s) k.zero v.zero d prior with
      | .ok (es, n) => .ok (.map (some es), n)
      | .err => .err | .panic => .panic | .hang => .hang
/-- body of the `StructCodec.Read` loop after the tag: find the field, frame a
WTLength payload, read it into that field of the accumulator; unknown index ⇒ `Skip`. -/
def readField : Fields → List Val → Nat → WT → Bytes → Res (List Val × Nat)
  | [], _, _, wt, body =>
      match skip body wt with
      | .ok n => .ok ([], n)
      | .err => .err | .panic => .panic | .hang => .hang
  | (i, _, t) :: r, a :: as, idx, wt, body =>
      if i = idx then
        if wt = .len then
          match readU body with
          | none => .err
          | some (l, n) =>
            if l > (body.drop n).length then .err else
            Res.addN n (Res.mapFst (· :: as) (t.read wt ((body.drop n).take l) a))
        else
          Res.mapFst (· :: as) (t.read wt body a)
      else
        Res.mapFst (a :: ·) (readField r as idx wt body)
  | _ :: _, [], _, _, _ => .panic
end

/-! ### top level: marshal.go -/

/-- `Plenc.Marshal(buf, v)`: `Omit → return nil, nil` is the D03 behaviour the
repaired code no longer has; the model follows the repaired code: the result is
`buf ++ encoding`. -/
def marshal (t : Ty) (v : Val) : Bytes :=
  if v.omit then [] else t.app v []

/-- `Plenc.Unmarshal(data, &target)`. -/
def unmarshal (t : Ty) (d : Bytes) (prior : Val) : Res Val :=
  match t.read t.wt d prior with
  | .ok (v, _) => .ok v
  | .err => .err | .panic => .panic | .hang => .hang
