import Plenc.Varint
/-
  Plenc.Wire — plenccore/wire.go: wire types, tags, Skip.
-/

/-- `plenccore.WireType` code points. The numeric values are pinned to the
source by `Gen/Tie.lean`. -/
inductive WT where
  | varint   -- 0
  | w64      -- 1
  | len      -- 2
  | slice    -- 3 (plenc's WTSlice, re-using StartGroup)
  | endGroup -- 4 (wtEndGroupDeprecated: never produced)
  | w32      -- 5
  | bad6 | bad7  -- the two remaining 3-bit codes; no named constant
deriving DecidableEq, Repr

def WT.code : WT → Nat
  | .varint => 0 | .w64 => 1 | .len => 2 | .slice => 3 | .endGroup => 4 | .w32 => 5
  | .bad6 => 6 | .bad7 => 7

def WT.ofCode (c : Nat) : WT :=
  match c % 8 with
  | 0 => .varint | 1 => .w64 | 2 => .len | 3 => .slice | 4 => .endGroup | 5 => .w32
  | 6 => .bad6 | _ => .bad7

/-- `AppendTag`: `AppendVarUint(data, uint64(index<<3) | uint64(wt))` for a
non-negative index (negative indexes are rejected by the builder). -/
def appendTag (wt : WT) (index : Nat) : Bytes :=
  appendVarUint ((index * 8 + wt.code) % 2 ^ 64)

def sizeTag (wt : WT) (index : Nat) : Nat :=
  sizeVarUint ((index * 8 + wt.code) % 2 ^ 64)

/-- `ReadTag` with the caller-side check `n <= 0 → error` folded in
(every decode loop performs it; see struct.go, map.go, time.go, descriptor.go). -/
def readTag (d : Bytes) : Option (WT × Nat × Nat) :=
  match readU d with
  | none => none
  | some (v, n) => some (WT.ofCode (v % 8), v / 8, n)

/-- one step of the WTSlice loop of `Skip`: fuel-indexed over the count. -/
def skipEntries : (fuel : Nat) → (count : Nat) → Bytes → (offset : Nat) → Res Nat
  | 0, _, _, _ => .hang
  | fuel+1, count, d, offset =>
    if count = 0 then .ok offset else
    if offset ≥ d.length then .err else
    match readU (d.drop offset) with
    | none => .err
    | some (l, n) =>
      if l > d.length - offset - n then .err
      else skipEntries fuel (count - 1) d (offset + (l + n))

/-- first index `i` with `d[i] < 0x80`, failing once `i ≥ 9` bytes carried a
continuation bit, or when the tenth byte holds more than the top bit of a 64-bit
value (the WTVarInt arm of `Skip`). -/
def skipVarint : Bytes → (i : Nat) → Res Nat
  | [], _ => .err
  | b :: r, i =>
    if b.toNat < 128 then (if i = 9 ∧ b.toNat > 1 then .err else .ok (i + 1))   -- the tenth byte carries one bit
    else if i ≥ 9 then .err
    else skipVarint r (i + 1)

/-- `plenccore.Skip`. -/
def skip (d : Bytes) (wt : WT) : Res Nat :=
  match wt with
  | .varint => skipVarint d 0
  | .w64 => if d.length < 8 then .err else .ok 8
  | .w32 => if d.length < 4 then .err else .ok 4
  | .len =>
    match readU d with
    | none => .err
    | some (l, n) => if l > d.length - n then .err else .ok (l + n)
  | .slice =>
    match readU d with
    | none => .err
    | some (count, n) => skipEntries (d.length + 1) count d n
  | _ => .err
