import Plenc.Codec
/-
  Plenc.Alias — memory sharing between the caller's buffers and the values plenc
  hands back (C11), represented by provenance labels.

  SHARING OF MEMORY IS A RUNTIME FACT; A PURE MODEL CAN ONLY REPRESENT IT.
  In `Plenc/Codec.lean` a decoded string is a list of bytes: whether the Go
  string header points into the input buffer or at a private copy is invisible
  there.  Here every string and byte slice of a value (map keys included: keys
  are values) carries a label saying where its bytes live:
    `fresh`          a private allocation — what `string(data)` and
                     `append([]byte(nil), data...)` produce, they always copy;
    `view off len`   the header points into the caller's input buffer at
                     `[off, off+len)` — what a zero-copy conversion
                     (`unsafe.String(&data[0], len(data))`, `data[:n:n]`) produces.
  The labelled decoder `readLP` is `Ty.read` with the offset of the current
  sub-slice inside the caller's buffer threaded through (`base`), and with one
  decision per LEAF READER taken from a `Policy`: which label that Go expression
  produces.  `goPolicy` is the classification of the copy sites of the Go code
  (read from the source, see below); `readL` is `readLP goPolicy`.
  `observe buf lv` is what a reader of the decoded value sees while the caller's
  buffer holds `buf`: a `view` leaf reads through to the buffer, a `fresh` leaf
  keeps its bytes.  The theorems (Props/C11.lean) say that under `goPolicy`
  every label of a decoded value is `fresh`, hence `observe` does not depend on
  the buffer.  They say nothing about the Go code unless the labels are right:
  the correspondence harness validates the labels by overwriting the input
  buffer after `Unmarshal` and re-reading every string / []byte / map key
  (op `alias`); the model predicts "unchanged" from the labels.

  Copy sites (plenccodec/string.go, map.go, wrapper.go, time.go, int.go, …):
    StringCodec.Read           `*(*string)(ptr) = string(data)`              copy  → fresh
    BytesCodec.Read            `append([]byte(nil), data...)`                copy  → fresh
    InternedStringCodec.Read   `s, ok := m[string(data)]` hit: the table's
                               string; miss: `s = string(data); m2[s] = s`   copy  → fresh
                               (the table only ever holds copies: C19 `interned_private`)
    numbers, bools, floats, times    decoded into the target by value: no memory
    MapCodec.readMapEntry      the key is read into a scratch key `k`
                               (`typedmemclr` + `keyCodec.Read`), `mapassign`
                               copies the key HEADER into the map when the key
                               is new, so a key's strings are whatever the key
                               codec's leaf readers produced            → fresh
    zero values (`kZero`, `vZero`, nil-slot pointers, omitted fields)  no input memory
    slices / structs / pointers / maps    containers allocated by the wrapper
                               (`reflect`/`unsafe_New`/`MakeMap`): their own
                               backing store is never the input buffer; only
                               their leaves can share.

  The encoder side is by construction (see `marshalInto`, `marshalCall`).

  Core Lean only, total, computable.
-/
namespace Alias

/-- where the bytes of a string / byte slice live. -/
inductive Prov where
  | fresh
  | view (off len : Nat)
deriving Repr, DecidableEq

/-- `Val` with a label on every string and byte slice. -/
inductive LVal where
  | bool (b : Bool)
  | int (i : Int)
  | uint (n : Nat)
  | f32 (bits : Nat)
  | f64 (bits : Nat)
  | str (s : Bytes) (p : Prov)
  | bytes (s : Bytes) (p : Prov)
  | time (sec : Int) (nsec : Nat)
  | ptr (o : Option LVal)
  | slice (vs : List LVal)
  | struct (vs : List LVal)
  | map (o : Option (List (LVal × LVal)))
deriving Repr

mutual
/-- forget the labels. -/
def erase : LVal → Val
  | .bool b => .bool b
  | .int i => .int i
  | .uint n => .uint n
  | .f32 b => .f32 b
  | .f64 b => .f64 b
  | .str s _ => .str s
  | .bytes s _ => .bytes s
  | .time s n => .time s n
  | .ptr none => .ptr none
  | .ptr (some v) => .ptr (some (erase v))
  | .slice vs => .slice (eraseList vs)
  | .struct vs => .struct (eraseList vs)
  | .map none => .map none
  | .map (some es) => .map (some (eraseEntries es))
def eraseList : List LVal → List Val
  | [] => []
  | v :: r => erase v :: eraseList r
def eraseEntries : List (LVal × LVal) → List (Val × Val)
  | [] => []
  | (k, v) :: r => (erase k, erase v) :: eraseEntries r
end

mutual
/-- a value that owns all its memory (zero values, values built by the caller). -/
def lift : Val → LVal
  | .bool b => .bool b
  | .int i => .int i
  | .uint n => .uint n
  | .f32 b => .f32 b
  | .f64 b => .f64 b
  | .str s => .str s .fresh
  | .bytes s => .bytes s .fresh
  | .time s n => .time s n
  | .ptr none => .ptr none
  | .ptr (some v) => .ptr (some (lift v))
  | .slice vs => .slice (liftList vs)
  | .struct vs => .struct (liftList vs)
  | .map none => .map none
  | .map (some es) => .map (some (liftEntries es))
def liftList : List Val → List LVal
  | [] => []
  | v :: r => lift v :: liftList r
def liftEntries : List (Val × Val) → List (LVal × LVal)
  | [] => []
  | (k, v) :: r => (lift k, lift v) :: liftEntries r
end

mutual
/-- every label of the value satisfies `Q`. -/
def allQ (Q : Prov → Prop) : LVal → Prop
  | .str _ p => Q p
  | .bytes _ p => Q p
  | .ptr (some v) => allQ Q v
  | .slice vs => allQL Q vs
  | .struct vs => allQL Q vs
  | .map (some es) => allQE Q es
  | _ => True
def allQL (Q : Prov → Prop) : List LVal → Prop
  | [] => True
  | v :: r => allQ Q v ∧ allQL Q r
def allQE (Q : Prov → Prop) : List (LVal × LVal) → Prop
  | [] => True
  | (k, v) :: r => allQ Q k ∧ allQ Q v ∧ allQE Q r
end

/-- no string, byte slice or map key of the value shares memory with the input buffer. -/
def allFresh (lv : LVal) : Prop := allQ (· = .fresh) lv

/-- the bytes a reader of the leaf sees while the input buffer holds `buf`. -/
def Prov.read (p : Prov) (buf : Bytes) (s : Bytes) : Bytes :=
  match p with
  | .fresh => s
  | .view off len => (buf.drop off).take len

mutual
/-- what a reader of the value sees while the caller's input buffer holds `buf`. -/
def observe (buf : Bytes) : LVal → Val
  | .bool b => .bool b
  | .int i => .int i
  | .uint n => .uint n
  | .f32 b => .f32 b
  | .f64 b => .f64 b
  | .str s p => .str (p.read buf s)
  | .bytes s p => .bytes (p.read buf s)
  | .time s n => .time s n
  | .ptr none => .ptr none
  | .ptr (some v) => .ptr (some (observe buf v))
  | .slice vs => .slice (observeList buf vs)
  | .struct vs => .struct (observeList buf vs)
  | .map none => .map none
  | .map (some es) => .map (some (observeEntries buf es))
def observeList (buf : Bytes) : List LVal → List Val
  | [] => []
  | v :: r => observe buf v :: observeList buf r
def observeEntries (buf : Bytes) : List (LVal × LVal) → List (Val × Val)
  | [] => []
  | (k, v) :: r => (observe buf k, observe buf v) :: observeEntries buf r
end

/-! ### the leaf policy -/

/-- which label each leaf reader gives the bytes `data = buf[off : off+len]` it is handed. -/
structure Policy where
  /-- `StringCodec.Read` -/
  str : (off len : Nat) → Prov
  /-- `InternedStringCodec.Read` -/
  istr : (off len : Nat) → Prov
  /-- `BytesCodec.Read` -/
  bytes : (off len : Nat) → Prov

/-- the Go code: every leaf reader copies. -/
def goPolicy : Policy := ⟨fun _ _ => .fresh, fun _ _ => .fresh, fun _ _ => .fresh⟩

/-- a hypothetical "optimised" `StringCodec.Read`: `*(*string)(ptr) =
unsafe.String(&data[0], len(data))`. Everything else as in the Go code. -/
def zeroCopyStrings : Policy := ⟨fun off len => .view off len, fun _ _ => .fresh, fun _ _ => .fresh⟩

/-! ### the labelled decoder

Every definition below is its namesake of `Plenc/Codec.lean` with `LVal` for
`Val` and the extra argument `base`: the offset, inside the caller's buffer, of
the byte slice the function is given.  Wherever the original passes on
`data.drop n` the labelled one passes on `base + n`. -/

def ptrPriorL (z : LVal) : LVal → LVal
  | .ptr (some x) => x
  | _ => z

def slicePriorL : LVal → List LVal
  | .slice vs => vs
  | _ => []

def structPriorL (zs : List LVal) : LVal → List LVal
  | .struct vs => vs
  | _ => zs

def mapPriorL : LVal → List (LVal × LVal)
  | .map (some es) => es
  | _ => []

/-- `mapLookup`: Go's `==` on keys compares contents, not addresses. -/
def mapLookupL (k : Val) : List (LVal × LVal) → Option LVal
  | [] => none
  | (k', v) :: r => if (erase k').beq k then some v else mapLookupL k r

/-- `mapSet` (`mapassign`): an existing key keeps ITS key (and that key's
memory); a new key is stored as read. -/
def mapSetL (k v : LVal) : List (LVal × LVal) → List (LVal × LVal)
  | [] => [(k, v)]
  | (k', v') :: r => if (erase k').beq (erase k) then (k', v) :: r else (k', v') :: mapSetL k v r

def structLoopL (rd : Nat → WT → Nat → Bytes → List LVal → Res (List LVal × Nat)) :
    (fuel : Nat) → (base : Nat) → Bytes → Nat → List LVal → Res (List LVal × Nat)
  | 0, _, _, _, _ => .hang
  | fuel+1, base, data, off, acc =>
    if data.isEmpty then .ok (acc, off) else
    match readTag data with
    | none => .err
    | some (wt, idx, n) =>
      match rd idx wt (base + n) (data.drop n) acc with
      | .ok (acc', m) =>
        structLoopL rd fuel (base + (n + m)) (data.drop (n + m)) (off + (n + m)) acc'
      | .err => .err | .panic => .panic | .hang => .hang

def elemLoopL (rd : Nat → Bytes → Res (LVal × Nat)) :
    (count : Nat) → (base : Nat) → Bytes → Res (List LVal × Nat)
  | 0, _, _ => .ok ([], 0)
  | c+1, base, data =>
    match readU data with
    | none => .err
    | some (s, n) =>
      if s > (data.drop n).length then .err else
      match rd (base + n) ((data.drop n).take s) with
      | .ok (v, m) =>
        (match elemLoopL rd c (base + (n + m)) (data.drop (n + m)) with
         | .ok (vs, k) => .ok (v :: vs, (n + m) + k)
         | .err => .err | .panic => .panic | .hang => .hang)
      | .err => .err | .panic => .panic | .hang => .hang

def readNL (rd : Nat → Bytes → Res (LVal × Nat)) :
    (count : Nat) → (base : Nat) → Bytes → Res (List LVal × Nat)
  | 0, _, _ => .ok ([], 0)
  | c+1, base, data =>
    match rd base data with
    | .ok (v, m) =>
      (match readNL rd c (base + m) (data.drop m) with
       | .ok (vs, k) => .ok (v :: vs, m + k)
       | .err => .err | .panic => .panic | .hang => .hang)
    | .err => .err | .panic => .panic | .hang => .hang

def mapLoopL (rdEntry : Nat → Bytes → List (LVal × LVal) → Res (List (LVal × LVal) × Nat)) :
    (count : Nat) → (base : Nat) → Bytes → Nat → List (LVal × LVal) → Res (List (LVal × LVal) × Nat)
  | 0, _, _, off, es => .ok (es, off)
  | c+1, base, data, off, es =>
    match readU data with
    | none => .err
    | some (el, n) =>
      if el > (data.drop n).length then .err else
      match rdEntry (base + n) ((data.drop n).take el) es with
      | .ok (es', m) => mapLoopL rdEntry c (base + (n + m)) (data.drop (n + m)) (off + (n + m)) es'
      | .err => .err | .panic => .panic | .hang => .hang

def readMapEntryL (rdK : WT → Nat → Bytes → Res (LVal × Nat))
    (rdV : WT → Nat → Bytes → LVal → Res (LVal × Nat))
    (kz vz : LVal) (base : Nat) (d : Bytes) (es : List (LVal × LVal)) :
    Res (List (LVal × LVal) × Nat) :=
  match readTagAndLength d with
  | none => .err
  | some (wt, idx, off, fl) =>
    let keyR : Res (LVal × Nat) :=
      if idx = 1 then
        (match rdK wt (base + off) ((d.drop off).take fl) with
         | .ok (k, n) => .ok (k, off + n)
         | .err => .err | .panic => .panic | .hang => .hang)
      else .ok (kz, off)
    match keyR with
    | .ok (k, off) =>
      let slot := (mapLookupL (erase k) es).getD vz
      if off < d.length ∨ idx = 2 then
        if idx = 1 then
          match readTagAndLength (d.drop off) with
          | none => .err
          | some (wt2, _, off2, fl2) =>
            (match rdV wt2 (base + (off + off2)) ((d.drop (off + off2)).take fl2) slot with
             | .ok (v, n) => .ok (mapSetL k v es, (off + off2) + n)
             | .err => .err | .panic => .panic | .hang => .hang)
        else
          (match rdV wt (base + off) ((d.drop off).take fl) slot with
           | .ok (v, n) => .ok (mapSetL k v es, off + n)
           | .err => .err | .panic => .panic | .hang => .hang)
      else .ok (mapSetL k vz es, off)
    | .err => .err | .panic => .panic | .hang => .hang

mutual
/-- `Codec.Read(data, ptr, wt)` where `data = buf[base : base+len(data)]`; `p` is
the prior value of the target. The leaves that carry no memory (numbers, bools,
times) are read by the model decoder itself. -/
def readLP (pol : Policy) : Ty → WT → (base : Nat) → Bytes → LVal → Res (LVal × Nat)
  | .bool, wt, _, d, _ => Res.mapFst lift (Ty.read .bool wt d (.bool false))
  | .int w, wt, _, d, _ => Res.mapFst lift (Ty.read (.int w) wt d (.bool false))
  | .uint w, wt, _, d, _ => Res.mapFst lift (Ty.read (.uint w) wt d (.bool false))
  | .flat w, wt, _, d, _ => Res.mapFst lift (Ty.read (.flat w) wt d (.bool false))
  | .f32, wt, _, d, _ => Res.mapFst lift (Ty.read .f32 wt d (.bool false))
  | .f64, wt, _, d, _ => Res.mapFst lift (Ty.read .f64 wt d (.bool false))
  | .str false, _, base, d, _ => .ok (.str d (pol.str base d.length), d.length)
  | .str true, _, base, d, _ => .ok (.str d (pol.istr base d.length), d.length)
  | .bytes, _, base, d, _ => .ok (.bytes d (pol.bytes base d.length), d.length)
  | .time c, wt, _, d, _ => Res.mapFst lift (Ty.read (.time c) wt d (.bool false))
  | .ptr t, wt, base, d, p =>
      match readLP pol t wt base d (ptrPriorL (lift t.zero) p) with
      | .ok (v, n) => .ok (.ptr (some v), n)
      | .err => .err | .panic => .panic | .hang => .hang
  | .vslice t, _, base, d, _ =>
      match countVarints (d.length + 1) d 0 with
      | .ok count =>
        (match readNL (fun b x => readLP pol t .varint b x (lift t.zero)) count base d with
         | .ok (vs, n) => .ok (.slice vs, n)
         | .err => .err | .panic => .panic | .hang => .hang)
      | .err => .err | .panic => .panic | .hang => .hang
  | .fslice t, _, base, d, _ =>
      let sz := t.size t.zero []
      if sz = 0 then .panic else
      match readNL (fun b x => readLP pol t t.wt b x (lift t.zero)) (d.length / sz) base d with
      | .ok (vs, n) => .ok (.slice vs, n)
      | .err => .err | .panic => .panic | .hang => .hang
  | .lslice t, wt, base, d, p =>
      if wt = .len then
        match readLP pol t .len base d (lift t.zero) with
        | .ok (v, n) => .ok (.slice (slicePriorL p ++ [v]), n)
        | .err => .err | .panic => .panic | .hang => .hang
      else
        let r := readVarUint d
        if r.2 < 0 then .err else
        let n := r.2.toNat
        if r.1 > d.length - n then .err else
        match elemLoopL (fun b x => readLP pol t .len b x (lift t.zero)) r.1 (base + n) (d.drop n) with
        | .ok (vs, k) => .ok (.slice vs, n + k)
        | .err => .err | .panic => .panic | .hang => .hang
  | .pslice t, _, base, d, p =>
      match readLP pol t .len base d (lift t.zero) with
      | .ok (v, n) => .ok (.slice (slicePriorL p ++ [v]), n)
      | .err => .err | .panic => .panic | .hang => .hang
  | .struct _ fs, _, base, d, p =>
      match structLoopL (fun idx wt b body acc => readFieldL pol fs acc idx wt b body)
              (d.length + 1) base d 0 (structPriorL (liftList (zeros fs)) p) with
      | .ok (vs, n) => .ok (.struct vs, n)
      | .err => .err | .panic => .panic | .hang => .hang
  | .map k v false, _, base, d, p =>
      if d.isEmpty then .ok (p, 0) else
      match readU d with
      | none => .err
      | some (count, n) =>
        if count > d.length - n then .err else
        match mapLoopL (readMapEntryL (fun wt b x => readLP pol k wt b x (lift k.zero))
                          (fun wt b x s => readLP pol v wt b x s) (lift k.zero) (lift v.zero))
                count (base + n) (d.drop n) n (mapPriorL p) with
        | .ok (es, off) => .ok (.map (some es), off)
        | .err => .err | .panic => .panic | .hang => .hang
  | .map k v true, _, base, d, p =>
      match readMapEntryL (fun wt b x => readLP pol k wt b x (lift k.zero))
              (fun wt b x s => readLP pol v wt b x s) (lift k.zero) (lift v.zero) base d (mapPriorL p) with
      | .ok (es, n) => .ok (.map (some es), n)
      | .err => .err | .panic => .panic | .hang => .hang
/-- `readField` with offsets. -/
def readFieldL (pol : Policy) : Fields → List LVal → Nat → WT → (base : Nat) → Bytes → Res (List LVal × Nat)
  | [], _, _, wt, _, body =>
      match skip body wt with
      | .ok n => .ok ([], n)
      | .err => .err | .panic => .panic | .hang => .hang
  | (i, _, t) :: r, a :: as, idx, wt, base, body =>
      if i = idx then
        if wt = .len then
          match readU body with
          | none => .err
          | some (l, n) =>
            if l > (body.drop n).length then .err else
            Res.addN n (Res.mapFst (· :: as) (readLP pol t wt (base + n) ((body.drop n).take l) a))
        else
          Res.mapFst (· :: as) (readLP pol t wt base body a)
      else
        Res.mapFst (a :: ·) (readFieldL pol r as idx wt base body)
  | _ :: _, [], _, _, _, _ => .panic
end

/-- the labelled decoder of the Go code. -/
def readL (t : Ty) (wt : WT) (base : Nat) (d : Bytes) (p : LVal) : Res (LVal × Nat) :=
  readLP goPolicy t wt base d p

/-- `Plenc.Unmarshal(data, &target)`: the codec reads the whole buffer (`base = 0`). -/
def unmarshalLP (pol : Policy) (t : Ty) (d : Bytes) (prior : LVal) : Res LVal :=
  match readLP pol t t.wt 0 d prior with
  | .ok (v, _) => .ok v
  | .err => .err | .panic => .panic | .hang => .hang

def unmarshalL (t : Ty) (d : Bytes) (prior : LVal) : Res LVal := unmarshalLP goPolicy t d prior

/-- the call as the caller sees it: the result and the input buffer afterwards.
No `Read` method stores through `data` (they only index and re-slice it); in
the model the buffer is an argument and is returned as it came — by construction. -/
def unmarshalCall (t : Ty) (d : Bytes) (prior : LVal) : Res LVal × Bytes := (unmarshalL t d prior, d)

/-! ### the encoder side — by construction

`Plenc.Marshal(buf, v)` returns `buf` itself when the value is omitted, and
otherwise `c.Append(buf, ptr, nil)` (after `buf = make([]byte, 0, size)` when
`buf == nil`).  Every `Append` method only ever does `append(data, …)`: with
bytes it computes (varints, tags, floats) or with `s...` — a copy of the
contents of a string / byte slice of the value into `data`'s backing array (or
into the new array `append` allocates when the capacity is exhausted).  No
method returns a slice of the value and none stores through `ptr`.  In the
model that is simply the shape of `marshal`: a function from the value to the
list of bytes appended. -/

/-- `Plenc.Marshal(buf, v)`. -/
def marshalInto (buf : Bytes) (t : Ty) (v : Val) : Bytes := buf ++ marshal t v

/-- bytes returned by `Marshal`, labelled with where they live: `fresh` = in the
destination buffer's backing array or in an array allocated by `append`/`make`
during the call — never inside the value. The label is a constant: that is the
classification "every `Append` copies", not something the model derives. -/
def marshalL (buf : Bytes) (t : Ty) (v : LVal) : Bytes × Prov := (marshalInto buf t (erase v), .fresh)

/-- the call as the caller sees it: returned bytes, and the value afterwards. -/
def marshalCall (buf : Bytes) (t : Ty) (v : LVal) : Bytes × LVal := (marshalInto buf t (erase v), v)

end Alias
