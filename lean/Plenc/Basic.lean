/-
  Plenc.Basic — bytes, outcomes and the Go integer conversions used by the model.

  Everything under `Plenc/` is core Lean only (no Mathlib) and total/computable,
  so that `Driver/Main.lean` links as a native executable.
-/

abbrev Bytes := List UInt8

/-- Outcome of a model operation.  `panic` is produced only where the Go code
would panic (slice bounds, nil dereference, makeslice), `hang` only by a loop
combinator whose fuel ran out (the place where the Go code would spin). The
totality theorems show both unreachable. Error messages are not modelled. -/
inductive Res (α : Type) where
  | ok (a : α)
  | err
  | panic
  | hang
deriving Repr, DecidableEq

namespace Res

def isOk {α} : Res α → Bool | .ok _ => true | _ => false
def isErr {α} : Res α → Bool | .err => true | _ => false
/-- "fine": a value or an error — never a panic, never a hang. -/
def fine {α} : Res α → Prop | .ok _ => True | .err => True | _ => False

instance {α} (r : Res α) : Decidable r.fine := by
  cases r <;> simp [fine] <;> infer_instance

def bind {α β} (r : Res α) (f : α → Res β) : Res β :=
  match r with
  | .ok a => f a
  | .err => .err
  | .panic => .panic
  | .hang => .hang

def map {α β} (f : α → β) (r : Res α) : Res β :=
  match r with
  | .ok a => .ok (f a)
  | .err => .err
  | .panic => .panic
  | .hang => .hang

def mapFst {α β : Type} (f : α → β) : Res (α × Nat) → Res (β × Nat)
  | .ok (a, n) => .ok (f a, n) | .err => .err | .panic => .panic | .hang => .hang

def addN {α : Type} (k : Nat) : Res (α × Nat) → Res (α × Nat)
  | .ok (a, n) => .ok (a, k + n) | .err => .err | .panic => .panic | .hang => .hang

def cls {α} : Res α → String
  | .ok _ => "ok" | .err => "err" | .panic => "panic" | .hang => "hang"

end Res

/-- two's-complement reinterpretation of `x mod 2^w` as a signed `w`-bit integer
(Go's `intW(x)` conversion). -/
def wrapS (w : Nat) (x : Int) : Int :=
  let m := x % (2 ^ w : Int)
  if m < 2 ^ (w - 1) then m else m - 2 ^ w

/-- Go's `uintW(x)` conversion. -/
def wrapU (w : Nat) (x : Int) : Nat := (x % (2 ^ w : Int)).toNat

/-- little-endian fixed-width encoding of the low `8*n` bits. -/
def leBytes : (n : Nat) → Nat → Bytes
  | 0, _ => []
  | n+1, v => (v % 256).toUInt8 :: leBytes n (v / 256)

def leVal : Bytes → Nat
  | [] => 0
  | b :: r => b.toNat + 256 * leVal r

def hexDigit (n : Nat) : Char :=
  if n < 10 then Char.ofNat (48 + n) else Char.ofNat (87 + n)

def Bytes.toHex (b : Bytes) : String :=
  String.ofList (b.flatMap fun x => [hexDigit (x.toNat / 16), hexDigit (x.toNat % 16)])
