import Plenc.Codec
/-
  Plenc.Descriptor — plenccodec/descriptor.go: the schema descriptor every codec
  reports (`Codec.Descriptor()`), and the schema-less walker `Descriptor.Read`
  that decodes plenc data with nothing but a descriptor, driving an `Outputter`.

  * `FieldType`, `LogicalType`, `Desc` are the Go types `FieldType`,
    `LogicalType`, `Descriptor` (a finite tree: recursive Go types have no
    descriptor at all, finding D20).
  * `descriptor : Ty → Desc` is one arm per codec's `Descriptor()` method.
  * `descRead : Desc → Bytes → Res (List OCall × Nat)` is `Descriptor.read` with
    its helpers `readAsSlice`, `readAsStruct`, `readAsMapEntry`, `readAsJSON`,
    `readJSONObjectKV`, `writeZero`, `isValidJSONMap`, `isValidJSONMapEntry`,
    in the same Go-faithful style as `Plenc/Codec.lean`: `panic` where Go would
    panic (`d.Elements[0]` without elements), fuel-indexed loops giving `hang`
    where an iteration makes no progress.

  The outputter is abstract: a walk yields the list of `Outputter` calls with
  typed payloads (number / time *formatting* is the JSON outputter's business,
  property C15). The walker's `defer out.EndObject()` also runs on error paths,
  but an error is an outcome without output, so calls are modelled for `ok` only.
-/

/-! ### the descriptor -/

/-- `plenccodec.FieldType`, in declaration order. -/
inductive FieldType where
  | int | uint | float32 | float64 | string | slice | struct | bool | time
  | jsonObject | jsonArray | flatInt
deriving DecidableEq, Repr

/-- the iota value. -/
def FieldType.code : FieldType → Nat
  | .int => 0 | .uint => 1 | .float32 => 2 | .float64 => 3 | .string => 4 | .slice => 5
  | .struct => 6 | .bool => 7 | .time => 8 | .jsonObject => 9 | .jsonArray => 10 | .flatInt => 11

/-- `FieldType.String()` as generated in fieldtype_string.go. The generated file
is stale: it knows nine names, so the three later constants print numerically. -/
def FieldType.goString : FieldType → String
  | .int => "FieldTypeInt" | .uint => "FieldTypeUint" | .float32 => "FieldTypeFloat32"
  | .float64 => "FieldTypeFloat64" | .string => "FieldTypeString" | .slice => "FieldTypeSlice"
  | .struct => "FieldTypeStruct" | .bool => "FieldTypeBool" | .time => "FieldTypeTime"
  | .jsonObject => "FieldType(9)" | .jsonArray => "FieldType(10)" | .flatInt => "FieldType(11)"

/-- `plenccodec.LogicalType`, in declaration order. -/
inductive LogicalType where
  | none | timestamp | date | time | map | mapEntry
deriving DecidableEq, Repr

def LogicalType.code : LogicalType → Nat
  | .none => 0 | .timestamp => 1 | .date => 2 | .time => 3 | .map => 4 | .mapEntry => 5

/-- `plenccodec.Descriptor`. -/
structure Desc where
  index : Nat := 0
  name : String := ""
  type : FieldType
  typeName : String := ""
  elements : List Desc := []
  explicitPresence : Bool := false
  logicalType : LogicalType := .none
deriving Repr

/-- `MapCodec.Descriptor` from the key and value descriptors. The entry's type
name is built with `FieldType.String()` when a side has no type name. -/
def mapDesc (kd vd : Desc) : Desc :=
  let kn := if kd.typeName = "" then kd.type.goString else kd.typeName
  let vn := if vd.typeName = "" then vd.type.goString else vd.typeName
  { type := .slice, logicalType := .map,
    elements := [
      { type := .struct, logicalType := .mapEntry,
        typeName := "map_" ++ kn ++ "_" ++ vn,
        elements := [ { kd with index := 1, name := "key" }, { vd with index := 2, name := "value" } ] } ] }

mutual
/-- `Codec.Descriptor()`, one arm per codec type. -/
def descriptor : Ty → Desc
  | .bool => { type := .bool }
  | .int _ => { type := .int }
  | .uint _ => { type := .uint }
  | .flat _ => { type := .flatInt }
  | .f32 => { type := .float32 }
  | .f64 => { type := .float64 }
  | .str _ => { type := .string }                 -- InternedStringCodec embeds StringCodec
  | .bytes => { type := .string }
  | .time _ => { type := .time, logicalType := .timestamp }   -- TimeCompatCodec embeds TimeCodec
  | .ptr t => { descriptor t with explicitPresence := true }
  | .vslice t => { type := .slice, elements := [descriptor t] }      -- BaseSliceWrapper.Descriptor
  | .fslice t => { type := .slice, elements := [descriptor t] }
  | .lslice t => { type := .slice, elements := [descriptor t] }
  | .pslice t => { type := .slice, elements := [descriptor t] }
  | .struct n fs => { type := .struct, typeName := n, elements := fieldDescs fs }
  | .map k v _ => mapDesc (descriptor k) (descriptor v)               -- ProtoMapCodec embeds *MapCodec
/-- the loop of `StructCodec.Descriptor`: the field codec's descriptor with the
field's index and name. -/
def fieldDescs : Fields → List Desc
  | [] => []
  | (i, nm, t) :: r => { descriptor t with index := i, name := nm } :: fieldDescs r
end

/-! ### outputter calls -/

/-- one call on the `Outputter` interface, with its typed payload. Strings are
byte strings (Go strings); floats are their IEEE bit patterns. -/
inductive OCall where
  | startObj | endObj | startArr | endArr
  | name (raw : Bytes)
  | str (raw : Bytes)
  | int64 (v : Int)
  | uint64 (v : Nat)
  | f32 (bits : Nat)
  | f64 (bits : Nat)
  | bool (b : Bool)
  | time (sec : Int) (nsec : Nat)
  | raw (tok : Bytes)
deriving DecidableEq, Repr

/-- the bytes of a Go string constant. -/
def strBytes (s : String) : Bytes := s.toUTF8.data.toList

/-- `"null"`. -/
def nullTok : Bytes := [110, 117, 108, 108]

/-! ### validity of the map forms -/

/-- `isValidJSONMapEntry` on the three attributes it inspects. -/
def entryValid (ty : FieldType) (lt : LogicalType) (els : List Desc) : Bool :=
  ty == .struct && lt == .mapEntry && els.length == 2 &&
    (match els with | k :: _ => k.type == .string | [] => false)

def Desc.isValidJSONMapEntry (d : Desc) : Bool := entryValid d.type d.logicalType d.elements

/-- `isValidJSONMap` on the three attributes it inspects. -/
def mapValid (ty : FieldType) (lt : LogicalType) (els : List Desc) : Bool :=
  ty == .slice && lt == .map && els.length == 1 &&
    (match els with | e :: _ => e.isValidJSONMapEntry | [] => false)

def Desc.isValidJSONMap (d : Desc) : Bool := mapValid d.type d.logicalType d.elements

/-- `Descriptor.writeZero`: what a field of this type is when absent from the data. -/
def writeZero (d : Desc) : List OCall :=
  if d.explicitPresence then [.raw nullTok] else
  match d.type with
  | .int => [.int64 0]
  | .flatInt => if d.logicalType = .timestamp then [.time zeroTimeSec 0] else [.int64 0]
  | .uint => [.uint64 0]
  | .float32 => [.f32 0]
  | .float64 => [.f64 0]
  | .string => [.str []]
  | .bool => [.bool false]
  | .time => [.time zeroTimeSec 0]
  | .slice => if d.isValidJSONMap then [.startObj, .endObj] else [.startArr, .endArr]
  | .struct | .jsonObject => [.startObj, .endObj]
  | .jsonArray => [.startArr, .endArr]

/-! ### leaf reads

The walker reads every leaf with a fixed codec instance (`IntCodec[int64]`,
`UintCodec[uint64]`, `FlatIntCodec[uint64]` into an `int64`, `Float32Codec`,
`Float64Codec`, `StringCodec`, `BoolCodec`, `TimeCodec`): the model calls the
same `Ty.read` arms. -/

def leafCall : Val → Option OCall
  | .bool b => some (.bool b)
  | .int i => some (.int64 i)
  | .uint n => some (.uint64 n)
  | .f32 b => some (.f32 b)
  | .f64 b => some (.f64 b)
  | .str s => some (.str s)
  | .time s ns => some (.time s ns)
  | _ => none

/-- `n, err = C{}.Read(data, &v, wt); out.X(v)`. -/
def leafRead (t : Ty) (wt : WT) (d : Bytes) : Res (List OCall × Nat) :=
  match t.read wt d t.zero with
  | .ok (v, n) =>
    (match leafCall v with
     | some c => .ok ([c], n)
     | none => .panic)
  | .err => .err | .panic => .panic | .hang => .hang

/-- `BQTimestampCodec.Read` + `out.Time`: a flat int64 of microseconds,
`time.UnixMicro(ts).UTC()` observed through `Unix()` / `Nanosecond()`. -/
def bqRead (d : Bytes) : Res (List OCall × Nat) :=
  let r := readVarUint d
  if r.2 < 0 then .err else
  let ts := wrapS 64 r.1
  .ok ([.time (ts / 1000000) ((ts % 1000000).toNat * 1000)], r.2.toNat)

/-! ### loop combinators -/

/-- `for offset < l { wt, index, n := ReadTag(data[offset:]); …; offset += n }`:
the field loop shared by `readAsStruct`, `readAsMapEntry` and
`readJSONObjectKV`, over a loop state `σ`. `step idx wt rest st` handles one
field after its tag and returns the new state and what it consumed. -/
def walkLoop {σ : Type} (step : Nat → WT → Bytes → σ → Res (σ × Nat)) :
    (fuel : Nat) → Bytes → Nat → σ → Res (σ × Nat)
  | 0, _, _, _ => .hang
  | fuel+1, data, off, st =>
    if data.isEmpty then .ok (st, off) else
    match readTag data with
    | none => .err
    | some (wt, idx, n) =>
      match step idx wt (data.drop n) st with
      | .ok (st', m) => walkLoop step fuel (data.drop (n + m)) (off + (n + m)) st'
      | .err => .err | .panic => .panic | .hang => .hang

/-- the WTLength framing both field loops apply before reading a known field:
`fl := l; if wt == WTLength { v, n := ReadVarUint(..); … fl = v + offset }`
then `elt.read(out, data[offset:fl])`. -/
def framed (rd : Bytes → Res (List OCall × Nat)) (wt : WT) (body : Bytes) : Res (List OCall × Nat) :=
  if wt = .len then
    match readU body with
    | none => .err
    | some (l, n) =>
      if l > (body.drop n).length then .err else Res.addN n (rd ((body.drop n).take l))
  else rd body

/-- the packed arm of `readAsSlice`:
`for offset < len(data) { n, err := elt.read(out, data[offset:]); if n <= 0 { error }; offset += n }`.
(The `n <= 0` check is a repair: a truncated varint reads as zero bytes consumed
with no error, and the loop used to spin on it.) -/
def packedLoop (rd : Bytes → Res (List OCall × Nat)) :
    (fuel : Nat) → Bytes → Nat → List OCall → Res (List OCall × Nat)
  | 0, _, _, _ => .hang
  | fuel+1, data, off, acc =>
    if data.isEmpty then .ok (acc, off) else
    match rd data with
    | .ok (cs, n) =>
      if n = 0 then .err else packedLoop rd fuel (data.drop n) (off + n) (acc ++ cs)
    | .err => .err | .panic => .panic | .hang => .hang

/-- the counted arm of `readAsSlice` and the loop of `readAsJSON`: `count`
entries, each a varint length and that many bytes. `skipEmpty` is `readAsJSON`'s
`if s == 0 { continue }`. `data` is `data[offset:]`. -/
def countLoop (rd : Bytes → Res (List OCall × Nat)) (skipEmpty : Bool) :
    (count : Nat) → Bytes → Nat → List OCall → Res (List OCall × Nat)
  | 0, _, off, acc => .ok (acc, off)
  | c+1, data, off, acc =>
    if data.isEmpty then .err else            -- offset >= len(data)
    match readU data with
    | none => .err
    | some (s, n) =>
      if s > (data.drop n).length then .err else
      if skipEmpty && s == 0 then countLoop rd skipEmpty c (data.drop n) (off + n) acc else
      match rd ((data.drop n).take s) with
      | .ok (cs, m) => countLoop rd skipEmpty c (data.drop (n + m)) (off + (n + m)) (acc ++ cs)
      | .err => .err | .panic => .panic | .hang => .hang

/-- `readAsSlice` after `elt := &d.Elements[0]`: the switch on the element type. -/
def sliceBody (eltTy : FieldType) (rd : Bytes → Res (List OCall × Nat)) (data : Bytes) :
    Res (List OCall × Nat) :=
  match eltTy with
  | .float32 | .float64 | .int | .uint | .flatInt | .bool =>
      packedLoop rd (data.length + 1) data 0 []
  | .struct | .slice | .string | .time =>
      let r := readVarUint data
      if r.2 < 0 then .err else
      countLoop rd false r.1 (data.drop r.2.toNat) r.2.toNat []
  | _ => .err

/-! ### map entries rendered as object members (`readAsMapEntry`) -/

/-- loop state of `readAsMapEntry`: calls so far, `keyDone`, `valueDone`. -/
abbrev EntrySt := List OCall × Bool × Bool

/-- one field of a map entry: the element lookup over `[key, value]` (first
match wins), `Skip` for an unknown index, the framing, the `""` key written when
the value arrives first, then the element's own read. -/
def entryStep (kidx vidx : Nat) (rdK rdV : Bytes → Res (List OCall × Nat))
    (idx : Nat) (wt : WT) (body : Bytes) (st : EntrySt) : Res (EntrySt × Nat) :=
  if kidx = idx then
    match framed rdK wt body with
    | .ok (cs, n) => .ok ((st.1 ++ cs, true, st.2.2), n)
    | .err => .err | .panic => .panic | .hang => .hang
  else if vidx = idx then
    match framed rdV wt body with
    | .ok (cs, n) => .ok ((st.1 ++ (if st.2.1 then [] else [.str []]) ++ cs, true, true), n)
    | .err => .err | .panic => .panic | .hang => .hang
  else
    match skip body wt with
    | .ok n => .ok (st, n)
    | .err => .err | .panic => .panic | .hang => .hang

/-- `readAsMapEntry` for `d.Elements = [key, value]`. -/
def entryWalk (key value : Desc) (rdK rdV : Bytes → Res (List OCall × Nat)) (data : Bytes) :
    Res (List OCall × Nat) :=
  if key.type ≠ .string then .ok ([], 0) else
  match walkLoop (entryStep key.index value.index rdK rdV) (data.length + 1) data 0 ([], false, false) with
  | .ok ((acc, keyDone, valueDone), off) =>
      .ok (((if keyDone then acc else acc ++ [.str []])
            ++ (if valueDone then [] else writeZero value)), off)
  | .err => .err | .panic => .panic | .hang => .hang

/-! ### JSON objects and arrays (`readAsJSON`, `readJSONObjectKV`)

The data is self-describing, so this part does not depend on the descriptor
beyond object / array. The recursion `d := Descriptor{Type: …}; d.read(out,
data[offset:])` is on the data, not on the descriptor: it is fuel-indexed by the
nesting depth (every level consumes at least the tag byte before it). -/

/-- loop state of `readJSONObjectKV`: calls so far, `jType`, `valueDone`. -/
abbrev KVSt := List OCall × Nat × Bool

/-- one field of a JSON entry. `rec isObj` is the nested `d.read`. -/
def jsonKVStep (rec : Bool → Bytes → Res (List OCall × Nat))
    (idx : Nat) (wt : WT) (body : Bytes) (st : KVSt) : Res (KVSt × Nat) :=
  if idx = 1 then
    match readU body with
    | none => .err
    | some (l, n) =>
      if l > (body.drop n).length then .err else
      .ok ((st.1 ++ [.name ((body.drop n).take l)], st.2.1, st.2.2), n + l)
  else if idx = 2 then
    match readU body with
    | none => .err
    | some (v, n) => .ok ((st.1, v, st.2.2), n)
  else if idx = 3 then
    let lenStr (mk : Bytes → OCall) : Res (KVSt × Nat) :=
      match readU body with
      | none => .err
      | some (l, n) =>
        if l > (body.drop n).length then .err else
        .ok ((st.1 ++ [mk ((body.drop n).take l)], st.2.1, true), n + l)
    let sub (r : Res (List OCall × Nat)) : Res (KVSt × Nat) :=
      match r with
      | .ok (cs, n) => .ok ((st.1 ++ cs, st.2.1, true), n)
      | .err => .err | .panic => .panic | .hang => .hang
    match st.2.1 with
    | 1 => lenStr .str                              -- jsonTypeString
    | 2 => sub (leafRead (.int 64) wt body)         -- jsonTypeInt
    | 3 => sub (leafRead .f64 wt body)              -- jsonTypeFloat
    | 4 => sub (leafRead .bool wt body)             -- jsonTypeBool
    | 5 => sub (rec false body)                     -- jsonTypeArray
    | 6 => sub (rec true body)                      -- jsonTypeObject
    | 7 => lenStr .raw                              -- jsonTypeNumber
    | _ => .err                                     -- jsonTypeNil has no value field
  else .err

/-- `readJSONObjectKV`. -/
def jsonKV (rec : Bool → Bytes → Res (List OCall × Nat)) (data : Bytes) : Res (List OCall × Nat) :=
  match walkLoop (jsonKVStep rec) (data.length + 1) data 0 ([], 0, false) with
  | .ok ((acc, _, valueDone), off) => .ok (if valueDone then acc else acc ++ [.raw nullTok], off)
  | .err => .err | .panic => .panic | .hang => .hang

/-- `Descriptor.read` for `FieldTypeJSONObject` (`isObj`) / `FieldTypeJSONArray`. -/
def jsonWalk : (fuel : Nat) → (isObj : Bool) → Bytes → Res (List OCall × Nat)
  | 0, _, _ => .hang
  | fuel+1, isObj, data =>
    let r := readVarUint data
    if r.2 < 0 then .err else
    match countLoop (jsonKV (jsonWalk fuel)) true r.1 (data.drop r.2.toNat) r.2.toNat [] with
    | .ok (cs, off) =>
        .ok ((if isObj then OCall.startObj else .startArr) :: cs
              ++ [if isObj then OCall.endObj else .endArr], off)
    | .err => .err | .panic => .panic | .hang => .hang

/-! ### the walker -/

/-- bracket a container's calls. -/
def wrapCalls (isObj : Bool) (r : Res (List OCall × Nat)) : Res (List OCall × Nat) :=
  match r with
  | .ok (cs, n) =>
      .ok ((if isObj then OCall.startObj else .startArr) :: cs
            ++ [if isObj then OCall.endObj else .endArr], n)
  | .err => .err | .panic => .panic | .hang => .hang

mutual
/-- `Descriptor.read`. -/
def descRead : Desc → Bytes → Res (List OCall × Nat)
  | ⟨_, _, ty, _, els, _, lt⟩, data =>
    match ty with
    | .int => leafRead (.int 64) .varint data
    | .flatInt => if lt = .timestamp then bqRead data else leafRead (.flat 64) .varint data
    | .uint => leafRead (.uint 64) .varint data
    | .float32 => leafRead .f32 .w32 data
    | .float64 => leafRead .f64 .w64 data
    | .string => leafRead (.str false) .len data
    | .bool => leafRead .bool .len data
    | .time => leafRead (.time false) .len data
    | .slice =>
      -- StartObject/StartArray, then readAsSlice: `elt := &d.Elements[0]`
      match els with
      | [] => .panic
      | elt :: _ =>
        wrapCalls (mapValid ty lt els) (sliceBody elt.type (fun b => descRead elt b) data)
    | .struct =>
      if entryValid ty lt els then
        -- readAsMapEntry: no object brackets, the enclosing map wrote them
        match els with
        | [key, value] => entryWalk key value (fun b => descRead key b) (fun b => descRead value b) data
        | _ => .panic          -- unreachable: isValidJSONMapEntry checked len(d.Elements) == 2
      else
        wrapCalls true
          (walkLoop (fun idx wt body acc => descField els idx wt body acc) (data.length + 1) data 0 [])
    | .jsonObject => jsonWalk (data.length + 1) true data
    | .jsonArray => jsonWalk (data.length + 1) false data
/-- one field of `readAsStruct` after the tag: the element lookup (first element
with that index), `Skip` when there is none, the framing, `NameField`, the
element's own read. -/
def descField : List Desc → Nat → WT → Bytes → List OCall → Res (List OCall × Nat)
  | [], _, wt, body, acc =>
      match skip body wt with
      | .ok n => .ok (acc, n)
      | .err => .err | .panic => .panic | .hang => .hang
  | e :: r, idx, wt, body, acc =>
      if e.index = idx then
        match framed (fun b => descRead e b) wt body with
        | .ok (cs, n) => .ok (acc ++ OCall.name (strBytes e.name) :: cs, n)
        | .err => .err | .panic => .panic | .hang => .hang
      else descField r idx wt body acc
end

/-- `Descriptor.Read(out, data)` for the descriptor of codec `t`: the calls the
outputter receives. Entry point for differential testing. -/
def descCalls (t : Ty) (data : Bytes) : Res (List OCall) :=
  match descRead (descriptor t) data with
  | .ok (cs, _) => .ok cs
  | .err => .err | .panic => .panic | .hang => .hang

/-- the same for an arbitrary descriptor. -/
def descCallsOf (d : Desc) (data : Bytes) : Res (List OCall) :=
  match descRead d data with
  | .ok (cs, _) => .ok cs
  | .err => .err | .panic => .panic | .hang => .hang
