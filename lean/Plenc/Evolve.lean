import Plenc.Typing
/-
  Plenc.Evolve — schema evolution (property C03): which codec trees `S'` are
  evolved versions of a codec tree `S` (`Ty.Evolves`), what decoding data
  written from `S` into a target of type `S'` must produce (`Ty.proj`,
  `project`), and the name erasure used to state that renames are invisible
  (`Ty.eraseNames`).

  Definitions only (total, computable where they are functions); the theorems
  are in Proofs/Evolve.lean and Props/C03.lean.
-/

/-! ### the relation -/

mutual
/-- `S.Evolves S'`: `S'` is `S` after any number of schema-evolution edits, at
any nesting depth: fields removed, fields added under fresh indexes, fields
renamed, declarations reordered (and the struct type itself renamed).

For two structs: every field of `S'` whose index occurs in `S` has a codec that
evolves from the codec of that `S` field; nothing is asked of `S` fields whose
index does not occur in `S'` (removed) nor of `S'` fields whose index does not
occur in `S` (added: any codec — `S'.wf` is a separate hypothesis); names and
positions do not occur. The relation descends through pointers, the elements of
slices of length-delimited elements (both wire forms) and map values; every
other codec (scalars, strings, bytes, times, packed slices of scalars, map keys)
must be the same. -/
def Ty.Evolves : Ty → Ty → Prop
  | .ptr t, .ptr t' => Ty.Evolves t t'
  | .lslice t, .lslice t' => Ty.Evolves t t'
  | .pslice t, .pslice t' => Ty.Evolves t t'
  | .struct _ fs, .struct _ fs' => ∀ f' ∈ fs', fieldEvolves fs f'.1 f'.2.2
  | .map k v p, .map k' v' p' => k' = k ∧ p' = p ∧ Ty.Evolves v v'
  | t, t' => t' = t
/-- the codec `t'` of a field of `S'` with index `i'` evolves from every field of
`S` carrying that index (there is at most one when `S.wf`). -/
def fieldEvolves : Fields → Nat → Ty → Prop
  | [], _, _ => True
  | (i, _, t) :: r, i', t' => (i = i' → Ty.Evolves t t') ∧ fieldEvolves r i' t'
end

/-- the relation on field lists (`Ty.Evolves` on two structs unfolds to this). -/
def FieldsEvolve (fs fs' : Fields) : Prop := ∀ f' ∈ fs', fieldEvolves fs f'.1 f'.2.2

/-! ### the expected result -/

/-- fill the fields of the target (`fs'`, prior values `prior`): a field for
which `look index codec` has a value takes it, every other field keeps its prior
value. -/
def projectWith (look : Nat → Ty → Option Val) : Fields → List Val → List Val
  | (i', _, t') :: r', p :: ps => (look i' t').getD p :: projectWith look r' ps
  | _, _ => []

/-- generic lookup: the value the data holds for index `i'`, seen through `pr`:
the first field of `fs` with that index whose value is on the wire (not omitted). -/
def lookupWith (pr : Ty → Ty → Val → Val) : Fields → List Val → Nat → Ty → Option Val
  | (i, _, t) :: r, v :: vs, i', t' =>
      if i = i' ∧ v.omit = false then some (pr t t' v) else lookupWith pr r vs i' t'
  | _, _, _, _ => none

mutual
/-- `t.proj t' v`: what a target of codec `t'` (evolved from `t`) holds after
decoding the encoding of `v : t` into its zero value. For `t' = t` this is the
documented normalisation `t.norm v`; through structs it is `project`. -/
def Ty.proj : Ty → Ty → Val → Val
  | .ptr t, .ptr t', .ptr (some v) => .ptr (some (Ty.proj t t' v))
  | .lslice t, .lslice t', .slice vs =>
      .slice (vs.map fun v => match t', v with
        | .ptr u', .ptr none => .ptr (some u'.zero)
        | _, v => Ty.proj t t' v)
  | .pslice t, .pslice t', .slice vs =>
      .slice (vs.map fun v => match t', v with
        | .ptr u', .ptr none => .ptr (some u'.zero)
        | _, v => Ty.proj t t' v)
  | .struct _ fs, .struct _ fs', .struct vs =>
      .struct (projectWith (fieldsProj fs vs) fs' (zeros fs'))
  | .map k v p, .map _ v' _, .map (some es) =>
      if p = true ∧ es.isEmpty then .map none
      else .map (some (es.map fun e =>
        ((if e.1.omit then k.zero else k.norm e.1), (if e.2.omit then v'.zero else Ty.proj v v' e.2))))
  | t, _, v => t.norm v
/-- the value the data written from fields `fs` with values `vs` holds for the
target field with index `i'` and codec `t'`: `none` when `fs` has no such index
or the value was omitted (a zero value is not on the wire). -/
def fieldsProj : Fields → List Val → Nat → Ty → Option Val
  | (i, _, t) :: r, v :: vs, i', t' =>
      if i = i' ∧ v.omit = false then some (Ty.proj t t' v) else fieldsProj r vs i' t'
  | _, _, _, _ => none
end

/-- `project fs fs' vs prior`: the field values of the target struct (fields
`fs'`, prior values `prior`) after decoding data written from a struct with
fields `fs` and values `vs`: a field whose index is shared and whose value is in
the data takes the decoded value (recursively projected), every other field —
added, or shared but omitted by the writer — keeps its prior value. -/
def project (fs fs' : Fields) (vs prior : List Val) : List Val :=
  projectWith (fieldsProj fs vs) fs' prior

/-- top-level-only projection: shared fields have the same codec, so the decoded
value is the normalised value. -/
def projectTop (fs fs' : Fields) (vs prior : List Val) : List Val :=
  projectWith (lookupWith (fun t _ v => t.norm v) fs vs) fs' prior

/-- codecs whose `Read` replaces the target value outright, whatever it held
before: everything except the merging ones — repeated fields append, maps and
structs are updated in place (and a pointer behaves like its target). -/
def Ty.overwrites : Ty → Bool
  | .bool | .int _ | .uint _ | .flat _ | .f32 | .f64 | .str _ | .bytes | .time _ => true
  | .vslice _ | .fslice _ | .lslice _ => true
  | .ptr t => t.overwrites
  | .pslice _ | .struct _ _ | .map _ _ _ => false

/-- the prior value list fits: one value per target field; a field that the
data is going to fill holds anything if its codec overwrites, and its zero value
if its codec merges (decoding onto a non-zero slice of a repeated field, map or
struct merges into it: that is property C10, not this one). Fields the data
does not fill are unconstrained. -/
def priorFitsWith (look : Nat → Ty → Option Val) : Fields → List Val → Prop
  | [], [] => True
  | (i', _, t') :: r', p :: ps =>
      ((look i' t').isSome = true → p = t'.zero ∨ t'.overwrites = true) ∧ priorFitsWith look r' ps
  | _, _ => False

def priorFits (fs fs' : Fields) (vs prior : List Val) : Prop :=
  priorFitsWith (fieldsProj fs vs) fs' prior

def priorFitsTop (fs fs' : Fields) (vs prior : List Val) : Prop :=
  priorFitsWith (lookupWith (fun t _ v => t.norm v) fs vs) fs' prior

/-! ### name erasure -/

mutual
/-- forget every field name and struct name. -/
def Ty.eraseNames : Ty → Ty
  | .ptr t => .ptr t.eraseNames
  | .vslice t => .vslice t.eraseNames
  | .fslice t => .fslice t.eraseNames
  | .lslice t => .lslice t.eraseNames
  | .pslice t => .pslice t.eraseNames
  | .struct _ fs => .struct "" (fieldsEraseNames fs)
  | .map k v p => .map k.eraseNames v.eraseNames p
  | t => t
def fieldsEraseNames : Fields → Fields
  | [] => []
  | (i, _, t) :: r => (i, "", t.eraseNames) :: fieldsEraseNames r
end
