import Plenc.Registry
/-
  RegistryTrace — replaying a trace recorded from the real implementation on
  the transition system of `Plenc/Registry.lean`.

  The harness's scheduler parks every goroutine at the two instrumented accesses
  of the SHARED registry (`baseRegistry.Load`, `baseRegistry.StoreOrSwap`; the
  yield point fires before the access and carries the `(type, tag)` key) and
  records, for every release, which goroutine was released from which access.
  Accesses that an overlay (`wrappedCodecRegistry`) answers never reach the
  shared registry and produce no event.

  `conform` drives the model with such a trace: for each event `(i, e)` it lets
  goroutine `i` take its silent steps (local control, node allocation and
  mutation, overlay accesses, the walk over a returned codec) until its next
  step is an access of the shared registry, checks that this access is `e`
  (`publish()` iterates a Go map: any pending entry may come next, which is the
  `Reorder` transition of `Reach`), and performs it.  A trace the model can
  follow to the end is a path of `Reach` (`Proofs/RegistryTrace.lean`), so
  everything proved about reachable states holds of the states the real run
  went through, as far as the events determine them.

  Core Lean only, total, computable.
-/
namespace Registry

/-- an access of the shared registry. -/
inductive Ev where
  | load (ty : Nat)
  | store (ty : Nat)
deriving DecidableEq, Repr

def Ev.show : Ev → String
  | .load ty => s!"load {ty}"
  | .store ty => s!"store {ty}"

/-- is there an enclosing struct frame still building (an overlay)? -/
def hasOverlay : List Frame → Bool
  | [] => false
  | .structB _ _ _ _ :: _ => true
  | _ :: r => hasOverlay r

/-- does `Load(ty)` through these frames stop at an overlay? -/
def overlayHit : List Frame → Nat → Bool
  | [], _ => false
  | .structB t _ pend _ :: rest, ty =>
      ty = t || (lookup pend ty).isSome || overlayHit rest ty
  | _ :: rest, ty => overlayHit rest ty

/-- the access of the shared registry that the goroutine's next step is, if it is one. -/
def sharedNext (t : Thread) : Option Ev :=
  match t.stack with
  | .call ty :: below => if overlayHit below ty then none else some (.load ty)
  | .store ty _ :: below => if hasOverlay below then none else some (.store ty)
  | .structP _ _ ((k, _) :: _) :: below => if hasOverlay below then none else some (.store k)
  | _ => none

/-- goroutine `i` takes silent steps until its next step is a shared access (or
it has nothing left to do, or the fuel runs out). -/
def advance : Nat → State → Nat → State
  | 0, s, _ => s
  | n + 1, s, i =>
    if (sharedNext (s.threads i)).isSome then s else
    match stepThread s i with
    | some s' => advance n s' i
    | none => s

/-- the entry for key `k` moved to the front. -/
def bringFront (pend : Reg) (k : Nat) : Reg :=
  match pend.find? (fun e => e.1 == k) with
  | some e => e :: pend.erase e
  | none => pend

/-- `publish()` ranges over a Go map: let the entry the real run published next
be the next one. -/
def reorderFor (s : State) (i : Nat) (e : Ev) : State :=
  match e, (s.threads i).stack with
  | .store k, .structP ty node pend :: below =>
      s.upd i s.registry s.heap
        { s.threads i with stack := .structP ty node (bringFront pend k) :: below }
  | _, _ => s

/-- one recorded event: goroutine `i` performed the shared access `e`. -/
def doEvent (fuel : Nat) (s : State) (i : Nat) (e : Ev) : Except String State :=
  let s2 := reorderFor (advance fuel s i) i e
  match sharedNext (s2.threads i) with
  | none => .error s!"goroutine {i} did `{e.show}` but the model's goroutine has no shared access to make"
  | some e' =>
    if e' = e then
      match stepThread s2 i with
      | some s3 => .ok s3
      | none => .error "model step not enabled"
    else .error s!"goroutine {i} did `{e.show}` where the model does `{e'.show}`"

/-- follow a recorded trace; on failure: the index of the offending event. -/
def conform (fuel : Nat) : State → List (Nat × Ev) → Nat → Except (Nat × String) State
  | s, [], _ => .ok s
  | s, (i, e) :: rest, k =>
    match doEvent fuel s i e with
    | .ok s' => conform fuel s' rest (k + 1)
    | .error m => .error (k, m)

/-- after the last event: every goroutine `< n` runs its remaining silent steps. -/
def finish (fuel : Nat) (s : State) : Nat → State
  | 0 => s
  | n + 1 => advance fuel (finish fuel s n) n

/-- goroutine has nothing left to do. -/
def Thread.quiet (t : Thread) : Bool := t.stack.isEmpty && t.requests.isEmpty && t.useQ.isEmpty

/-- run goroutine `i` alone (shared accesses included) until it has nothing left. -/
def runAlone : Nat → State → Nat → State
  | 0, s, _ => s
  | n + 1, s, i =>
    match stepThread s i with
    | some s' => runAlone n s' i
    | none => s

/-- a type graph given as a table (ids beyond the table: `bad`). -/
def graphOf (nodes : List TNode) : Nat → TNode := fun i => (nodes[i]?).getD .bad

/-- the state in which the recorded part starts: goroutine 0 has requested
every pre-registered type, alone (this is `RegisterDefaultCodecs`: the shared
registry holds a complete codec for each of them); goroutines `1 …` are about
to make their requests. -/
def startState (nodes : List TNode) (pre : List Nat) (reqs : List (List Nat)) (fuel : Nat) : State :=
  runAlone fuel (init (graphOf nodes) (pre :: reqs)) 0

/-- keys of the shared registry. -/
def State.keys (s : State) : List Nat := s.registry.map (·.1)

end Registry
