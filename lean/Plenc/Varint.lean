import Plenc.Basic
/-
  Plenc.Varint — plenccore/varints.go.

  `appendVarUint` is the loop of `AppendVarUint`; `readVarUint` is Go's
  `binary.Uvarint` (stdlib, modelled from its documented algorithm, including
  its return convention: n = 0 buffer too small, n < 0 overflow where -n is the
  number of bytes read; the 10-byte / last-byte ≤ 1 rule).
-/

def appendVarUint (v : Nat) : Bytes :=
  if h : v < 128 then [v.toUInt8] else (v % 128 + 128).toUInt8 :: appendVarUint (v / 128)
termination_by v
decreasing_by omega

def uvarintAux : Bytes → (i : Nat) → (s : Nat) → (x : Nat) → Nat × Int
  | [], _, _, _ => (0, 0)
  | b :: rest, i, s, x =>
    if i = 10 then (0, -(Int.ofNat (i+1)))
    else if b.toNat < 128 then
      if i = 9 ∧ b.toNat > 1 then (0, -(Int.ofNat (i+1)))
      else (x ||| (b.toNat <<< s), Int.ofNat (i+1))
    else uvarintAux rest (i+1) (s+7) (x ||| ((b.toNat &&& 127) <<< s))

/-- `plenccore.ReadVarUint` = `binary.Uvarint`. -/
def readVarUint (d : Bytes) : Nat × Int := uvarintAux d 0 0 0

/-- the checked form every decode site uses: `if n <= 0 { return err }`. -/
def readU (d : Bytes) : Option (Nat × Nat) :=
  if (readVarUint d).2 ≤ 0 then none else some ((readVarUint d).1, (readVarUint d).2.toNat)

/-- `bits.Len64`. -/
def len64 (v : Nat) : Nat := if v = 0 then 0 else Nat.log2 v + 1

/-- `plenccore.SizeVarUint`. -/
def sizeVarUint (v : Nat) : Nat :=
  if v < 128 then 1 else (len64 v + 6) / 7

/-- `plenccore.ZigZag` on the mathematical integer (v is an int64). The Go
expression `uint64((v << 1) ^ (v >> 63))` is tied to this by `Gen/Tie.lean`. -/
def zigZag (v : Int) : Nat :=
  if 0 ≤ v then (2 * v).toNat else (-2 * v - 1).toNat

/-- `plenccore.ZagZig`: `int64(v>>1) ^ -int64(v&1)`. -/
def zagZig (u : Nat) : Int :=
  if u % 2 = 0 then Int.ofNat (u / 2) else -(Int.ofNat (u / 2)) - 1

def appendVarInt (v : Int) : Bytes := appendVarUint (zigZag v)
def sizeVarInt (v : Int) : Nat := sizeVarUint (zigZag v)
/-- `plenccore.ReadVarInt`. -/
def readVarInt (d : Bytes) : Int × Int := (zagZig (readVarUint d).1, (readVarUint d).2)
