import Plenc.Codec
/-
  Plenc.BQTime — plenccodec/time.go `BQTimestampCodec`: a `time.Time` as a flat
  (not zig-zag) int64 of microseconds since the Unix epoch, through
  `FlatIntCodec[uint64]`.  An exported codec, not reachable from `CodecForType`;
  users register it for `time.Time`.

  A time is `(sec, nsec)` (Unix seconds, `0 ≤ nsec < 10^9`) as elsewhere in the
  model.  `(*time.Time).UnixMicro()` is `sec*10^6 + nsec/1000` in int64
  arithmetic (it wraps outside roughly ±292,000 years: `wrapS 64`);
  `time.UnixMicro(us)` is `(⌊us / 10^6⌋, (us mod 10^6)·1000)`.
-/
namespace BQTime

/-- `t.UnixMicro()`. -/
def unixMicro (sec nsec : Int) : Int := wrapS 64 (sec * 1000000 + nsec / 1000)

/-- `time.UnixMicro(us)`: floor division, non-negative remainder. -/
def ofMicro (us : Int) : Int × Int := (us / 1000000, (us % 1000000) * 1000)

/-- `Omit`: `t.IsZero()`, i.e. January 1, year 1, 00:00:00 UTC. -/
def isOmitted (sec nsec : Int) : Bool := sec == -62135596800 && nsec == 0

/-- `Size(ptr, tag)`. -/
def size (sec nsec : Int) (tag : Bytes) : Nat := sizeVarUint (wrapU 64 (unixMicro sec nsec)) + tag.length

/-- `Append(data, ptr, tag)` (the bytes appended). -/
def app (sec nsec : Int) (tag : Bytes) : Bytes := tag ++ appendVarUint (wrapU 64 (unixMicro sec nsec))

/-- `Read(data, ptr, wt)`: `UintCodec[uint64].Read` (only `n < 0` is an error: a
truncated varint reads as 0 with nothing consumed), the value reinterpreted as
int64. -/
def read (data : Bytes) : Res ((Int × Int) × Nat) :=
  let r := readVarUint data
  if r.2 < 0 then .err else .ok (ofMicro (wrapS 64 r.1), r.2.toNat)

end BQTime
