import Plenc.Basic
/-
  Plenc.JSONOut — model of plenccodec/output.go (`JSONOutput`) and an independent
  JSON specification (pretty-printer `render`, byte-level parser `parse`).

  Core Lean only, total, computable.

  What is modelled exactly as coded: the fields data/depth/inField/stack, the
  helpers prefix/end/punctuate, Start/End Object/Array, NameField, String (with
  `appendString`'s escaping), Done, Reset.  Int64/Uint64/Float64/Float32/Bool/
  Raw/Time all have the shape `prefix(); data = append(data, TOKEN...);
  punctuate()`; the formatting of TOKEN (strconv, time) is NOT modelled: the
  token bytes are the parameter of `Call.tok`.

  Go's `end()` does `j.stack = j.stack[:len(j.stack)-1]`, which would panic on an
  empty stack with depth ≠ 0; `depth = len(stack)` is an invariant of every
  state reachable from a fresh or Reset outputter (`Proofs.JSONOut.depth_eq_stack`)
  so the model uses `List.tail`.  The stack is modelled with its top at the head.
-/
namespace JSONOut

/-! ## bytes used by the outputter -/
def nl : UInt8 := 10        -- '\n'
def comma : UInt8 := 44     -- ','
def quote : UInt8 := 34     -- '"'
def bslash : UInt8 := 92    -- '\\'

/-- `hex[n]` for `hex = "0123456789abcdef"` (n < 16). -/
def hexDigit (n : Nat) : UInt8 := if n < 10 then (48 + n).toUInt8 else (87 + n).toUInt8

/-- what `appendString` appends for one byte `c` of the Go string. -/
def escByte (c : UInt8) : Bytes :=
  if c = 92 ∨ c = 34 then [92, c]
  else if c = 10 then [92, 110]
  else if c = 13 then [92, 114]
  else if c = 9 then [92, 116]
  else if c < 32 then [92, 117, 48, 48, hexDigit (c.toNat / 16), hexDigit (c.toNat % 16)]
  else [c]

/-- `appendString(data, v)` appends `escapeString v` (quotes included). -/
def escapeString (s : Bytes) : Bytes := 34 :: (s.flatMap escByte ++ [34])

/-! ## the state machine -/

inductive St | value | key | objValue deriving DecidableEq, Repr

structure Out where
  data : Bytes
  depth : Nat
  inField : Bool
  stack : List St          -- head = top of the Go slice
deriving Repr, DecidableEq

/-- a new `JSONOutput{}`. -/
def fresh : Out := ⟨[], 0, false, []⟩

/-- `Reset()`: data and stack are truncated to length 0 (capacity, which is all
that survives, is not observable and not modelled). -/
def Out.reset (_ : Out) : Out := ⟨[], 0, false, []⟩

def indent (n : Nat) : Bytes := List.replicate (2 * n) 32

/-- `prefix()` -/
def Out.pre (o : Out) : Out :=
  if o.inField then { o with inField := false } else { o with data := o.data ++ indent o.depth }

/-- `end()`'s trailing-comma trim: if the buffer has ≥ 2 bytes and ends with
",\n", replace that by "\n". -/
def trim : Bytes → Bytes
  | [] => []
  | [a] => [a]
  | [a, b] => if a = comma ∧ b = nl then [nl] else [a, b]
  | a :: b :: c :: r => a :: trim (b :: c :: r)

/-- `end()` -/
def Out.fin (o : Out) : Out :=
  if o.depth = 0 then { o with data := o.data ++ [nl] }
  else { o with depth := o.depth - 1, stack := o.stack.tail, data := trim o.data }

/-- `punctuate()` -/
def Out.punct (o : Out) : Out :=
  match o.stack with
  | [] => o
  | .key :: r => { o with data := o.data ++ [58, 32], stack := .objValue :: r }
  | .objValue :: r => { o with data := o.data ++ [comma, nl], stack := .key :: r }
  | .value :: r => { o with data := o.data ++ [comma, nl], stack := .value :: r }

/-- One Outputter call. `name`/`str` carry the RAW Go string (its bytes);
`tok` carries the already formatted token of Int64/Uint64/Float64/Float32/Bool/
Raw/Time. -/
inductive Call
  | startObj | endObj | startArr | endArr
  | name (raw : Bytes) | str (raw : Bytes) | tok (t : Bytes)
deriving Repr, DecidableEq

def step (o : Out) : Call → Out
  | .startObj => let o := o.pre; { o with data := o.data ++ [123, nl], depth := o.depth + 1, stack := .key :: o.stack }
  | .endObj => let o := o.fin.pre; ({ o with data := o.data ++ [125] } : Out).punct
  | .startArr => let o := o.pre; { o with data := o.data ++ [91, nl], depth := o.depth + 1, stack := .value :: o.stack }
  | .endArr => let o := o.fin.pre; ({ o with data := o.data ++ [93] } : Out).punct
  | .name s => let o := o.pre; ({ o with inField := true, data := o.data ++ escapeString s } : Out).punct
  | .str s => let o := o.pre; ({ o with data := o.data ++ escapeString s } : Out).punct
  | .tok t => let o := o.pre; ({ o with data := o.data ++ t } : Out).punct

def run (o : Out) (cs : List Call) : Out := cs.foldl step o

/-- `Done()`: runs `end()` and returns the buffer. -/
def Out.done (o : Out) : Bytes := o.fin.data

/-- entry point for differential testing: bytes of `Done()` after the calls on a
fresh outputter. -/
def jsonOutRun (cs : List Call) : Bytes := (run fresh cs).done

/-- reuse histories: each batch is run, `Done()` is recorded, then `Reset()`.
(`Done` mutates the outputter, so Reset is applied to the state after `end()`.) -/
def jsonOutSession (o : Out) : List (List Call) → List Bytes
  | [] => []
  | cs :: rest => (run o cs).done :: jsonOutSession (run o cs).fin.reset rest

/-! ## call trees: the well-nested call sequences are exactly the image of `J.calls` -/

inductive J where
  | str (raw : Bytes)
  | tok (t : Bytes)
  | arr (xs : List J)
  | obj (kvs : List (Bytes × J))
deriving Repr

mutual
def J.calls : J → List Call
  | .str s => [.str s]
  | .tok t => [.tok t]
  | .arr xs => .startArr :: (callsL xs ++ [.endArr])
  | .obj kvs => .startObj :: (callsKV kvs ++ [.endObj])
def callsL : List J → List Call
  | [] => [] | x :: r => x.calls ++ callsL r
def callsKV : List (Bytes × J) → List Call
  | [] => [] | (k, x) :: r => (.name k :: x.calls) ++ callsKV r
end

/-! ## SPEC 1: the pretty-printer (layout of the machine, written independently
of the machine: no trimming, separators are placed *between* elements) -/

/-- separator after an element: ",\n" if another element follows, else "\n". -/
def sep {α} (r : List α) : Bytes := match r with | [] => [10] | _ :: _ => [44, 10]

mutual
def render : Nat → J → Bytes
  | _, .str s => escapeString s
  | _, .tok t => t
  | d, .arr xs => [91, 10] ++ renderL (d+1) xs ++ indent d ++ [93]
  | d, .obj kvs => [123, 10] ++ renderKV (d+1) kvs ++ indent d ++ [125]
def renderL : Nat → List J → Bytes
  | _, [] => []
  | d, x :: r => indent d ++ render d x ++ sep r ++ renderL d r
def renderKV : Nat → List (Bytes × J) → Bytes
  | _, [] => []
  | d, (k, x) :: r => indent d ++ escapeString k ++ [58, 32] ++ render d x ++ sep r ++ renderKV d r
end

/-! ## SPEC 2: a JSON parser over bytes

Accepts standard JSON (RFC 8259 grammar): whitespace (space, \n, \r, \t) around
every token; objects; arrays; strings; `true`/`false`/`null`; numbers by
`-? (0|[1-9][0-9]*) (\.[0-9]+)? ([eE][+-]?[0-9]+)?` (returned as their token
bytes, maximal munch).

Strings are returned as raw bytes: every byte ≥ 0x20 other than `"` and `\`
passes through verbatim (so invalid UTF-8 passes too; bytes < 0x20 are rejected
as in RFC 8259).  Escapes `\" \\ \/ \b \f \n \r \t`, and `\uXXXX` (hex digits of
either case): code points < 0x80 decode to the single byte; other
non-surrogate code points decode to their 2- or 3-byte UTF-8 encoding;
surrogates (D800–DFFF, paired or not) are REJECTED (the outputter never emits
them). Duplicate object keys are kept, in order. -/

inductive JV where
  | null
  | bool (b : Bool)
  | num (tok : Bytes)
  | str (s : Bytes)
  | arr (xs : List JV)
  | obj (kvs : List (Bytes × JV))
deriving Repr

def isWs (c : UInt8) : Bool := c == 32 || c == 10 || c == 13 || c == 9

def skipWs : Bytes → Bytes
  | [] => []
  | c :: r => if isWs c then skipWs r else c :: r

def isDigit (c : UInt8) : Bool := 48 ≤ c.toNat && c.toNat ≤ 57

def hexVal (c : UInt8) : Option Nat :=
  if 48 ≤ c.toNat ∧ c.toNat ≤ 57 then some (c.toNat - 48)
  else if 97 ≤ c.toNat ∧ c.toNat ≤ 102 then some (c.toNat - 87)
  else if 65 ≤ c.toNat ∧ c.toNat ≤ 70 then some (c.toNat - 55)
  else none

def hex4 (a b c d : UInt8) : Option Nat :=
  match hexVal a, hexVal b, hexVal c, hexVal d with
  | some a, some b, some c, some d => some (((a * 16 + b) * 16 + c) * 16 + d)
  | _, _, _, _ => none

/-- bytes for a `\uXXXX` code point (see the header comment). -/
def uEscBytes (n : Nat) : Option Bytes :=
  if n < 0x80 then some [n.toUInt8]
  else if n < 0x800 then some [(0xC0 + n / 64).toUInt8, (0x80 + n % 64).toUInt8]
  else if 0xD800 ≤ n ∧ n < 0xE000 then none
  else some [(0xE0 + n / 4096).toUInt8, (0x80 + n / 64 % 64).toUInt8, (0x80 + n % 64).toUInt8]

def consRes (b : Bytes) : Option (Bytes × Bytes) → Option (Bytes × Bytes)
  | some (s, r) => some (b ++ s, r)
  | none => none

/-- string body after the opening quote; returns (decoded bytes, rest after the
closing quote). -/
def parseStrBody : Bytes → Option (Bytes × Bytes)
  | [] => none
  | c :: r =>
    if c = 34 then some ([], r)
    else if c = 92 then
      match r with
      | [] => none
      | e :: r1 =>
        if e = 34 then consRes [34] (parseStrBody r1)
        else if e = 92 then consRes [92] (parseStrBody r1)
        else if e = 47 then consRes [47] (parseStrBody r1)
        else if e = 98 then consRes [8] (parseStrBody r1)
        else if e = 102 then consRes [12] (parseStrBody r1)
        else if e = 110 then consRes [10] (parseStrBody r1)
        else if e = 114 then consRes [13] (parseStrBody r1)
        else if e = 116 then consRes [9] (parseStrBody r1)
        else if e = 117 then
          match r1 with
          | a :: b :: c :: d :: r2 =>
            match (hex4 a b c d).bind uEscBytes with
            | some bs => consRes bs (parseStrBody r2)
            | none => none
          | _ => none
        else none
    else if c.toNat < 32 then none
    else consRes [c] (parseStrBody r)

def spanDigits : Bytes → Bytes × Bytes
  | [] => ([], [])
  | c :: r => if isDigit c then ((c :: (spanDigits r).1), (spanDigits r).2) else ([], c :: r)

/-- `0 | [1-9][0-9]*` -/
def lexInt : Bytes → Option (Bytes × Bytes)
  | [] => none
  | c :: r =>
    if c = 48 then some ([48], r)
    else if isDigit c then some (c :: (spanDigits r).1, (spanDigits r).2)
    else none

/-- `(\.[0-9]+)?` -/
def lexFrac : Bytes → Option (Bytes × Bytes)
  | [] => some ([], [])
  | c :: r =>
    if c = 46 then
      (if (spanDigits r).1 = [] then none else some (46 :: (spanDigits r).1, (spanDigits r).2))
    else some ([], c :: r)

/-- optional sign of the exponent -/
def lexSign : Bytes → Bytes × Bytes
  | [] => ([], [])
  | c :: r => if c = 43 ∨ c = 45 then ([c], r) else ([], c :: r)

/-- `([eE][+-]?[0-9]+)?` -/
def lexExp : Bytes → Option (Bytes × Bytes)
  | [] => some ([], [])
  | c :: r =>
    if c = 101 ∨ c = 69 then
      (if (spanDigits (lexSign r).2).1 = [] then none
       else some (c :: ((lexSign r).1 ++ (spanDigits (lexSign r).2).1), (spanDigits (lexSign r).2).2))
    else some ([], c :: r)

/-- number lexer after the optional minus. -/
def lexUnsigned (s : Bytes) : Option (Bytes × Bytes) :=
  match lexInt s with
  | none => none
  | some (ip, s1) =>
    match lexFrac s1 with
    | none => none
    | some (fp, s2) =>
      match lexExp s2 with
      | none => none
      | some (ep, s3) => some (ip ++ fp ++ ep, s3)

def lexNumber : Bytes → Option (Bytes × Bytes)
  | [] => none
  | c :: r => if c = 45 then consRes [45] (lexUnsigned r) else lexUnsigned (c :: r)

def tTrue : Bytes := [116, 114, 117, 101]
def tFalse : Bytes := [102, 97, 108, 115, 101]
def tNull : Bytes := [110, 117, 108, 108]

/-- `s` minus the prefix `p`, if `p` is a prefix. -/
def dropPrefix : Bytes → Bytes → Option Bytes
  | [], s => some s
  | _ :: _, [] => none
  | a :: p, b :: s => if a = b then dropPrefix p s else none

mutual
/-- one JSON value (leading whitespace skipped); returns the value and the
unconsumed rest. -/
def parseValue : Nat → Bytes → Option (JV × Bytes)
  | 0, _ => none
  | f+1, s =>
    match skipWs s with
    | [] => none
    | c :: r =>
      if c = 34 then
        match parseStrBody r with
        | some (b, r1) => some (.str b, r1)
        | none => none
      else if c = 91 then
        match skipWs r with
        | [] => none
        | c1 :: r1 =>
          if c1 = 93 then some (.arr [], r1)
          else match parseElems f r with
            | some (vs, r2) => some (.arr vs, r2)
            | none => none
      else if c = 123 then
        match skipWs r with
        | [] => none
        | c1 :: r1 =>
          if c1 = 125 then some (.obj [], r1)
          else match parseMembers f r with
            | some (kvs, r2) => some (.obj kvs, r2)
            | none => none
      else if c = 116 then (dropPrefix tTrue (c :: r)).map fun r1 => (.bool true, r1)
      else if c = 102 then (dropPrefix tFalse (c :: r)).map fun r1 => (.bool false, r1)
      else if c = 110 then (dropPrefix tNull (c :: r)).map fun r1 => (.null, r1)
      else match lexNumber (c :: r) with
        | some (t, r1) => some (.num t, r1)
        | none => none
/-- `value (ws , value)* ws ]` -/
def parseElems : Nat → Bytes → Option (List JV × Bytes)
  | 0, _ => none
  | f+1, s =>
    match parseValue f s with
    | none => none
    | some (v, r) =>
      match skipWs r with
      | [] => none
      | c :: r1 =>
        if c = 44 then
          match parseElems f r1 with
          | some (vs, r2) => some (v :: vs, r2)
          | none => none
        else if c = 93 then some ([v], r1)
        else none
/-- `ws string ws : value (ws , member)* ws }` -/
def parseMembers : Nat → Bytes → Option (List (Bytes × JV) × Bytes)
  | 0, _ => none
  | f+1, s =>
    match skipWs s with
    | [] => none
    | q :: r0 =>
      if q = 34 then
        match parseStrBody r0 with
        | none => none
        | some (k, r1) =>
          match skipWs r1 with
          | [] => none
          | c :: r2 =>
            if c = 58 then
              match parseValue f r2 with
              | none => none
              | some (v, r3) =>
                match skipWs r3 with
                | [] => none
                | c1 :: r4 =>
                  if c1 = 44 then
                    match parseMembers f r4 with
                    | some (kvs, r5) => some ((k, v) :: kvs, r5)
                    | none => none
                  else if c1 = 125 then some ([(k, v)], r4)
                  else none
            else none
      else none
end

/-- parse one value at the front of `s`; the fuel `s.length + 1` is always
enough (every recursive call consumes at least one byte). -/
def parse (s : Bytes) : Option (JV × Bytes) := parseValue (s.length + 1) s

/-- a whole document: one value, then only whitespace. -/
def parseDoc (s : Bytes) : Option JV :=
  match parse s with
  | some (v, r) => if skipWs r = [] then some v else none
  | none => none

/-! ## the tree a call tree denotes

A token is classified by its first byte exactly as JSON does: a token starting
with `"` is a string token (Time's quoted RFC 3339 text) denoting the bytes
between its quotes; `true`/`false`/`null` are the literals; anything else is a
number and denotes its own token bytes. -/

def tokJV (t : Bytes) : JV :=
  match t with
  | [] => .num []
  | c :: r =>
    if c = 34 then .str r.dropLast
    else if t = tTrue then .bool true
    else if t = tFalse then .bool false
    else if t = tNull then .null
    else .num t

mutual
def toJV : J → JV
  | .str s => .str s
  | .tok t => tokJV t
  | .arr xs => .arr (toJVL xs)
  | .obj kvs => .obj (toJVKV kvs)
def toJVL : List J → List JV
  | [] => [] | x :: r => toJV x :: toJVL r
def toJVKV : List (Bytes × J) → List (Bytes × JV)
  | [] => [] | (k, x) :: r => (k, toJV x) :: toJVKV r
end

/-! ## well-formed tokens (the assumption about strconv / time formatting) -/

def AllDigits (ds : Bytes) : Prop := ∀ b ∈ ds, isDigit b = true

/-- `0 | [1-9][0-9]*` -/
def IntPart (ip : Bytes) : Prop :=
  ip = [48] ∨ ∃ h tl, ip = h :: tl ∧ 49 ≤ h.toNat ∧ h.toNat ≤ 57 ∧ AllDigits tl

/-- `(\.[0-9]+)?` -/
def FracPart (fp : Bytes) : Prop :=
  fp = [] ∨ ∃ ds, fp = 46 :: ds ∧ ds ≠ [] ∧ AllDigits ds

/-- `([eE][+-]?[0-9]+)?` -/
def ExpPart (ep : Bytes) : Prop :=
  ep = [] ∨ ∃ e sg ds, ep = e :: (sg ++ ds) ∧ (e = 101 ∨ e = 69) ∧
    (sg = [] ∨ sg = [43] ∨ sg = [45]) ∧ ds ≠ [] ∧ AllDigits ds

/-- the JSON number grammar `-? int frac? exp?`. -/
def NumberToken (t : Bytes) : Prop :=
  ∃ sg ip fp ep, t = sg ++ (ip ++ fp ++ ep) ∧ (sg = [] ∨ sg = [45]) ∧
    IntPart ip ∧ FracPart fp ∧ ExpPart ep

def NumberOrLiteralToken (t : Bytes) : Prop :=
  NumberToken t ∨ t = tTrue ∨ t = tFalse ∨ t = tNull

/-- a quoted string without anything to escape (what `Time` emits). -/
def PlainStringToken (t : Bytes) : Prop :=
  ∃ s, t = 34 :: (s ++ [34]) ∧ ∀ b ∈ s, 32 ≤ b.toNat ∧ b ≠ 34 ∧ b ≠ 92

def GoodToken (t : Bytes) : Prop := NumberOrLiteralToken t ∨ PlainStringToken t

mutual
/-- every `tok` leaf is a well-formed token; `str` leaves and names are arbitrary. -/
def J.Good : J → Prop
  | .str _ => True
  | .tok t => GoodToken t
  | .arr xs => GoodL xs
  | .obj kvs => GoodKV kvs
def GoodL : List J → Prop
  | [] => True | x :: r => x.Good ∧ GoodL r
def GoodKV : List (Bytes × J) → Prop
  | [] => True | (_, x) :: r => x.Good ∧ GoodKV r
end

/-- executable token check for the test driver (intended to decide
`NumberOrLiteralToken`; used for testing only, nothing is proved about it). -/
def isNumberOrLiteralToken (t : Bytes) : Bool :=
  t == tTrue || t == tFalse || t == tNull ||
    (match lexNumber t with | some (_, []) => true | _ => false)

end JSONOut
