import Plenc.Intern
/-
  InternTrace — replaying a trace recorded from the real `InternedStringCodec`
  on the step-level protocol of `Plenc/Intern.lean`.

  The verif build of plenc yields to the harness's scheduler at four points of
  `InternedStringCodec.Read` / `addString`:
    `intern.load`    before the first `atomic.LoadPointer`
    `intern.miss`    after the lookup missed, before `addString` (→ `c.Lock()`)
    `intern.locked`  after `c.Lock()` returned, before the second load
    `intern.store`   after the new table is built, before `atomic.StorePointer`
  and the scheduler records, for every release, which goroutine was released
  from which point. Between two yields a goroutine runs alone (or, when it
  blocks in `Lock()`, until the owner unlocks), so each recorded release stands
  for a fixed run of model transitions of that goroutine:

    load    [begin] load, then  hit ret   |  miss
    miss    —            (acquiring the mutex is attributed to `locked`: it is
                          not observable before the goroutine arrives there)
    locked  lock reload, then  rehit unlock ret  |  remiss
    store   store unlock ret

  Which alternative is taken is decided by the model's own table, not by the
  trace: if the real code took the other branch, the goroutine's next recorded
  point does not fit the model's program counter and the replay stops.

  Core Lean only, total, computable.
-/
namespace Intern

/-- a recorded release. -/
inductive TEv where
  | load | miss | locked | store
deriving DecidableEq, Repr

def TEv.show : TEv → String
  | .load => "intern.load" | .miss => "intern.miss" | .locked => "intern.locked" | .store => "intern.store"

def PC.name : PC → String
  | .idle => "idle" | .load _ => "load" | .lookup _ _ => "lookup" | .lock _ => "lock"
  | .reload _ => "reload" | .relookup _ _ => "relookup" | .store _ _ _ => "store"
  | .unlock _ _ => "unlock" | .ret _ _ => "ret"

/-- thread `i` takes the transitions named `ls`, in order. -/
def runLabels : State → Nat → List Label → Option State
  | s, _, [] => some s
  | s, i, l :: ls =>
    match stepThreadL s i with
    | some (l', s') => if l' = l then runLabels s' i ls else none
    | none => none

/-- thread `i` takes one transition, which must be one of the two named; what
follows depends on which it was. -/
def branch (s : State) (i : Nat) (a : Label) (thenA : List Label) (b : Label) (thenB : List Label) :
    Option State :=
  match stepThreadL s i with
  | some (l, s') =>
    if l = a then runLabels s' i thenA
    else if l = b then runLabels s' i thenB
    else none
  | none => none

def pcOf (s : State) (i : Nat) : Option PC := (s.threads[i]?).map (·.pc)

/-- one recorded release of goroutine `i`. -/
def doTEv (s : State) (i : Nat) (e : TEv) : Except String State :=
  let fail (what : String) : Except String State :=
    .error s!"goroutine {i} was released from {e.show} but the model's goroutine is at `{((pcOf s i).map PC.name).getD "?"}`{what}"
  match e, pcOf s i with
  | .load, some .idle =>
    match runLabels s i [.begin, .load] with
    | some s1 =>
      (match branch s1 i .hit [.ret] .miss [] with
       | some s2 => .ok s2
       | none => fail " (lookup)")
    | none => fail " (no request left)"
  | .miss, some (.lock _) => .ok s
  | .locked, some (.lock _) =>
    match runLabels s i [.lock, .reload] with
    | some s1 =>
      (match branch s1 i .rehit [.unlock, .ret] .remiss [] with
       | some s2 => .ok s2
       | none => fail " (second lookup)")
    | none => fail " (the model's mutex is held by another goroutine)"
  | .store, some (.store _ _ _) =>
    match runLabels s i [.store, .unlock, .ret] with
    | some s1 => .ok s1
    | none => fail ""
  | _, _ => fail ""

/-- follow a recorded trace; on failure: the index of the offending event. -/
def conformT : State → List (Nat × TEv) → Nat → Except (Nat × String) State
  | s, [], _ => .ok s
  | s, (i, e) :: rest, k =>
    match doTEv s i e with
    | .ok s' => conformT s' rest (k + 1)
    | .error m => .error (k, m)

/-- keys of the published table, in insertion order. -/
def State.keys (s : State) : List Bytes := s.tbl.map (·.1)

end Intern
