import Plenc.Build
/-
  Plenc.World — several `Plenc` instances side by side (plenc.go `type Plenc`,
  codec.go `defaultPlenc`, `baseRegistry`; marshal.go the package-level
  `Marshal`/`Unmarshal` and the methods of the same name).

  A world is the list of the instances that exist; the instance id is the index.
  Instance 0 is the package-level `defaultPlenc` (created by `init()`:
  zero-valued options + `RegisterDefaultCodecs`); the package-level functions
  `plenc.Marshal`, `plenc.RegisterCodec`, … are the ops addressed to instance 0.
  An instance is its `Cfg` (Plenc/Build.lean): the two `ProtoCompatible…`
  options, fixed at creation (the Go fields must be set before
  `RegisterDefaultCodecs`, plenc.go says so), and the registrations applied so
  far, in order; `customLoad` looks them up last-first, so a later registration
  for the same `(type, tag)` key replaces an earlier one, as `sync.Map.Store`
  does.  The default codecs are not list entries: `regLoad` computes them.

  THE CACHE IS NOT MODELLED; the modelled fragment is "registration before use".
  The real registry is ONE `sync.Map` holding both the registrations (`Store`)
  and every codec `CodecForTypeRegistry` has built so far (`StoreOrSwap`, plus
  the `pending`/`publish` protocol of `BuildStructCodec`).  As long as no
  `RegisterCodec…` call follows the first use of the instance, a cached codec
  is what rebuilding would return (the registry it was built from has not
  changed), so the cache is unobservable and `build cfg` — a function of the
  registrations alone — is the codec used.  A registration made AFTER a
  composite type containing that type was built does not reach the cached
  composite; which composites are cached depends on construction order and on
  the publication protocol, which is C07's subject, not C17's, and
  `RegisterCodec`'s doc comment makes registration-before-use the contract
  ("you need to register it before it can be used").  So instead of threading a
  cache through a second copy of the builder, every instance carries a `used`
  flag (set by the first `marshal` / `unmarshal` / `codecFor`), and a
  `register` / `addNull` on a used instance answers `Out.late`: the script has
  left the modelled fragment and the harness must not compare that instance's
  later outputs.  (The registration is still applied, i.e. the model then
  behaves like a registry without a cache.)  `RegBeforeUse` is the
  corresponding predicate on scripts; the C17 theorems about `build` are
  statements about the registration list and hold for every `Cfg`.

  Core Lean only, total, computable.
-/
namespace World

/-- one `Plenc` value: configuration and "has `CodecForType` run on it yet". -/
structure Inst where
  cfg : Cfg := {}
  used : Bool := false
deriving Repr

/-- `var p plenc.Plenc; p.ProtoCompatibleTime = a; p.ProtoCompatibleArrays = b;
p.RegisterDefaultCodecs()`. -/
def Inst.fresh (protoTime protoArrays : Bool) : Inst :=
  { cfg := { protoTime := protoTime, protoArrays := protoArrays } }

/-- instance id ↦ instance: the id is the position. -/
abbrev World := List Inst

/-- program start: only `defaultPlenc` exists (`init()` in codec.go). -/
def init : World := [Inst.fresh false false]

inductive Op where
  /-- a new instance with these options and the default codecs; its id is the
  number of instances that existed before. -/
  | newInstance (protoTime protoArrays : Bool)
  /-- `p.RegisterCodecWithTag(typ, tag, c)` (`RegisterCodec` is `tag = ""`);
  the type is named as in `TyDef.regName`. -/
  | register (inst : Nat) (typeName tag : String) (c : Ty)
  /-- `null.AddCodecs(p)`. -/
  | addNull (inst : Nat)
  /-- `p.Marshal(nil, v)` with `v` of type `d`. -/
  | marshal (inst : Nat) (d : TyDef) (v : Val)
  /-- `p.Unmarshal(data, &target)` with `target` of type `d` holding `prior`. -/
  | unmarshal (inst : Nat) (d : TyDef) (data : Bytes) (prior : Val)
  /-- `p.CodecForTypeWithTag(typ, tag)`. -/
  | codecFor (inst : Nat) (d : TyDef) (tag : String)
deriving Repr

/-- the instance an op is addressed to (`none`: it creates one). -/
def Op.inst : Op → Option Nat
  | .newInstance _ _ => none
  | .register i _ _ _ | .addNull i | .marshal i _ _ | .unmarshal i _ _ _ | .codecFor i _ _ => some i

/-- the same call on another instance. -/
def Op.retarget (j : Nat) : Op → Op
  | .newInstance a b => .newInstance a b
  | .register _ n t c => .register j n t c
  | .addNull _ => .addNull j
  | .marshal _ d v => .marshal j d v
  | .unmarshal _ d b p => .unmarshal j d b p
  | .codecFor _ d t => .codecFor j d t

inductive Out where
  /-- id of the instance created -/
  | created (id : Nat)
  /-- a registration made before the first use of the instance -/
  | done
  /-- a registration made after the first use: outside the modelled fragment -/
  | late
  /-- no such instance (scripts produced by the generators never do this) -/
  | noInst
  | bytes (r : Res Bytes)
  | val (r : Res Val)
  | codec (r : Res Ty)
deriving Repr

/-- what `null.AddCodecs` registers, in its order. -/
def nullRegs : List (String × String × Ty) :=
  [("null.Int", "", .ptr (.int 64)), ("null.Bool", "", .ptr .bool), ("null.Float", "", .ptr .f64),
   ("null.String", "", .ptr (.str false)), ("null.Time", "", .ptr (.time false))]

/-- `Store(typ, tag, c)`: append, so that it shadows every earlier entry of the key. -/
def cfgRegister (cfg : Cfg) (n tag : String) (c : Ty) : Cfg :=
  { cfg with custom := cfg.custom ++ [(n, tag, c)] }

/-- `null.AddCodecs`: five `RegisterCodec` calls. They are appended like any other
registration (so they replace an earlier user registration of a null type, as
`Store` does) and the `nullCodecs` flag is set as well. -/
def cfgAddNull (cfg : Cfg) : Cfg :=
  { cfg with nullCodecs := true, custom := cfg.custom ++ nullRegs }

/-- `p.Marshal(nil, v)`: `CodecForType(typ)` then `Omit`/`Append`. -/
def marshalWith (cfg : Cfg) (d : TyDef) (v : Val) : Res Bytes :=
  match build cfg d "" with
  | .ok t => .ok (marshal t v)
  | .err => .err | .panic => .panic | .hang => .hang

/-- `p.Unmarshal(data, &target)`. -/
def unmarshalWith (cfg : Cfg) (d : TyDef) (data : Bytes) (prior : Val) : Res Val :=
  match build cfg d "" with
  | .ok t => unmarshal t data prior
  | .err => .err | .panic => .panic | .hang => .hang

/-- an op executed on the instance it is addressed to (the id plays no role). -/
def apply (s : Inst) : Op → Inst × Out
  | .newInstance _ _ => (s, .noInst)
  | .register _ n tag c => ({ s with cfg := cfgRegister s.cfg n tag c }, if s.used then .late else .done)
  | .addNull _ => ({ s with cfg := cfgAddNull s.cfg }, if s.used then .late else .done)
  | .marshal _ d v => ({ s with used := true }, .bytes (marshalWith s.cfg d v))
  | .unmarshal _ d b p => ({ s with used := true }, .val (unmarshalWith s.cfg d b p))
  | .codecFor _ d tag => ({ s with used := true }, .codec (build s.cfg d tag))

/-- run `o` on instance `j` of `w`. -/
def onInst (w : World) (j : Nat) (o : Op) : World × Out :=
  match w[j]? with
  | none => (w, .noInst)
  | some s => ((w.set j (apply s o).1), (apply s o).2)

def step (w : World) (o : Op) : World × Out :=
  match o with
  | .newInstance a b => (w ++ [Inst.fresh a b], .created w.length)
  | .register i _ _ _ | .addNull i | .marshal i _ _ | .unmarshal i _ _ _ | .codecFor i _ _ => onInst w i o

def run : List Op → World → World × List Out
  | [], w => (w, [])
  | o :: ops, w =>
    let r := step w o
    let rs := run ops r.1
    (rs.1, r.2 :: rs.2)

/-- the outputs of the ops addressed to instance `i`. -/
def outsAt (i : Nat) : List Op → List Out → List Out
  | o :: ops, x :: outs => if o.inst = some i then x :: outsAt i ops outs else outsAt i ops outs
  | _, _ => []

/-- the single-instance machine: the ops run one after the other on one instance. -/
def runInst : Inst → List Op → Inst × List Out
  | s, [] => (s, [])
  | s, o :: ops =>
    let r := apply s o
    let rs := runInst r.1 ops
    (rs.1, r.2 :: rs.2)

/-- "registration before use": no `register`/`addNull` on an instance after a
`marshal`/`unmarshal`/`codecFor` on it (`used`: the instances used so far). -/
def regBeforeUse : List Nat → List Op → Bool
  | _, [] => true
  | used, .newInstance _ _ :: ops => regBeforeUse used ops
  | used, .register i _ _ _ :: ops => !used.contains i && regBeforeUse used ops
  | used, .addNull i :: ops => !used.contains i && regBeforeUse used ops
  | used, .marshal i _ _ :: ops => regBeforeUse (i :: used) ops
  | used, .unmarshal i _ _ _ :: ops => regBeforeUse (i :: used) ops
  | used, .codecFor i _ _ :: ops => regBeforeUse (i :: used) ops

end World
