import Plenc.Basic
/-
  Plenc.Intern — the string-interning codec of plenccodec/string.go
  (`InternedStringCodec`, `StringCodec.WithInterning`) and null/null.go
  (`internedNullStringCodec`).

  Part (a) is the sequential machine: one table, reads one after the other.
  Part (b) is the concurrent protocol: N goroutines, each decoding a list of
  values through the same codec, one transition per yield point of
  `Read`/`addString` (atomic load, mutex, atomic store).  Both parts share the
  table operations (`lookup`, `copyTable`, `insert`, `addEntry`), so the
  sequential machine is the concurrent one run by a single thread.

  Core Lean only, total, computable.
-/
namespace Intern

/-! ### strings with provenance -/

/-- Where the bytes of a Go `string` live.
`fresh id`: a private allocation (the `id`-th one made by this codec) — what the
conversion `string(data)` yields, it always copies.
`view off len`: the string header points into the caller's input buffer at
`[off, off+len)` — what a zero-copy conversion (a string header over `&data[0]`)
would yield.
The codec never builds a `view`; the constructor exists so that "never
references the caller's buffer" is a statement that can fail. -/
inductive Prov where
  | fresh (id : Nat)
  | view (off len : Nat)
deriving Repr, DecidableEq

/-- a Go string value: its contents at creation time and where they live. -/
structure Str where
  bytes : Bytes
  prov : Prov
deriving Repr, DecidableEq

def Prov.isFresh : Prov → Bool
  | .fresh _ => true
  | .view _ _ => false

/-- `string(data)`: allocate (allocation number `id`) and copy. -/
def strCopy (id : Nat) (data : Bytes) : Str := ⟨data, .fresh id⟩

/-- the zero-copy alternative (not used by the codec): a string header over the
slice `data = buf[off : off+len(data)]` of the caller's buffer. -/
def strAlias (off : Nat) (data : Bytes) : Str := ⟨data, .view off data.length⟩

/-- What a reader of the string sees while the caller's buffer holds `buf`.
A private copy is independent of the buffer; a view reads through to it. -/
def Str.observe (buf : Bytes) (s : Str) : Bytes :=
  match s.prov with
  | .fresh _ => s.bytes
  | .view off len => (buf.drop off).take len

/-! ### the table: an immutable `map[string]string`

An association list in insertion order.  The Go map is keyed by string
*contents*, so the key is `Bytes`.  Key and value of an entry are the same Go
string `s` (`m2[s] = s`), so one `Str` stands for both. -/

abbrev Table := List (Bytes × Str)

/-- `s, ok := m[string(data)]` (the compiler does not allocate for the
conversion in a map index expression; the comparison is by contents). -/
def lookup : Table → Bytes → Option Str
  | [], _ => none
  | (k, v) :: r, d => if k = d then some v else lookup r d

/-- `m[k] = v`: overwrite the value of an existing key, add the entry otherwise. -/
def insert : Table → Bytes → Str → Table
  | [], k, v => [(k, v)]
  | (k', v') :: r, k, v => if k' = k then (k', v) :: r else (k', v') :: insert r k v

/-- `m2 := make(map[string]string, len(m)+1); for k, v := range m { m2[k] = v }`
(Go's iteration order is unspecified; the list order stands for one such order). -/
def copyTable (m : Table) : Table :=
  m.foldl (fun m2 kv => insert m2 kv.1 kv.2) []

/-- the miss branch of `addString`, given the table `m` loaded under the lock:
```
m2 := copy of m
s = string(data)
m2[s] = s
```
returns `(s, m2)`; the caller publishes `m2`. The allocation number of `s` is
the number of entries already allocated for this table. -/
def addEntry (m : Table) (data : Bytes) : Str × Table :=
  let m2 := copyTable m
  let s := strCopy m.length data
  (s, insert m2 s.bytes s)

/-- `StringCodec{}.WithInterning()`: a fresh codec with an empty table (one per
struct field tagged `intern`). -/
def withInterning : Table := []

/-! ### (a) the sequential machine -/

/-- `InternedStringCodec.addString(data)` run without interference:
lock; reload; lookup; on a miss copy + insert + store; unlock. -/
def addString (tbl : Table) (data : Bytes) : Str × Table :=
  let m := tbl                            -- p := atomic.LoadPointer(&c.strings)
  match lookup m data with                -- s, ok := m[string(data)]
  | some s => (s, tbl)
  | none =>                               -- if !ok {
    let (s, m2) := addEntry m data        --   m2 := ...; s = string(data); m2[s] = s
    (s, m2)                               --   atomic.StorePointer(&c.strings, m2) }

/-- `InternedStringCodec.Read(data, ptr, wt)`: the string stored to `*ptr` and the
table afterwards (`n = len(data)`, `err = nil` always). -/
def internRead (tbl : Table) (data : Bytes) : Str × Table :=
  let m := tbl                            -- p := atomic.LoadPointer(&c.strings)
  match lookup m data with                -- s, ok := m[string(data)]
  | some s => (s, tbl)
  | none => addString tbl data            -- if !ok { s = c.addString(data) }

/-- `StringCodec.Read`: `*ptr = string(data)`, the `n`-th allocation of the caller. -/
def plainRead (n : Nat) (data : Bytes) : Str := strCopy n data

/-- a `null.String` target. -/
structure NullStr where
  str : Str
  valid : Bool
deriving Repr, DecidableEq

/-- `nullStringCodec.Read`. -/
def nullPlainRead (n : Nat) (data : Bytes) : NullStr := ⟨plainRead n data, true⟩

/-- `internedNullStringCodec.Read`: the same machine, then `ns.Valid = true`. -/
def nullInternRead (tbl : Table) (data : Bytes) : NullStr × Table :=
  let r := internRead tbl data
  (⟨r.1, true⟩, r.2)

/-- decode the inputs in order through one codec. -/
def internRun : Table → List Bytes → List Str × Table
  | tbl, [] => ([], tbl)
  | tbl, d :: ds =>
    let r := internRead tbl d
    let rs := internRun r.2 ds
    (r.1 :: rs.1, rs.2)

def plainRun : Nat → List Bytes → List Str
  | _, [] => []
  | n, d :: ds => plainRead n d :: plainRun (n + 1) ds

/-- contents of the strings obtained by decoding `ds` in order through a freshly
built interning codec (for differential testing against the Go code). -/
def internSeq (ds : List Bytes) : List Bytes :=
  (internRun withInterning ds).1.map (·.bytes)

/-- the same through the plain codec. -/
def plainSeq (ds : List Bytes) : List Bytes :=
  (plainRun 0 ds).map (·.bytes)

/-- sharing structure of the interned results: for each result the allocation
number of the string returned (equal numbers = the very same string). -/
def internIds (ds : List Bytes) : List Nat :=
  (internRun withInterning ds).1.map fun s =>
    match s.prov with | .fresh id => id | .view _ _ => 0

/-! ### (b) the concurrent protocol

Thread-local state is the program counter together with the live locals at
that point: the request `d` (`data`), the loaded table `m`, the table under
construction `m2`, the string `v` (`s`). -/

inductive PC where
  /-- between two `Read` calls -/
  | idle
  /-- `Read` entered; next: `p := atomic.LoadPointer(&c.strings)` -/
  | load (d : Bytes)
  /-- next: `s, ok := m[string(data)]` on the loaded table -/
  | lookup (d : Bytes) (m : Table)
  /-- in `addString`; next: `c.Lock()` -/
  | lock (d : Bytes)
  /-- holds the mutex; next: the second `atomic.LoadPointer` -/
  | reload (d : Bytes)
  /-- holds the mutex; next: second lookup and, on a miss, building `m2` -/
  | relookup (d : Bytes) (m : Table)
  /-- holds the mutex; next: `atomic.StorePointer(&c.strings, m2)` -/
  | store (d : Bytes) (m2 : Table) (v : Str)
  /-- holds the mutex; next: the deferred `c.Unlock()` -/
  | unlock (d : Bytes) (v : Str)
  /-- next: `*(*string)(ptr) = s; return` -/
  | ret (d : Bytes) (v : Str)
deriving Repr, DecidableEq

/-- between `Lock()` and `Unlock()`. -/
def PC.holds : PC → Bool
  | .reload _ | .relookup _ _ | .store _ _ _ | .unlock _ _ => true
  | _ => false

/-- the request being served, if any. -/
def PC.cur : PC → Option Bytes
  | .idle => none
  | .load d | .lookup d _ | .lock d | .reload d | .relookup d _
  | .store d _ _ | .unlock d _ | .ret d _ => some d

structure Thread where
  pc : PC
  /-- requests not yet started -/
  todo : List Bytes
  /-- completed `(request, result)` pairs, most recent first -/
  done : List (Bytes × Str)
deriving Repr, DecidableEq

/-- all requests of the thread in order: answered, in progress, pending. -/
def Thread.requests (t : Thread) : List Bytes :=
  t.done.reverse.map (·.1) ++ (t.pc.cur.toList ++ t.todo)

/-- the results so far, oldest first. -/
def Thread.results (t : Thread) : List Str := t.done.reverse.map (·.2)

def Thread.finished (t : Thread) : Bool :=
  match t.pc, t.todo with
  | .idle, [] => true
  | _, _ => false

structure State where
  /-- `c.strings`: the published table -/
  tbl : Table
  /-- `c.Mutex`: the owner, if locked -/
  lock : Option Nat
  threads : List Thread
deriving Repr, DecidableEq

def State.setThread (s : State) (i : Nat) (t : Thread) : State :=
  { s with threads := s.threads.set i t }

/-- a fresh codec shared by one goroutine per element of `reqs`. -/
def init (reqs : List (List Bytes)) : State :=
  ⟨withInterning, none, reqs.map fun r => ⟨.idle, r, []⟩⟩

def State.finished (s : State) : Bool := s.threads.all Thread.finished

/-- per thread, the contents of the results so far. -/
def State.results (s : State) : List (List Bytes) :=
  s.threads.map fun t => t.results.map (·.bytes)

/-- names of the transitions (for matching recorded traces). -/
inductive Label where
  | begin | load | hit | miss | lock | reload | rehit | remiss | store | unlock | ret
deriving Repr, DecidableEq

/-- One atomic step of thread `i`, if it is enabled. `none`: no such thread, the
thread has nothing left to do, or it is blocked on the mutex. -/
def stepThreadL (s : State) (i : Nat) : Option (Label × State) :=
  match s.threads[i]? with
  | none => none
  | some t =>
    match t.pc with
    | .idle =>
      match t.todo with
      | [] => none
      | d :: ds => some (.begin, s.setThread i { t with pc := .load d, todo := ds })
    | .load d => some (.load, s.setThread i { t with pc := .lookup d s.tbl })
    | .lookup d m =>
      match lookup m d with
      | some v => some (.hit, s.setThread i { t with pc := .ret d v })
      | none => some (.miss, s.setThread i { t with pc := .lock d })
    | .lock d =>
      match s.lock with
      | none => some (.lock, { s.setThread i { t with pc := .reload d } with lock := some i })
      | some _ => none
    | .reload d => some (.reload, s.setThread i { t with pc := .relookup d s.tbl })
    | .relookup d m =>
      match lookup m d with
      | some v => some (.rehit, s.setThread i { t with pc := .unlock d v })
      | none =>
        let r := addEntry m d
        some (.remiss, s.setThread i { t with pc := .store d r.2 r.1 })
    | .store d m2 v => some (.store, { s.setThread i { t with pc := .unlock d v } with tbl := m2 })
    | .unlock d v => some (.unlock, { s.setThread i { t with pc := .ret d v } with lock := none })
    | .ret d v => some (.ret, s.setThread i { t with pc := .idle, done := (d, v) :: t.done })

def stepThread (s : State) (i : Nat) : Option State := (stepThreadL s i).map (·.2)

def enabled (s : State) (i : Nat) : Bool := (stepThreadL s i).isSome

/-- replay a schedule: the `k`-th element is the thread taking the `k`-th step.
`none` if some step is not enabled. -/
def runSchedule : State → List Nat → Option State
  | s, [] => some s
  | s, i :: is =>
    match stepThread s i with
    | none => none
    | some s' => runSchedule s' is

/-- replay a labelled trace: additionally every step must be the named transition. -/
def runTrace : State → List (Nat × Label) → Option State
  | s, [] => some s
  | s, (i, l) :: r =>
    match stepThreadL s i with
    | none => none
    | some (l', s') => if l' = l then runTrace s' r else none

/-- run thread `i` alone for at most `fuel` steps, until it is idle again or blocked. -/
def runThread : Nat → State → Nat → State
  | 0, s, _ => s
  | fuel + 1, s, i =>
    match stepThread s i with
    | none => s
    | some s' =>
      match s'.threads[i]? with
      | some t => if t.pc = .idle then s' else runThread fuel s' i
      | none => s'

/-- thread `i` performs `n` whole `Read` calls without being interrupted
(a `Read` takes at most 9 steps). -/
def runReads : Nat → State → Nat → State
  | 0, s, _ => s
  | n + 1, s, i => runReads n (runThread 9 s i) i

/-- the transition relation in rule form (equivalent to `stepThreadL`, see
`Proofs/Intern.lean: step_iff`). -/
inductive Step : State → Nat → Label → State → Prop
  | begin {s : State} {i : Nat} {t : Thread} {d : Bytes} {ds : List Bytes} :
      s.threads[i]? = some t → t.pc = .idle → t.todo = d :: ds →
      Step s i .begin (s.setThread i { t with pc := .load d, todo := ds })
  | load {s : State} {i : Nat} {t : Thread} {d : Bytes} :
      s.threads[i]? = some t → t.pc = .load d →
      Step s i .load (s.setThread i { t with pc := .lookup d s.tbl })
  | hit {s : State} {i : Nat} {t : Thread} {d : Bytes} {m : Table} {v : Str} :
      s.threads[i]? = some t → t.pc = .lookup d m → lookup m d = some v →
      Step s i .hit (s.setThread i { t with pc := .ret d v })
  | miss {s : State} {i : Nat} {t : Thread} {d : Bytes} {m : Table} :
      s.threads[i]? = some t → t.pc = .lookup d m → lookup m d = none →
      Step s i .miss (s.setThread i { t with pc := .lock d })
  | lock {s : State} {i : Nat} {t : Thread} {d : Bytes} :
      s.threads[i]? = some t → t.pc = .lock d → s.lock = none →
      Step s i .lock { s.setThread i { t with pc := .reload d } with lock := some i }
  | reload {s : State} {i : Nat} {t : Thread} {d : Bytes} :
      s.threads[i]? = some t → t.pc = .reload d →
      Step s i .reload (s.setThread i { t with pc := .relookup d s.tbl })
  | rehit {s : State} {i : Nat} {t : Thread} {d : Bytes} {m : Table} {v : Str} :
      s.threads[i]? = some t → t.pc = .relookup d m → lookup m d = some v →
      Step s i .rehit (s.setThread i { t with pc := .unlock d v })
  | remiss {s : State} {i : Nat} {t : Thread} {d : Bytes} {m : Table} :
      s.threads[i]? = some t → t.pc = .relookup d m → lookup m d = none →
      Step s i .remiss (s.setThread i { t with pc := .store d (addEntry m d).2 (addEntry m d).1 })
  | store {s : State} {i : Nat} {t : Thread} {d : Bytes} {m2 : Table} {v : Str} :
      s.threads[i]? = some t → t.pc = .store d m2 v →
      Step s i .store { s.setThread i { t with pc := .unlock d v } with tbl := m2 }
  | unlock {s : State} {i : Nat} {t : Thread} {d : Bytes} {v : Str} :
      s.threads[i]? = some t → t.pc = .unlock d v →
      Step s i .unlock { s.setThread i { t with pc := .ret d v } with lock := none }
  | ret {s : State} {i : Nat} {t : Thread} {d : Bytes} {v : Str} :
      s.threads[i]? = some t → t.pc = .ret d v →
      Step s i .ret (s.setThread i { t with pc := .idle, done := (d, v) :: t.done })

/-- states reachable from `s0` by any interleaving. -/
inductive Reach (s0 : State) : State → Prop
  | refl : Reach s0 s0
  | step {s s' : State} {i : Nat} {l : Label} : Reach s0 s → Step s i l s' → Reach s0 s'

/-! ### specification predicates -/

/-- the table invariant: every value has the contents of its key, the `i`-th
entry is the `i`-th private allocation (in particular no entry is a view of an
input buffer and no two entries share memory), keys are pairwise distinct. -/
structure Inv (tbl : Table) : Prop where
  val_eq_key : ∀ (k : Bytes) (s : Str), (k, s) ∈ tbl → s.bytes = k
  fresh_idx : ∀ (i : Nat) (k : Bytes) (s : Str), tbl[i]? = some (k, s) → s.prov = .fresh i
  keys_nodup : (tbl.map (·.1)).Nodup

end Intern
