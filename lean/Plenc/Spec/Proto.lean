import Plenc.Codec
/-
  Plenc.Spec.Proto — an independent reading of the *standard protobuf wire
  format* (protobuf encoding guide: base-128 varints, key = field_number << 3 |
  wire_type, wire types 0 VARINT, 1 I64, 2 LEN, 5 I32; groups 3/4 are not
  accepted), and a schema-directed well-formedness predicate over a plenc codec
  tree read as a protobuf schema.

  Nothing here uses the plenc readers (`readVarUint`, `readTag`, `Ty.read`,
  `skip`): the parser is written from the protobuf specification.  Only the
  types `Bytes`, `WT` (as names for the wire-type codes) and `Ty` (as the schema)
  are shared with the model.
-/
namespace Proto

/-- base-128 varint: little-endian groups of 7 bits, continuation bit 0x80; at
most `fuel` bytes. Returns the value and the remaining input. -/
def varintAux : Nat → Bytes → Option (Nat × Bytes)
  | 0, _ => none
  | _+1, [] => none
  | f+1, b :: r =>
    if b.toNat < 128 then some (b.toNat, r)
    else match varintAux f r with
      | some (x, r') => some ((b.toNat - 128) + 128 * x, r')
      | none => none

/-- a protobuf varint: at most ten bytes, value below 2^64. -/
def varint (d : Bytes) : Option (Nat × Bytes) :=
  match varintAux 10 d with
  | some (x, r) => if x < 2 ^ 64 then some (x, r) else none
  | none => none

/-- one record: field number, wire type, payload. The payload of a VARINT
record is the bytes of the varint, of I64 / I32 the 8 / 4 bytes, of LEN the
delimited bytes (without the length prefix). -/
abbrev Rec := Nat × WT × Bytes

/-- one record from the front of the input, and the rest. Wire types 3, 4, 6, 7
are rejected; every length must be available in full. -/
def parseOne (d : Bytes) : Option (Rec × Bytes) :=
  match varint d with
  | none => none
  | some (key, r) =>
    if key % 8 = 0 then
      match varint r with
      | some (_, r') => some ((key / 8, .varint, r.take (r.length - r'.length)), r')
      | none => none
    else if key % 8 = 1 then
      if r.length < 8 then none else some ((key / 8, .w64, r.take 8), r.drop 8)
    else if key % 8 = 2 then
      match varint r with
      | some (l, r') => if l > r'.length then none else some ((key / 8, .len, r'.take l), r'.drop l)
      | none => none
    else if key % 8 = 5 then
      if r.length < 4 then none else some ((key / 8, .w32, r.take 4), r.drop 4)
    else none

def parseLoop : Nat → Bytes → Option (List Rec)
  | 0, _ => none
  | f+1, d =>
    if d.isEmpty then some [] else
    match parseOne d with
    | none => none
    | some (r, rest) =>
      match parseLoop f rest with
      | some rs => some (r :: rs)
      | none => none

/-- a message: records back to back, consuming the input exactly. Total: every
record takes at least one byte, so `length + 1` rounds suffice. -/
def parseMsg (d : Bytes) : Option (List Rec) := parseLoop (d.length + 1) d

/-- a packed repeated varint payload: varints back to back, exactly. -/
def varintsOK : Nat → Bytes → Bool
  | 0, _ => false
  | f+1, d =>
    if d.isEmpty then true else
    match varint d with
    | some (_, r) => varintsOK f r
    | none => false

/-- `google.protobuf.Timestamp` at the wire level: a message whose records are
field 1 (seconds) or field 2 (nanos), both VARINT. -/
def tsOK (p : Bytes) : Bool :=
  match parseMsg p with
  | some rs => rs.all fun r => (r.1 == 1 || r.1 == 2) && r.2.1 == WT.varint
  | none => false

/-- standard two's-complement reading of a varint as `int64` / `int32`. -/
def asInt (w : Nat) (u : Nat) : Int :=
  if u % 2 ^ w < 2 ^ (w - 1) then (u % 2 ^ w : Nat) else (u % 2 ^ w : Nat) - (2 ^ w : Nat)

/-- decode a `Timestamp{int64 seconds = 1; int32 nanos = 2}` (absent = 0, last wins). -/
def timestamp (p : Bytes) : Option (Int × Int) :=
  match parseMsg p with
  | none => none
  | some rs =>
    rs.foldl (fun acc r =>
      match acc with
      | none => none
      | some (s, n) =>
        match varint r.2.2 with
        | none => none
        | some (u, _) =>
          if r.2.1 ≠ WT.varint then none
          else if r.1 = 1 then some (asInt 64 u, n)
          else if r.1 = 2 then some (s, asInt 32 u)
          else none) (some (0, 0))

mutual
/-- the payload of a length-delimited *value* of schema type `t` (a repeated
field's element, a pointer's target). -/
def bodyOK : Ty → Bytes → Bool
  | .str _, _ | .bytes, _ => true
  | .time c, p => c && tsOK p
  | .ptr t, p => bodyOK t p
  | .vslice _, p => varintsOK (p.length + 1) p
  | .fslice .f32, p => p.length % 4 == 0
  | .fslice .f64, p => p.length % 8 == 0
  | .struct _ fs, p =>
      match parseMsg p with
      | some rs => rs.all fun r => recOK fs r.1 r.2.1 r.2.2
      | none => false
  | _, _ => false
/-- one record of a field of schema type `t`: the wire type fits the kind
(varint kinds 0, double 1, float 5, everything else 2) and the payload is
recursively well-formed.  A repeated field (`pslice`, proto map) is checked one
record = one element / one `{key = 1, value = 2}` entry at a time.  The plenc-only
forms (`lslice`, plenc map, plenc time) are not protobuf. -/
def fieldOK : Ty → WT → Bytes → Bool
  | .bool, wt, _ | .int _, wt, _ | .uint _, wt, _ | .flat _, wt, _ => wt == WT.varint
  | .f64, wt, _ => wt == WT.w64
  | .f32, wt, _ => wt == WT.w32
  | .str _, wt, _ | .bytes, wt, _ => wt == WT.len
  | .time c, wt, p => wt == WT.len && (c && tsOK p)
  | .ptr t, wt, p => fieldOK t wt p
  | .vslice _, wt, p => wt == WT.len && varintsOK (p.length + 1) p
  | .fslice .f32, wt, p => wt == WT.len && p.length % 4 == 0
  | .fslice .f64, wt, p => wt == WT.len && p.length % 8 == 0
  | .fslice _, _, _ => false
  | .pslice t, wt, p => wt == WT.len && bodyOK t p
  | .struct _ fs, wt, p =>
      wt == WT.len &&
      (match parseMsg p with
       | some rs => rs.all fun r => recOK fs r.1 r.2.1 r.2.2
       | none => false)
  | .map k v true, wt, p =>
      wt == WT.len &&
      (match parseMsg p with
       | some rs => rs.all fun r =>
           (r.1 == 1 && fieldOK k r.2.1 r.2.2) || (r.1 == 2 && fieldOK v r.2.1 r.2.2)
       | none => false)
  | .lslice _, _, _ | .map _ _ false, _, _ => false
/-- the record's field number belongs to a field of the struct, and the record
is a well-formed record of that field. -/
def recOK : Fields → Nat → WT → Bytes → Bool
  | [], _, _, _ => false
  | (i, _, t) :: r, idx, wt, p => if i = idx then fieldOK t wt p else recOK r idx wt p
end

/-- `d` is a well-formed standard-protobuf encoding of a message of schema `t`
(a struct codec tree): it parses as a message with wire types 0, 1, 2, 5 only and
exact lengths, every record belongs to a field, and so on recursively. -/
def ProtoWF (t : Ty) (d : Bytes) : Bool := bodyOK t d

end Proto
