import Plenc.Codec
/-
  Plenc.Spec.Format — the documented wire format of plenc, as a declarative
  specification that is independent of the codec model's `Ty.app` / `Ty.size`.

  Written from README.md ("Is this protobuf?", "Slices"), the comments on the
  wire types in plenccore/wire.go, the type comments in plenccodec (time.go:
  "the structure is the same [as google.protobuf.Timestamp]", map.go: "a slice of
  structs with the key and value as the fields", wrapper.go: ProtoSliceWrapper
  "the elements of the slice are simply repeated") and the golden files in
  plenccodec/testdata.

  Shape: a message is a list of *records* `(index, wire type, payload)`; ONE
  function (`renderRec`) turns a record into bytes; ONE place (`fieldsOf`) states
  the omission rule; ONE table (`form`) says, per kind, what the wire type and
  the payload of a present value are.  Nothing here computes a length in
  advance: a length prefix is by definition the length of the payload that
  follows it.  All definitions are structurally recursive, so the kernel can
  evaluate `Spec.encode` on literals (`decide +kernel`) and the compiler produces
  an executable.

  Only the types (`Ty`, `Val`, `Fields`, `WT`, `Bytes`) and the integer
  primitives of Plenc/Varint.lean + Plenc/Basic.lean (base-128 varint, zig-zag,
  two's-complement reinterpretation, little-endian bytes) are shared with the
  model; `Ty.app`, `Ty.size`, `Ty.wt`, `Val.omit`, `frame`, `appendTag` are not used.
-/
namespace Spec

/-! ### primitives -/

/-- base-128 varint, least significant group first (protobuf "varint"). -/
def varint (n : Nat) : Bytes := appendVarUint n

/-- zig-zag varint of a signed integer: 0, -1, 1, -2, … ↦ 0, 1, 2, 3, … -/
def svarint (i : Int) : Bytes := varint (zigZag i)

/-- a byte string preceded by its length. -/
def lenPrefixed (b : Bytes) : Bytes := varint b.length ++ b

/-! ### records -/

/-- one field occurrence of a message. -/
structure Rec where
  index : Nat
  wt : WT
  payload : Bytes
deriving Repr, DecidableEq

/-- the only rendering function: tag `varint(index<<3 | wiretype)`; for the
length-delimited wire type the byte count of the payload; the payload. -/
def renderRec (r : Rec) : Bytes :=
  varint (r.index * 8 + r.wt.code)
    ++ (if r.wt = .len then varint r.payload.length else [])
    ++ r.payload

/-- a message: its records one after the other. -/
def render (rs : List Rec) : Bytes := rs.flatMap renderRec

/-! ### wire type of a kind (wire.go comments) -/

/-- integers and bools are varints; floats are fixed 32/64; strings, byte
slices, structs, times and *packed* slices (elements varint or fixed) are
length-delimited; a slice of length-delimited elements and a map are WTSlice (3);
in the protobuf-compatible repeated forms every element / entry is itself a
length-delimited record; a pointer is written as its target. -/
def wtOf : Ty → WT
  | .bool | .int _ | .uint _ | .flat _ => .varint
  | .f32 => .w32
  | .f64 => .w64
  | .str _ | .bytes | .time _ | .struct _ _ => .len
  | .vslice _ | .fslice _ => .len
  | .lslice _ => .slice
  | .pslice _ => .len
  | .map _ _ false => .slice
  | .map _ _ true => .len
  | .ptr t => wtOf t

/-! ### presence -/

/-- "no presence": the values that are not written at all in a zero-omitting
position (struct field, map key / value, top level): false, 0, +0.0 and -0.0,
the empty string / byte slice, the zero `time.Time`, nil pointers, empty (or
nil) slices, nil maps.  A struct is always present; so is an empty non-nil map. -/
def absent : Val → Bool
  | .bool b => b == false
  | .int i => i == 0
  | .uint n => n == 0
  | .f32 bits => bits == 0 || bits == 0x80000000
  | .f64 bits => bits == 0 || bits == 0x8000000000000000
  | .str [] => true
  | .str (_ :: _) => false
  | .bytes [] => true
  | .bytes (_ :: _) => false
  | .time sec nsec => sec == zeroTimeSec && nsec == 0
  | .ptr none => true
  | .ptr (some _) => false
  | .slice [] => true
  | .slice (_ :: _) => false
  | .struct _ => false
  | .map none => true
  | .map (some _) => false

/-- a repeated-form element that produced no record of its own (a nil pointer)
is written as one empty length-delimited record, so that the other elements
keep their positions. -/
def orEmpty (i : Nat) (rs : List Rec) : List Rec :=
  if rs.isEmpty then [⟨i, .len, []⟩] else rs

/-! ### payloads and records -/

/-- How a present value is written: its payload, and the record(s) it
contributes to an enclosing message when it sits there under index `i`. -/
structure Form where
  payload : Bytes
  recs : Nat → List Rec

/-- the ordinary case: ONE record, of wire type `wt`, carrying the payload. -/
def one (wt : WT) (p : Bytes) : Form := ⟨p, fun i => [⟨i, wt, p⟩]⟩

mutual
/-- the table of kinds: wire type and payload of a present value. -/
def form : Ty → Val → Form
  | .bool, .bool b => one .varint (varint (if b then 1 else 0))
  | .int _, .int i => one .varint (svarint i)             -- signed: zig-zag
  | .uint _, .uint n => one .varint (varint n)            -- unsigned: plain
  | .flat w, .int i => one .varint (varint (wrapU w i))   -- "flat": the w-bit two's-complement pattern, plain
  | .f32, .f32 bits => one .w32 (leBytes 4 bits)          -- IEEE bits, little-endian
  | .f64, .f64 bits => one .w64 (leBytes 8 bits)
  | .str _, .str s => one .len s
  | .bytes, .bytes s => one .len s
  | .time compat, .time sec nsec =>
      -- struct { seconds = 1; nanos = 2 }, both always written; zig-zag, or
      -- (google.protobuf.Timestamp compatible) plain two's-complement varints
      one .len (render [⟨1, .varint, if compat then varint (wrapU 64 sec) else svarint sec⟩,
                        ⟨2, .varint, if compat then varint nsec else svarint nsec⟩])
  -- a pointer is written as its target; a nil pointer writes nothing
  | .ptr _, .ptr none => ⟨[], fun _ => []⟩
  | .ptr t, .ptr (some v) => form t v
  -- packed: the element payloads back to back
  | .vslice t, .slice vs => one .len (vs.flatMap fun v => (form t v).payload)
  | .fslice t, .slice vs => one .len (vs.flatMap fun v => (form t v).payload)
  -- WTSlice: count, then each element payload with its length
  | .lslice t, .slice vs =>
      one .slice (varint vs.length ++ vs.flatMap fun v => lenPrefixed (form t v).payload)
  -- nested message
  | .struct _ fs, .struct vs => one .len (render (fieldsOf fs vs))
  -- WTSlice of entries; an entry is the message {key = 1; value = 2}, same omission rule
  | .map k v false, .map (some es) =>
      one .slice (varint es.length ++ es.flatMap fun e =>
        lenPrefixed (render ((if absent e.1 then [] else (form k e.1).recs 1)
                          ++ (if absent e.2 then [] else (form v e.2).recs 2))))
  | .map _ _ false, .map none => one .slice (varint 0)
  -- The two protobuf repeated forms: one length-delimited record per element
  -- (an element without a record of its own — nil pointer — as an empty record)
  -- / per map entry. They have no payload of their own; outside a struct field
  -- (top level, slice element, pointer target) there is no enclosing message and
  -- what is written is the bare sequence given as `payload` here, which
  -- wrapper.go documents as not decodable ("does not work outside of a struct").
  | .pslice t, .slice vs =>
      ⟨vs.flatMap fun v => (form t v).payload,
       fun i => vs.flatMap fun v => orEmpty i ((form t v).recs i)⟩
  | .map k v true, .map (some es) =>
      ⟨es.flatMap fun e =>
         lenPrefixed (render ((if absent e.1 then [] else (form k e.1).recs 1)
                           ++ (if absent e.2 then [] else (form v e.2).recs 2))),
       fun i => es.map fun e =>
         ⟨i, .len, render ((if absent e.1 then [] else (form k e.1).recs 1)
                        ++ (if absent e.2 then [] else (form v e.2).recs 2))⟩⟩
  | _, _ => ⟨[], fun _ => []⟩
/-- the records of a struct value: fields in declaration order; a field whose
value has no presence yields no record (the omission rule, stated here once —
map entries re-use it for key and value). -/
def fieldsOf : Fields → List Val → List Rec
  | (i, _, t) :: fs, v :: vs => (if absent v then [] else (form t v).recs i) ++ fieldsOf fs vs
  | _, _ => []
end

/-- the payload of a present value. -/
def payload (t : Ty) (v : Val) : Bytes := (form t v).payload

/-- the record(s) a present value contributes under index `i`: one, carrying
its payload — except that the protobuf repeated forms contribute one
length-delimited record per element / per map entry, and a pointer contributes
what its target contributes (nothing when nil). -/
def recsOf (t : Ty) (i : Nat) (v : Val) : List Rec := (form t v).recs i

/-- What `Marshal(nil, v)` returns for a value `v` of a type whose codec tree is
`t`: nothing when the value has no presence, else its bare payload (no tag, no
length: the top level is not a field). -/
def encode (t : Ty) (v : Val) : Bytes :=
  if absent v then [] else payload t v

end Spec
