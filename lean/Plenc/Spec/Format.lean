import Plenc.Codec
/-
  Plenc.Spec.Format — the documented wire format of plenc, as a declarative
  specification that is independent of the codec model's `Ty.app` / `Ty.size`.

  Written from README.md ("Is this protobuf?", "Slices"), the comments on the
  wire types in plenccore/wire.go, the type comments in plenccodec (time.go:
  "the structure is the same [as google.protobuf.Timestamp]", map.go: "a slice of
  structs with the key and value as the fields", wrapper.go: ProtoSliceWrapper
  "the elements of the slice are simply repeated") and the golden files in
  plenccodec/testdata.

  Shape: a message is a list of *records* `(index, wire type, payload)`; ONE
  function (`renderRec`) turns a record into bytes; ONE place (`fieldsOf`) states
  the omission rule; `payload` says, per kind, what the payload of a present
  value is.  Nothing here computes a length in advance: a length prefix is by
  definition the length of the payload that follows it.

  Only the types (`Ty`, `Val`, `Fields`, `WT`, `Bytes`) and the integer
  primitives of Plenc/Varint.lean + Plenc/Basic.lean (base-128 varint, zig-zag,
  two's-complement reinterpretation, little-endian bytes) are shared with the
  model; `Ty.app`, `Ty.size`, `Ty.wt`, `Val.omit`, `frame`, `appendTag` are not used.
-/
namespace Spec

/-! ### primitives -/

/-- base-128 varint, least significant group first (protobuf "varint"). -/
def varint (n : Nat) : Bytes := appendVarUint n

/-- zig-zag varint of a signed integer: 0, -1, 1, -2, … ↦ 0, 1, 2, 3, … -/
def svarint (i : Int) : Bytes := varint (zigZag i)

/-- a byte string preceded by its length. -/
def lenPrefixed (b : Bytes) : Bytes := varint b.length ++ b

/-! ### records -/

/-- one field occurrence of a message. -/
structure Rec where
  index : Nat
  wt : WT
  payload : Bytes
deriving Repr, DecidableEq

/-- the only rendering function: tag `varint(index<<3 | wiretype)`; for the
length-delimited wire type the byte count of the payload; the payload. -/
def renderRec (r : Rec) : Bytes :=
  varint (r.index * 8 + r.wt.code)
    ++ (if r.wt = .len then varint r.payload.length else [])
    ++ r.payload

/-- a message: its records one after the other. -/
def render (rs : List Rec) : Bytes := rs.flatMap renderRec

/-! ### wire type of a kind (wire.go comments) -/

/-- integers and bools are varints; floats are fixed 32/64; strings, byte
slices, structs, times and *packed* slices (elements varint or fixed) are
length-delimited; a slice of length-delimited elements and a map are WTSlice (3);
in the protobuf-compatible repeated forms every element / entry is itself a
length-delimited record; a pointer is written as its target. -/
def wtOf : Ty → WT
  | .bool | .int _ | .uint _ | .flat _ => .varint
  | .f32 => .w32
  | .f64 => .w64
  | .str _ | .bytes | .time _ | .struct _ _ => .len
  | .vslice _ | .fslice _ => .len
  | .lslice _ => .slice
  | .pslice _ => .len
  | .map _ _ false => .slice
  | .map _ _ true => .len
  | .ptr t => wtOf t

/-! ### presence -/

/-- "no presence": the values that are not written at all in a zero-omitting
position (struct field, map key / value, top level): false, 0, +0.0 and -0.0,
the empty string / byte slice, the zero `time.Time`, nil pointers, empty (or
nil) slices, nil maps.  A struct is always present; so is an empty non-nil map. -/
def absent : Val → Bool
  | .bool b => b == false
  | .int i => i == 0
  | .uint n => n == 0
  | .f32 bits => bits == 0 || bits == 0x80000000
  | .f64 bits => bits == 0 || bits == 0x8000000000000000
  | .str [] => true
  | .str (_ :: _) => false
  | .bytes [] => true
  | .bytes (_ :: _) => false
  | .time sec nsec => sec == zeroTimeSec && nsec == 0
  | .ptr none => true
  | .ptr (some _) => false
  | .slice [] => true
  | .slice (_ :: _) => false
  | .struct _ => false
  | .map none => true
  | .map (some _) => false

/-- a repeated-form element that produced no record of its own (a nil pointer)
is written as one empty length-delimited record, so that the other elements
keep their positions. -/
def orEmpty (i : Nat) (rs : List Rec) : List Rec :=
  if rs.isEmpty then [⟨i, .len, []⟩] else rs

/-! ### payloads and records -/

mutual
/-- the payload of a present value, per kind. -/
def payload : Ty → Val → Bytes
  | .bool, .bool b => varint (if b then 1 else 0)
  | .int _, .int i => svarint i                      -- signed: zig-zag
  | .uint _, .uint n => varint n                     -- unsigned: plain
  | .flat w, .int i => varint (wrapU w i)            -- "flat": the w-bit two's-complement pattern, plain
  | .f32, .f32 bits => leBytes 4 bits                -- IEEE bits, little-endian
  | .f64, .f64 bits => leBytes 8 bits
  | .str _, .str s => s
  | .bytes, .bytes s => s
  | .time compat, .time sec nsec =>
      -- struct { seconds = 1; nanos = 2 }, both always written; zig-zag, or
      -- (google.protobuf.Timestamp compatible) plain two's-complement varints
      render [⟨1, .varint, if compat then varint (wrapU 64 sec) else svarint sec⟩,
              ⟨2, .varint, if compat then varint nsec else svarint nsec⟩]
  | .ptr _, .ptr none => []                          -- nothing to write
  | .ptr t, .ptr (some v) => payload t v             -- a pointer is its target
  | .vslice t, .slice vs => vs.flatMap fun v => payload t v        -- packed
  | .fslice t, .slice vs => vs.flatMap fun v => payload t v        -- packed
  | .lslice t, .slice vs =>                          -- WTSlice: count, then length-prefixed elements
      varint vs.length ++ vs.flatMap fun v => lenPrefixed (payload t v)
  | .struct _ fs, .struct vs => render (fieldsOf fs vs)
  | .map k v false, .map (some es) =>                -- WTSlice of entries; entry = message {key = 1; value = 2}
      varint es.length ++ es.flatMap fun e =>
        lenPrefixed (render ((if absent e.1 then [] else recsOf k 1 e.1)
                          ++ (if absent e.2 then [] else recsOf v 2 e.2)))
  | .map _ _ false, .map none => varint 0
  -- The two protobuf repeated forms have no payload of their own: they exist as
  -- several records of the enclosing message (`recsOf`). Outside a struct field
  -- (top level, slice element, pointer target) there is no enclosing message;
  -- what is then written is the bare sequence below, which wrapper.go documents
  -- as not decodable ("this does not work outside of a struct").
  | .pslice t, .slice vs => vs.flatMap fun v => payload t v
  | .map k v true, .map (some es) =>
      es.flatMap fun e =>
        lenPrefixed (render ((if absent e.1 then [] else recsOf k 1 e.1)
                          ++ (if absent e.2 then [] else recsOf v 2 e.2)))
  | _, _ => []
/-- the records of a struct value: fields in declaration order; a field whose
value has no presence yields no record (the omission rule, stated here once —
map entries re-use it for key and value). -/
def fieldsOf : Fields → List Val → List Rec
  | (i, _, t) :: fs, v :: vs => (if absent v then [] else recsOf t i v) ++ fieldsOf fs vs
  | _, _ => []
/-- the record(s) a present value contributes under index `i`: one, carrying
its payload — except that the protobuf repeated forms contribute one
length-delimited record per element / per map entry, and a pointer contributes
what its target contributes (nothing when nil). -/
def recsOf : Ty → Nat → Val → List Rec
  | .pslice t, i, .slice vs => vs.flatMap fun v => orEmpty i (recsOf t i v)
  | .map k v true, i, .map (some es) =>
      es.map fun e => ⟨i, .len, render ((if absent e.1 then [] else recsOf k 1 e.1)
                                     ++ (if absent e.2 then [] else recsOf v 2 e.2))⟩
  | .map _ _ true, _, .map none => []
  | .ptr _, _, .ptr none => []
  | .ptr t, i, .ptr (some v) => recsOf t i v
  | t, i, v => [⟨i, wtOf t, payload t v⟩]
end

/-- What `Marshal(nil, v)` returns for a value `v` of a type whose codec tree is
`t`: nothing when the value has no presence, else its bare payload (no tag, no
length: the top level is not a field). -/
def encode (t : Ty) (v : Val) : Bytes :=
  if absent v then [] else payload t v

end Spec
