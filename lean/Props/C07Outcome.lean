import Props.C07
/-
  C07 (outcomes, the failure direction) — on the transition system of
  Plenc/Registry.lean, for EVERY type graph, any number of goroutines, any
  requests and every interleaving (`Reach`, including `Reorder`):

  * `failure_means_bad_reachable`: if a top-level call for `τ` returned an
    error, a type without a codec (`g b = .bad`) is reachable from `τ` along
    the edges of the type graph (`GReach`: ptr → element, slice → element,
    map → key and value, struct → every field).
  * `hasBad_iff_bad_reachable`: reachability of a `bad` type in the graph is
    the same thing as "some finite unfolding `unfoldT g n τ` contains `bad`".
  * `failure_means_hasBad`: the failure statement in terms of `unfoldT`.
  * `outcomes_exclusive`: together with `C07.success_means_no_bad`: for one
    type graph, no run in which a call for `τ` succeeded and no run in which a
    call for `τ` failed can coexist — the outcome (error or codec) of EVERY
    finished call for `τ`, under any interleaving, on any goroutine, with any
    other requests around it, is determined by the graph alone:
    `finished_outcome_characterised`.

  The proof is the invariant `GInv`: every type mentioned by a frame on a
  goroutine's stack (own type, the pending value type of a map frame, the
  field types a struct frame has still to do) is reachable from that
  goroutine's `cur`, and every recorded `(τ, none)` has a witness.

  Left out (still not proved anywhere): progress / termination — that a call
  on a `τ` DOES return at all.  What is proved is about finished calls only:
  a finished call failed iff a `bad` type is reachable, succeeded iff none is.
-/
namespace C07
open Registry

variable {g : Nat → TNode} {reqs : List (List Nat)} {d : Nat} {s : State}

/-! ### reachability in the type graph -/

/-- the types a node of the type graph refers to. -/
def kidsT : TNode → List Nat
  | .ptr e => [e]
  | .slice e => [e]
  | .map k v => [k, v]
  | .struct fs => fs
  | .basic => []
  | .bad => []

/-- `GReach g a b`: type `b` is reachable from type `a` in the type graph
(reflexive, transitive closure of the child relation). -/
inductive GReach (g : Nat → TNode) : Nat → Nat → Prop where
  | refl (a : Nat) : GReach g a a
  | step {a b c : Nat} : GReach g a b → c ∈ kidsT (g b) → GReach g a c

theorem GReach.head {a c b : Nat} (hc : c ∈ kidsT (g a)) (h : GReach g c b) : GReach g a b := by
  induction h with
  | refl => exact .step (.refl a) hc
  | step _ hk ih => exact .step ih hk

theorem GReach.trans {a b c : Nat} (h1 : GReach g a b) (h2 : GReach g b c) : GReach g a c := by
  induction h2 with
  | refl => exact h1
  | step _ hk ih => exact .step ih hk

/-! ### reachability of `bad` = some unfolding contains `bad` -/

theorem hasBadL_map_true {α} (f : α → Tree) {l : List α} {a : α} (ha : a ∈ l)
    (h : (f a).hasBad = true) : hasBadL (l.map f) = true := by
  induction l with
  | nil => cases ha
  | cons x r ih =>
    simp only [List.map_cons, hasBadL, Bool.or_eq_true]
    rcases List.mem_cons.1 ha with e | hm
    · subst e; exact .inl h
    · exact .inr (ih hm)

theorem hasBadL_map_elim {α} (f : α → Tree) {l : List α} (h : hasBadL (l.map f) = true) :
    ∃ a, a ∈ l ∧ (f a).hasBad = true := by
  induction l with
  | nil => simp [hasBadL] at h
  | cons x r ih =>
    simp only [List.map_cons, hasBadL, Bool.or_eq_true] at h
    rcases h with h | h
    · exact ⟨x, by simp, h⟩
    · obtain ⟨a, ha, hb⟩ := ih h
      exact ⟨a, by simp [ha], hb⟩

/-- `bad` below a child shows one level further up. -/
theorem unfoldT_kid {a c n : Nat} (hc : c ∈ kidsT (g a)) (h : (unfoldT g n c).hasBad = true) :
    (unfoldT g (n + 1) a).hasBad = true := by
  unfold unfoldT
  cases hg : g a with
  | basic => rw [hg] at hc; cases hc
  | bad => rw [hg] at hc; cases hc
  | ptr e =>
    rw [hg] at hc
    simp only [kidsT, List.mem_singleton] at hc
    subst hc
    simpa only [Tree.hasBad] using h
  | slice e =>
    rw [hg] at hc
    simp only [kidsT, List.mem_singleton] at hc
    subst hc
    simpa only [Tree.hasBad] using h
  | map k v =>
    rw [hg] at hc
    simp only [kidsT, List.mem_cons, List.not_mem_nil, or_false] at hc
    simp only [Tree.hasBad, Bool.or_eq_true]
    rcases hc with e | e
    · subst e; exact .inl h
    · subst e; exact .inr h
  | struct fs =>
    rw [hg] at hc
    simp only [Tree.hasBad]
    exact hasBadL_map_true _ hc h

theorem unfoldT_bad {b : Nat} (hb : g b = .bad) : (unfoldT g 1 b).hasBad = true := by
  unfold unfoldT
  rw [hb]
  rfl

/-- a reachable `bad` type shows in a deep enough unfolding. -/
theorem hasBad_of_reach {a b : Nat} (h : GReach g a b) :
    ∀ n, (unfoldT g n b).hasBad = true → ∃ m, (unfoldT g m a).hasBad = true := by
  induction h with
  | refl => exact fun n hn => ⟨n, hn⟩
  | step _ hk ih => exact fun n hn => ih (n + 1) (unfoldT_kid hk hn)

/-- a `bad` in an unfolding comes from a reachable `bad` type. -/
theorem reach_of_hasBad : ∀ (n a : Nat), (unfoldT g n a).hasBad = true →
    ∃ b, GReach g a b ∧ g b = .bad := by
  intro n
  induction n with
  | zero => intro a h; simp [unfoldT, Tree.hasBad] at h
  | succ n ih =>
    intro a h
    unfold unfoldT at h
    cases hg : g a with
    | basic => rw [hg] at h; simp [Tree.hasBad] at h
    | bad => exact ⟨a, .refl a, hg⟩
    | ptr e =>
      rw [hg] at h
      simp only [Tree.hasBad] at h
      obtain ⟨b, hb, hbad⟩ := ih e h
      exact ⟨b, hb.head (by simp [hg, kidsT]), hbad⟩
    | slice e =>
      rw [hg] at h
      simp only [Tree.hasBad] at h
      obtain ⟨b, hb, hbad⟩ := ih e h
      exact ⟨b, hb.head (by simp [hg, kidsT]), hbad⟩
    | map k v =>
      rw [hg] at h
      simp only [Tree.hasBad, Bool.or_eq_true] at h
      rcases h with h | h
      · obtain ⟨b, hb, hbad⟩ := ih k h
        exact ⟨b, hb.head (by simp [hg, kidsT]), hbad⟩
      · obtain ⟨b, hb, hbad⟩ := ih v h
        exact ⟨b, hb.head (by simp [hg, kidsT]), hbad⟩
    | struct fs =>
      rw [hg] at h
      simp only [Tree.hasBad] at h
      obtain ⟨f, hf, hfb⟩ := hasBadL_map_elim _ h
      obtain ⟨b, hb, hbad⟩ := ih f hfb
      exact ⟨b, hb.head (by simp [hg, kidsT, hf]), hbad⟩

/-- "a type without a codec is reachable from `τ`", stated on the graph and on
its finite unfoldings: the same thing. -/
theorem hasBad_iff_bad_reachable (g : Nat → TNode) (τ : Nat) :
    (∃ n, (unfoldT g n τ).hasBad = true) ↔ ∃ b, GReach g τ b ∧ g b = .bad :=
  ⟨fun ⟨n, hn⟩ => reach_of_hasBad n τ hn,
   fun ⟨_, hb, hbad⟩ => hasBad_of_reach hb 1 (unfoldT_bad hbad)⟩

/-! ### the invariant: every frame is for a type reachable from `cur` -/

/-- the types a frame mentions: its own type, the value type a map frame has
still to do, the field types a struct frame has still to do. -/
def frameTys : Frame → List Nat
  | .call ty => [ty]
  | .miss ty => [ty]
  | .elemW ty _ => [ty]
  | .mapK ty v => [ty, v]
  | .mapV ty _ => [ty]
  | .structB ty _ _ todo => ty :: todo
  | .structP ty _ _ => [ty]
  | .store ty _ => [ty]
  | .ret ty _ => [ty]

def stackTys : List Frame → List Nat
  | [] => []
  | f :: r => frameTys f ++ stackTys r

/-- `StoreOrSwap` through the view changes `pending` lists only. -/
theorem viewStore_tys (reg : Reg) (ty c : Nat) :
    ∀ below : List Frame, stackTys (viewStore below reg ty c).1 = stackTys below
  | [] => rfl
  | f :: rest => by
    have ih := viewStore_tys reg ty c rest
    cases f <;> simp only [viewStore, stackTys, ih]
    split <;> rfl

structure ThreadG (g : Nat → TNode) (t : Thread) : Prop where
  /-- every type on the stack is reachable from the type of the top-level call -/
  stack : ∀ ty, ty ∈ stackTys t.stack → GReach g t.cur ty
  /-- every recorded failure has a witness -/
  res : ∀ τ, (τ, none) ∈ t.results → ∃ b, GReach g τ b ∧ g b = .bad

/-- a step that keeps `cur` and `results`, and whose new stack mentions only
types already on the stack or children of such types. -/
theorem ThreadG.local {st st' : List Frame} {rq rq' : List Nat} {cu : Nat}
    {rs : List (Nat × Option Nat)} {uq uq' : List (Nat × Nat)} {f f' : Bool}
    (ht : ThreadG g ⟨st, rq, cu, rs, uq, f⟩)
    (h : ∀ ty, ty ∈ stackTys st' →
      ty ∈ stackTys st ∨ ∃ p, p ∈ stackTys st ∧ ty ∈ kidsT (g p)) :
    ThreadG g ⟨st', rq', cu, rs, uq', f'⟩ := by
  refine ⟨fun ty hty => ?_, ht.res⟩
  rcases h ty hty with h1 | ⟨p, hp, hk⟩
  · exact ht.stack ty h1
  · exact .step (ht.stack p hp) hk

/-- every step of a goroutine re-establishes its `ThreadG`. -/
theorem stepCore_g {depth : Nat} {reg reg' : Reg} {h h' : Heap} {t t' : Thread}
    (ht : ThreadG g t) (hs : stepCore false g depth reg h t = some (reg', h', t')) :
    ThreadG g t' := by
  obtain ⟨stack, requests, cur, results, useQ, fault⟩ := t
  unfold stepCore at hs
  simp only [Bool.false_eq_true, ↓reduceIte] at hs
  split at hs
  · split at hs
    · -- use
      cases hs; exact ⟨ht.stack, ht.res⟩
    · split at hs
      · cases hs
      · -- start of a top-level call
        cases hs
        refine ⟨fun ty hty => ?_, ht.res⟩
        simp only [stackTys, frameTys, List.append_nil, List.mem_singleton] at hty
        subst hty
        exact .refl _
  · split at hs
    · -- call
      split at hs
      · cases hs
        exact ht.local fun ty hty => .inl (by simpa [stackTys, frameTys] using hty)
      · cases hs
        exact ht.local fun ty hty => .inl (by simpa [stackTys, frameTys] using hty)
    · -- miss
      split at hs
      · cases hs
        exact ht.local fun ty hty => .inl (by simpa [stackTys, frameTys] using hty)
      · cases hs; rename_i hg
        refine ht.local fun ty hty => ?_
        simp only [stackTys, frameTys, List.cons_append, List.nil_append, List.mem_cons] at hty ⊢
        rcases hty with e | e | e
        · exact .inr ⟨_, .inl rfl, by simp [hg, kidsT, e]⟩
        · exact .inl (.inl e)
        · exact .inl (.inr e)
      · cases hs; rename_i hg
        refine ht.local fun ty hty => ?_
        simp only [stackTys, frameTys, List.cons_append, List.nil_append, List.mem_cons] at hty ⊢
        rcases hty with e | e | e
        · exact .inr ⟨_, .inl rfl, by simp [hg, kidsT, e]⟩
        · exact .inl (.inl e)
        · exact .inl (.inr e)
      · cases hs; rename_i hg
        refine ht.local fun ty hty => ?_
        simp only [stackTys, frameTys, List.cons_append, List.nil_append, List.mem_cons] at hty ⊢
        rcases hty with e | e | e | e
        · exact .inr ⟨_, .inl rfl, by simp [hg, kidsT, e]⟩
        · exact .inl (.inl e)
        · exact .inr ⟨_, .inl rfl, by simp [hg, kidsT, e]⟩
        · exact .inl (.inr e)
      · cases hs; rename_i hg
        refine ht.local fun ty hty => ?_
        simp only [stackTys, frameTys, List.cons_append, List.nil_append, List.mem_cons,
          List.mem_append] at hty ⊢
        rcases hty with e | e | e
        · exact .inl (.inl e)
        · exact .inr ⟨_, .inl rfl, by simpa [hg, kidsT] using e⟩
        · exact .inl (.inr e)
      · -- error: the witness is the `bad` type of the top frame
        cases hs; rename_i hg
        refine ⟨fun ty hty => (by cases hty), fun τ hm => ?_⟩
        rcases List.mem_cons.1 hm with e | hm
        · cases e
          exact ⟨_, ht.stack _ (by simp [stackTys, frameTys]), hg⟩
        · exact ht.res τ hm
    · -- structB
      split at hs
      · cases hs
        refine ht.local fun ty hty => .inl ?_
        simp only [stackTys, frameTys, List.cons_append, List.nil_append, List.mem_cons,
          List.mem_append] at hty ⊢
        rcases hty with e | e | e | e <;> simp [e]
      · cases hs
        exact ht.local fun ty hty => .inl (by simpa [stackTys, frameTys] using hty)
    · -- structP
      split at hs
      · cases hs
        exact ht.local fun ty hty => .inl (by
          simpa [stackTys, frameTys, viewStore_tys] using hty)
      · cases hs
        exact ht.local fun ty hty => .inl (by simpa [stackTys, frameTys] using hty)
    · -- store
      cases hs
      exact ht.local fun ty hty => .inl (by
        simpa [stackTys, frameTys, viewStore_tys] using hty)
    · -- ret
      split at hs
      · cases hs
        refine ⟨fun ty hty => (by cases hty), fun τ hm => ?_⟩
        rcases List.mem_cons.1 hm with e | hm
        · cases e
        · exact ht.res τ hm
      · split at hs
        · cases hs
          exact ht.local fun ty hty => .inl (by
            simp [stackTys, frameTys] at hty ⊢; rcases hty with e | e <;> simp [e])
        · cases hs
          exact ht.local fun ty hty => .inl (by
            simp [stackTys, frameTys] at hty ⊢; rcases hty with e | e | e <;> simp [e])
        · cases hs
          exact ht.local fun ty hty => .inl (by
            simp [stackTys, frameTys] at hty ⊢; rcases hty with e | e <;> simp [e])
        · cases hs
          exact ht.local fun ty hty => .inl (by
            simp [stackTys, frameTys] at hty ⊢; rcases hty with e | e | e <;> simp [e])
        · cases hs
    · cases hs

/-! ### the global invariant -/

def GInv (s : State) : Prop := ∀ i, ThreadG s.graph (s.threads i)

theorem ginv_init (g : Nat → TNode) (reqs : List (List Nat)) (d : Nat) : GInv (init g reqs d) :=
  fun _ => ⟨fun _ hty => (by cases hty), fun _ hm => (by cases hm)⟩

theorem step_ginv {s s' : State} {i : Nat} (hi : GInv s) (hs : stepThread s i = some s') :
    GInv s' := by
  unfold stepThread stepGen at hs
  cases hc : stepCore false s.graph s.useDepth s.registry s.heap (s.threads i) with
  | none => rw [hc] at hs; cases hs
  | some r =>
    obtain ⟨reg', h', t'⟩ := r
    rw [hc] at hs
    cases hs
    intro j
    show ThreadG s.graph (if j = i then t' else s.threads j)
    split
    · exact stepCore_g (hi i) hc
    · exact hi j

/-- permuting the pending list of a publishing frame changes no frame type. -/
theorem reorder_ginv {s s' : State} {i : Nat} (hi : GInv s) (hs : Reorder s i s') : GInv s' := by
  cases hs with
  | @mk ty node pend pend' below hst hperm =>
    intro j
    show ThreadG s.graph (if j = i then _ else s.threads j)
    split
    · have h0 := hi i
      refine ⟨fun ty' hty => h0.stack ty' ?_, h0.res⟩
      rw [hst]
      exact hty
    · exact hi j

theorem reach_ginv {s0 s : State} (h0 : GInv s0) (hr : Reach s0 s) : GInv s := by
  induction hr with
  | refl => exact h0
  | step _ hs ih => exact step_ginv ih hs
  | reorder _ hs ih => exact reorder_ginv ih hs

/-- in every reachable state, every type on goroutine `i`'s stack is reachable,
in the type graph, from the type of `i`'s top-level call in progress. -/
theorem frames_reachable_from_cur (hr : Reach (init g reqs d) s) (i : Nat) :
    ∀ ty, ty ∈ stackTys (s.threads i).stack → GReach g (s.threads i).cur ty := by
  have h := (reach_ginv (ginv_init g reqs d) hr i).stack
  rw [show s.graph = g from reach_graph hr] at h
  exact h

/-! ### outcomes -/

/-- The other direction of "the outcome is determined by the type graph": if a
top-level call for `τ` returned an ERROR — under any interleaving, whatever the
other goroutines were doing —, then a type without a codec is reachable from
`τ` in the type graph. -/
theorem failure_means_bad_reachable (hr : Reach (init g reqs d) s) {i τ : Nat}
    (h : (τ, none) ∈ (s.threads i).results) : ∃ b, GReach g τ b ∧ g b = .bad := by
  have h' := (reach_ginv (ginv_init g reqs d) hr i).res τ h
  rw [show s.graph = g from reach_graph hr] at h'
  exact h'

/-- … the same in terms of the unfolding used by `success_means_no_bad`. -/
theorem failure_means_hasBad (hr : Reach (init g reqs d) s) {i τ : Nat}
    (h : (τ, none) ∈ (s.threads i).results) : ∃ n, (unfoldT g n τ).hasBad = true :=
  (hasBad_iff_bad_reachable g τ).2 (failure_means_bad_reachable hr h)

/-- success, restated on the graph: no type without a codec is reachable. -/
theorem success_means_no_bad_reachable (hr : Reach (init g reqs d) s) {i τ c : Nat}
    (h : (τ, some c) ∈ (s.threads i).results) : ¬ ∃ b, GReach g τ b ∧ g b = .bad := by
  intro hb
  obtain ⟨n, hn⟩ := (hasBad_iff_bad_reachable g τ).2 hb
  rw [success_means_no_bad hr h n] at hn
  cases hn

/-- The two outcomes exclude each other across ALL runs on the same type graph:
take any two runs (any goroutines, any requests, any interleavings; e.g. `s`
reached by many goroutines racing and `s'` by one goroutine running alone): a
call for `τ` cannot have succeeded in one and failed in the other. -/
theorem outcomes_exclusive {reqs' : List (List Nat)} {d' : Nat} {s' : State}
    (hr : Reach (init g reqs d) s) (hr' : Reach (init g reqs' d') s') {i j τ c : Nat}
    (h : (τ, some c) ∈ (s.threads i).results) (h' : (τ, none) ∈ (s'.threads j).results) :
    False :=
  success_means_no_bad_reachable hr h (failure_means_bad_reachable hr' h')

/-- The outcome of every FINISHED top-level call for `τ` is characterised by
the type graph alone: it is an error iff a type without a codec is reachable
from `τ`, a codec iff none is.  (That the call finishes is not claimed.) -/
theorem finished_outcome_characterised (hr : Reach (init g reqs d) s) {i τ : Nat}
    {o : Option Nat} (h : (τ, o) ∈ (s.threads i).results) :
    (o = none ↔ ∃ b, GReach g τ b ∧ g b = .bad) ∧
    (o.isSome = true ↔ ∀ n, (unfoldT g n τ).hasBad = false) := by
  cases o with
  | none =>
    have hb := failure_means_bad_reachable hr h
    refine ⟨⟨fun _ => hb, fun _ => rfl⟩, ⟨fun e => (by cases e), fun hn => ?_⟩⟩
    obtain ⟨n, hbn⟩ := (hasBad_iff_bad_reachable g τ).2 hb
    rw [hn n] at hbn
    cases hbn
  | some c =>
    refine ⟨⟨fun e => (by cases e), fun hb => (success_means_no_bad_reachable hr h hb).elim⟩,
      ⟨fun _ => success_means_no_bad hr h, fun _ => rfl⟩⟩

/-! ### non-vacuity -/

/-- `struct{ bad }`: type 0 is a struct whose only field has type 1, for which
no codec exists.  One goroutine calls `CodecForType(0)`: start, load misses,
struct frame, field call, load misses, error (6 steps).  The call is recorded
as failed, so the hypothesis of `failure_means_bad_reachable` is satisfiable;
the witness it promises is type 1. -/
example :
    ∃ s, runSchedule (init (graphOf [.struct [1], .bad]) [[0]]) (List.replicate 6 0) = some s ∧
      (s.threads 0).results = [(0, none)] ∧ (s.threads 0).stack = [] ∧
      (∃ b, GReach (graphOf [.struct [1], .bad]) 0 b ∧ graphOf [.struct [1], .bad] b = .bad) ∧
      (∃ n, (unfoldT (graphOf [.struct [1], .bad]) n 0).hasBad = true) := by
  have key : (runSchedule (init (graphOf [.struct [1], .bad]) [[0]]) (List.replicate 6 0)).map
      (fun s => ((s.threads 0).results, (s.threads 0).stack)) = some ([(0, none)], []) := by
    rfl
  cases hrun : runSchedule (init (graphOf [.struct [1], .bad]) [[0]]) (List.replicate 6 0) with
  | none => rw [hrun] at key; cases key
  | some s =>
    rw [hrun] at key
    simp only [Option.map_some, Option.some.injEq, Prod.mk.injEq] at key
    have hr := runSchedule_reach hrun
    have hm : (0, none) ∈ (s.threads 0).results := by rw [key.1]; simp
    exact ⟨s, rfl, key.1, key.2, failure_means_bad_reachable hr hm, failure_means_hasBad hr hm⟩

/-- the witness on that graph, directly: 0 → 1 and `g 1 = bad`; depth 2 shows it. -/
example : GReach (graphOf [.struct [1], .bad]) 0 1 ∧ graphOf [.struct [1], .bad] 1 = .bad ∧
    (unfoldT (graphOf [.struct [1], .bad]) 2 0).hasBad = true :=
  ⟨.step (.refl 0) (by decide), rfl, by decide⟩

end C07
