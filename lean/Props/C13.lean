import Proofs.Descriptor
/-
  C13 — Descriptor-driven decoding yields JSON equal to the typed decode.

  `toCalls t v` is the sequence of outputter calls the value `v` of codec `t`
  denotes in the JSON data model, as the property states it: structs as objects
  keyed by field name with omitted fields absent, slices as arrays element for
  element (an empty element is an element), string-keyed maps as objects, other
  maps as lists of `{"key":…,"value":…}` objects, pointers as their target,
  times as `time`, numbers exact. The main theorem `descRead_calls` says that
  walking `Marshal(v)` with `descriptor t` (Plenc/Descriptor.lean, the model of
  `Descriptor.Read`) yields exactly `toCalls t v`, for every accepted codec tree
  in `descShape` and every value of its type, by the same mutual induction over
  `Ty` / `Fields` as the typed round trip (C01). Composed with C15 (the JSON
  outputter renders a well-nested call sequence as the JSON text of its tree)
  this is "valid JSON equal to the value".

  Hypotheses that exclude known findings (each with a `_counterexample` below
  showing that the walker really differs there):
    F06  `Ty.time true` (proto-compatible time): the walker always decodes a
         time with the zig-zag `TimeCodec`;
    F08  the protobuf repeated forms `pslice` / `map _ _ true` are not
         understood by the walker (it expects a count, they have none);
    F09  `flat w`, w < 64: the descriptor carries no integer width, a negative
         value is rendered as its unsigned w-bit wrap;
    F03  pointer to pointer (no wire representation for "outer set, inner nil").
  `descShape` is the decidable type-level restriction, `descOK` the value-level
  one for F09 (every `flat w` value with w < 64 is non-negative).

  The constructor cases of the induction are in this file because they mention
  `toCalls`; the generic walker lemmas are in Proofs/Descriptor.lean.
-/
namespace C13
open RT DW

/-! ### the specification -/

/-- an element with nothing on the wire (a nil pointer in a slice of pointers to
a length-delimited kind): `{}` for a struct target, else the zero value. -/
def emptyCalls : Ty → List OCall
  | .struct _ _ => [.startObj, .endObj]
  | .str _ | .bytes => [.str []]
  | .time _ => [.time zeroTimeSec 0]
  | .vslice _ | .fslice _ | .lslice _ | .pslice _ => [.startArr, .endArr]
  | _ => []

/-- is the map rendered as an object: its key descriptor has type String. -/
def strKeyed (k : Ty) : Bool := (descriptor k).type == .string

/-- an omitted map value (zero / nil / empty), as `writeZero` renders it: `null`
for a pointer, the zero of the kind otherwise. -/
def zeroCalls : Ty → List OCall
  | .ptr _ => [.raw nullTok]
  | .bool => [.bool false]
  | .int _ | .flat _ => [.int64 0]
  | .uint _ => [.uint64 0]
  | .f32 => [.f32 0]
  | .f64 => [.f64 0]
  | .str _ | .bytes => [.str []]
  | .time _ => [.time zeroTimeSec 0]
  | .vslice _ | .fslice _ | .lslice _ | .pslice _ => [.startArr, .endArr]
  | .struct _ _ => [.startObj, .endObj]
  | .map k _ _ => if strKeyed k then [.startObj, .endObj] else [.startArr, .endArr]

mutual
/-- the calls a present value denotes. -/
def toCalls : Ty → Val → List OCall
  | .bool, .bool b => [.bool b]
  | .int _, .int i => [.int64 i]
  | .uint _, .uint n => [.uint64 n]
  | .flat _, .int i => [.int64 i]
  | .f32, .f32 b => [.f32 b]
  | .f64, .f64 b => [.f64 b]
  | .str _, .str s => [.str s]
  | .bytes, .bytes s => [.str s]
  | .time _, .time sec nsec => [.time sec nsec]
  | .ptr t, .ptr (some v) => toCalls t v
  | .vslice t, .slice vs =>
      -- nil entries of integer-pointer slices are dropped on the wire
      .startArr :: (vs.filter nonNil).flatMap (fun a => toCalls t a) ++ [.endArr]
  | .fslice t, .slice vs => .startArr :: vs.flatMap (fun a => toCalls t a) ++ [.endArr]
  | .lslice t, .slice vs =>
      .startArr :: vs.flatMap (fun a => match t, a with
        | .ptr u, .ptr none => emptyCalls u
        | _, a => toCalls t a) ++ [.endArr]
  | .struct _ fs, .struct vs => .startObj :: fieldsCalls fs vs ++ [.endObj]
  | .map k v _, .map (some es) =>
      if strKeyed k then
        -- object: the key as a string (`""` when omitted), then the value (its zero when omitted)
        .startObj :: es.flatMap (fun e =>
          (if e.1.omit then [OCall.str []] else toCalls k e.1)
            ++ (if e.2.omit then zeroCalls v else toCalls v e.2)) ++ [.endObj]
      else
        -- list of {"key":…,"value":…} objects, omitted (zero) parts absent
        .startArr :: es.flatMap (fun e =>
          .startObj ::
            ((if e.1.omit then [] else OCall.name (strBytes "key") :: toCalls k e.1)
              ++ ((if e.2.omit then [] else OCall.name (strBytes "value") :: toCalls v e.2) ++ []))
            ++ [.endObj]) ++ [.endArr]
  | _, _ => []
/-- the members of a struct: omitted fields absent, the others by name in declaration order. -/
def fieldsCalls : Fields → List Val → List OCall
  | (_, nm, t) :: r, v :: vs =>
      (if v.omit then [] else OCall.name (strBytes nm) :: toCalls t v) ++ fieldsCalls r vs
  | _, _ => []
end

mutual
/-- the shapes the walker decodes faithfully (type level): no proto-compatible
time (F06), no protobuf repeated forms (F08), no pointer to pointer (F03). -/
def descShape : Ty → Bool
  | .bool | .int _ | .uint _ | .flat _ | .f32 | .f64 | .str _ | .bytes => true
  | .time c => !c
  | .ptr t => !t.isPtr && descShape t
  | .vslice t => descShape t
  | .fslice _ => true
  | .lslice t => descShape t
  | .pslice _ => false
  | .struct _ fs => fieldsDescShape fs
  | .map k v p => !p && (descShape k && descShape v)
def fieldsDescShape : Fields → Bool
  | [] => true
  | (_, _, t) :: r => descShape t && fieldsDescShape r
end

mutual
/-- value-level restriction (F09): a `flat w` integer narrower than 64 bits is
non-negative. -/
def descOK : Ty → Val → Prop
  | .flat w, .int i => w = 64 ∨ 0 ≤ i
  | .ptr t, .ptr (some v) => descOK t v
  | .vslice t, .slice vs => ∀ v ∈ vs, descOK t v
  | .fslice t, .slice vs => ∀ v ∈ vs, descOK t v
  | .lslice t, .slice vs => ∀ v ∈ vs, descOK t v
  | .pslice t, .slice vs => ∀ v ∈ vs, descOK t v
  | .struct _ fs, .struct vs => fieldsDescOK fs vs
  | .map k v _, .map (some es) => ∀ e ∈ es, descOK k e.1 ∧ descOK v e.2
  | _, _ => True
def fieldsDescOK : Fields → List Val → Prop
  | (_, _, t) :: r, v :: vs => descOK t v ∧ fieldsDescOK r vs
  | _, _ => True
end

/-! ### the induction invariant -/

/-- walk of a value that is present on the wire: *exact* for the
length-delimited kinds (the walker gets exactly the body), *prefix-stable* for
the self-delimiting kinds (the walker gets the rest of the enclosing message). -/
def DVal (t : Ty) : Prop :=
  ∀ v, t.hasTy v → descOK t v → v ≠ .ptr none → v ≠ .map none → (t.app v []).length < 2 ^ 64 →
    (t.wt = .len → descRead (descriptor t) (t.app v []) = .ok (toCalls t v, (t.app v []).length)) ∧
    (t.wt ≠ .len → ∀ rest,
      descRead (descriptor t) (t.app v [] ++ rest) = .ok (toCalls t v, (t.app v []).length))

/-- walk of one non-omitted struct field / map key / map value under tag `j`:
the encoding is the tag followed by a payload which the framing plus the
element's walk consume exactly, whatever follows. -/
def FWalk (t : Ty) : Prop :=
  ∀ (x : Val) (j : Nat), t.hasTy x → descOK t x → x.omit = false → j < 2 ^ 61 →
    (t.app x (appendTag t.wt j)).length < 2 ^ 64 →
    ∃ P, t.app x (appendTag t.wt j) = appendTag t.wt j ++ P ∧
      ∀ rest, framed (descRead (descriptor t)) t.wt (P ++ rest) = .ok (toCalls t x, P.length)

/-! ### shapes -/

theorem shape_not_rep (t : Ty) (h : descShape t = true) : t.isProtoRep = false := by
  cases t with
  | map k v p => cases p <;> simp_all [descShape, Ty.isProtoRep]
  | _ => simp_all [descShape, Ty.isProtoRep]

theorem shape_deref_not_rep (t : Ty) (h : descShape t = true) : t.deref.isProtoRep = false := by
  cases t with
  | ptr u =>
    simp only [descShape, Bool.and_eq_true, Bool.not_eq_true'] at h
    simp only [Ty.deref]
    rw [deref_of_not_ptr u h.1]
    exact shape_not_rep u h.2
  | map k v p => cases p <;> simp_all [descShape, Ty.isProtoRep, Ty.deref]
  | _ => simp_all [descShape, Ty.isProtoRep, Ty.deref]

theorem shape_present (t : Ty) (h : descShape t = true) (v : Val) (hty : t.hasTy v)
    (hv : v ≠ .ptr none) : v.present = true := by
  cases t with
  | ptr u =>
    simp only [descShape, Bool.and_eq_true, Bool.not_eq_true'] at h
    exact present_of_ne_nil u v h.1 hty hv
  | _ => exact present_of_not_ptr _ v rfl hty

/-! ### leaves -/

theorem dv_bool : DVal .bool := by
  intro v hty _ _ _ _
  cases v with
  | bool b =>
    refine ⟨fun h => by simp [Ty.wt] at h, fun _ rest => ?_⟩
    rw [descRead_bool _ rfl]
    exact leafRead_scalar .bool (.bool b) (.bool b) .len rest rfl trivial trivial rfl
  | _ => simp [Ty.hasTy] at hty

theorem dv_int (w : Nat) (hw : validWidth w) : DVal (.int w) := by
  intro v hty _ _ _ _
  cases v with
  | int i =>
    refine ⟨fun h => by simp [Ty.wt] at h, fun _ rest => ?_⟩
    rw [descRead_int _ rfl]
    have e : (Ty.int w).app (.int i) [] = (Ty.int 64).app (.int i) [] := rfl
    rw [e]
    exact leafRead_scalar (.int 64) (.int i) (.int64 i) .varint rest rfl (by simp [Ty.wf, validWidth])
      (int_range_mono w i hw hty) rfl
  | _ => simp [Ty.hasTy] at hty

theorem dv_uint (w : Nat) (hw : validWidth w) : DVal (.uint w) := by
  intro v hty _ _ _ _
  cases v with
  | uint n =>
    refine ⟨fun h => by simp [Ty.wt] at h, fun _ rest => ?_⟩
    rw [descRead_uint _ rfl]
    have e : (Ty.uint w).app (.uint n) [] = (Ty.uint 64).app (.uint n) [] := rfl
    rw [e]
    exact leafRead_scalar (.uint 64) (.uint n) (.uint64 n) .varint rest rfl (by simp [Ty.wf, validWidth])
      (uint_range_mono w n hw hty) rfl
  | _ => simp [Ty.hasTy] at hty

theorem dv_flat (w : Nat) (hw : validWidth w) : DVal (.flat w) := by
  intro v hty hok _ _ _
  cases v with
  | int i =>
    refine ⟨fun h => by simp [Ty.wt] at h, fun _ rest => ?_⟩
    simp only [descOK] at hok
    obtain ⟨e, hr⟩ := flat_app_eq w i hw hty hok
    rw [descRead_flat _ rfl (by simp [descriptor]), e]
    exact leafRead_scalar (.flat 64) (.int i) (.int64 i) .varint rest rfl (by simp [Ty.wf, validWidth])
      hr rfl
  | _ => simp [Ty.hasTy] at hty

theorem dv_f32 : DVal .f32 := by
  intro v hty _ _ _ _
  cases v with
  | f32 b =>
    refine ⟨fun h => by simp [Ty.wt] at h, fun _ rest => ?_⟩
    rw [descRead_f32 _ rfl]
    exact leafRead_scalar .f32 (.f32 b) (.f32 b) .w32 rest rfl trivial hty rfl
  | _ => simp [Ty.hasTy] at hty

theorem dv_f64 : DVal .f64 := by
  intro v hty _ _ _ _
  cases v with
  | f64 b =>
    refine ⟨fun h => by simp [Ty.wt] at h, fun _ rest => ?_⟩
    rw [descRead_f64 _ rfl]
    exact leafRead_scalar .f64 (.f64 b) (.f64 b) .w64 rest rfl trivial hty rfl
  | _ => simp [Ty.hasTy] at hty

theorem dv_str (b : Bool) : DVal (.str b) := by
  intro v hty _ _ _ _
  cases v with
  | str s =>
    refine ⟨fun _ => ?_, fun h => by simp [Ty.wt] at h⟩
    rw [descRead_string _ rfl]
    simp only [Ty.app, frame_nil, toCalls]
    exact leafRead_str s
  | _ => simp [Ty.hasTy] at hty

theorem dv_bytes : DVal .bytes := by
  intro v hty _ _ _ _
  cases v with
  | bytes s =>
    refine ⟨fun _ => ?_, fun h => by simp [Ty.wt] at h⟩
    rw [descRead_string _ rfl]
    simp only [Ty.app, frame_nil, toCalls]
    exact leafRead_str s
  | _ => simp [Ty.hasTy] at hty

theorem dv_time : DVal (.time false) := by
  intro v hty _ _ _ _
  cases v with
  | time sec nsec =>
    refine ⟨fun _ => ?_, fun h => by simp [Ty.wt] at h⟩
    rw [descRead_time _ rfl]
    exact leafRead_time sec nsec hty
  | _ => simp [Ty.hasTy] at hty

/-! ### pointers -/

theorem dv_ptr (u : Ty) (hu : u.isPtr = false) (hm : u.isMap = false) (h : DVal u) : DVal (.ptr u) := by
  intro v hty hok hv _ hsz
  cases v with
  | ptr o =>
    cases o with
    | none => exact absurd rfl hv
    | some x =>
      simp only [Ty.hasTy] at hty
      simp only [descOK] at hok
      have hx := h x hty hok (ne_ptr_none_of_not_ptr u hu x hty) (ne_map_none_of_not_map u hm x hty)
        (by simpa [Ty.app] using hsz)
      have e : ∀ d, descRead (descriptor (.ptr u)) d = descRead (descriptor u) d := by
        intro d; simp only [descriptor]; exact descRead_presence _ _ _
      simp only [Ty.wt, Ty.app, toCalls, e]
      exact hx
  | _ => simp [Ty.hasTy] at hty

/-! ### fields: framing plus the element's walk -/

theorem fwalk_of_dval (t : Ty) (hwf : t.wf) (hs : descShape t = true) (h : DVal t) : FWalk t := by
  intro x j hty hok hom hj hsz
  have hv := ne_ptr_none_of_not_omit x hom
  have hv2 := ne_map_none_of_not_omit x hom
  have hpres := shape_present t hs x hty hv
  have htag := appendTag_ne_nil t.wt j
  by_cases hw : t.wt = .len
  · have hE := app_frame_len t x (appendTag t.wt j) hwf hty hpres hw (shape_deref_not_rep t hs) htag
    rw [hE] at hsz ⊢
    have hBl : (t.app x []).length < 2 ^ 64 := by simp only [List.length_append] at hsz; omega
    have hread := (h x hty hok hv hv2 hBl).1 hw
    refine ⟨appendVarUint (t.app x []).length ++ t.app x [], by rw [List.append_assoc], fun rest => ?_⟩
    rw [hw, List.append_assoc, framed_len _ _ rest hBl, hread]
    simp only [Res.addN_ok, List.length_append]
  · have hE := app_frame_other t x (appendTag t.wt j) hwf hty hpres hw
    rw [hE] at hsz ⊢
    have hBl : (t.app x []).length < 2 ^ 64 := by simp only [List.length_append] at hsz; omega
    have hread := (h x hty hok hv hv2 hBl).2 hw
    refine ⟨t.app x [], rfl, fun rest => ?_⟩
    rw [framed_other _ _ hw, hread rest]

/-! ### packed slices -/

/-- a present value of a varint-kind codec is appended as exactly one varint. -/
theorem varint_shape_d (t : Ty) (hs : descShape t = true) (hwt : t.wt = .varint) (hwf : t.wf) (v : Val)
    (hty : t.hasTy v) (hv : v ≠ .ptr none) : ∃ u, u < 2 ^ 64 ∧ t.app v [] = appendVarUint u := by
  cases t with
  | ptr u =>
    cases v with
    | ptr o =>
      cases o with
      | none => exact absurd rfl hv
      | some x =>
        simp only [descShape, Bool.and_eq_true, Bool.not_eq_true'] at hs
        simp only [Ty.wf] at hwf
        simp only [Ty.hasTy] at hty
        simp only [Ty.wt] at hwt
        simp only [Ty.app]
        exact varint_shape0 u hs.1 hwt hwf.1 x hty
    | _ => simp [Ty.hasTy] at hty
  | _ => exact varint_shape0 _ rfl hwt hwf v hty

theorem dv_vslice (u : Ty) (hwf : (Ty.vslice u).wf) (hs : descShape u = true) (ih : DVal u) :
    DVal (.vslice u) := by
  intro v hty hok _ _ hsz
  cases v with
  | slice vs =>
    refine ⟨fun _ => ?_, fun h => by simp [Ty.wt] at h⟩
    simp only [Ty.wf] at hwf
    simp only [Ty.hasTy] at hty
    simp only [descOK] at hok
    simp only [Ty.app, frame_nil] at hsz ⊢
    have hd : descriptor (.vslice u) = ⟨0, "", .slice, "", [descriptor u], false, .none⟩ := rfl
    have hwl : u.wt ≠ .len := by rw [hwf.2.1]; simp
    rw [hd, descRead_slice, mapValid_none,
      sliceBody_packed _ (descriptor_packed u hwl (by rw [hwf.2.1]; simp))]
    rw [flatMap_filter_nonNil (fun a => u.app a []) (app_ptr_none u []) vs] at hsz ⊢
    rw [packedLoop_flatMap (descRead (descriptor u)) (fun a => u.app a []) (fun a => toCalls u a)
      (vs.filter nonNil) _ 0 [] ?_ (by omega)]
    · simp [toCalls]
    · intro a ha
      obtain ⟨hmem, hne⟩ := mem_filter_nonNil vs a ha
      obtain ⟨n, _, hen⟩ := varint_shape_d u hs hwf.2.1 hwf.1 a (hty a hmem) hne
      have hpos := append_len_pos n
      have hle := length_le_flatMap_of_mem (fun a => u.app a []) (vs.filter nonNil) a ha
      refine ⟨by rw [hen]; exact hpos, ?_⟩
      exact (ih a (hty a hmem) (hok a hmem) hne (ne_map_none_of_not_map u hwf.2.2 a (hty a hmem))
        (by omega)).2 hwl
  | _ => simp [Ty.hasTy] at hty

theorem dv_fslice (u : Ty) (hwf : (Ty.fslice u).wf) (ih : DVal u) : DVal (.fslice u) := by
  intro v hty hok _ _ hsz
  cases v with
  | slice vs =>
    refine ⟨fun _ => ?_, fun h => by simp [Ty.wt] at h⟩
    simp only [Ty.wf] at hwf
    simp only [Ty.hasTy] at hty
    simp only [descOK] at hok
    simp only [Ty.app, frame_nil] at hsz ⊢
    have hd : descriptor (.fslice u) = ⟨0, "", .slice, "", [descriptor u], false, .none⟩ := rfl
    have hwl : u.wt ≠ .len := by rcases hwf with rfl | rfl <;> simp [Ty.wt]
    have hws : u.wt ≠ .slice := by rcases hwf with rfl | rfl <;> simp [Ty.wt]
    rw [hd, descRead_slice, mapValid_none, sliceBody_packed _ (descriptor_packed u hwl hws)]
    rw [packedLoop_flatMap (descRead (descriptor u)) (fun a => u.app a []) (fun a => toCalls u a)
      vs _ 0 [] ?_ (by omega)]
    · simp [toCalls]
    · intro a ha
      have hle := length_le_flatMap_of_mem (fun a => u.app a []) vs a ha
      have hta := hty a ha
      have hpos : 0 < (u.app a []).length := by
        rcases hwf with rfl | rfl <;> cases a <;> simp [Ty.hasTy] at hta <;>
          simp [Ty.app, leBytes_length]
      refine ⟨hpos, ?_⟩
      have hnp : a ≠ .ptr none := by
        rcases hwf with rfl | rfl <;> cases a <;> simp [Ty.hasTy] at hta <;> simp
      have hnm : a ≠ .map none := by
        rcases hwf with rfl | rfl <;> cases a <;> simp [Ty.hasTy] at hta <;> simp
      exact (ih a hta (hok a ha) hnp hnm (by omega)).2 hwl
  | _ => simp [Ty.hasTy] at hty

/-! ### counted slices -/

/-- what an element of a counted slice denotes: a nil pointer has nothing on the
wire and is still an element. -/
def elemCalls (t : Ty) (a : Val) : List OCall :=
  match t, a with
  | .ptr u, .ptr none => emptyCalls u
  | _, a => toCalls t a

theorem toCalls_lslice (t : Ty) (vs : List Val) :
    toCalls (.lslice t) (.slice vs) = .startArr :: vs.flatMap (elemCalls t) ++ [.endArr] := by
  simp only [toCalls]; rfl

theorem elemCalls_present (t : Ty) (a : Val) (ha : a ≠ .ptr none) : elemCalls t a = toCalls t a := by
  unfold elemCalls
  split
  · exact absurd rfl ha
  · rfl

/-- walking no bytes with the descriptor of a length-delimited kind. -/
theorem descRead_empty (u : Ty) (hwf : u.wf) (hw : u.wt = .len) (hs : descShape u = true)
    (hp : u.isPtr = false) : descRead (descriptor u) [] = .ok (emptyCalls u, 0) := by
  cases u with
  | str b => rw [descRead_string _ rfl]; exact leafRead_str []
  | bytes => rw [descRead_string _ rfl]; exact leafRead_str []
  | time c =>
    cases c with
    | true => simp [descShape] at hs
    | false => rw [descRead_time _ rfl]; exact leafRead_time_nil
  | vslice w =>
    simp only [Ty.wf] at hwf
    have hd : descriptor (.vslice w) = ⟨0, "", .slice, "", [descriptor w], false, .none⟩ := rfl
    rw [hd, descRead_slice, mapValid_none,
      sliceBody_packed _ (descriptor_packed w (by rw [hwf.2.1]; simp) (by rw [hwf.2.1]; simp))]
    simp [packedLoop, emptyCalls]
  | fslice w =>
    simp only [Ty.wf] at hwf
    have hd : descriptor (.fslice w) = ⟨0, "", .slice, "", [descriptor w], false, .none⟩ := rfl
    rw [hd, descRead_slice, mapValid_none,
      sliceBody_packed _ (descriptor_packed w (by rcases hwf with rfl | rfl <;> simp [Ty.wt])
        (by rcases hwf with rfl | rfl <;> simp [Ty.wt]))]
    simp [packedLoop, emptyCalls]
  | struct nm fs =>
    have hd : descriptor (.struct nm fs) = ⟨0, "", .struct, nm, fieldDescs fs, false, .none⟩ := rfl
    rw [hd, descRead_struct _ _ _ _ _ _ _ (entryValid_none _), walkLoop_nil _ _ _ _ (by simp)]
    simp [emptyCalls]
  | pslice w => simp [descShape] at hs
  | ptr w => simp [Ty.isPtr] at hp
  | map k v p =>
    cases p with
    | true => simp [descShape] at hs
    | false => simp [Ty.wt] at hw
  | _ => simp [Ty.wt] at hw

theorem dv_lslice (u : Ty) (hwf : (Ty.lslice u).wf) (hs : descShape u = true) (ih : DVal u) :
    DVal (.lslice u) := by
  intro v hty hok _ _ hsz
  cases v with
  | slice vs =>
    refine ⟨fun h => by simp [Ty.wt] at h, fun _ rest => ?_⟩
    have he := lslice_entries u vs [] hwf hty
    simp only [List.nil_append] at he
    rw [he] at hsz ⊢
    simp only [Ty.wf] at hwf
    simp only [Ty.hasTy] at hty
    simp only [descOK] at hok
    have hd : descriptor (.lslice u) = ⟨0, "", .slice, "", [descriptor u], false, .none⟩ := rfl
    have hcnt : vs.length ≤ (vs.flatMap fun a => appendVarUint (u.app a []).length ++ u.app a []).length := by
      apply length_le_flatMap_length
      intro a _
      have := append_len_pos (u.app a []).length
      simp only [List.length_append]; omega
    simp only [List.length_append] at hsz
    have hn : vs.length < 2 ^ 64 := by omega
    have ⟨h1, h2, h3⟩ := readVarUint_app vs.length hn
      ((vs.flatMap fun a => appendVarUint (u.app a []).length ++ u.app a []) ++ rest)
    rw [hd, descRead_slice, mapValid_none, sliceBody_counted _ (descriptor_counted u hwf.2.1)]
    simp only [List.append_assoc, h1, ↓reduceIte, h2, h3, drop_append_len _ _ _ rfl]
    rw [countLoop_flatMap (descRead (descriptor u)) (fun a => u.app a []) (elemCalls u) vs rest _ [] ?_]
    · simp [toCalls_lslice, List.length_append]
    · intro a ha
      have hle := length_le_flatMap_of_mem (fun a => appendVarUint (u.app a []).length ++ u.app a []) vs a ha
      simp only [List.length_append] at hle
      refine ⟨by omega, ?_⟩
      by_cases hnil : a = .ptr none
      · subst hnil
        cases u with
        | ptr w =>
          simp only [Ty.wf] at hwf
          simp only [descShape, Bool.and_eq_true, Bool.not_eq_true'] at hs
          have e : ∀ d, descRead (descriptor (.ptr w)) d = descRead (descriptor w) d := by
            intro d; simp only [descriptor]; exact descRead_presence _ _ _
          rw [app_ptr_none, e, descRead_empty w hwf.1.1 (by simpa [Ty.wt] using hwf.2.1) hs.2 hs.1]
          rfl
        | _ => exact absurd (hty _ ha) (by simp [Ty.hasTy])
      · rw [elemCalls_present u a hnil]
        exact (ih a (hty a ha) (hok a ha) hnil (ne_map_none_of_not_map u hwf.2.2.1 a (hty a ha))
          (by omega)).1 hwf.2.1
  | _ => simp [Ty.hasTy] at hty

/-! ### structs -/

theorem struct_walk (fs : Fields) (hnd : (fs.map (·.1)).Nodup) (hidx : ∀ f ∈ fs, f.1 < 2 ^ 61)
    (hall : ∀ f ∈ fs, FWalk f.2.2) :
    ∀ (suf : Fields) (vsuf : List Val) (pre : Fields),
      fs = pre ++ suf → fieldsHaveTy suf vsuf → fieldsDescOK suf vsuf →
      ∀ (fuel off : Nat) (acc : List OCall),
        (fieldsApp suf vsuf).length < fuel → (fieldsApp suf vsuf).length < 2 ^ 64 →
      walkLoop (fun idx wt body acc => descField (fieldDescs fs) idx wt body acc) fuel
          (fieldsApp suf vsuf) off acc
        = .ok (acc ++ fieldsCalls suf vsuf, off + (fieldsApp suf vsuf).length) := by
  intro suf
  induction suf with
  | nil =>
    intro vsuf pre _ hty _ fuel off acc hf _
    cases vsuf with
    | nil =>
      simp only [fieldsApp, fieldsCalls, List.length_nil, Nat.add_zero, List.append_nil]
      exact walkLoop_nil _ _ _ _ (by omega)
    | cons _ _ => simp [fieldsHaveTy] at hty
  | cons f suf ih =>
    obtain ⟨i, nm, t⟩ := f
    intro vsuf pre hfs hty hok fuel off acc hf hsz
    cases vsuf with
    | nil => simp [fieldsHaveTy] at hty
    | cons v vs =>
      simp only [fieldsHaveTy] at hty
      simp only [fieldsDescOK] at hok
      obtain ⟨htv, htr⟩ := hty
      obtain ⟨hov, hor⟩ := hok
      have hfs' : fs = (pre ++ [(i, nm, t)]) ++ suf := by simp [hfs]
      have hmem : (i, nm, t) ∈ fs := by simp [hfs]
      have hni : i ∉ pre.map (·.1) := by
        rw [hfs] at hnd
        simp only [List.map_append, List.map_cons] at hnd
        have := (List.nodup_append.mp hnd).2.2
        intro hm
        exact this i hm i (by simp) rfl
      cases ho : v.omit with
      | true =>
        have e1 : fieldsApp ((i, nm, t) :: suf) (v :: vs) = fieldsApp suf vs := by
          simp [fieldsApp, ho]
        have e2 : fieldsCalls ((i, nm, t) :: suf) (v :: vs) = fieldsCalls suf vs := by
          simp [fieldsCalls, ho]
        rw [e1] at hf hsz ⊢
        rw [e2]
        exact ih vs (pre ++ [(i, nm, t)]) hfs' htr hor fuel off acc hf hsz
      | false =>
        have e1 : fieldsApp ((i, nm, t) :: suf) (v :: vs)
            = t.app v (appendTag t.wt i) ++ fieldsApp suf vs := by
          simp [fieldsApp, ho]
        have e2 : fieldsCalls ((i, nm, t) :: suf) (v :: vs)
            = (OCall.name (strBytes nm) :: toCalls t v) ++ fieldsCalls suf vs := by
          simp [fieldsCalls, ho]
        rw [e1] at hf hsz ⊢
        rw [e2]
        simp only [List.length_append] at hsz hf
        obtain ⟨P, hP, hrd⟩ := hall (i, nm, t) hmem v i htv hov ho (hidx _ hmem)
          (by show (t.app v (appendTag t.wt i)).length < 2 ^ 64; omega)
        rw [hP] at hf hsz ⊢
        have hstep : (fun idx wt body acc => descField (fieldDescs fs) idx wt body acc) i t.wt
            (P ++ fieldsApp suf vs) acc = .ok (acc ++ OCall.name (strBytes nm) :: toCalls t v, P.length) := by
          simp only [hfs]
          exact descField_at pre i nm t suf hni t.wt _ acc _ _ (hrd _)
        rw [List.append_assoc, walkLoop_payload _ fuel t.wt i (hidx _ hmem) P _ off acc _ hstep
          (by simp only [List.length_append] at hf ⊢; omega)]
        rw [ih vs (pre ++ [(i, nm, t)]) hfs' htr hor fuel _ _
          (by simp only [List.length_append] at hf; omega) (by omega)]
        simp only [List.append_assoc, List.cons_append, List.length_append, Nat.add_assoc]

theorem dv_struct (nm : String) (fs : Fields) (hwf : (Ty.struct nm fs).wf)
    (hall : ∀ f ∈ fs, FWalk f.2.2) : DVal (.struct nm fs) := by
  intro v hty hok _ _ hsz
  cases v with
  | struct vs =>
    refine ⟨fun _ => ?_, fun h => by simp [Ty.wt] at h⟩
    simp only [Ty.wf] at hwf
    simp only [Ty.hasTy] at hty
    simp only [descOK] at hok
    simp only [struct_body] at hsz ⊢
    have hd : descriptor (.struct nm fs) = ⟨0, "", .struct, nm, fieldDescs fs, false, .none⟩ := rfl
    rw [hd, descRead_struct _ _ _ _ _ _ _ (entryValid_none _)]
    rw [struct_walk fs hwf.1 hwf.2.1 hall fs vs [] (by simp) hty hok _ 0 [] (by omega) hsz]
    simp [toCalls]
  | _ => simp [Ty.hasTy] at hty

/-! ### maps -/

/-- the two fields of a map entry, as a struct would have them. -/
def entryFields (k v : Ty) : Fields := [(1, "key", k), (2, "value", v)]

theorem entryBody_fields (k v : Ty) (e : Val × Val) :
    entryBody k v e = fieldsApp (entryFields k v) [e.1, e.2] := by
  simp [entryBody, entryFields, fieldsApp]

/-- what one entry denotes. -/
def entryCalls (k v : Ty) (e : Val × Val) : List OCall :=
  if strKeyed k then
    (if e.1.omit then [OCall.str []] else toCalls k e.1)
      ++ (if e.2.omit then zeroCalls v else toCalls v e.2)
  else
    .startObj :: fieldsCalls (entryFields k v) [e.1, e.2] ++ [.endObj]

theorem toCalls_map (k v : Ty) (p : Bool) (es : List (Val × Val)) :
    toCalls (.map k v p) (.map (some es))
      = (if strKeyed k then OCall.startObj else .startArr) :: es.flatMap (entryCalls k v)
          ++ [if strKeyed k then OCall.endObj else .endArr] := by
  simp only [toCalls]
  cases hk : strKeyed k <;> simp only [Bool.false_eq_true, ↓reduceIte] <;> congr 3 <;> funext e <;>
    simp [entryCalls, hk, entryFields, fieldsCalls]

/-- `writeZero` on the value descriptor of a map entry. -/
theorem writeZero_value (v : Ty) (hm : v.isMap = false) :
    writeZero { descriptor v with index := 2, name := "value" } = zeroCalls v := by
  cases v with
  | ptr w => simp [writeZero, descriptor, zeroCalls]
  | map a b p => simp [Ty.isMap] at hm
  | _ => simp [writeZero, descriptor, zeroCalls, Desc.isValidJSONMap, mapValid]

theorem dv_entry (k v : Ty) (hwf : (Ty.map k v false).wf) (hks : descShape k = true)
    (hvs : descShape v = true) (ihk : DVal k) (ihv : DVal v)
    (e : Val × Val) (htk : k.hasTy e.1) (htv : v.hasTy e.2) (hok : descOK k e.1) (hov : descOK v e.2)
    (hsz : (entryBody k v e).length < 2 ^ 64) :
    descRead ⟨0, "", .struct,
        "map_" ++ (if (descriptor k).typeName = "" then (descriptor k).type.goString else (descriptor k).typeName)
          ++ "_" ++ (if (descriptor v).typeName = "" then (descriptor v).type.goString else (descriptor v).typeName),
        [{ descriptor k with index := 1, name := "key" }, { descriptor v with index := 2, name := "value" }],
        false, .mapEntry⟩ (entryBody k v e)
      = .ok (entryCalls k v e, (entryBody k v e).length) := by
  simp only [Ty.wf] at hwf
  have hfk := fwalk_of_dval k hwf.1 hks ihk
  have hfv := fwalk_of_dval v hwf.2.1 hvs ihv
  cases hstr : strKeyed k with
  | false =>
    have hv : entryValid .struct .mapEntry
        [{ descriptor k with index := 1, name := "key" }, { descriptor v with index := 2, name := "value" }]
        = false := by
      rw [entryValid_pair]; exact hstr
    rw [descRead_struct _ _ _ _ _ _ _ hv]
    have hfd : [({ descriptor k with index := 1, name := "key" } : Desc),
        { descriptor v with index := 2, name := "value" }] = fieldDescs (entryFields k v) := rfl
    rw [hfd, entryBody_fields] at *
    have hall : ∀ f ∈ entryFields k v, FWalk f.2.2 := by
      intro f hf
      simp only [entryFields, List.mem_cons, List.not_mem_nil, or_false] at hf
      rcases hf with rfl | rfl
      · exact hfk
      · exact hfv
    rw [struct_walk (entryFields k v) (by simp [entryFields]) (by simp [entryFields]) hall
      (entryFields k v) [e.1, e.2] [] (by simp) (by simp [entryFields, fieldsHaveTy, htk, htv])
      (by simp [entryFields, fieldsDescOK, hok, hov]) _ 0 [] (by omega) hsz]
    simp [entryCalls, hstr]
  | true =>
    have hkt : (descriptor k).type = .string := by simpa [strKeyed] using hstr
    have hv : entryValid .struct .mapEntry
        [{ descriptor k with index := 1, name := "key" }, { descriptor v with index := 2, name := "value" }]
        = true := by
      rw [entryValid_pair]; exact hstr
    rw [descRead_entry _ _ _ _ _ _ _ _ hv]
    have ek : descRead { descriptor k with index := 1, name := "key" } = descRead (descriptor k) := by
      funext d; exact descRead_field _ _ _ _
    have ev : descRead { descriptor v with index := 2, name := "value" } = descRead (descriptor v) := by
      funext d; exact descRead_field _ _ _ _
    rw [ek, ev]
    simp only [entryCalls, hstr, ↓reduceIte]
    unfold entryBody at hsz ⊢
    cases hok1 : e.1.omit <;> cases hok2 : e.2.omit <;>
      simp only [hok1, hok2, Bool.false_eq_true, ↓reduceIte, List.append_nil, List.nil_append,
        List.length_append] at hsz ⊢
    · obtain ⟨PK, hPK, hrk⟩ := hfk e.1 1 htk hok hok1 (by omega) (by omega)
      obtain ⟨PV, hPV, hrv⟩ := hfv e.2 2 htv hov hok2 (by omega) (by omega)
      rw [hPK, hPV]
      rw [entryWalk_kv _ _ { descriptor k with index := 1, name := "key" }
        { descriptor v with index := 2, name := "value" } hkt rfl rfl k.wt v.wt PK PV _ _ hrk hrv]
      simp only [List.length_append]
    · obtain ⟨PK, hPK, hrk⟩ := hfk e.1 1 htk hok hok1 (by omega) (by omega)
      rw [hPK]
      rw [entryWalk_k _ _ { descriptor k with index := 1, name := "key" }
        { descriptor v with index := 2, name := "value" } hkt rfl rfl k.wt PK _ hrk,
        writeZero_value v hwf.2.2.2.1]
    · obtain ⟨PV, hPV, hrv⟩ := hfv e.2 2 htv hov hok2 (by omega) (by omega)
      rw [hPV]
      rw [entryWalk_v _ _ { descriptor k with index := 1, name := "key" }
        { descriptor v with index := 2, name := "value" } hkt rfl rfl v.wt PV _ hrv]
      simp only [List.length_append, List.singleton_append]
    · rw [entryWalk_none _ _ { descriptor k with index := 1, name := "key" }
        { descriptor v with index := 2, name := "value" } hkt, writeZero_value v hwf.2.2.2.1]
      simp

theorem dv_map (k v : Ty) (hwf : (Ty.map k v false).wf) (hks : descShape k = true)
    (hvs : descShape v = true) (ihk : DVal k) (ihv : DVal v) : DVal (.map k v false) := by
  intro x hty hok _ hx hsz
  cases x with
  | map o =>
    cases o with
    | none => exact absurd rfl hx
    | some es =>
      refine ⟨fun h => by simp [Ty.wt] at h, fun _ rest => ?_⟩
      have he := map_entries k v es [] hwf hty
      simp only [List.nil_append] at he
      rw [he] at hsz ⊢
      simp only [Ty.hasTy] at hty
      simp only [descOK] at hok
      have hle := entryBody_le k v es
      have hcnt : es.length
          ≤ (es.flatMap fun e => appendVarUint (entryBody k v e).length ++ entryBody k v e).length := by
        apply length_le_flatMap_length
        intro e _
        have := append_len_pos (entryBody k v e).length
        simp only [List.length_append]; omega
      simp only [List.length_append] at hsz
      have hn : es.length < 2 ^ 64 := by omega
      have ⟨h1, h2, h3⟩ := readVarUint_app es.length hn
        ((es.flatMap fun e => appendVarUint (entryBody k v e).length ++ entryBody k v e) ++ rest)
      simp only [descriptor, mapDesc]
      rw [descRead_slice, mapValid_entry, sliceBody_counted _ rfl]
      simp only [List.append_assoc, h1, ↓reduceIte, h2, h3, drop_append_len _ _ _ rfl]
      rw [countLoop_flatMap _ (entryBody k v) (entryCalls k v) es rest _ [] ?_]
      · simp only [wrapCalls_ok, toCalls_map, List.nil_append, List.length_append]
        rfl
      · intro e hmem
        have := hle e hmem
        exact ⟨by omega, dv_entry k v hwf hks hvs ihk ihv e (hty.1 e hmem).1 (hty.1 e hmem).2
          (hok e hmem).1 (hok e hmem).2 (by omega)⟩
  | _ => simp [Ty.hasTy] at hty

/-! ### assembly: mutual induction over the codec tree -/

def PP (t : Ty) : Prop := t.wf → descShape t = true → DVal t

theorem fieldsWf_mem (fs : Fields) (h : fieldsWf fs) : ∀ f ∈ fs, f.2.2.wf := RT.fieldsWf_mem fs h

theorem fieldsDescShape_mem (fs : Fields) (h : fieldsDescShape fs = true) :
    ∀ f ∈ fs, descShape f.2.2 = true := by
  induction fs with
  | nil => intro f hf; simp at hf
  | cons g r ih =>
    obtain ⟨i, n, t⟩ := g
    simp only [fieldsDescShape, Bool.and_eq_true] at h
    intro f hf
    rcases List.mem_cons.mp hf with rfl | hf
    · exact h.1
    · exact ih h.2 f hf

mutual
theorem pp_ty : (t : Ty) → PP t
  | .bool => fun _ _ => dv_bool
  | .int w => fun hwf _ => dv_int w hwf
  | .uint w => fun hwf _ => dv_uint w hwf
  | .flat w => fun hwf _ => dv_flat w hwf
  | .f32 => fun _ _ => dv_f32
  | .f64 => fun _ _ => dv_f64
  | .str b => fun _ _ => dv_str b
  | .bytes => fun _ _ => dv_bytes
  | .time c => fun _ hs => by
      cases c with
      | true => simp [descShape] at hs
      | false => exact dv_time
  | .ptr u => fun hwf hs => by
      simp only [Ty.wf] at hwf
      simp only [descShape, Bool.and_eq_true, Bool.not_eq_true'] at hs
      exact dv_ptr u hs.1 hwf.2 (pp_ty u hwf.1 hs.2)
  | .vslice u => fun hwf hs => by
      simp only [descShape] at hs
      exact dv_vslice u hwf hs (pp_ty u hwf.1 hs)
  | .fslice u => fun hwf _ => by
      have hu : DVal u := by
        rcases hwf with rfl | rfl
        · exact dv_f32
        · exact dv_f64
      exact dv_fslice u hwf hu
  | .lslice u => fun hwf hs => by
      simp only [descShape] at hs
      exact dv_lslice u hwf hs (pp_ty u hwf.1 hs)
  | .pslice _ => fun _ hs => by simp [descShape] at hs
  | .struct nm fs => fun hwf hs => by
      simp only [descShape] at hs
      exact dv_struct nm fs hwf (fun f hf =>
        fwalk_of_dval f.2.2 (fieldsWf_mem fs hwf.2.2 f hf) (fieldsDescShape_mem fs hs f hf)
          (pp_fields fs f hf (fieldsWf_mem fs hwf.2.2 f hf) (fieldsDescShape_mem fs hs f hf)))
  | .map k v p => fun hwf hs => by
      cases p with
      | true => simp [descShape] at hs
      | false =>
        simp only [descShape, Bool.not_false, Bool.true_and, Bool.and_eq_true] at hs
        exact dv_map k v hwf hs.1 hs.2 (pp_ty k hwf.1 hs.1) (pp_ty v hwf.2.1 hs.2)
theorem pp_fields : (fs : Fields) → ∀ f ∈ fs, PP f.2.2
  | [] => by intro f hf; simp at hf
  | (_, _, t) :: r => by
      intro f hf
      rcases List.mem_cons.mp hf with rfl | hf
      · exact pp_ty t
      · exact pp_fields r f hf
end

/-! ### the property -/

/-- C13, at the call level: for every accepted codec tree in the walker's shapes
and every present value of its type, walking the encoding with the type's
descriptor succeeds and yields exactly the calls the value denotes — all sixteen
codec constructors (`pslice`, proto maps and proto-compatible times are ruled
out by `descShape`, with counterexamples below). -/
theorem descRead_calls (t : Ty) (v : Val) (hwf : t.wf) (hshape : descShape t = true)
    (hty : t.hasTy v) (hok : descOK t v) (hp : v ≠ .ptr none) (hm : v ≠ .map none)
    (hsz : (t.app v []).length < 2 ^ 63) :
    descCalls t (t.app v []) = .ok (toCalls t v) := by
  have h := pp_ty t hwf hshape v hty hok hp hm (by omega)
  unfold descCalls
  by_cases hw : t.wt = .len
  · rw [h.1 hw]
  · have := h.2 hw []
    rw [List.append_nil] at this
    rw [this]

/-- …and the walker consumes exactly the encoding. -/
theorem descRead_consumed (t : Ty) (v : Val) (hwf : t.wf) (hshape : descShape t = true)
    (hty : t.hasTy v) (hok : descOK t v) (hp : v ≠ .ptr none) (hm : v ≠ .map none)
    (hsz : (t.app v []).length < 2 ^ 63) :
    descRead (descriptor t) (t.app v []) = .ok (toCalls t v, (t.app v []).length) := by
  have h := pp_ty t hwf hshape v hty hok hp hm (by omega)
  by_cases hw : t.wt = .len
  · exact h.1 hw
  · have := h.2 hw []
    rwa [List.append_nil] at this

/-- the same through `Marshal`: any value that is not omitted at top level. -/
theorem descRead_marshal (t : Ty) (v : Val) (hwf : t.wf) (hshape : descShape t = true)
    (hty : t.hasTy v) (hok : descOK t v) (hom : v.omit = false)
    (hsz : (marshal t v).length < 2 ^ 63) :
    descCalls t (marshal t v) = .ok (toCalls t v) := by
  unfold marshal at hsz ⊢
  simp only [hom, Bool.false_eq_true, ↓reduceIte] at hsz ⊢
  exact descRead_calls t v hwf hshape hty hok (ne_ptr_none_of_not_omit v hom)
    (ne_map_none_of_not_omit v hom) hsz

/-- the struct walk is a prefix-stable step of any enclosing walk: the sub-language
statement for self-delimiting kinds (varints, fixed widths, counted slices, plenc
maps) with arbitrary bytes following. -/
theorem descRead_calls_prefix (t : Ty) (v : Val) (rest : Bytes) (hwf : t.wf)
    (hshape : descShape t = true) (hty : t.hasTy v) (hok : descOK t v) (hp : v ≠ .ptr none)
    (hm : v ≠ .map none) (hw : t.wt ≠ .len) (hsz : (t.app v []).length < 2 ^ 63) :
    descRead (descriptor t) (t.app v [] ++ rest) = .ok (toCalls t v, (t.app v []).length) :=
  (pp_ty t hwf hshape v hty hok hp hm (by omega)).2 hw rest

/-! ### the excluded findings are real: the walker differs on each -/

/-- F06: a proto-compatible time (`TimeCompatCodec`, plain varints) is walked
with the zig-zag `TimeCodec`: one second before the epoch comes out as the
year 292277026596. -/
theorem F06_counterexample :
    (Ty.time true).wf ∧ (Ty.time true).hasTy (.time (-1) 5) ∧
    descCalls (.time true) ((Ty.time true).app (.time (-1) 5) [])
      = .ok [.time 9223372036854775807 999999997] ∧
    toCalls (.time true) (.time (-1) 5) = [.time (-1) 5] := by
  refine ⟨trivial, by simp [Ty.hasTy, intRange], by decide +kernel, rfl⟩

/-- F08 (slices): the protobuf repeated form (one frame per element under the
field's tag) has no element count; the walker takes the first element's first
byte for the count: `["a","b"]` fails, and `["\x01\x00"]` decodes as `[""]`. -/
theorem F08_slice_counterexample :
    let t : Ty := .struct "S" [(1, "L", .pslice (.str false))]
    t.wf ∧ t.hasTy (.struct [.slice [.str [97], .str [98]]]) ∧
    descCalls t (t.app (.struct [.slice [.str [97], .str [98]]]) []) = .err ∧
    descCalls t (t.app (.struct [.slice [.str [1, 0]]]) [])
      = .ok [.startObj, .name (strBytes "L"), .startArr, .str [], .endArr, .endObj] := by
  refine ⟨by simp [Ty.wf, fieldsWf, Ty.wt, Ty.isMap, Ty.isProtoSlice], by simp [Ty.hasTy, fieldsHaveTy],
    by decide +kernel, by decide +kernel⟩

/-- F08 (maps): a proto map in a struct field is one frame per entry; the walker
expects a counted list and fails on it. -/
theorem F08_map_counterexample :
    let t : Ty := .struct "S" [(1, "M", .map (.str false) (.int 64) true)]
    let v : Val := .struct [.map (some [(.str [97], .int 1), (.str [98], .int 2)])]
    t.wf ∧ t.hasTy v ∧ descCalls t (t.app v []) = .err := by
  refine ⟨by simp [Ty.wf, fieldsWf, Ty.isMap, Ty.isProtoSlice, validWidth], ?_, by decide +kernel⟩
  simp [Ty.hasTy, fieldsHaveTy, intRange, keysDistinct, Val.beq]

/-- F09: the descriptor of a flat integer carries no width: `int8(-1)` is
rendered as 255. -/
theorem F09_counterexample :
    (Ty.flat 8).wf ∧ (Ty.flat 8).hasTy (.int (-1)) ∧
    descCalls (.flat 8) ((Ty.flat 8).app (.int (-1)) []) = .ok [.int64 255] ∧
    toCalls (.flat 8) (.int (-1)) = [.int64 (-1)] := by
  refine ⟨by simp [Ty.wf, validWidth], by simp [Ty.hasTy, intRange], by decide +kernel, rfl⟩

/-- F03: a pointer to a nil pointer appends nothing, so as a slice element it
is indistinguishable from an empty element. -/
theorem F03_counterexample :
    (Ty.lslice (.ptr (.ptr (.str false)))).app (.slice [.ptr (some (.ptr none))]) []
      = (Ty.lslice (.ptr (.ptr (.str false)))).app (.slice [.ptr none]) [] := by
  decide +kernel

/-! ### totality: any byte string, never a panic, never a hang -/

/-- for every codec tree (no hypothesis at all) and EVERY byte string, walking
with the type's descriptor ends with calls or an error. -/
theorem descRead_total (t : Ty) (data : Bytes) : (descRead (descriptor t) data).fine :=
  descRead_fine (descriptor t) (descriptor_ok t) data

theorem descCalls_total (t : Ty) (data : Bytes) : (descCalls t data).fine := by
  unfold descCalls
  rcases Total.fine_cases (descRead_total t data) with ⟨⟨cs, n⟩, e⟩ | e <;> simp [e, Res.fine]

/-- the same for an arbitrary descriptor (e.g. one restored from its plenc or
JSON serialisation, including the JSON object / array field types) whose slice
nodes have an element descriptor… -/
theorem descRead_total_desc (d : Desc) (hd : d.ok) (data : Bytes) : (descRead d data).fine :=
  descRead_fine d hd data

/-- …and that hypothesis is needed: `Descriptor{Type: FieldTypeSlice}.Read` indexes
`d.Elements[0]` without a length check. -/
theorem slice_without_element_panics (data : Bytes) :
    descRead { type := .slice } data = .panic := by
  rw [descRead.eq_def]

/-- the packed loop of `readAsSlice` as it was before the `n <= 0` check. -/
def packedLoopOld (rd : Bytes → Res (List OCall × Nat)) :
    (fuel : Nat) → Bytes → Nat → List OCall → Res (List OCall × Nat)
  | 0, _, _, _ => .hang
  | fuel+1, data, off, acc =>
    if data.isEmpty then .ok (acc, off) else
    match rd data with
    | .ok (cs, n) => packedLoopOld rd fuel (data.drop n) (off + n) (acc ++ cs)
    | .err => .err | .panic => .panic | .hang => .hang

/-- finding (repaired): a packed varint slice ending in a truncated varint made
the old loop spin — `IntCodec.Read` returns `n = 0, err = nil` for it — while the
outputter buffer grew without bound. With the check it is an error. -/
theorem old_packed_loop_hangs :
    packedLoopOld (descRead (descriptor (.int 64))) ([0x80].length + 1) [0x80] 0 [] = .hang ∧
    descCalls (.vslice (.int 64)) [0x80] = .err := by
  refine ⟨by decide +kernel, by decide +kernel⟩

/-! ### non-vacuity -/

def exTy : Ty :=
  .struct "S" [(1, "A", .int 64), (2, "B", .str false),
    (4, "D", .vslice (.ptr (.int 32))), (5, "E", .f64), (6, "F", .struct "T" [(1, "X", .uint 8)]),
    (7, "G", .lslice (.ptr (.struct "T" [(1, "X", .uint 8)]))),
    (8, "H", .map (.str false) (.lslice (.time false)) false),
    (9, "I", .map (.struct "K" [(1, "P", .int 8), (2, "Q", .bool)]) (.ptr .f32) false),
    (10, "J", .lslice (.str false)), (11, "K", .vslice .bool),
    (12, "L", .map (.str false) (.ptr (.flat 16)) false), (13, "N", .fslice .f32)]

def exVal : Val :=
  .struct [.int (-5), .str [104, 105],
    .slice [.ptr (some (.int 7)), .ptr none], .f64 (2 ^ 63), .struct [.uint 200],
    .slice [.ptr none, .ptr (some (.struct [.uint 1]))],
    .map (some [(.str [], .slice [.time 5 6]), (.str [97], .slice [])]),
    .map (some [(.struct [.int (-1), .bool true], .ptr none),
                (.struct [.int 0, .bool false], .ptr (some (.f32 1)))]),
    .slice [.str [], .str [65]], .slice [.bool true, .bool false],
    .map (some [(.str [], .ptr none), (.str [66], .ptr (some (.int 3)))]), .slice [.f32 0]]

theorem ex_hyps : exTy.wf ∧ descShape exTy = true ∧ exTy.hasTy exVal ∧ descOK exTy exVal
    ∧ exVal.omit = false ∧ (marshal exTy exVal).length < 2 ^ 63 := by
  refine ⟨?_, by decide, ?_, ?_, rfl, by decide +kernel⟩
  · simp [exTy, Ty.wf, fieldsWf, validWidth, Ty.wt, Ty.isMap, Ty.isProtoSlice]
  · simp [exTy, exVal, Ty.hasTy, fieldsHaveTy, intRange, keysDistinct, Val.beq, Val.beqList]
  · simp [exTy, exVal, descOK, fieldsDescOK]

/-- the theorem applies to the example… -/
example : descCalls exTy (marshal exTy exVal) = .ok (toCalls exTy exVal) :=
  descRead_marshal exTy exVal ex_hyps.1 ex_hyps.2.1 ex_hyps.2.2.1 ex_hyps.2.2.2.1 ex_hyps.2.2.2.2.1
    ex_hyps.2.2.2.2.2

/-- …and this is what it says there: the omitted `-0.0` is absent, the nil
integer pointer is dropped, the nil struct pointer is `{}`, the empty string is
an element, the string-keyed maps are objects with `""` keys and zero / null
values written out, the struct-keyed map is a list of key/value objects. -/
example : toCalls exTy exVal =
    [.startObj,
      .name (strBytes "A"), .int64 (-5),
      .name (strBytes "B"), .str [104, 105],
      .name (strBytes "D"), .startArr, .int64 7, .endArr,
      .name (strBytes "F"), .startObj, .name (strBytes "X"), .uint64 200, .endObj,
      .name (strBytes "G"), .startArr, .startObj, .endObj,
        .startObj, .name (strBytes "X"), .uint64 1, .endObj, .endArr,
      .name (strBytes "H"), .startObj, .str [], .startArr, .time 5 6, .endArr,
        .str [97], .startArr, .endArr, .endObj,
      .name (strBytes "I"), .startArr,
        .startObj, .name (strBytes "key"), .startObj, .name (strBytes "P"), .int64 (-1),
          .name (strBytes "Q"), .bool true, .endObj, .endObj,
        .startObj, .name (strBytes "key"), .startObj, .endObj,
          .name (strBytes "value"), .f32 1, .endObj, .endArr,
      .name (strBytes "J"), .startArr, .str [], .str [65], .endArr,
      .name (strBytes "K"), .startArr, .bool true, .bool false, .endArr,
      .name (strBytes "L"), .startObj, .str [], .raw nullTok, .str [66], .int64 3, .endObj,
      .name (strBytes "N"), .startArr, .f32 0, .endArr,
     .endObj] := by
  decide +kernel

end C13
