import Proofs.Spec
/-
  C02 — Wire format: the output of Marshal is exactly the documented
  protobuf-like encoding; conversely Unmarshal accepts any such encoding with
  the fields in any order.

  `Spec.encode` (Plenc/Spec/Format.lean) is the documented format, written as
  records `(index, wire type, payload)` rendered by the single function
  `Spec.renderRec`; it does not use the model's `Ty.app` / `Ty.size`.
  Property theorems only; helper lemmas live in Proofs/Spec.lean.

  Hypotheses: `t.wf` = "accepted" (the codec trees the builder produces: Go
  integer widths, wrapper choice matching the element wire type, field indexes
  distinct and < 2^61); `t.hasTy v` = `v` is a value of the Go type the codec was
  built for.  The decode side additionally uses the hypotheses of the typed round
  trip C01 (`rtShape`: the known findings excluded; length prefixes fit).
-/
namespace C02
open Spec

/-! ### (a) encode side: Marshal = the documented encoding -/

/-- `Marshal(nil, v)` returns exactly `Spec.encode t v` — every accepted codec
tree (all sixteen constructors), every value of its type, no side condition. -/
theorem marshal_eq_spec (t : Ty) (v : Val) (hwf : t.wf) (hty : t.hasTy v) :
    marshal t v = Spec.encode t v :=
  SpecP.marshal_eq_encode t v hwf hty

/-- codec level, no tag (`Codec.Append(nil, ptr, nil)`): the specified payload. -/
theorem append_eq_payload (t : Ty) (v : Val) (hwf : t.wf) (hty : t.hasTy v) :
    t.app v [] = Spec.payload t v :=
  SpecP.app_nil_eq_payload t v hwf hty

/-- codec level, under the tag of field `i` (`Codec.Append(nil, ptr, tag)`): the
rendering of the specified record(s) of that field. -/
theorem append_eq_records (t : Ty) (i : Nat) (v : Val) (hwf : t.wf) (hi : i < 2 ^ 61) (hty : t.hasTy v) :
    t.app v (appendTag t.wt i) = Spec.render (Spec.recsOf t i v) :=
  SpecP.app_tag_eq_recs t i v hwf hi hty

/-- a struct is the rendering of its field records: declaration order, fields
without presence omitted, repeated forms one record per element / entry. -/
theorem marshal_struct_eq_fields (n : String) (fs : Fields) (vs : List Val)
    (hwf : (Ty.struct n fs).wf) (hty : (Ty.struct n fs).hasTy (.struct vs)) :
    marshal (.struct n fs) (.struct vs) = Spec.render (Spec.fieldsOf fs vs) := by
  rw [marshal_eq_spec _ _ hwf hty]
  simp [Spec.encode, Spec.absent, SpecP.payload_struct]

/-- the model's `Omit` is the specification's "no presence". -/
theorem omit_iff_absent (t : Ty) (v : Val) (hty : t.hasTy v) : v.omit = Spec.absent v :=
  SpecP.omit_eq_absent t v hty

/-! ### (b) decode side: fields in any order -/

/-- the records of each single field appear in the same relative order in both
messages. (Needed only for the protobuf repeated forms, whose elements are
appended in wire order; see `perm_sameFieldOrder`.) -/
def SameFieldOrder (a b : List Rec) : Prop :=
  ∀ i, a.filter (fun r => r.index == i) = b.filter (fun r => r.index == i)

/-- Decoding ANY message made of the records of a struct value, in any order
that keeps the records of each single field in their relative order, into a
fresh target gives the normalised value (and consumes all bytes). -/
theorem unmarshal_records (n : String) (fs : Fields) (vs : List Val) (recs : List Rec)
    (hwf : (Ty.struct n fs).wf) (hshape : Ty.rtShape false (.struct n fs))
    (hty : (Ty.struct n fs).hasTy (.struct vs))
    (hsz : (Spec.render (Spec.fieldsOf fs vs)).length < 2 ^ 64)
    (hperm : recs.Perm (Spec.fieldsOf fs vs)) (hord : SameFieldOrder recs (Spec.fieldsOf fs vs)) :
    (Ty.struct n fs).read .len (Spec.render recs) (Ty.struct n fs).zero
      = .ok ((Ty.struct n fs).normPos (.struct vs), (Spec.render recs).length) := by
  simp only [Ty.rtShape] at hshape
  simp only [Ty.hasTy] at hty
  rw [SpecP.read_records n fs vs recs hwf hshape hty (fun r hr => hperm.mem_iff.mp hr) hord hsz]
  simp [Ty.normPos, Val.omit, Ty.norm]

/-- C02 decode side. `recs` is any permutation of the records of the value that
keeps each field's records in their relative order: `Unmarshal` of its rendering
gives the same result as `Unmarshal` of the canonical (declaration order)
rendering — which is the normalised value. -/
theorem unmarshal_perm (n : String) (fs : Fields) (vs : List Val) (recs : List Rec)
    (hwf : (Ty.struct n fs).wf) (hshape : Ty.rtShape false (.struct n fs))
    (hty : (Ty.struct n fs).hasTy (.struct vs))
    (hsz : (Spec.render (Spec.fieldsOf fs vs)).length < 2 ^ 64)
    (hperm : recs.Perm (Spec.fieldsOf fs vs)) (hord : SameFieldOrder recs (Spec.fieldsOf fs vs)) :
    unmarshal (.struct n fs) (Spec.render recs) (Ty.struct n fs).zero
        = unmarshal (.struct n fs) (Spec.render (Spec.fieldsOf fs vs)) (Ty.struct n fs).zero
    ∧ unmarshal (.struct n fs) (Spec.render recs) (Ty.struct n fs).zero
        = .ok ((Ty.struct n fs).normPos (.struct vs)) := by
  have h1 := unmarshal_records n fs vs recs hwf hshape hty hsz hperm hord
  have h2 := unmarshal_records n fs vs _ hwf hshape hty hsz (List.Perm.refl _) (fun _ => rfl)
  simp only [unmarshal, Ty.wt, h1, h2, and_self]

/-- the same against the marshalled bytes. -/
theorem unmarshal_perm_marshal (n : String) (fs : Fields) (vs : List Val) (recs : List Rec)
    (hwf : (Ty.struct n fs).wf) (hshape : Ty.rtShape false (.struct n fs))
    (hty : (Ty.struct n fs).hasTy (.struct vs))
    (hsz : (marshal (.struct n fs) (.struct vs)).length < 2 ^ 64)
    (hperm : recs.Perm (Spec.fieldsOf fs vs)) (hord : SameFieldOrder recs (Spec.fieldsOf fs vs)) :
    unmarshal (.struct n fs) (Spec.render recs) (Ty.struct n fs).zero
      = unmarshal (.struct n fs) (marshal (.struct n fs) (.struct vs)) (Ty.struct n fs).zero := by
  rw [marshal_struct_eq_fields n fs vs hwf hty] at hsz ⊢
  exact (unmarshal_perm n fs vs recs hwf hshape hty hsz hperm hord).1

/-- for a struct without `proto`-tagged slice / map fields every field has at
most one record, so EVERY permutation keeps the per-field order. -/
theorem perm_sameFieldOrder (n : String) (fs : Fields) (vs : List Val) (recs : List Rec)
    (hwf : (Ty.struct n fs).wf) (hshape : Ty.rtShape false (.struct n fs))
    (hty : (Ty.struct n fs).hasTy (.struct vs)) (hnr : SpecP.noRepeated fs = true)
    (hperm : recs.Perm (Spec.fieldsOf fs vs)) : SameFieldOrder recs (Spec.fieldsOf fs vs) := by
  simp only [Ty.wf] at hwf
  simp only [Ty.rtShape] at hshape
  simp only [Ty.hasTy] at hty
  exact SpecP.perm_recsAt_of_le_one recs _ hperm
    (SpecP.recsAt_fieldsOf_le_one fs hwf.1 hwf.2.2 hshape hnr vs hty)

/-- C02 decode side for structs without protobuf repeated-form fields: the
fields may come in ANY order. -/
theorem unmarshal_any_perm (n : String) (fs : Fields) (vs : List Val) (recs : List Rec)
    (hwf : (Ty.struct n fs).wf) (hshape : Ty.rtShape false (.struct n fs))
    (hty : (Ty.struct n fs).hasTy (.struct vs)) (hnr : SpecP.noRepeated fs = true)
    (hsz : (Spec.render (Spec.fieldsOf fs vs)).length < 2 ^ 64)
    (hperm : recs.Perm (Spec.fieldsOf fs vs)) :
    unmarshal (.struct n fs) (Spec.render recs) (Ty.struct n fs).zero
        = unmarshal (.struct n fs) (Spec.render (Spec.fieldsOf fs vs)) (Ty.struct n fs).zero
    ∧ unmarshal (.struct n fs) (Spec.render recs) (Ty.struct n fs).zero
        = .ok ((Ty.struct n fs).normPos (.struct vs)) :=
  unmarshal_perm n fs vs recs hwf hshape hty hsz hperm
    (perm_sameFieldOrder n fs vs recs hwf hshape hty hnr hperm)

/-- the key step, as a statement about messages: exchanging two adjacent
records of different fields keeps the per-field order (so such exchanges, and
everything they generate, never change what `Unmarshal` returns). -/
theorem sameFieldOrder_swap (a b : List Rec) (r1 r2 : Rec) (h : r1.index ≠ r2.index) :
    SameFieldOrder (a ++ r2 :: r1 :: b) (a ++ r1 :: r2 :: b) :=
  SpecP.sameOrder_swap a b r1 r2 h

/-! ### (c) tags -/

/-- the six wire type code points (pinned to plenccore/wire.go by Gen/Tie.lean). -/
theorem wire_type_codes :
    WT.varint.code = 0 ∧ WT.w64.code = 1 ∧ WT.len.code = 2 ∧ WT.slice.code = 3
      ∧ WT.endGroup.code = 4 ∧ WT.w32.code = 5 :=
  ⟨rfl, rfl, rfl, rfl, rfl, rfl⟩

/-- the wire type the documentation assigns to each kind is the one the codec reports. -/
theorem wire_type_of_kind (t : Ty) : Spec.wtOf t = t.wt := SpecP.wtOf_eq t

/-- a record starts with `AppendTag(wt, index)` = varint(index<<3 | wt); a
length-delimited one continues with the byte count of its payload. -/
theorem record_tag (r : Rec) (h : r.index < 2 ^ 61) :
    Spec.renderRec r
      = appendTag r.wt r.index ++ (if r.wt = .len then appendVarUint r.payload.length else []) ++ r.payload := by
  simp only [Spec.renderRec, SpecP.tag_eq _ _ h, Spec.varint]

/-- every record written for field `i` with codec `t` carries index `i` and the
wire type of the field's codec. -/
theorem field_record_tag (t : Ty) (i : Nat) (v : Val) (hwf : t.wf) :
    ∀ r ∈ Spec.recsOf t i v, r.index = i ∧ r.wt = t.wt :=
  SpecP.recsOf_index_wt t hwf i v

/-- every record of a marshalled struct is tagged `appendTag f.wt f.index` for
one of the struct's fields `f`. -/
theorem struct_record_tags (n : String) (fs : Fields) (vs : List Val) (hwf : (Ty.struct n fs).wf) :
    ∀ r ∈ Spec.fieldsOf fs vs, ∃ f ∈ fs, r.index = f.1 ∧ r.wt = f.2.2.wt ∧
      Spec.renderRec r = appendTag f.2.2.wt f.1
        ++ (if f.2.2.wt = .len then appendVarUint r.payload.length else []) ++ r.payload := by
  simp only [Ty.wf] at hwf
  intro r hr
  obtain ⟨f, hf, h1, h2⟩ := SpecP.fieldsOf_field fs hwf.2.2 vs r hr
  refine ⟨f, hf, h1, h2, ?_⟩
  rw [record_tag r (h1 ▸ hwf.2.1 f hf), h1, h2]

/-! ### non-vacuity and tests

`decide +kernel`: the kernel evaluates `Spec.encode` (the varint primitive is
defined by well-founded recursion, which plain `decide` does not unfold). -/

/-- a struct with one field of most kinds: varint, zig-zag, flat, bool, float
(-0.0: omitted), string, bytes, packed slices (one with a nil pointer entry),
WTSlice slice with a nil element, nil pointer, pointer, nested struct, plenc map
with a zero key, time in both modes, and the two protobuf repeated forms. -/
def exTy : Ty :=
  .struct "S" [(1, "A", .uint 8), (2, "B", .int 64), (3, "C", .flat 32), (4, "D", .bool), (5, "E", .f32),
    (6, "F", .str false), (7, "G", .bytes), (8, "H", .vslice (.ptr (.int 32))), (9, "I", .fslice .f32),
    (10, "J", .lslice (.ptr (.struct "T" [(1, "X", .uint 8)]))), (11, "K", .ptr (.int 8)),
    (12, "L", .ptr (.str false)), (13, "M", .struct "T" [(1, "X", .uint 8)]),
    (14, "N", .map (.str false) (.int 16) false), (15, "O", .time false), (16, "P", .time true),
    (17, "Q", .pslice (.str false)), (18, "R", .map (.uint 8) (.str false) true), (19, "Z", .int 8)]

def exVal : Val :=
  .struct [.uint 5, .int (-3), .int (-1), .bool true, .f32 0x80000000,
    .str [104, 105], .bytes [0, 255], .slice [.ptr (some (.int 7)), .ptr none, .ptr (some (.int (-1)))],
    .slice [.f32 0x3f800000],
    .slice [.ptr none, .ptr (some (.struct [.uint 9]))], .ptr none,
    .ptr (some (.str [])), .struct [.uint 0],
    .map (some [(.str [], .int 4), (.str [97], .int 0)]), .time 1 2, .time (-1) 3,
    .slice [.str [120], .str []], .map (some [(.uint 1, .str [121]), (.uint 0, .str [])]), .int 0]

theorem ex_hyps : exTy.wf ∧ exTy.hasTy exVal := by
  refine ⟨?_, ?_⟩
  · simp [exTy, Ty.wf, fieldsWf, validWidth, Ty.wt, Ty.isMap, Ty.isProtoSlice]
  · simp [exTy, exVal, Ty.hasTy, fieldsHaveTy, intRange, keysDistinct, Val.beq]

/-- the documented encoding of the example, byte by byte:
`08 05` A=5 · `10 05` B=zigzag(-3) · `18 ff ff ff ff 0f` C=uint32(-1) flat · `20 01` D ·
(E = -0.0 omitted) · `32 02 68 69` F · `3a 02 00 ff` G · `42 02 0e 01` H packed, nil dropped ·
`4a 04 00 00 80 3f` I · `53 02 00 02 08 09` J WTSlice: count 2, empty element, {X=9} ·
(K nil omitted) · `62 00` L pointer to "" · `6a 00` M struct of zeros ·
`73 02 02 10 08 03 0a 01 61` N WTSlice map: {value=4}, {key="a"} ·
`7a 04 08 02 10 04` O zig-zag time · `82 01 0d 08 ff…01 10 03` P compat time ·
`8a 01 01 78  8a 01 00` Q repeated · `92 01 05 08 01 12 01 79  92 01 00` R proto map · (Z = 0 omitted).
(Test: the same bytes were obtained from the real `plenc.Marshal` on the corresponding Go
struct, for the map iteration order written here; P with `ProtoCompatibleTime`.) -/
example : Spec.encode exTy exVal =
    [0x08, 0x05, 0x10, 0x05, 0x18, 0xff, 0xff, 0xff, 0xff, 0x0f, 0x20, 0x01,
     0x32, 0x02, 0x68, 0x69, 0x3a, 0x02, 0x00, 0xff, 0x42, 0x02, 0x0e, 0x01,
     0x4a, 0x04, 0x00, 0x00, 0x80, 0x3f, 0x53, 0x02, 0x00, 0x02, 0x08, 0x09,
     0x62, 0x00, 0x6a, 0x00, 0x73, 0x02, 0x02, 0x10, 0x08, 0x03, 0x0a, 0x01, 0x61,
     0x7a, 0x04, 0x08, 0x02, 0x10, 0x04,
     0x82, 0x01, 0x0d, 0x08, 0xff, 0xff, 0xff, 0xff, 0xff, 0xff, 0xff, 0xff, 0xff, 0x01, 0x10, 0x03,
     0x8a, 0x01, 0x01, 0x78, 0x8a, 0x01, 0x00,
     0x92, 0x01, 0x05, 0x08, 0x01, 0x12, 0x01, 0x79, 0x92, 0x01, 0x00] := by decide +kernel

/-- …and `marshal_eq_spec` applies to it: the model's Marshal output is those bytes. -/
example : marshal exTy exVal = Spec.encode exTy exVal :=
  marshal_eq_spec exTy exVal ex_hyps.1 ex_hyps.2

/-! #### tests: the golden files of /repo/plenccodec/testdata (binary_test.go)

Each `example` states that `Spec.encode` of the Go value `TestBinaryCompatibility`
marshals is the content of the golden file (transcribed as hex). These are tests
of the specification against recorded implementation output, not proofs about
the implementation. -/

/-- string.golden: `"hats"`. -/
example : Spec.encode (.str false) (.str [0x68, 0x61, 0x74, 0x73]) = [0x68, 0x61, 0x74, 0x73] := by
  decide +kernel
/-- bytes.golden: `[]byte{1,2,3,4}`. -/
example : Spec.encode .bytes (.bytes [1, 2, 3, 4]) = [1, 2, 3, 4] := by decide +kernel
/-- bool.golden: `true`. -/
example : Spec.encode .bool (.bool true) = [0x01] := by decide +kernel
/-- int16.golden / int32.golden: `1234` (zig-zag 2468). -/
example : Spec.encode (.int 16) (.int 1234) = [0xa4, 0x13] ∧ Spec.encode (.int 32) (.int 1234) = [0xa4, 0x13] := by
  decide +kernel
/-- int64.golden: `int64(12343453453)`. -/
example : Spec.encode (.int 64) (.int 12343453453) = [0x9a, 0x9c, 0xd1, 0xfb, 0x5b] := by decide +kernel
/-- uint16.golden / uint32.golden: `1234`. -/
example : Spec.encode (.uint 16) (.uint 1234) = [0xd2, 0x09] ∧ Spec.encode (.uint 32) (.uint 1234) = [0xd2, 0x09] := by
  decide +kernel
/-- uint64.golden: `uint64(12343453453)`. -/
example : Spec.encode (.uint 64) (.uint 12343453453) = [0x8d, 0xce, 0xe8, 0xfd, 0x2d] := by decide +kernel
/-- float32.golden: `float32(1234.5678)` = 0x449a522b. -/
example : Spec.encode .f32 (.f32 0x449a522b) = [0x2b, 0x52, 0x9a, 0x44] := by decide +kernel
/-- float64.golden: `1234.5678` = 0x40934a456d5cfaad. -/
example : Spec.encode .f64 (.f64 0x40934a456d5cfaad) = [0xad, 0xfa, 0x5c, 0x6d, 0x45, 0x4a, 0x93, 0x40] := by
  decide +kernel
/-- string_array.golden: `[]string{"hats", "coats"}` — WTSlice form: count, then length-prefixed elements. -/
example : Spec.encode (.lslice (.str false))
      (.slice [.str [0x68, 0x61, 0x74, 0x73], .str [0x63, 0x6f, 0x61, 0x74, 0x73]])
    = [0x02, 0x04, 0x68, 0x61, 0x74, 0x73, 0x05, 0x63, 0x6f, 0x61, 0x74, 0x73] := by decide +kernel
/-- int_array.golden: `[]int{1, 2, 1337, 98, -100}` — packed zig-zag varints. -/
example : Spec.encode (.vslice (.int 64)) (.slice [.int 1, .int 2, .int 1337, .int 98, .int (-100)])
    = [0x02, 0x04, 0xf2, 0x14, 0xc4, 0x01, 0xc7, 0x01] := by decide +kernel
/-- bool_array.golden: `[]bool{true, false, true}` — packed. -/
example : Spec.encode (.vslice .bool) (.slice [.bool true, .bool false, .bool true]) = [0x01, 0x00, 0x01] := by
  decide +kernel
/-- float_array.golden: `[]float64{1.2, 3.4, 5.6}` — packed fixed64. -/
example : Spec.encode (.fslice .f64)
      (.slice [.f64 0x3ff3333333333333, .f64 0x400b333333333333, .f64 0x4016666666666666])
    = [0x33, 0x33, 0x33, 0x33, 0x33, 0x33, 0xf3, 0x3f, 0x33, 0x33, 0x33, 0x33, 0x33, 0x33, 0x0b, 0x40,
       0x66, 0x66, 0x66, 0x66, 0x66, 0x66, 0x16, 0x40] := by decide +kernel
/-- map.golden: `map[string]int{"Phil": 1337}` — count, then the entry {1: "Phil", 2: 1337} length-prefixed. -/
example : Spec.encode (.map (.str false) (.int 64) false) (.map (some [(.str [0x50, 0x68, 0x69, 0x6c], .int 1337)]))
    = [0x01, 0x09, 0x0a, 0x04, 0x50, 0x68, 0x69, 0x6c, 0x10, 0xf2, 0x14] := by decide +kernel
/-- time.golden: `time.Date(1970, 3, 15, 13, 37, 42, 0, time.UTC)` = 6356262 s, 0 ns
(both fields written, also the zero nanoseconds). -/
example : Spec.encode (.time false) (.time 6356262 0) = [0x08, 0xcc, 0xf4, 0x87, 0x06, 0x10, 0x00] := by
  decide +kernel
/-- struct_array.golden: `[]struct{Name string; Age int}{{"Phil", 1337}, {"Bob", 42}}`. -/
example : Spec.encode (.lslice (.struct "" [(1, "Name", .str false), (2, "Age", .int 64)]))
      (.slice [.struct [.str [0x50, 0x68, 0x69, 0x6c], .int 1337], .struct [.str [0x42, 0x6f, 0x62], .int 42]])
    = [0x02, 0x09, 0x0a, 0x04, 0x50, 0x68, 0x69, 0x6c, 0x10, 0xf2, 0x14,
       0x07, 0x0a, 0x03, 0x42, 0x6f, 0x62, 0x10, 0x54] := by decide +kernel

/-- the struct of struct.golden: Name string `1`, Age int `2,flat`, F32 `3`, F64 `4`, I int `5`,
J []uint32 `6`, K []string `7`, L *int `8` (nil), M *int32 `9`. -/
def goldTy : Ty :=
  .struct "" [(1, "Name", .str false), (2, "Age", .flat 64), (3, "F32", .f32), (4, "F64", .f64),
    (5, "I", .int 64), (6, "J", .vslice (.uint 32)), (7, "K", .lslice (.str false)),
    (8, "L", .ptr (.int 64)), (9, "M", .ptr (.int 32))]

def goldVal : Val :=
  .struct [.str [0x50, 0x68, 0x69, 0x6c], .int 1337, .f32 0x449a522b, .f64 0x40934a456d5cfaad,
    .int (-234332), .slice [.uint 747439, .uint 2223, .uint 3344],
    .slice [.str [0x68, 0x61, 0x74, 0x73], .str [0x63, 0x6f, 0x61, 0x74, 0x73]],
    .ptr none, .ptr (some (.int 1234))]

def goldBytes : Bytes :=
  [0x0a, 0x04, 0x50, 0x68, 0x69, 0x6c, 0x10, 0xb9, 0x0a, 0x1d, 0x2b, 0x52, 0x9a, 0x44,
   0x21, 0xad, 0xfa, 0x5c, 0x6d, 0x45, 0x4a, 0x93, 0x40, 0x28, 0xb7, 0xcd, 0x1c,
   0x32, 0x07, 0xaf, 0xcf, 0x2d, 0xaf, 0x11, 0x90, 0x1a,
   0x3b, 0x02, 0x04, 0x68, 0x61, 0x74, 0x73, 0x05, 0x63, 0x6f, 0x61, 0x74, 0x73, 0x48, 0xa4, 0x13]

/-- struct.golden. -/
example : Spec.encode goldTy goldVal = goldBytes := by decide +kernel

theorem gold_hyps : goldTy.wf ∧ goldTy.hasTy goldVal := by
  refine ⟨?_, ?_⟩
  · simp [goldTy, Ty.wf, fieldsWf, validWidth, Ty.wt, Ty.isMap, Ty.isProtoSlice]
  · simp [goldTy, goldVal, Ty.hasTy, fieldsHaveTy, intRange]

/-- hence (theorem (a)) the model's `Marshal` of that value is the golden file. -/
example : marshal goldTy goldVal = goldBytes := by
  rw [marshal_eq_spec goldTy goldVal gold_hyps.1 gold_hyps.2]; decide +kernel

/-! #### non-vacuity of the decode side -/

/-- a struct with a scalar, a repeated-form slice, a string and a protobuf map. -/
def pFs : Fields :=
  [(1, "A", .int 64), (2, "B", .pslice (.str false)), (3, "C", .str false),
   (4, "D", .map (.str false) (.uint 8) true)]

def pVs : List Val :=
  [.int 3, .slice [.str [1], .str [2]], .str [7], .map (some [(.str [5], .uint 1), (.str [6], .uint 2)])]

/-- its six records A, B₁, B₂, C, D₁, D₂ re-ordered as D₁, B₁, C, D₂, A, B₂: every
field moved, the repeated ones interleaved but each in its own order. -/
def pRecs : List Rec := [4, 1, 3, 5, 0, 2].filterMap ((Spec.fieldsOf pFs pVs)[·]?)

theorem p_hyps : (Ty.struct "P" pFs).wf ∧ Ty.rtShape false (.struct "P" pFs)
    ∧ (Ty.struct "P" pFs).hasTy (.struct pVs)
    ∧ (Spec.render (Spec.fieldsOf pFs pVs)).length < 2 ^ 64
    ∧ pRecs.Perm (Spec.fieldsOf pFs pVs) ∧ SameFieldOrder pRecs (Spec.fieldsOf pFs pVs) := by
  refine ⟨?_, ?_, ?_, by decide +kernel, by decide +kernel, SpecP.sameOrder_of_all _ _ (by decide +kernel)⟩
  · simp [pFs, Ty.wf, fieldsWf, validWidth, Ty.wt, Ty.isMap, Ty.isProtoSlice]
  · simp [pFs, Ty.rtShape, fieldsRtShape, Ty.keySafe]
  · simp [pFs, pVs, Ty.hasTy, fieldsHaveTy, intRange, keysDistinct, Val.beq]

/-- the re-ordered message really is different bytes … -/
example : Spec.render pRecs ≠ Spec.render (Spec.fieldsOf pFs pVs) := by decide +kernel

/-- … and `unmarshal_perm` applies: it decodes to the same value. -/
example : unmarshal (.struct "P" pFs) (Spec.render pRecs) (Ty.struct "P" pFs).zero
    = .ok ((Ty.struct "P" pFs).normPos (.struct pVs)) :=
  (unmarshal_perm "P" pFs pVs pRecs p_hyps.1 p_hyps.2.1 p_hyps.2.2.1 p_hyps.2.2.2.1 p_hyps.2.2.2.2.1
    p_hyps.2.2.2.2.2).2

/-- swapping the two records of the repeated field B is NOT covered (and does
change the decoded slice): the order hypothesis is not redundant. -/
example : ¬ SameFieldOrder ([0, 2, 1, 3, 4, 5].filterMap ((Spec.fieldsOf pFs pVs)[·]?)) (Spec.fieldsOf pFs pVs) := by
  intro h
  exact absurd (h 2) (by decide +kernel)

/-- a struct without repeated-form fields: any permutation (here: reversed). -/
example : unmarshal goldTy (Spec.render (Spec.fieldsOf
      [(1, "Name", .str false), (2, "Age", .flat 64), (3, "F32", .f32), (4, "F64", .f64),
       (5, "I", .int 64), (6, "J", .vslice (.uint 32)), (7, "K", .lslice (.str false)),
       (8, "L", .ptr (.int 64)), (9, "M", .ptr (.int 32))]
      (match goldVal with | .struct vs => vs | _ => [])).reverse) goldTy.zero
    = .ok (goldTy.normPos goldVal) := by
  have hs : Ty.rtShape false goldTy := by simp [goldTy, Ty.rtShape, fieldsRtShape, Ty.isPtr]
  exact (unmarshal_any_perm _ _ _ _ gold_hyps.1 hs gold_hyps.2 (by decide) (by decide +kernel)
    (List.reverse_perm _)).2

end C02
