import Proofs.Wire
/-
  C18 — Varint, zig-zag, tag and skip primitives agree for all 64-bit values.
  Property theorems only; helper lemmas live in Proofs/.
-/
namespace C18

/-- reading what was appended returns the value and the appended length. -/
theorem read_append (v : Nat) (hv : v < 2 ^ 64) (rest : Bytes) :
    readVarUint (appendVarUint v ++ rest) = (v, Int.ofNat (appendVarUint v).length) :=
  _root_.read_append v hv rest

/-- the size function predicts the appended length. -/
theorem size_append (v : Nat) : sizeVarUint v = (appendVarUint v).length := size_eq_len v

/-- Standard protobuf varint: little-endian base-128 value of the 7-bit groups. -/
def groupsValue : Bytes → Nat
  | [] => 0
  | b :: r => b.toNat % 128 + 128 * groupsValue r

/-- continuation bit set on every byte but the last, clear on the last. -/
def wellTerminated : Bytes → Prop
  | [] => False
  | [b] => b.toNat < 128
  | b :: r => 128 ≤ b.toNat ∧ wellTerminated r

/-- the appended bytes are the standard protobuf varint of `v`: 7-bit groups,
least significant first, continuation bits exactly on the non-final bytes, and
minimal length (no trailing zero group). -/
theorem append_canonical (v : Nat) :
    groupsValue (appendVarUint v) = v ∧ wellTerminated (appendVarUint v) ∧
    (∀ k, 0 < k → v < 2 ^ (7 * k) → (appendVarUint v).length ≤ k) ∧
    (∀ k, 2 ^ (7 * k) ≤ v → k < (appendVarUint v).length) := by
  refine ⟨?_, ?_, fun k hk h => len_le_of_lt k v hk h, fun k h => len_gt_of_ge k v h⟩
  · induction v using Nat.strongRecOn with
    | _ v ih =>
      rw [appendVarUint]
      by_cases h : v < 128
      · simp only [h, ↓reduceDIte, groupsValue]
        rw [toUInt8_toNat_lt v (by omega)]; omega
      · simp only [h, ↓reduceDIte, groupsValue]
        rw [toUInt8_toNat_lt _ (by omega), ih (v / 128) (by omega)]; omega
  · induction v using Nat.strongRecOn with
    | _ v ih =>
      rw [appendVarUint]
      by_cases h : v < 128
      · simp only [h, ↓reduceDIte, wellTerminated]
        rw [toUInt8_toNat_lt v (by omega)]; exact h
      · simp only [h, ↓reduceDIte]
        have hne := append_ne_nil (v / 128)
        cases hr : appendVarUint (v / 128) with
        | nil => exact absurd hr hne
        | cons b r =>
          simp only [wellTerminated]
          rw [toUInt8_toNat_lt _ (by omega)]
          refine ⟨by omega, ?_⟩
          rw [← hr]; exact ih (v / 128) (by omega)

/-- zig-zag is a bijection between int64 and uint64. -/
theorem zigzag_bijection :
    (∀ v : Int, -(2 ^ 63 : Int) ≤ v → v < (2 ^ 63 : Int) → zigZag v < 2 ^ 64 ∧ zagZig (zigZag v) = v) ∧
    (∀ u : Nat, u < 2 ^ 64 → (-(2 ^ 63 : Int) ≤ zagZig u ∧ zagZig u < (2 ^ 63 : Int)) ∧ zigZag (zagZig u) = u) :=
  ⟨fun v h1 h2 => ⟨zigZag_lt v h1 h2, zagZig_zigZag v⟩,
   fun u h => ⟨zagZig_range u h, zigZag_zagZig u⟩⟩

/-- magnitudes below 2^(7k-1) take at most k bytes … -/
theorem zigzag_size (v : Int) (k : Nat) (hk : 0 < k)
    (h1 : -(2 ^ (7 * k - 1) : Int) ≤ v) (h2 : v < (2 ^ (7 * k - 1) : Int)) :
    sizeVarInt v ≤ k ∧ (appendVarInt v).length ≤ k := by
  have hb := zigZag_bound v (7 * k) (by omega) h1 h2
  have := len_le_of_lt k (zigZag v) hk hb
  exact ⟨by unfold sizeVarInt; rw [size_eq_len]; exact this, this⟩

/-- … and anything outside that range takes more. -/
theorem zigzag_size_conv (v : Int) (k : Nat) (hk : 0 < k)
    (h : v < -(2 ^ (7 * k - 1) : Int) ∨ (2 ^ (7 * k - 1) : Int) ≤ v) :
    k < (appendVarInt v).length := by
  apply len_gt_of_ge
  have e : (2 : Int) ^ (7 * k) = 2 * 2 ^ (7 * k - 1) := by
    rw [show 7 * k = (7 * k - 1) + 1 by omega, Int.pow_succ]; simp; omega
  have en : ((2 ^ (7 * k) : Nat) : Int) = (2 : Int) ^ (7 * k) := by simp
  unfold zigZag
  split <;> omega

/-- signed varints round-trip for every int64. -/
theorem readint_appendint (v : Int) (h1 : -(2 ^ 63 : Int) ≤ v) (h2 : v < (2 ^ 63 : Int)) (rest : Bytes) :
    readVarInt (appendVarInt v ++ rest) = (v, Int.ofNat (appendVarInt v).length) := by
  unfold readVarInt appendVarInt
  rw [_root_.read_append _ (zigZag_lt v h1 h2)]
  simp [zagZig_zigZag]

/-- tags round-trip for every wire type code and every field index below 2^61
(hence for all indexes up to 2^28). -/
theorem tag_roundtrip (wt : WT) (idx : Nat) (h : idx < 2 ^ 61) (rest : Bytes) :
    readTag (appendTag wt idx ++ rest) = some (wt, idx, (appendTag wt idx).length)
    ∧ sizeTag wt idx = (appendTag wt idx).length :=
  ⟨_root_.tag_roundtrip wt idx h rest, sizeTag_eq_len wt idx⟩

/-- Skip over a well-formed field of each wire type returns exactly its length,
whatever follows it. -/
theorem skip_exact :
    (∀ v rest, v < 2 ^ 64 → skip (appendVarUint v ++ rest) .varint = .ok (appendVarUint v).length) ∧
    (∀ body rest : Bytes, body.length = 8 → skip (body ++ rest) .w64 = .ok 8) ∧
    (∀ body rest : Bytes, body.length = 4 → skip (body ++ rest) .w32 = .ok 4) ∧
    (∀ body rest : Bytes, body.length < 2 ^ 64 →
        skip (appendVarUint body.length ++ body ++ rest) .len
          = .ok ((appendVarUint body.length).length + body.length)) ∧
    (∀ (es : List Bytes) (rest : Bytes), es.length < 2 ^ 64 → (∀ b ∈ es, b.length < 2 ^ 64) →
        skip (appendVarUint es.length ++ entriesBytes es ++ rest) .slice
          = .ok ((appendVarUint es.length).length + (entriesBytes es).length)) :=
  ⟨fun v rest h => skip_varint_exact v h rest, skip_w64_exact, skip_w32_exact,
   skip_len_exact, skip_slice_exact⟩

/-- Skip on arbitrary bytes and any of the eight 3-bit wire type codes: an error
or a length inside the input — never a panic, a hang or an over-run. -/
theorem skip_total (d : Bytes) (wt : WT) :
    (skip d wt).fine ∧ ∀ n, skip d wt = .ok n → n ≤ d.length :=
  _root_.skip_total d wt

/-- a WTVarInt field of ten bytes whose last byte carries more than the one bit
that is left (`ff ff ff ff ff ff ff ff ff 7f`, or any continuation there) is
malformed and Skip says so, as ReadVarUint does (repair e696ad7: Skip used to
return 10 for it, so the field was an error when known and silently skipped
when unknown). -/
theorem skip_rejects_overflowing_varint (p : Bytes) (b : UInt8) (rest : Bytes) (hl : p.length = 9)
    (hp : ∀ x ∈ p, 128 ≤ x.toNat) (h2 : 2 ≤ b.toNat) :
    skip (p ++ b :: rest) .varint = .err :=
  skip_varint_overflow p b rest hl hp h2

example : skip [0xff, 0xff, 0xff, 0xff, 0xff, 0xff, 0xff, 0xff, 0xff, 0x7f, 0x00] .varint = .err := by decide
example : skip [0xff, 0xff, 0xff, 0xff, 0xff, 0xff, 0xff, 0xff, 0xff, 0x01, 0x00] .varint = .ok 10 := by decide

-- non-vacuity: the hypotheses are met by concrete, non-trivial instances
example : readVarUint (appendVarUint 300 ++ [7]) = (300, Int.ofNat (appendVarUint 300).length) :=
  read_append 300 (by omega) [7]
example : skip (appendVarUint 2 ++ entriesBytes [[1, 2], []] ++ [9]) .slice
    = .ok ((appendVarUint 2).length + (entriesBytes [[1, 2], []]).length) :=
  skip_exact.2.2.2.2 [[1, 2], []] [9] (by simp) (by simp)
example : zagZig (zigZag (-3)) = -3 ∧ zigZag (-3) = 5 := by decide
example : (appendVarInt (-64)).length ≤ 1 ∧ 1 < (appendVarInt 64).length :=
  ⟨(zigzag_size (-64) 1 (by omega) (by omega) (by omega)).2, zigzag_size_conv 64 1 (by omega) (by omega)⟩

end C18
