import Proofs.Plenctag
/-
  C20 — "Running plenctag on any parseable Go file changes nothing but struct
  tags: every existing plenc tag and every other tag key is kept as it was, each
  eligible field that lacks a plenc tag gains either "-" (when excluded through
  the sql/json options) or a new index strictly greater than every index already
  present in that struct and different from every other index in it, and
  unexported fields are left alone by default.  The result is gofmt-formatted,
  still compiles, lets plenc build a codec for every tagged struct without tag
  errors, and a second run changes nothing; the tool reports errors rather than
  crashing."

  Property theorems only; the model is Plenc/Plenctag.lean (main.go's `rewrite`
  on the field lists of the file's struct types + fatih/structtag's `Parse`,
  `Get`, `Set`, `String` + `reflect.StructTag.Lookup`), helper lemmas are in
  Proofs/Plenctag.lean.  All theorems are about `rewriteStruct` for ALL flag
  settings (including every `unicode.IsLower` oracle for non-ASCII runes) and
  ALL field lists; `file_ok_iff` lifts them to `rewriteFile`.

  What is NOT covered by the model (left to the differential run): go/parser,
  go/format ("gofmt-formatted, still compiles" — the tool only replaces
  `ast.BasicLit` tag values by `appendTag`'s result and prints with go/format), double-quoted tag literals, and tag values with a backslash escape
  other than `\"` and `\\` (the model answers `unsupported` there).

  History: an earlier version of the tool printed every tag back through
  structtag (`Tags.String`) and incremented `maxPlenc` without a bound.  The
  model of that version exposed four defects, all confirmed on the binary and
  since repaired in main.go (`appendTag`, the `maxFieldIndex` test):
  * F1: a value written `name,` (`json:"a,"`, `json:","`) lost its comma, a
    literal tab became `\t`: now the old tag text is kept byte for byte
    (`existing_kept`, `setTag_text`).
  * F2: with an existing `plenc:"9223372036854775807"` the new indexes wrapped to
    negative numbers; F3: with an existing index 2^29-1 the tool handed out
    2^29, which the builder rejects: now `Err.noIndexLeft` (examples below), and
    `new_indexes_fresh` / `build_accepts_rewritten` need no size hypothesis.
  * F4 (outside the model): a double-quoted tag literal containing a back quote
    was turned into a back-quoted literal containing it: `appendTag` now keeps
    such a literal double-quoted.
-/
namespace C20
open Plenctag

variable {fl : Flags} {fs fs' : List Field}

/-- a successful run: nothing recorded in either loop, and field by field one of
the three `Step`s. -/
theorem ok_steps (h : rewriteStruct fl fs = .ok fs') :
    (∀ f ∈ fs, status1 f = .fine) ∧ Fine2 fl (maxPlenc fs) fs ∧
    fs' = pass2 fl (maxPlenc fs) fs ∧ Pointwise (Step fl (maxPlenc fs)) fs fs' := by
  obtain ⟨hfine, rfl⟩ := rewriteStruct_ok.mp h
  obtain ⟨h1, h2⟩ := structStatus_fine.mp hfine
  exact ⟨h1, h2, rfl, pass2_step fl fs _ (maxPlenc_nonneg fs) h2⟩

/-! ### nothing but tags changes -/

/-- Field count, order, names and embedded type names are unchanged. -/
theorem only_tags_change (h : rewriteStruct fl fs = .ok fs') :
    fs'.length = fs.length ∧
    fs'.map (fun f => (f.names, f.embeddedName)) = fs.map (fun f => (f.names, f.embeddedName)) ∧
    Pointwise (fun f f' => f'.names = f.names ∧ f'.embeddedName = f.embeddedName) fs fs' := by
  obtain ⟨_, _, _, hs⟩ := ok_steps h
  have hp : Pointwise (fun f f' => f'.names = f.names ∧ f'.embeddedName = f.embeddedName) fs fs' := by
    refine Pointwise.imp ?_ hs
    intro f f' st
    cases st with
    | same _ e => subst e; exact ⟨rfl, rfl⟩
    | dash tags _ e => subst e; exact ⟨rfl, rfl⟩
    | num tags v _ e _ _ _ => subst e; exact ⟨rfl, rfl⟩
  refine ⟨hp.length.symm, ?_, hp⟩
  exact (Pointwise.map_eq (fun a b hab => by rw [hab.1, hab.2]) hp).symm

/-! ### existing tags are kept -/

/-- How a field and its rewritten version are related: unchanged, or its tag
literal was extended by `appendTag` with one plenc tag `plenc:"n"`; the old tag
set `tags` had no plenc key, and re-reading the new literal gives exactly `tags`,
in the same order and with the same names and options, followed by the plenc
tag.  What the new text is, byte for byte, is `new_text` below. -/
def Kept (f f' : Field) : Prop :=
  f' = f ∨
  ∃ tags n, extractTags f.rawTag = .ok tags ∧ Tags.get tags "plenc" = none ∧
    f' = setTag f n ∧
    extractTags f'.rawTag = .ok (tags ++ [plencTag n])

theorem existing_kept (h : rewriteStruct fl fs = .ok fs') :
    Pointwise Kept fs fs' ∧
    -- a field that already had a plenc key keeps its tag literal byte for byte
    Pointwise (fun f f' => hasPlenc f = true → f' = f) fs fs' := by
  obtain ⟨_, _, _, hs⟩ := ok_steps h
  constructor
  · refine Pointwise.imp ?_ hs
    intro f f' st
    cases st with
    | same _ e => exact Or.inl e
    | dash tags hc e =>
      subst e
      obtain ⟨_, hts, hg, _, _⟩ := classify_add hc
      exact Or.inr ⟨tags, "-", hts, hg, rfl, extractTags_setTag hts wf_plencTag_dash⟩
    | num tags v hc e _ _ _ =>
      subst e
      obtain ⟨_, hts, hg, _, _⟩ := classify_add hc
      exact Or.inr ⟨tags, itoa v, hts, hg, rfl, extractTags_setTag hts (wf_plencTag_itoa v)⟩
  · refine Pointwise.imp ?_ hs
    intro f f' st hp
    cases st with
    | same _ e => exact e
    | dash tags hc e =>
      obtain ⟨_, hts, hg, _, _⟩ := classify_add hc
      unfold hasPlenc at hp; rw [hts] at hp; simp [hg] at hp
    | num tags v hc e _ _ _ =>
      obtain ⟨_, hts, hg, _, _⟩ := classify_add hc
      unfold hasPlenc at hp; rw [hts] at hp; simp [hg] at hp

/-- The text of an extended literal: names untouched; the new literal is
`plenc:"n"` alone when there was no literal or a blank one, otherwise the old
text minus its trailing spaces, one space, `plenc:"n"` — the old text is a
prefix up to trailing spaces. -/
theorem new_text (f : Field) (n : String) :
    (setTag f n).names = f.names ∧ (setTag f n).embeddedName = f.embeddedName ∧
    ∃ new, (setTag f n).rawTag = some new ∧
      (((f.rawTag = none ∨
          ∃ old, f.rawTag = some old ∧ (trimRightSpaces old.toList).all goIsSpace = true) ∧
          new = Tags.render [plencTag n]) ∨
       (∃ old sp, f.rawTag = some old ∧ old.toList = trimRightSpaces old.toList ++ sp ∧ AllSpace sp ∧
          new.toList = trimRightSpaces old.toList ++ ' ' :: (Tags.render [plencTag n]).toList)) :=
  setTag_text f n

/-- `plenc:"n"` is printed as key, colon, quoted name. -/
theorem plenc_text (n : String) :
    (Tags.render [plencTag n]).toList =
      "plenc".toList ++ ':' :: '"' :: (quoteChars n.toList ++ ['"']) := render_plencTag n

/-- Looking up any other key in the new tag gives the tag that was there before
(first occurrence, as `Tags.Get` and `reflect` do), unchanged. -/
theorem existing_kept_lookup {tags : Tags} {n : String} {k : String} (hk : k ≠ "plenc") :
    Tags.get (tags ++ [plencTag n]) k = Tags.get tags k := by
  rw [Tags.get_append_single]
  have : ¬ (plencTag n).key = k := fun e => hk e.symm
  simp [this]

/-! ### new indexes -/

/-- Every index that existed is at most `maxPlenc`, and the indexes handed out
are `maxPlenc+1, maxPlenc+2, …` in field order (all at most `maxFieldIndex`,
see `new_indexes_in_range`). -/
theorem new_indexes_fresh (h : rewriteStruct fl fs = .ok fs') :
    (∀ f ∈ fs, ∀ w, plencIndex f = some w → w ≤ maxPlenc fs) ∧
    ∃ k, k ≤ fs.length ∧ assigned fs fs' = countUp (maxPlenc fs) k := by
  obtain ⟨_, h2, rfl, _⟩ := ok_steps h
  refine ⟨fun f hf w hw => le_maxPlenc hf hw, ?_⟩
  exact pass2_assigned fl fs _ (maxPlenc_nonneg fs) h2

/-- … hence each new index is greater than every existing one, and the new ones
are pairwise different. -/
theorem new_indexes_gt_and_distinct (h : rewriteStruct fl fs = .ok fs') :
    (∀ v ∈ assigned fs fs', ∀ f ∈ fs, ∀ w, plencIndex f = some w → w < v) ∧
    (assigned fs fs').Pairwise (· ≠ ·) := by
  obtain ⟨h1, k, _, hk⟩ := new_indexes_fresh h
  rw [hk]
  constructor
  · intro v hv f hf w hw
    have := h1 f hf w hw
    have := countUp_gt _ _ _ hv
    omega
  · exact (countUp_pairwise k _).imp (fun hlt => by omega)

/-- … and if the existing indexes were pairwise different, so are all indexes of
the rewritten struct. -/
theorem all_indexes_distinct (h : rewriteStruct fl fs = .ok fs')
    (hpre : (idxs fs).Pairwise (· ≠ ·)) : (idxs fs').Pairwise (· ≠ ·) := by
  obtain ⟨_, h2, rfl, _⟩ := ok_steps h
  exact (pass2_idxs_distinct fl fs _ (maxPlenc_nonneg fs) h2
    (fun f hf w hw => le_maxPlenc hf hw) hpre).1

/-- every number the tool writes is in `1 … maxFieldIndex` (= 2^29-1). -/
theorem new_indexes_in_range (h : rewriteStruct fl fs = .ok fs') :
    Pointwise (fun f f' => f' = f ∨ f' = setTag f "-" ∨
      ∃ v, f' = setTag f (itoa v) ∧ maxPlenc fs < v ∧ v ≤ maxFieldIndex) fs fs' := by
  obtain ⟨_, _, _, hs⟩ := ok_steps h
  refine Pointwise.imp ?_ hs
  intro f f' st
  cases st with
  | same _ e => exact Or.inl e
  | dash tags _ e => exact Or.inr (Or.inl e)
  | num tags v _ e _ hlo hhi => exact Or.inr (Or.inr ⟨v, e, hlo, hhi⟩)

/-- former F2 and F3: no index is left — an error, nothing is written. -/
example :
    rewriteStructX { json := false, sql := true, priv := true }
      [⟨["A"], "", some "plenc:\"9223372036854775807\""⟩, ⟨["B"], "", none⟩] =
    .err .noIndexLeft := by decide +kernel
example :
    rewriteStructX { json := false, sql := true, priv := true }
      [⟨["A"], "", some "plenc:\"536870911\""⟩, ⟨["B"], "", none⟩] =
    .err .noIndexLeft := by decide +kernel
example :
    rewriteStructX { json := false, sql := true, priv := true }
      [⟨["A"], "", some "plenc:\"536870910\""⟩, ⟨["B"], "", none⟩] =
    .ok [⟨["A"], "", some "plenc:\"536870910\""⟩, ⟨["B"], "", some "plenc:\"536870911\""⟩] := by
  decide +kernel

/-! ### exclusions and unexported fields -/

/-- An eligible field — not skipped as private, one name or embedded, readable
tag without plenc key — that carries `sql:"-"` under `-sql`, or `json:"-"` under
`-json`, gets `plenc:"-"` appended; every other eligible field gets a number
(or the run fails with `noIndexLeft`). -/
theorem excluded_get_dash (h : rewriteStruct fl fs = .ok fs') :
    Pointwise (fun f f' =>
      ∀ name tags, Plenctag.fieldName f = .ok name → (fl.priv && lowerFirst fl name) = false →
        f.names.length ≤ 1 → extractTags f.rawTag = .ok tags → Tags.get tags "plenc" = none →
        ((fl.sql = true ∧ ∃ t, Tags.get tags "sql" = some t ∧ t.name = "-") ∨
         (fl.json = true ∧ ∃ t, Tags.get tags "json" = some t ∧ t.name = "-") →
           f' = setTag f "-") ∧
        (isExcluded fl tags = false → ∃ v, f' = setTag f (itoa v))) fs fs' := by
  obtain ⟨_, _, _, hs⟩ := ok_steps h
  refine Pointwise.imp ?_ hs
  intro f f' st name tags hn hp hl hts hg
  have hc := classify_eligible hn hp hl hts hg
  constructor
  · intro hex
    have hx : isExcluded fl tags = true := by
      unfold isExcluded
      rcases hex with ⟨hf, t, ht, hd⟩ | ⟨hf, t, ht, hd⟩
      · simp [hf, ht, hd]
      · simp [hf, ht, hd]
    rw [hx] at hc
    cases st with
    | same hno _ => exact absurd hc (hno _ _)
    | dash tags' hc' e => exact e
    | num tags' v hc' e _ _ _ => rw [hc] at hc'; injection hc' with _ e2; simp at e2
  · intro hx
    rw [hx] at hc
    cases st with
    | same hno _ => exact absurd hc (hno _ _)
    | dash tags' hc' e => rw [hc] at hc'; injection hc' with _ e2; simp at e2
    | num tags' v hc' e _ _ _ => exact ⟨v, e⟩

/-- With `-private` (the default) a field whose name — the first declared name,
or the embedded type's name — starts with a lower-case rune is returned as it is. -/
theorem unexported_untouched (h : rewriteStruct fl fs = .ok fs') (hpriv : fl.priv = true) :
    Pointwise (fun f f' =>
      (∃ name, Plenctag.fieldName f = .ok name ∧ lowerFirst fl name = true) → f' = f) fs fs' := by
  obtain ⟨_, _, _, hs⟩ := ok_steps h
  refine Pointwise.imp ?_ hs
  intro f f' st ⟨name, hn, hlow⟩
  have hc := classify_private hn hpriv hlow
  cases st with
  | same _ e => exact e
  | dash tags hc' _ => rw [hc] at hc'; simp at hc'
  | num tags v hc' _ _ _ _ => rw [hc] at hc'; simp at hc'

/-- what `fieldName` is: the embedded name, the single name, and for `X, Y T`
the rune tested is the first rune of `X`. -/
theorem unexported_names (f : Field) :
    (f.names = [] → Plenctag.fieldName f = .ok f.embeddedName) ∧
    (∀ n, f.names = [n] → Plenctag.fieldName f = .ok n) ∧
    (∀ n rest, f.names = n :: rest → n ≠ "" →
      ∃ name, Plenctag.fieldName f = .ok name ∧ lowerFirst fl name = lowerFirst fl n) :=
  ⟨fieldName_embedded f, fieldName_single f, fun n rest hn hne => lowerFirst_fieldName fl f n rest hn hne⟩

/-- ASCII is decided by the model, the rest by the oracle in `Flags`. -/
theorem lowerFirst_ascii (c : Char) (r : List Char) (hc : c.toNat < 128) :
    lowerFirst fl (String.ofList (c :: r)) = !c.isUpper := by
  unfold lowerFirst
  simp [String.toList_ofList, hc]

/-! ### a second run changes nothing -/

theorem idempotent (h : rewriteStruct fl fs = .ok fs') : rewriteStruct fl fs' = .ok fs' := by
  obtain ⟨h1, h2, _, hs⟩ := ok_steps h
  have hcl := fine2_classify fs _ h2
  have hnext : ∀ f' ∈ fs', classify fl f' = .skip ∧ status1 f' = .fine := by
    intro f' hf'
    obtain ⟨f, hf, st⟩ := hs.exists_left f' hf'
    exact step_next st (h1 f hf) (hcl f hf)
  apply rewriteStruct_ok.mpr
  constructor
  · apply structStatus_fine.mpr
    exact ⟨fun f' hf' => (hnext f' hf').2, fine2_all_skip _ (fun f' hf' => (hnext f' hf').1) _⟩
  · exact (pass2_all_skip fl _ (fun f' hf' => (hnext f' hf').1) _).symm

/-! ### errors, never crashes -/

/-- No input makes the model panic (`names[0]`, `res[0]`, a nil `*Tags`) or loop. -/
theorem total (fl : Flags) (fs : List Field) :
    (rewriteStruct fl fs).fine ∧
    rewriteStructX fl fs ≠ .panic ∧ rewriteStructX fl fs ≠ .hang := by
  have hc := structStatus_no_crash fl fs
  have hx : rewriteStructX fl fs ≠ .panic ∧ rewriteStructX fl fs ≠ .hang := by
    unfold rewriteStructX
    cases hst : structStatus fl fs with
    | crash => exact absurd hst hc.1
    | hang => exact absurd hst hc.2
    | _ => simp [Status.toOut]
  refine ⟨?_, hx⟩
  unfold rewriteStruct
  cases hr : rewriteStructX fl fs with
  | panic => exact absurd hr hx.1
  | hang => exact absurd hr hx.2
  | _ => simp [Out.toRes, Res.fine]

/-- the same for the tag parser alone and for `f.Names[0]` in `fieldName`. -/
theorem total_parse (s : String) (f : Field) :
    (parseTags s).fine ∧ parseTagsX s ≠ .panic ∧ parseTagsX s ≠ .hang ∧
    ∃ name, Plenctag.fieldName f = .ok name := by
  have hc := extractTags_no_crash (some s)
  refine ⟨?_, hc.2, hc.1, fieldName_ok f⟩
  unfold parseTags parseTagsX
  cases hr : extractTags (some s) with
  | panic => exact absurd hr hc.2
  | hang => exact absurd hr hc.1
  | _ => simp [Out.toRes, Res.fine]

/-! ### whole files -/

theorem foldl_merge_map_fine (ss : List (List Field)) :
    (ss.map (structStatus fl)).foldl Status.merge .fine = .fine ↔ ∀ s ∈ ss, structStatus fl s = .fine := by
  rw [foldl_merge_fine]
  simp only [true_and, List.mem_map]
  constructor
  · intro h s hs; exact h _ ⟨s, hs, rfl⟩
  · rintro h _ ⟨s, hs, rfl⟩; exact h s hs

/-- A file is rewritten iff every struct type in it is, struct by struct (errors
anywhere in the file stop everything). -/
theorem file_ok_iff (ss ss' : List (List Field)) :
    rewriteFile fl ss = .ok ss' ↔ Pointwise (fun s s' => rewriteStruct fl s = .ok s') ss ss' := by
  have hX : rewriteFile fl ss = .ok ss' ↔
      (∀ s ∈ ss, structStatus fl s = .fine) ∧ ss' = ss.map (fun s => pass2 fl (maxPlenc s) s) := by
    unfold rewriteFile rewriteFileX
    rw [← foldl_merge_map_fine]
    cases (ss.map (structStatus fl)).foldl Status.merge .fine <;>
      simp [Status.toOut, Out.toRes, eq_comm]
  rw [hX]
  constructor
  · rintro ⟨hf, rfl⟩
    have := Pointwise.map_right (fun s => pass2 fl (maxPlenc s) s) ss
    refine Pointwise.imp_mem ?_ this
    intro s s' hs e
    exact rewriteStruct_ok.mpr ⟨hf s hs, e⟩
  · intro hp
    constructor
    · intro s hs
      have : Pointwise (fun s (_ : List Field) => structStatus fl s = .fine) ss ss' :=
        Pointwise.imp (fun s s' h => (rewriteStruct_ok.mp h).1) hp
      clear hp hX
      induction ss generalizing ss' with
      | nil => simp at hs
      | cons a r ih =>
        cases ss' with
        | nil => exact this.elim
        | cons b r' =>
          simp only [List.mem_cons] at hs
          rcases hs with rfl | hs
          · exact this.1
          · exact ih r' hs this.2
    · exact Pointwise.eq_map (Pointwise.imp (fun s s' h => (rewriteStruct_ok.mp h).2) hp)

theorem file_total (ss : List (List Field)) : (rewriteFile fl ss).fine := by
  have hc : ∀ (l : List (List Field)) a, a ≠ .crash → a ≠ .hang →
      (l.map (structStatus fl)).foldl Status.merge a ≠ .crash ∧
      (l.map (structStatus fl)).foldl Status.merge a ≠ .hang := by
    intro l a h1 h2
    apply foldl_merge_no_crash _ _ h1 h2
    intro s hs
    simp only [List.mem_map] at hs
    obtain ⟨x, _, rfl⟩ := hs
    exact structStatus_no_crash fl x
  have := hc ss .fine (by simp) (by simp)
  unfold rewriteFile rewriteFileX
  cases hst : (ss.map (structStatus fl)).foldl Status.merge .fine with
  | crash => exact absurd hst this.1
  | hang => exact absurd hst this.2
  | _ => simp [Status.toOut, Out.toRes, Res.fine]

/-! ### the plenc builder accepts the result

  plenc reads a field's tag with `reflect.StructTag.Get("plenc")`.  `reflectGet`
  models `Lookup` with the scanner it shares with structtag; that both agree on
  every tag structtag accepts is `reflectLookup_agrees` (a theorem about the two
  models — that the two Go scanners are the same code is read off the sources).

  The user's own tags are the user's: a pre-existing `plenc:"-,x"` (the tool
  reads it as "excluded", the builder as an unparsable index), a negative or
  too large pre-existing index, and pre-existing duplicates are not repaired or
  reported by the tool; `UserTagsOK` and `hpre` exclude them.  A pre-existing
  plenc tag whose name is not a number IS reported by the tool (first pass), so
  it needs no hypothesis.  A declaration `X, Y T` with a plenc tag is accepted by
  the tool but gives X and Y the same index in the builder (the user's again):
  `hsingle`.
-/

/-- `sf.Tag.Get("plenc")` / `sf.Tag.Get("json")` on the rewritten field -/
def ptagOf (f : Field) : String :=
  match f.rawTag with
  | some raw => reflectGet raw "plenc"
  | none => ""

def jsonOf (f : Field) : String :=
  match f.rawTag with
  | some raw => reflectGet raw "json"
  | none => ""

def goNameOf (f : Field) : String :=
  match f.names with
  | [] => f.embeddedName
  | n :: _ => n

/-- the builder's input for a field (`exported` and the type come from the Go
type checker, they are parameters here). -/
def toDef (exported : Field → Bool) (ty : Field → TyDef) (f : Field) :
    String × Bool × String × String × TyDef :=
  (goNameOf f, exported f, ptagOf f, jsonOf f, ty f)

/-- the checks of `BuildStructCodec` on an exported field's tag: present, and
`-` or a decimal index in `0 … 2^29-1` before the first comma. -/
def TagAccepted (ptag : String) : Prop :=
  ptag ≠ "" ∧
  (ptag = "-" ∨ ∃ idx, atoi (splitComma ptag).1 = some idx ∧ 0 ≤ idx ∧ idx ≤ 536870911)

/-- the index the builder gives the field -/
def idxOf (ptag : String) : Option Nat :=
  if ptag = "-" then none else (atoi (splitComma ptag).1).map Int.toNat

def defIdxs : FieldDefs → List Nat
  | [] => []
  | (_, exported, ptag, _, _) :: r =>
    if exported then
      match idxOf ptag with
      | some i => i :: defIdxs r
      | none => defIdxs r
    else defIdxs r

/-- the sub-tag handed to the field type's codec lookup -/
def subTagOf (ptag : String) : String :=
  if (splitComma ptag).2 == some "intern" then "" else (splitComma ptag).2.getD ""

/-- what is assumed of plenc tags the user wrote -/
def UserTagsOK (fs : List Field) : Prop :=
  ∀ f ∈ fs, ∀ ts t, extractTags f.rawTag = .ok ts → Tags.get ts "plenc" = some t →
    (t.name = "-" → t.options = []) ∧ (∀ v, atoi t.name = some v → 0 ≤ v ∧ v ≤ 536870911)

/-- the plenc tag of a rewritten, non-private, single-name field -/
theorem field_tag_after {lo : Int} {f f' : Field} (st : Step fl lo f f')
    (h1 : status1 f = .fine) (h2 : (classify fl f).status = .fine)
    (hnp : ∀ name, Plenctag.fieldName f = .ok name → (fl.priv && lowerFirst fl name) = false)
    (hu : ∀ ts t, extractTags f.rawTag = .ok ts → Tags.get ts "plenc" = some t →
      (t.name = "-" → t.options = []) ∧ (∀ v, atoi t.name = some v → 0 ≤ v ∧ v ≤ 536870911))
    (hlo : 0 ≤ lo) :
    ∃ t, ptagOf f' = t.rawValue ∧ WFTag t ∧
      plencIndex f' = (if t.name = "-" then none else atoi t.name) ∧
      ((t.name = "-" ∧ t.options = []) ∨
       (t.name ≠ "-" ∧ ∃ v, atoi t.name = some v ∧ 0 ≤ v ∧ v ≤ 536870911)) := by
  -- common part: from "the tag is readable and has the plenc tag `t`"
  have key : ∀ (g : Field) (ts : Tags) (t : Tag), extractTags g.rawTag = .ok ts →
      Tags.get ts "plenc" = some t →
      ptagOf g = t.rawValue ∧ plencIndex g = (if t.name = "-" then none else atoi t.name) := by
    intro g ts t hts hg
    constructor
    · unfold ptagOf
      cases hr : g.rawTag with
      | none => rw [hr] at hts; simp [extractTags] at hts; subst hts; simp [Tags.get] at hg
      | some raw =>
        rw [hr] at hts
        simp only [reflectGet, reflectLookup_agrees "plenc" hts, hg, Option.map_some, Option.getD_some]
    · unfold plencIndex
      simp only [hts, hg]
  cases st with
  | same hno e =>
    rw [e]
    rcases classify_fine h2 with hc | ⟨tags, ex, hc⟩
    · rcases classify_skip hc with ⟨name, hn, hp, hlow⟩ | hp
      · have := hnp name hn; simp [hp, hlow] at this
      · unfold hasPlenc at hp
        cases hts : extractTags f.rawTag with
        | ok ts =>
          rw [hts] at hp
          simp only at hp
          cases hg : Tags.get ts "plenc" with
          | none => rw [hg] at hp; simp at hp
          | some t =>
            have hwt : WFTag t := extractTags_wf hts t (Tags.get_key hg).2
            obtain ⟨k1, k2⟩ := key f ts t hts hg
            refine ⟨t, k1, hwt, k2, ?_⟩
            by_cases hd : t.name = "-"
            · exact Or.inl ⟨hd, (hu ts t hts hg).1 hd⟩
            · right
              refine ⟨hd, ?_⟩
              -- the first pass has read the index
              cases hr : f.rawTag with
              | none => rw [hr] at hts; simp [extractTags] at hts; subst hts; simp [Tags.get] at hg
              | some raw =>
                rw [status1_some hr] at h1
                rw [hr] at hts
                unfold plencValue at h1
                simp only [hts, hg, hd, ↓reduceIte] at h1
                cases ha : atoi t.name with
                | none => rw [ha] at h1; simp [Out.status] at h1
                | some v => exact ⟨v, rfl, (hu ts t (hr ▸ hts) hg).2 v ha⟩
        | _ => rw [hts] at hp; simp at hp
    · exact absurd hc (hno tags ex)
  | dash tags hc e =>
    subst e
    obtain ⟨_, hts, hg, _, _⟩ := classify_add hc
    have hx := extractTags_setTag hts wf_plencTag_dash
    obtain ⟨k1, k2⟩ := key _ _ _ hx (get_plenc_after hg)
    exact ⟨plencTag "-", k1, wf_plencTag_dash, k2, Or.inl ⟨rfl, rfl⟩⟩
  | num tags v hc e hv hlov hhiv =>
    subst e
    obtain ⟨_, hts, hg, _, _⟩ := classify_add hc
    have hx := extractTags_setTag hts (wf_plencTag_itoa v)
    obtain ⟨k1, k2⟩ := key _ _ _ hx (get_plenc_after hg)
    refine ⟨plencTag (itoa v), k1, wf_plencTag_itoa v, k2, Or.inr ⟨itoa_ne_dash v, v, atoi_itoa hv, ?_, ?_⟩⟩
    · omega
    · exact hhiv

theorem tagAccepted_of_tag {t : Tag} (hw : WFTag t)
    (h : (t.name = "-" ∧ t.options = []) ∨
       (t.name ≠ "-" ∧ ∃ v, atoi t.name = some v ∧ 0 ≤ v ∧ v ≤ 536870911)) :
    TagAccepted t.rawValue ∧
    ∀ i, idxOf t.rawValue = some i → (if t.name = "-" then none else atoi t.name) = some (i : Int) := by
  rcases h with ⟨hd, ho⟩ | ⟨hd, v, hv, h0, hmax⟩
  · have : t.rawValue = "-" := by rw [rawValue_of_no_options ho, hd]
    rw [this]
    refine ⟨⟨by decide, Or.inl rfl⟩, ?_⟩
    intro i hi; simp [idxOf] at hi
  · have hne : t.name ≠ "" := by intro e; rw [e, atoi_empty] at hv; simp at hv
    refine ⟨⟨rawValue_ne_empty_of_name hw hne, Or.inr ⟨v, ?_, h0, hmax⟩⟩, ?_⟩
    · rw [splitComma_rawValue hw, hv]
    · intro i hi
      unfold idxOf at hi
      rw [if_neg (rawValue_ne_dash_of_name hw hd), splitComma_rawValue hw, hv] at hi
      simp only [Option.map_some, Option.some.injEq] at hi
      simp only [hd, ↓reduceIte, hv, Option.some.injEq]
      omega

/-- After a successful rewrite the tag of every exported single-name (or
embedded) field, read the way plenc reads it, passes the builder's checks —
not missing, `-` or a parsable index in range — and the indexes of the struct's
exported fields are pairwise different provided the pre-existing ones were. -/
theorem build_accepts_rewritten_tags (exported : Field → Bool) (ty : Field → TyDef)
    (h : rewriteStruct fl fs = .ok fs')
    -- not needed by the proof; it is what makes `toDef` (one builder field per
    -- declaration) the right reading of the struct
    (_hsingle : ∀ f ∈ fs, f.names.length ≤ 1)
    (hexp : ∀ f' ∈ fs', exported f' = true →
      ∀ name, Plenctag.fieldName f' = .ok name → (fl.priv && lowerFirst fl name) = false)
    (huser : UserTagsOK fs)
    (hpre : (idxs fs).Pairwise (· ≠ ·)) :
    (∀ d ∈ fs'.map (toDef exported ty), d.2.1 = true → TagAccepted d.2.2.1) ∧
    (defIdxs (fs'.map (toDef exported ty))).Pairwise (· ≠ ·) := by
  obtain ⟨h1, hf2, rfl, hs⟩ := ok_steps h
  have h2 := fine2_classify fs _ hf2
  -- per field
  have hfield : ∀ f' ∈ pass2 fl (maxPlenc fs) fs, exported f' = true →
      ∃ t, ptagOf f' = t.rawValue ∧ WFTag t ∧
        plencIndex f' = (if t.name = "-" then none else atoi t.name) ∧
        ((t.name = "-" ∧ t.options = []) ∨
         (t.name ≠ "-" ∧ ∃ v, atoi t.name = some v ∧ 0 ≤ v ∧ v ≤ 536870911)) := by
    intro f' hf' he
    obtain ⟨f, hf, st⟩ := hs.exists_left f' hf'
    have hnm : Plenctag.fieldName f' = Plenctag.fieldName f := by
      have : f'.names = f.names ∧ f'.embeddedName = f.embeddedName := by
        cases st with
        | same _ e => subst e; exact ⟨rfl, rfl⟩
        | dash tags _ e => subst e; exact ⟨rfl, rfl⟩
        | num tags v _ e _ _ _ => subst e; exact ⟨rfl, rfl⟩
      unfold Plenctag.fieldName; rw [this.1, this.2]
    exact field_tag_after st (h1 f hf) (h2 f hf)
      (fun name hn => hexp f' hf' he name (hnm ▸ hn)) (huser f hf) (maxPlenc_nonneg fs)
  constructor
  · intro d hd he
    simp only [List.mem_map] at hd
    obtain ⟨f', hf', rfl⟩ := hd
    obtain ⟨t, hp, hw, _, hcase⟩ := hfield f' hf' he
    show TagAccepted (ptagOf f')
    rw [hp]
    exact (tagAccepted_of_tag hw hcase).1
  · -- the builder's indexes are the plenc indexes of the exported fields
    have hdist := (pass2_idxs_distinct fl fs _ (maxPlenc_nonneg fs) hf2
      (fun f hf w hw => le_maxPlenc hf hw) hpre).1
    have hlist : ∀ (l : List Field), defIdxs (l.map (toDef exported ty)) =
        l.filterMap (fun f => if exported f then idxOf (ptagOf f) else none) := by
      intro l
      induction l with
      | nil => rfl
      | cons a r ih =>
        simp only [List.map_cons, toDef, defIdxs, List.filterMap_cons]
        cases he : exported a with
        | false => simpa [he] using ih
        | true =>
          simp only [↓reduceIte]
          cases hi : idxOf (ptagOf a) with
          | none => simpa using ih
          | some i => simpa using ih
    rw [hlist]
    refine pairwise_filterMap_of_lift _ plencIndex _ ?_ hdist
    intro f' hf' i hi
    cases he : exported f' with
    | false => simp [he] at hi
    | true =>
      simp only [he, ↓reduceIte] at hi
      obtain ⟨t, hp, hw, hidx, hcase⟩ := hfield f' hf' he
      rw [hp] at hi
      rw [hidx]
      exact (tagAccepted_of_tag hw hcase).2 i hi

/-! #### … and therefore `buildFields` raises no tag error -/

theorem hasDup_false {l : List Nat} (h : l.Pairwise (· ≠ ·)) : hasDup l = false := by
  induction l with
  | nil => rfl
  | cons a r ih =>
    have hp := List.pairwise_cons.mp h
    unfold hasDup
    rw [ih hp.2, Bool.or_false]
    rw [List.contains_eq_mem]
    simp only [decide_eq_false_iff_not]
    intro hm
    exact hp.1 a hm rfl

/-- About the builder model alone: when every exported field's tag passes the
checks and every field type has a codec for its sub-tag, `buildFields` succeeds
and the fields carry exactly the indexes `defIdxs`. -/
theorem buildFields_of_accepted (cfg : Cfg) : ∀ (defs : FieldDefs),
    (∀ d ∈ defs, d.2.1 = true → TagAccepted d.2.2.1) →
    (∀ d ∈ defs, d.2.1 = true → d.2.2.1 ≠ "-" → ∃ c, build cfg d.2.2.2.2 (subTagOf d.2.2.1) = .ok c) →
    ∃ cfs, buildFields cfg defs = .ok cfs ∧ cfs.map (·.1) = defIdxs defs := by
  intro defs
  induction defs with
  | nil => intro _ _; exact ⟨[], by unfold buildFields; rfl, rfl⟩
  | cons d r ih =>
    intro hacc hty
    obtain ⟨cfs, hcfs, hidx⟩ := ih (fun x hx => hacc x (by simp [hx])) (fun x hx => hty x (by simp [hx]))
    obtain ⟨goName, exported, ptag, json, t⟩ := d
    unfold buildFields
    cases exported with
    | false => exact ⟨cfs, by simpa using hcfs, by simpa [defIdxs] using hidx⟩
    | true =>
      have ha := hacc (goName, true, ptag, json, t) (by simp) rfl
      have hne : (ptag == "") = false := by simpa using ha.1
      simp only [Bool.not_true, Bool.false_eq_true, ↓reduceIte, hne]
      by_cases hd : ptag = "-"
      · subst hd
        exact ⟨cfs, by simpa using hcfs, by simpa [defIdxs, idxOf] using hidx⟩
      · have hd' : (ptag == "-") = false := by simpa using hd
        simp only [hd', Bool.false_eq_true, ↓reduceIte]
        rcases ha.2 with hdash | ⟨idx, hidxv, h0, hmx⟩
        · exact absurd hdash hd
        · obtain ⟨c, hc⟩ := hty (goName, true, ptag, json, t) (by simp) rfl hd
          simp only [subTagOf] at hc
          cases hsc : splitComma ptag with
          | mk idxS pfx =>
            rw [hsc] at hidxv hc
            simp only at hidxv hc ⊢
            rw [hidxv]
            have hrange : ¬ (idx < 0 ∨ idx > 536870911) := by omega
            simp only [hrange, ↓reduceIte, hc, hcfs]
            refine ⟨_, rfl, ?_⟩
            simp only [List.map_cons, defIdxs, ↓reduceIte, idxOf, hd, hsc, hidxv, Option.map_some, hidx]

/-- C20's builder clause: for a rewritten struct without multi-name declarations
whose own tags are sane (`UserTagsOK`, `hpre`) and whose field types have codecs, `buildFields` returns fields — none of "no
plenc tag", "could not parse plenc tag", "negative plenc index", "index too
large" — and the duplicate-index check of `build` (`hasDup`) passes. -/
theorem build_accepts_rewritten (cfg : Cfg) (exported : Field → Bool) (ty : Field → TyDef)
    (h : rewriteStruct fl fs = .ok fs')
    (hsingle : ∀ f ∈ fs, f.names.length ≤ 1)
    (hexp : ∀ f' ∈ fs', exported f' = true →
      ∀ name, Plenctag.fieldName f' = .ok name → (fl.priv && lowerFirst fl name) = false)
    (huser : UserTagsOK fs)
    (hpre : (idxs fs).Pairwise (· ≠ ·))
    (htypes : ∀ d ∈ fs'.map (toDef exported ty), d.2.1 = true → d.2.2.1 ≠ "-" →
      ∃ c, build cfg d.2.2.2.2 (subTagOf d.2.2.1) = .ok c) :
    ∃ cfs, buildFields cfg (fs'.map (toDef exported ty)) = .ok cfs ∧
      hasDup (cfs.map (·.1)) = false := by
  obtain ⟨hacc, hdist⟩ := build_accepts_rewritten_tags exported ty h hsingle hexp huser hpre
  obtain ⟨cfs, hb, hi⟩ := buildFields_of_accepted cfg _ hacc htypes
  exact ⟨cfs, hb, by rw [hi]; exact hasDup_false hdist⟩

/-! ### non-vacuity -/

/-- the default flags: `-sql=true -json=false -private=true` -/
def dflt : Flags := { json := false, sql := true, priv := true }
def withJson : Flags := { json := true, sql := true, priv := true }
def noPriv : Flags := { json := false, sql := false, priv := false }

/-- all fields already tagged: nothing changes -/
example :
    rewriteStruct dflt
      [⟨["A"], "", some "json:\"a\" plenc:\"1\""⟩, ⟨["B"], "", some "plenc:\"2,intern\""⟩] =
    .ok [⟨["A"], "", some "json:\"a\" plenc:\"1\""⟩, ⟨["B"], "", some "plenc:\"2,intern\""⟩] := by
  decide +kernel

/-- partially tagged, with an embedded field, a `json:"-"` field, an `sql:"-"`
field and an unexported field -/
example :
    rewriteStruct withJson
      [⟨["A"], "", some "json:\"a,omitempty\""⟩,
       ⟨["B"], "", some "plenc:\"7\""⟩,
       ⟨[], "Base", none⟩,
       ⟨["G"], "", some "json:\"-\""⟩,
       ⟨["H"], "", some "sql:\"-\"   json:\"h\""⟩,
       ⟨["hidden"], "", none⟩,
       ⟨["C"], "", some ""⟩] =
    .ok
      [⟨["A"], "", some "json:\"a,omitempty\" plenc:\"8\""⟩,
       ⟨["B"], "", some "plenc:\"7\""⟩,
       ⟨[], "Base", some "plenc:\"9\""⟩,
       ⟨["G"], "", some "json:\"-\" plenc:\"-\""⟩,
       ⟨["H"], "", some "sql:\"-\"   json:\"h\" plenc:\"-\""⟩,
       ⟨["hidden"], "", none⟩,
       ⟨["C"], "", some "plenc:\"10\""⟩] := by
  decide +kernel

/-- without `-json`, `json:"-"` is not an exclusion -/
example :
    rewriteStruct dflt [⟨["G"], "", some "json:\"-\""⟩] =
    .ok [⟨["G"], "", some "json:\"-\" plenc:\"1\""⟩] := by decide +kernel

/-- no tags at all; an embedded lower-case type is private, with `-private=false`
it is tagged -/
example :
    rewriteStruct dflt [⟨["A"], "", none⟩, ⟨[], "inner", none⟩, ⟨["B"], "", none⟩] =
    .ok [⟨["A"], "", some "plenc:\"1\""⟩, ⟨[], "inner", none⟩, ⟨["B"], "", some "plenc:\"2\""⟩] := by
  decide +kernel

example :
    rewriteStruct noPriv [⟨["A"], "", none⟩, ⟨[], "inner", none⟩, ⟨["b"], "", none⟩] =
    .ok [⟨["A"], "", some "plenc:\"1\""⟩, ⟨[], "inner", some "plenc:\"2\""⟩,
         ⟨["b"], "", some "plenc:\"3\""⟩] := by
  decide +kernel

/-- errors: `X, Y int` without a plenc tag, a malformed tag, an unparsable index;
`X, Y int` with a plenc tag is accepted -/
example : rewriteStructX dflt [⟨["X", "Y"], "", none⟩] = .err .multiName := by decide +kernel
example : rewriteStructX dflt [⟨["X", "Y"], "", some "plenc:\"1\""⟩] =
    .ok [⟨["X", "Y"], "", some "plenc:\"1\""⟩] := by decide +kernel
example : rewriteStructX dflt [⟨["A"], "", some "json:a"⟩] = .err .tagValueSyntax := by decide +kernel
example : rewriteStructX dflt [⟨["A"], "", some "json"⟩] = .err .tagSyntax := by decide +kernel
example : rewriteStructX dflt [⟨["A"], "", some ":\"a\""⟩] = .err .tagKeySyntax := by decide +kernel
example : rewriteStructX dflt [⟨["A"], "", some "plenc:\"one\""⟩] = .err .atoi := by decide +kernel
example : rewriteStructX dflt [⟨["A"], "", some "json:\"a\\tb\""⟩] = .unsupported := by decide +kernel
example : rewriteStructX dflt [⟨["A"], "", some "json:\"naïve\""⟩] =
    .ok [⟨["A"], "", some "json:\"naïve\" plenc:\"1\""⟩] := by decide +kernel

/-- former F1: the old text is kept as it is, trailing comma, tab, odd spacing
and all; only trailing spaces go -/
example :
    rewriteStruct dflt [⟨["A"], "", some "json:\"a,\""⟩, ⟨["B"], "", some " x:\"a\tb\"  y:\",\"  "⟩] =
    .ok [⟨["A"], "", some "json:\"a,\" plenc:\"1\""⟩,
         ⟨["B"], "", some " x:\"a\tb\"  y:\",\" plenc:\"2\""⟩] := by decide +kernel

/-- a whole file: two struct types; one error anywhere stops everything -/
example :
    rewriteFile dflt [[⟨["A"], "", none⟩], [⟨["B"], "", some "plenc:\"4\""⟩, ⟨["C"], "", none⟩]] =
    .ok [[⟨["A"], "", some "plenc:\"1\""⟩],
         [⟨["B"], "", some "plenc:\"4\""⟩, ⟨["C"], "", some "plenc:\"5\""⟩]] := by decide +kernel
example :
    rewriteFile dflt [[⟨["A"], "", none⟩], [⟨["B"], "", some "x"⟩]] = .err := by decide +kernel

/-- the parser and the printer -/
example : parseTagsX "json:\"a\\\"b,omitempty\" xml:\"\"" =
    .ok [⟨"json", "a\"b", ["omitempty"]⟩, ⟨"xml", "", []⟩] := by decide +kernel
example : parseTagsX "   " = .ok [] := by decide +kernel
example : Tags.render [⟨"json", "a\"b", ["omitempty"]⟩, ⟨"xml", "", []⟩] =
    "json:\"a\\\"b,omitempty\" xml:\"\"" := by decide +kernel
example : reflectGet "json:\"a\" plenc:\"3,intern\"" "plenc" = "3,intern" := by decide +kernel

/-- the hypotheses of `build_accepts_rewritten_tags` can be met -/
example : UserTagsOK [⟨["A"], "", none⟩] ∧ (idxs [⟨["A"], "", none⟩]).Pairwise (· ≠ ·) := by
  constructor
  · intro f hf ts t hts hg
    simp only [List.mem_cons, List.not_mem_nil, or_false] at hf
    subst hf
    simp [extractTags] at hts
    subst hts
    simp [Tags.get] at hg
  · decide +kernel

end C20
