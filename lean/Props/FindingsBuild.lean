import Proofs.Build
import Plenc.World
import Plenc.JSONOut
/-!
  Findings F14, F15, F16, F18, F19, F21 (DESIGN.md §5.2) stated about the model.

  Like `Props/C01Findings.lean` and `Props/C09F13.lean` this module proves no
  property of plenc: it records, as machine-checked statements about the
  executable model (`build`, `marshal`, `JSONOut.escapeString`), the behaviour
  each finding describes — general where that is easy, concrete instances
  evaluated by the kernel otherwise.

    * F14 `f14_slice_tag_ignored`, `f14_slice_tag_ignored'`, `f14_map_tag_ignored`,
          `f14_flat_slice_field`, `f14_intern_float_field`, …
          — on a slice or a map every tag option other than `proto` is accepted
            and changes nothing; `[]int64` tagged `1,flat` is the zig-zag slice of
            `1`; `intern` on a `float64` (or `[]string`) field is stripped;
    * F15 `f15_nullCodec_time`, `f15_null_time_ignores_protoTime`
          — `null.Time` embeds the non-compat `TimeCodec` whatever
            `ProtoCompatibleTime` says;
    * F16 `f16_index_zero_accepted`, `f16_tag_byte`, `f16_marshal`
          — index 0 is accepted, the field's tag is field number 0;
    * F18 `f18_field_ignores_intern_registration`, `f18_direct_lookup_finds_it`
          — a codec registered under the tag name `intern` is never used for a
            struct field tagged `intern`;
    * F19 `f19_ptr`, `f19_slice`, `f19_map_value`, `f19_field_uses_registration`, …
          — a registered codec for a map-kind type does not help in pointer,
            slice-element or map-value position (kind check first), while as a
            plain struct field it is used;
    * F21 `f21_high_bytes_verbatim`, `f21_invalid_utf8`, `f21_outputter`
          — the JSON outputter copies bytes ≥ 0x80 verbatim.
-/
namespace FindingsBuild
open Build

/-! ### F14 — ineffective tag options are accepted and ignored -/

/-- the slice wrapper looks at the tag only to compare it with `proto`. -/
theorem sliceWrap_tag_irrelevant (cfg : Cfg) (tag : String) (nf : Bool) (c : Ty)
    (h : tag ≠ "proto") : sliceWrap cfg tag nf c = sliceWrap cfg "" nf c := by
  have h1 : (tag == "proto") = false := by simpa using h
  have h2 : (("" : String) == "proto") = false := by decide
  unfold sliceWrap
  rw [h1, h2]

/-- F14, slices. For a slice type with no registry entry under either tag, any
tag option other than `proto` builds exactly what no option builds (error or
codec tree alike): the option is accepted and ignored. -/
theorem f14_slice_tag_ignored (cfg : Cfg) (t : TyDef) (tag : String) (h : tag ≠ "proto")
    (hr : regLoad cfg (.slice t) tag = none) (hr0 : regLoad cfg (.slice t) "" = none) :
    build cfg (.slice t) tag = build cfg (.slice t) "" := by
  rw [build_slice, build_slice, hr, hr0]
  simp only [sliceArm]
  split
  · rfl
  · cases build cfg t "" with
    | ok c => exact sliceWrap_tag_irrelevant cfg tag _ c h
    | _ => rfl

/-- the same with the hypothesis on the type: every slice type but `[]byte`. -/
theorem f14_slice_tag_ignored' (cfg : Cfg) (t : TyDef) (tag : String) (h : tag ≠ "proto")
    (hne : t ≠ .basic (.uint 8)) :
    build cfg (.slice t) tag = build cfg (.slice t) "" :=
  f14_slice_tag_ignored cfg t tag h (regLoad_slice_none tag hne) (regLoad_slice_none "" hne)

/-- F14, maps: no hypothesis besides `tag ≠ "proto"` (map types have no
registry entry). -/
theorem f14_map_tag_ignored (cfg : Cfg) (k v : TyDef) (tag : String) (h : tag ≠ "proto") :
    build cfg (.map k v) tag = build cfg (.map k v) "" := by
  have h1 : (tag == "proto") = false := by simpa using h
  have h2 : (("" : String) == "proto") = false := by decide
  rw [build_map, build_map]
  unfold mapArm
  rw [h1, h2]

/-- `struct { A []int64 \`plenc:"1,flat"\` }` builds, and to the zig-zag varint
slice: the same tree as with `plenc:"1"`. (On the scalar field `int64` the
option `flat` selects `FlatIntCodec`; on the slice it selects nothing.) -/
theorem f14_flat_slice_field :
    build {} (.struct "S" [("A", true, "1,flat", "", .slice (.basic (.int 64)))]) ""
      = .ok (.struct "S" [(1, "A", .vslice (.int 64))]) ∧
    build {} (.struct "S" [("A", true, "1", "", .slice (.basic (.int 64)))]) ""
      = .ok (.struct "S" [(1, "A", .vslice (.int 64))]) := ⟨rfl, rfl⟩

/-- for contrast: on the scalar the option is effective. -/
example : build {} (.struct "S" [("A", true, "1,flat", "", .basic (.int 64))]) ""
    = .ok (.struct "S" [(1, "A", .flat 64)]) := rfl

/-- a nonsense option on a map field and on a slice field: accepted, ignored. -/
example : build {} (.struct "S" [("A", true, "1,nonsense", "", .map (.basic .str) (.basic (.int 64)))]) ""
    = build {} (.struct "S" [("A", true, "1", "", .map (.basic .str) (.basic (.int 64)))]) "" := rfl
example : build {} (.struct "S" [("A", true, "1,nonsense", "", .slice (.basic .str))]) ""
    = .ok (.struct "S" [(1, "A", .lslice (.str false))]) := rfl

/-- whereas on a scalar field an option that selects nothing is an error. -/
example : build {} (.struct "S" [("A", true, "1,nonsense", "", .basic (.int 64))]) "" = .err := rfl

/-- `float64` tagged `1,intern` builds, to the plain float codec: `intern` is
stripped before the lookup for every field type and only acted upon when the
codec is a string codec. -/
theorem f14_intern_float_field :
    build {} (.struct "S" [("A", true, "1,intern", "", .basic .f64)]) ""
      = .ok (.struct "S" [(1, "A", .f64)]) := rfl

/-- `[]string` tagged `1,intern`: accepted, elements are NOT interned. -/
theorem f14_intern_string_slice_field :
    build {} (.struct "S" [("A", true, "1,intern", "", .slice (.basic .str))]) ""
      = .ok (.struct "S" [(1, "A", .lslice (.str false))]) := rfl

/-- whereas asked for directly (`CodecForTypeWithTag(float64, "intern")`) there is
no such codec: it is the field loop that strips the option. -/
example : build {} (.basic .f64) "intern" = .err := rfl

/-! ### F15 — `null.Time` ignores ProtoCompatibleTime -/

theorem f15_nullCodec_time : nullCodec "null.Time" = some (.ptr (.time false)) := rfl

/-- with both options on, `time.Time` is the protobuf `Timestamp` codec
(`.time true`) while `null.Time` wraps the zig-zag `TimeCodec` (`.time false`). -/
theorem f15_null_time_ignores_protoTime :
    build {nullCodecs := true, protoTime := true} (.ext "null.Time") "" = .ok (.ptr (.time false)) ∧
    build {protoTime := true} .time "" = .ok (.time true) := ⟨rfl, rfl⟩

/-- for every configuration with no user registration: the codec of `null.Time`
does not depend on `protoTime`. -/
theorem f15_general (pt pa : Bool) :
    build {nullCodecs := true, protoTime := pt, protoArrays := pa} (.ext "null.Time") ""
      = .ok (.ptr (.time false)) := by
  cases pt <;> cases pa <;> rfl

/-- as a struct field next to a `time.Time` field, in proto mode. -/
example :
    build {nullCodecs := true, protoTime := true}
      (.struct "S" [("A", true, "1", "", .time), ("B", true, "2", "", .ext "null.Time")]) ""
      = .ok (.struct "S" [(1, "A", .time true), (2, "B", .ptr (.time false))]) := rfl

/-! ### F16 — index 0 is accepted -/

theorem f16_index_zero_accepted :
    build {} (.struct "S" [("A", true, "0", "", .basic .str)]) ""
      = .ok (.struct "S" [(0, "A", .str false)]) := rfl

/-- the same under both protobuf options. -/
example :
    build {protoTime := true, protoArrays := true} (.struct "S" [("A", true, "0", "", .basic .str)]) ""
      = .ok (.struct "S" [(0, "A", .str false)]) := rfl

/-- the tag of a length-delimited field with index 0 is the single byte `0x02`:
field number 0, wire type 2. -/
theorem f16_tag_byte : appendTag .len 0 = [0x02] := by
  unfold appendTag; rw [appendVarUint]; rfl

theorem varuint_1 : appendVarUint 1 = [1] := by rw [appendVarUint]; rfl

/-- `S{A: "a"}` under that codec: tag byte `0x02` (field number 0, illegal in
protobuf), length 1, `'a'`. -/
theorem f16_marshal :
    marshal (.struct "S" [(0, "A", .str false)]) (.struct [.str [0x61]]) = [0x02, 0x01, 0x61] ∧
    marshal (.struct "S" [(0, "A", .str false)]) (.struct [.str [0x61]])
      = appendTag .len 0 ++ [0x01, 0x61] := by
  have hm : marshal (.struct "S" [(0, "A", .str false)]) (.struct [.str [0x61]]) = [0x02, 0x01, 0x61] := by
    simp [marshal, Val.omit, Ty.app, fieldsApp, Ty.wt, f16_tag_byte, frame, varuint_1]
  exact ⟨hm, by rw [hm, f16_tag_byte]; rfl⟩

/-! ### F18 — the tag name `intern` is reserved -/

/-- `RegisterCodecWithTag(int64, "intern", FlatIntCodec)`. -/
def cfg18 : Cfg := {custom := [("int64", "intern", .flat 64)]}

/-- the registration is there: the direct lookup finds it. -/
theorem f18_direct_lookup_finds_it : build cfg18 (.basic (.int 64)) "intern" = .ok (.flat 64) := rfl

/-- but a struct field `int64` tagged `1,intern` gets the default zig-zag codec:
the field loop strips `intern` and looks up `(int64, "")`. -/
theorem f18_field_ignores_intern_registration :
    build cfg18 (.struct "S" [("A", true, "1,intern", "", .basic (.int 64))]) ""
      = .ok (.struct "S" [(1, "A", .int 64)]) := rfl

/-- under any other tag name the same registration is used for the field. -/
example :
    build {custom := [("int64", "mine", .flat 64)]} (.struct "S" [("A", true, "1,mine", "", .basic (.int 64))]) ""
      = .ok (.struct "S" [(1, "A", .flat 64)]) := rfl

/-! ### F19 — a registered codec for a map-kind type is ignored where the kind check comes first -/

/-- pointer target: the registration `customLoad cfg d tag = some c` (under the
very tag that is asked for) does not help. -/
theorem f19_ptr {cfg : Cfg} {d : TyDef} {c : Ty} (tag : String)
    (_hreg : customLoad cfg d tag = some c) (hk : d.kind = .map) :
    build cfg d tag = .ok c ∧ build cfg (.ptr d) tag = .err := by
  refine ⟨?_, build_ptr_map tag hk⟩
  cases d with
  | named n t => rw [build_named, _hreg]
  | map k v => simp [customLoad, TyDef.regName] at _hreg
  | _ => simp [TyDef.kind] at hk

/-- slice element. -/
theorem f19_slice {cfg : Cfg} {d : TyDef} {c : Ty} (tag : String)
    (_hreg : customLoad cfg d "" = some c) (hk : d.kind = .map) :
    build cfg (.slice d) tag = .err := build_slice_map tag hk

/-- map value. -/
theorem f19_map_value {cfg : Cfg} {d : TyDef} {c : Ty} (k : TyDef) (tag : String)
    (_hreg : customLoad cfg d "" = some c) (hk : d.kind = .map) :
    build cfg (.map k d) tag = .err := build_map_map k tag hk

/-- `type M map[string]int64` with `RegisterCodec(M, c)` for some codec `c`
(here: the map codec the builder would produce anyway). -/
def M : TyDef := .named "M" (.map (.basic .str) (.basic (.int 64)))
def cfg19 : Cfg := {custom := [("M", "", .map (.str false) (.int 64) false)]}

/-- the registration is found for `M` itself and for a struct field of type `M`… -/
theorem f19_field_uses_registration :
    build cfg19 M "" = .ok (.map (.str false) (.int 64) false) ∧
    build cfg19 (.struct "S" [("A", true, "1", "", M)]) ""
      = .ok (.struct "S" [(1, "A", .map (.str false) (.int 64) false)]) := ⟨rfl, rfl⟩

/-- …and it really is the registered codec that is used there: registering a
different codec changes the field's codec. -/
example :
    build {custom := [("M", "", .bytes)]} (.struct "S" [("A", true, "1", "", M)]) ""
      = .ok (.struct "S" [(1, "A", .bytes)]) := rfl

/-- …but `*M`, `[]M` and `map[string]M` are rejected, registration or not. -/
theorem f19_instances :
    build cfg19 (.ptr M) "" = .err ∧
    build cfg19 (.slice M) "" = .err ∧
    build cfg19 (.map (.basic .str) M) "" = .err ∧
    build cfg19 (.struct "S" [("A", true, "1", "", .ptr M)]) "" = .err := ⟨rfl, rfl, rfl, rfl⟩

/-! ### F21 — bytes ≥ 0x80 are copied verbatim into JSON strings -/

/-- one byte ≥ 0x80 is "escaped" as itself. -/
theorem f21_escByte_high (c : UInt8) (h : 0x80 ≤ c) : JSONOut.escByte c = [c] := by
  have h' : 128 ≤ c.toNat := by simpa [UInt8.le_iff_toNat_le] using h
  have n1 : ¬ (c = 92 ∨ c = 34) := by
    rintro (rfl | rfl) <;> simp at h'
  have n2 : ¬ c = 10 := by rintro rfl; simp at h'
  have n3 : ¬ c = 13 := by rintro rfl; simp at h'
  have n4 : ¬ c = 9 := by rintro rfl; simp at h'
  have n5 : ¬ c < 32 := by
    rw [UInt8.lt_iff_toNat_lt]; simp; omega
  simp only [JSONOut.escByte, if_neg n1, if_neg n2, if_neg n3, if_neg n4, if_neg n5]

/-- a string of bytes ≥ 0x80 is rendered as itself between quotes. -/
theorem f21_high_bytes_verbatim (s : Bytes) (h : ∀ c ∈ s, (0x80 : UInt8) ≤ c) :
    JSONOut.escapeString s = 0x22 :: (s ++ [0x22]) := by
  have hf : s.flatMap JSONOut.escByte = s := by
    induction s with
    | nil => rfl
    | cons a r ih =>
      rw [List.flatMap_cons, f21_escByte_high a (h a (by simp)), ih (fun c hc => h c (by simp [hc]))]
      rfl
  unfold JSONOut.escapeString
  rw [hf]

/-- `"\xffa"` (0xff is never valid in UTF-8): the output is `"`, 0xff, `a`, `"` —
invalid UTF-8 in, invalid UTF-8 out. -/
theorem f21_invalid_utf8 : JSONOut.escapeString [0xff, 0x61] = [0x22, 0xff, 0x61, 0x22] := by
  decide

/-- through the outputter: `String("\xffa")` then `Done()`. -/
theorem f21_outputter : JSONOut.jsonOutRun [.str [0xff, 0x61]] = [0x22, 0xff, 0x61, 0x22, 0x0a] := by
  decide

end FindingsBuild
