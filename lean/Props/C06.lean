import Plenc.Marshal
import Plenc.Typing
/-
  C06 — Marshal appends: buffer prefix preserved, result depends only on the value.
  Partial by nature (DESIGN §6 C06): the interface-word layout and the fact that
  every codec's Append really is `append(data, …)` are runtime facts; the model
  states them and the correspondence run (`app` ops: prefixes, capacities, both
  calling conventions, repeated calls) validates them.
-/
namespace C06

/-- Marshal(buf, v) = buf followed by exactly Marshal(nil, v) — including when v
encodes to nothing at all. -/
theorem marshal_append (buf : Bytes) (t : Ty) (v : Val) :
    marshalInto buf t v = buf ++ marshalInto [] t v := by
  unfold marshalInto; split <;> simp

theorem marshal_nil_is_marshal (t : Ty) (v : Val) : marshalInto [] t v = marshal t v := by
  unfold marshalInto marshal; split <;> simp

/-- the caller's bytes are unchanged and come first. -/
theorem prefix_preserved (buf : Bytes) (t : Ty) (v : Val) :
    (marshalInto buf t v).take buf.length = buf := by
  rw [marshal_append]; simp

/-- repetition with buffer reuse: marshalling again into the returned buffer's
original prefix gives the same bytes. -/
theorem repeat_same (buf : Bytes) (t : Ty) (v : Val) :
    marshalInto ((marshalInto buf t v).take buf.length) t v = marshalInto buf t v := by
  rw [prefix_preserved]

/-- a value that encodes to nothing returns the buffer itself. -/
theorem omitted_returns_buffer (buf : Bytes) (t : Ty) (v : Val) (h : v.omit = true) :
    marshalInto buf t v = buf := by
  simp [marshalInto, h]

/-- the encoding is a function of (codec tree, value) alone — in particular of
the order in which a map's entries are listed and of nothing else. -/
theorem deterministic (buf₁ buf₂ : Bytes) (t : Ty) (v : Val) :
    (marshalInto buf₁ t v).drop buf₁.length = (marshalInto buf₂ t v).drop buf₂.length := by
  rw [marshal_append buf₁, marshal_append buf₂]; simp

/-- both calling conventions hand the codec a pointer that designates the value
(the map pointer for maps), for every shape of type: boxed, pointer-shaped
structs/arrays, maps. -/
theorem byvalue_eq_bypointer (s : Shape) (isMap : Bool) (addr word tmp : Nat)
    (hmap : isMap = true → s.direct = true) :
    (marshalPtr .byValue s isMap addr word tmp).2 = true ∧
    (marshalPtr .byPointer s isMap addr word tmp).2 = true := by
  cases isMap <;> simp_all [marshalPtr]
  split <;> simp

/-- the pointer-shaped structs of the repaired defect: a struct whose only field
is a pointer or a map is stored directly in the interface word. -/
example : (Shape.struct [.pointer]).direct = true ∧ (Shape.struct [.map]).direct = true
    ∧ (Shape.struct [.pointer, .other]).direct = false ∧ (Shape.array 1 (.struct [.map])).direct = true := by
  decide

-- non-vacuity
example : marshalInto [1, 2] (.int 64) (.int 0) = [1, 2] := by decide
example : (marshalInto [9] (.str false) (.str [65])).take [(9 : UInt8)].length = [9] :=
  prefix_preserved [9] (.str false) (.str [65])

end C06
