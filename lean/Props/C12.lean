import Proofs.Proto
/-
  C12 — Proto-compatible mode emits standard protobuf and default mode can read it.

  With ProtoCompatibleArrays and ProtoCompatibleTime set (and map fields tagged
  proto), the encoding of any accepted STRUCT is well-formed standard protobuf
  wire format: only wire types 0, 1, 2 and 5 occur, every length is exact, slices
  of strings / bytes / structs / times appear as repeated length-delimited fields,
  maps as repeated key=1 / value=2 entries, scalar slices packed, times as
  Timestamp{seconds=1, nanos=2} with plain varints.  Such data round-trips in
  that mode and a default-mode instance decodes the repeated-field form of a
  slice to the same value; each switch changes only its own encoding.

  The protobuf side is `Plenc/Spec/Proto.lean`: a parser written from the
  protobuf encoding specification (`Proto.parseMsg`, independent of the plenc
  readers) and the schema-directed predicate `Proto.ProtoWF`.  Property theorems
  only; the proofs are in Proofs/Proto.lean.

  Not covered by `ProtoWF` (wire level): the protobuf range of field numbers
  (1 … 2^29-1). plenc accepts index 0 and indexes up to 2^61; `ProtoWF`
  guarantees that every record's field number is an index of the schema, so the
  range holds exactly when the struct's indexes are in range.
-/
namespace C12
open Proto ProtoP

/-- struct-rooted codec trees as the builder produces them under
`ProtoCompatibleArrays` + `ProtoCompatibleTime` with proto-tagged maps: no
`lslice`, no plenc map, no plenc time anywhere (`protoOnly`); `pslice` / proto
maps only directly in struct fields (`rtShape`, the C01 shapes). -/
abbrev ProtoStruct (t : Ty) : Prop := ProtoP.ProtoStruct t

/-- the encoding is well-formed standard protobuf for the codec tree read as a schema. -/
theorem proto_wellformed (t : Ty) (v : Val) (hp : ProtoStruct t) (hwf : t.wf) (hty : t.hasTy v)
    (hsz : (marshal t v).length < 2 ^ 63) : ProtoWF t (marshal t v) = true :=
  ProtoP.proto_wellformed t v hp hwf hty hsz

/-- the bytes parse as a protobuf message and plenc's wire type 3 (WTSlice) —
like 4, 6, 7 — never occurs as the wire type of a record.  (Nested messages are
covered by `proto_wellformed`: `ProtoWF` parses every nested struct, map entry
and Timestamp payload with the same parser.) -/
theorem no_wt3 (t : Ty) (v : Val) (hp : ProtoStruct t) (hwf : t.wf) (hty : t.hasTy v)
    (hsz : (marshal t v).length < 2 ^ 63) :
    ∃ rs, parseMsg (marshal t v) = some rs ∧
      ∀ r ∈ rs, r.2.1 ≠ .slice ∧ (r.2.1 = .varint ∨ r.2.1 = .w64 ∨ r.2.1 = .len ∨ r.2.1 = .w32) :=
  ProtoP.no_wt3 t v hp hwf hty hsz

/-- a proto-mode time body is a `google.protobuf.Timestamp`: decoded with the
independent parser and the standard int64 / int32 reading of plain varints it
gives exactly (seconds, nanos). -/
theorem time_is_timestamp (sec : Int) (nsec : Nat) (h1 : intRange 64 sec) (h2 : nsec < 1000000000) :
    timestamp (timeBody true sec nsec) = some (sec, (nsec : Int)) :=
  ProtoP.time_is_timestamp sec nsec h1 h2

/-- such data round-trips in that mode (instance of C01). -/
theorem proto_roundtrip (t : Ty) (v : Val) (hp : ProtoStruct t) (hwf : t.wf) (hty : t.hasTy v)
    (hsz : (marshal t v).length < 2 ^ 63) :
    unmarshal t (marshal t v) t.zero = .ok (t.normPos v) := by
  obtain ⟨⟨nm, fs, rfl⟩, _, hs⟩ := hp
  exact RT.roundtrip _ v hwf hs rfl hty hsz

/-- what `ProtoCompatibleArrays` changes in the builder's `sliceWrap`: every
`WTLengthSliceWrapper` becomes a `ProtoSliceWrapper`. -/
abbrev toProto : Ty → Ty := ProtoP.toProto

/-- a default-mode instance (codec tree `t`, struct-rooted) decodes what the
proto-arrays instance (`toProto t`) wrote, to the same normalised value: the
`wt = WTLength` arm of `WTLengthSliceWrapper.Read` ("readAsWTLength") appends one
element per repeated field.  `rtShape false (toProto t)`: the proto tree is in
the C01 shapes, i.e. the length-delimited slices of `t` occur only directly in
struct fields (at any struct nesting depth, also inside slice elements, pointer
targets and map values). -/
theorem default_reads_repeated (nm : String) (fs : Fields) (v : Val)
    (hwf : (Ty.struct nm fs).wf) (hshape : Ty.rtShape false (toProto (.struct nm fs)))
    (hty : (Ty.struct nm fs).hasTy v)
    (hsz : (marshal (toProto (.struct nm fs)) v).length < 2 ^ 63) :
    unmarshal (.struct nm fs) (marshal (toProto (.struct nm fs)) v) (Ty.struct nm fs).zero
      = .ok ((Ty.struct nm fs).normPos v) :=
  ProtoP.default_reads_repeated nm fs v hwf hshape hty hsz

/-- tie to the builder: `ProtoCompatibleArrays` is consulted in `sliceWrap` only,
where it turns the `WTLengthSliceWrapper` into the `ProtoSliceWrapper` (`toProto`
at that node) and changes nothing else. -/
theorem sliceWrap_protoArrays (cfg : Cfg) (tag : String) (e : Bool) (sub : Ty) :
    sliceWrap { cfg with protoArrays := true } tag e sub
      = match sliceWrap cfg tag e sub with
        | .ok (.lslice u) => .ok (.pslice u)
        | r => r :=
  ProtoP.sliceWrap_protoArrays cfg tag e sub

/-! ### switch locality -/

/-- (i) `ProtoCompatibleTime` (`mapTime c`: every time codec set to `c`) changes
the encoding of a value only through the time values it puts on the wire:
`timeQuiet t v` — times in zero-omitting positions are zero, pointers to times
nil, slices of times empty. -/
theorem switch_time_local (c : Bool) (t : Ty) (v : Val) (hwf : t.wf) (hq : timeQuiet t v = true) :
    marshal (mapTime c t) v = marshal t v :=
  ProtoP.switch_time_local c t v hwf hq

/-- …at every tag, with the reported size. -/
theorem switch_time_local_app (c : Bool) (t : Ty) (v : Val) (tag : Bytes) (hwf : t.wf)
    (hq : timeQuiet t v = true) :
    (mapTime c t).app v tag = t.app v tag ∧ (mapTime c t).size v tag = t.size v tag :=
  ProtoP.time_local c t hwf v hq tag

/-- (ii) `ProtoCompatibleArrays` changes the encoding only through the
length-delimited slices a value puts on the wire: `protoQuiet t v` — every such
slice is empty and in a zero-omitting position. -/
theorem switch_arrays_local (t : Ty) (v : Val) (hwf : t.wf) (hq : protoQuiet t v = true) :
    marshal (toProto t) v = marshal t v :=
  ProtoP.switch_arrays_local t v hwf hq

theorem switch_arrays_local_app (t : Ty) (v : Val) (tag : Bytes) (hwf : t.wf)
    (hq : protoQuiet t v = true) :
    (toProto t).app v tag = t.app v tag ∧ (toProto t).size v tag = t.size v tag :=
  ProtoP.arrays_local t hwf v hq tag

/-- (iii) the codec of one field determines only that field's bytes: prefix and
suffix are the same whatever the field's codec… -/
theorem field_local (pre : Fields) (vpre : List Val) (hl : vpre.length = pre.length)
    (i : Nat) (n : String) (suf : Fields) (x : Val) (vsuf : List Val) :
    ∃ P S : Bytes, ∀ t : Ty,
      fieldsApp (pre ++ (i, n, t) :: suf) (vpre ++ x :: vsuf) = P ++ (fieldBytes t i x ++ S) :=
  ProtoP.field_local pre vpre hl i n suf x vsuf

/-- …in particular the `proto` tag on a map field changes only that field's records. -/
theorem map_tag_local (nm : String) (pre : Fields) (vpre : List Val) (hl : vpre.length = pre.length)
    (i : Nat) (n : String) (k v : Ty) (suf : Fields) (x : Val) (vsuf : List Val) :
    ∃ P S : Bytes, ∀ b : Bool,
      marshal (.struct nm (pre ++ (i, n, .map k v b) :: suf)) (.struct (vpre ++ x :: vsuf))
        = P ++ (fieldBytes (.map k v b) i x ++ S) :=
  ProtoP.map_tag_local nm pre vpre hl i n k v suf x vsuf

/-! ### non-vacuity -/

/-- a proto-mode struct: varint, string, repeated strings, packed varints with a
nil pointer entry, double, nested struct, repeated struct pointers with a nil
entry, a proto map with packed float values, a Timestamp, repeated Timestamps, a float. -/
def exTy : Ty :=
  .struct "S" [(1, "A", .int 64), (2, "B", .str false), (3, "C", .pslice (.str false)),
    (4, "D", .vslice (.ptr (.int 32))), (5, "E", .f64), (6, "F", .struct "T" [(1, "X", .uint 8)]),
    (7, "G", .pslice (.ptr (.struct "T" [(1, "X", .uint 8)]))),
    (8, "H", .map (.str false) (.fslice .f32) true),
    (9, "I", .time true), (10, "J", .pslice (.time true)), (11, "K", .f32)]

def exVal : Val :=
  .struct [.int (-5), .str [104, 105], .slice [.str [1], .str []],
    .slice [.ptr (some (.int 7)), .ptr none], .f64 5, .struct [.uint 200],
    .slice [.ptr none, .ptr (some (.struct [.uint 1]))],
    .map (some [(.str [], .slice [.f32 5]), (.str [97], .slice [])]),
    .time (-5) 7, .slice [.time 1 2], .f32 9]

theorem ex_hyps : ProtoStruct exTy ∧ exTy.wf ∧ exTy.hasTy exVal ∧ (marshal exTy exVal).length < 2 ^ 63 := by
  refine ⟨⟨⟨_, _, rfl⟩, ?_, ?_⟩, ?_, ?_, by decide +kernel⟩
  · simp [exTy, protoOnly, protoOnlyL]
  · simp [exTy, Ty.rtShape, fieldsRtShape, Ty.isPtr, Ty.keySafe]
  · simp [exTy, Ty.wf, fieldsWf, validWidth, Ty.wt, Ty.isMap, Ty.isProtoSlice]
  · simp [exTy, exVal, Ty.hasTy, fieldsHaveTy, intRange, keysDistinct, Val.beq]

example : ProtoWF exTy (marshal exTy exVal) = true :=
  proto_wellformed exTy exVal ex_hyps.1 ex_hyps.2.1 ex_hyps.2.2.1 ex_hyps.2.2.2

/-- the same fact by running the parser (the predicate is executable). -/
example : ProtoWF exTy (marshal exTy exVal) = true := by decide +kernel

/-- the plenc default form of the same value is NOT protobuf (wire type 3). -/
example : ProtoWF (.struct "S" [(3, "C", .lslice (.str false))])
    (marshal (.struct "S" [(3, "C", .lslice (.str false))]) (.struct [.slice [.str [1]]])) = false := by
  decide +kernel

example : unmarshal exTy (marshal exTy exVal) exTy.zero = .ok (exTy.normPos exVal) :=
  proto_roundtrip exTy exVal ex_hyps.1 ex_hyps.2.1 ex_hyps.2.2.1 ex_hyps.2.2.2

/-- a default-mode struct with length-delimited slices in fields at several
depths: top level, inside the elements of such a slice, behind a pointer, and
inside the struct values of a plenc map. -/
def dfFs : Fields :=
  [(1, "A", .lslice (.str false)),
   (2, "B", .lslice (.ptr (.struct "T" [(1, "X", .lslice .bytes), (2, "Y", .int 32)]))),
   (3, "C", .ptr (.struct "U" [(1, "Z", .lslice (.time false))])),
   (4, "D", .map (.str false) (.struct "T" [(1, "X", .lslice .bytes), (2, "Y", .int 32)]) false),
   (5, "E", .vslice (.int 64))]

def dfVal : Val :=
  .struct [.slice [.str [1], .str []],
    .slice [.ptr none, .ptr (some (.struct [.slice [.bytes [7]], .int 3]))],
    .ptr (some (.struct [.slice [.time 5 6]])),
    .map (some [(.str [97], .struct [.slice [.bytes [1], .bytes [2]], .int 0])]),
    .slice [.int 1, .int (-1)]]

theorem df_hyps : (Ty.struct "R" dfFs).wf ∧ Ty.rtShape false (toProto (.struct "R" dfFs))
    ∧ (Ty.struct "R" dfFs).hasTy dfVal
    ∧ (marshal (toProto (.struct "R" dfFs)) dfVal).length < 2 ^ 63 := by
  refine ⟨?_, ?_, ?_, by decide +kernel⟩
  · simp [dfFs, Ty.wf, fieldsWf, validWidth, Ty.wt, Ty.isMap, Ty.isProtoSlice]
  · simp [dfFs, toProto, ProtoP.toProto, ProtoP.toProtoL, Ty.rtShape, fieldsRtShape, Ty.isPtr, Ty.keySafe]
  · simp [dfFs, dfVal, Ty.hasTy, fieldsHaveTy, intRange, keysDistinct]

example : unmarshal (.struct "R" dfFs) (marshal (toProto (.struct "R" dfFs)) dfVal) (Ty.struct "R" dfFs).zero
    = .ok ((Ty.struct "R" dfFs).normPos dfVal) :=
  default_reads_repeated "R" dfFs dfVal df_hyps.1 df_hyps.2.1 df_hyps.2.2.1 df_hyps.2.2.2

/-- the two encodings really differ (so the theorem is about two wire forms). -/
example : marshal (toProto (.struct "R" dfFs)) dfVal ≠ marshal (.struct "R" dfFs) dfVal := by
  decide +kernel

/-- switch locality (i), (ii): a value whose time field is zero, whose pointer to
a time is nil and whose string slice is empty, next to fields that are present. -/
def swTy : Ty :=
  .struct "W" [(1, "A", .int 64), (2, "T", .time false), (3, "P", .ptr (.time false)),
    (4, "L", .lslice (.str false)), (5, "S", .str false), (6, "Q", .lslice (.time false))]

def swVal : Val :=
  .struct [.int 9, .time zeroTimeSec 0, .ptr none, .slice [], .str [120], .slice []]

theorem sw_wf : swTy.wf := by simp [swTy, Ty.wf, fieldsWf, validWidth, Ty.wt, Ty.isMap, Ty.isProtoSlice]

example : marshal (mapTime true swTy) swVal = marshal swTy swVal :=
  switch_time_local true swTy swVal sw_wf (by decide +kernel)

example : marshal (toProto swTy) swVal = marshal swTy swVal :=
  switch_arrays_local swTy swVal sw_wf (by decide +kernel)

/-- …and the hypotheses matter: with a non-zero time / a non-empty slice the
encodings differ. -/
example : marshal (mapTime true swTy)
      (.struct [.int 9, .time 1 0, .ptr none, .slice [], .str [120], .slice []])
    ≠ marshal swTy (.struct [.int 9, .time 1 0, .ptr none, .slice [], .str [120], .slice []]) := by
  decide +kernel

example : marshal (toProto swTy)
      (.struct [.int 9, .time zeroTimeSec 0, .ptr none, .slice [.str [1]], .str [120], .slice []])
    ≠ marshal swTy
      (.struct [.int 9, .time zeroTimeSec 0, .ptr none, .slice [.str [1]], .str [120], .slice []]) := by
  decide +kernel

example : timestamp (timeBody true (-5) 7) = some (-5, 7) :=
  time_is_timestamp (-5) 7 (by unfold intRange; omega) (by omega)

end C12
