import Proofs.RoundTrip
/-!
  C09 / finding F13 — a pointer to a slice in the protobuf repeated form.

  `ProtoSliceWrapper` (`Ty.pslice`) writes one tagged frame per element and
  nothing else: there is no count and no frame for the list itself, so an empty
  list has no encoding at all. Behind a `PointerWrapper` (`Ty.ptr (.pslice t)`,
  Go `*[]T` for a length-delimited `T` in a struct field) this collides with
  explicit presence (C09): a non-nil pointer to an EMPTY slice is not omitted
  (`Omit` of a pointer only looks at nil-ness), the wrapper is called, writes
  zero bytes, and on the way back no tag for the field is ever seen, so the
  field keeps its zero value — the nil pointer. Present reads back absent.

  `Ty.rtShape` therefore excludes `.ptr (.pslice t)` wholesale and C01/C09 say
  nothing about it. This module records the exact behaviour of the model at
  that shape, as a struct field:

    * `f13_empty_pointee`     — pointer to `[]`: nothing is written, and reading
                                 it back gives the nil pointer;
    * `f13_nonempty_roundtrip` — pointer to a non-empty list: the exact round
                                 trip of C01 (`S.normPos v`), i.e. a non-nil
                                 pointer to the element-wise normalised list;
    * concrete instances for `*[]string` under a one-byte and a two-byte tag.
-/
namespace C09F13
open RT

/-! ### 1. pointer to an empty slice: present reads back absent -/

/-- F13. A struct whose only field is a pointer to a slice in the repeated form,
holding a non-nil pointer to an empty slice: Marshal writes nothing, and
Unmarshal of that (empty) encoding into a fresh variable leaves the pointer nil.
No hypothesis on the element codec, the field index or the names is needed. -/
theorem f13_empty_pointee (t : Ty) (sname fname : String) (idx : Nat) :
    marshal (.struct sname [(idx, fname, .ptr (.pslice t))]) (.struct [.ptr (some (.slice []))]) = [] ∧
    unmarshal (.struct sname [(idx, fname, .ptr (.pslice t))]) [] (Ty.struct sname [(idx, fname, .ptr (.pslice t))]).zero
      = .ok (.struct [.ptr none]) := by
  refine ⟨?_, ?_⟩
  · simp [marshal, Val.omit, Ty.app, fieldsApp, frame]
  · simp [unmarshal, Ty.read, Ty.zero, zeros, structLoop]

/-- the same, composed: `Unmarshal(Marshal(v))` turns the present pointer into an
absent one, so the value does not survive even up to the documented
normalisation (`normPos` keeps a non-nil pointer non-nil). -/
theorem f13_empty_pointee_composed (t : Ty) (sname fname : String) (idx : Nat) :
    unmarshal (.struct sname [(idx, fname, .ptr (.pslice t))])
        (marshal (.struct sname [(idx, fname, .ptr (.pslice t))]) (.struct [.ptr (some (.slice []))]))
        (Ty.struct sname [(idx, fname, .ptr (.pslice t))]).zero
      = .ok (.struct [.ptr none]) ∧
    (Ty.struct sname [(idx, fname, .ptr (.pslice t))]).normPos (.struct [.ptr (some (.slice []))])
      = .struct [.ptr (some (.slice []))] := by
  refine ⟨?_, ?_⟩
  · rw [(f13_empty_pointee t sname fname idx).1]
    exact (f13_empty_pointee t sname fname idx).2
  · simp [Ty.normPos, Val.omit, Ty.norm, fieldsNorm]

/-! ### 2. pointer to a non-empty slice: exact round trip -/

/-- `PointerWrapper.Read` into a non-nil pointer reads into the pointee. -/
theorem fieldRead_ptr_some (u : Ty) (wt : WT) (body : Bytes) (a : Val) :
    fieldRead (.ptr u) wt body (.ptr (some a))
      = Res.mapFst (fun x => Val.ptr (some x)) (fieldRead u wt body a) := by
  have hrd : ∀ d, (Ty.ptr u).read wt d (.ptr (some a))
      = Res.mapFst (fun x => Val.ptr (some x)) (u.read wt d a) := by
    intro d
    simp only [Ty.read]
    cases u.read wt d a with
    | ok p => obtain ⟨v, n⟩ := p; rfl
    | _ => rfl
  unfold fieldRead
  by_cases hw : wt = .len
  · simp only [hw, ↓reduceIte]
    cases readU body with
    | none => rfl
    | some p =>
      obtain ⟨l, n⟩ := p
      simp only
      split
      · rfl
      · rw [← hw, hrd, Res.mapFst_addN]
  · simp only [hw, ↓reduceIte, hrd]

/-- `PointerWrapper.Read` into a nil pointer allocates a zero pointee first: it
behaves as for a pointer to the zero value. -/
theorem fieldRead_ptr_none (u : Ty) (wt : WT) (body : Bytes) :
    fieldRead (.ptr u) wt body (.ptr none) = fieldRead (.ptr u) wt body (.ptr (some u.zero)) := by
  have hrd : ∀ d, (Ty.ptr u).read wt d (.ptr none) = (Ty.ptr u).read wt d (.ptr (some u.zero)) := by
    intro d; simp only [Ty.read]
  unfold fieldRead
  simp only [hrd]

/-- the struct loop looks at the accumulator only through the field reader: two
accumulators on which the reader agrees for the leading tag give the same run. -/
theorem structLoop_acc_congr (rd : Nat → WT → Bytes → List Val → Res (List Val × Nat))
    (fuel : Nat) (wt : WT) (idx : Nat) (hidx : idx < 2 ^ 61) (rest : Bytes) (off : Nat)
    (acc1 acc2 : List Val) (h : rd idx wt rest acc1 = rd idx wt rest acc2) :
    structLoop rd fuel (appendTag wt idx ++ rest) off acc1
      = structLoop rd fuel (appendTag wt idx ++ rest) off acc2 := by
  cases fuel with
  | zero => rfl
  | succ f =>
    rw [structLoop, structLoop]
    have hne : (appendTag wt idx ++ rest).isEmpty = false := by
      have := appendTag_isEmpty wt idx
      cases hh : appendTag wt idx with
      | nil => rw [hh] at this; simp at this
      | cons _ _ => rfl
    simp only [hne, Bool.false_eq_true, ↓reduceIte, tag_roundtrip wt idx hidx rest,
      drop_append_len _ _ _ rfl, h]

/-- Field law for `*[]T` in the repeated form with a NON-EMPTY pointee: the
struct loop, started on the field's frames with the field nil, continues on the
following bytes with the field pointing at the element-wise normalised list. -/
theorem field_ptr_pslice (t : Ty) (hwf : (Ty.pslice t).wf) (hs : Ty.rtShape false t)
    (i : Nat) (hi : i < 2 ^ 61) (v : Val) (vs : List Val)
    (hty : ∀ x ∈ v :: vs, t.hasTy x)
    (hsz : ((Ty.ptr (.pslice t)).app (.ptr (some (.slice (v :: vs)))) (appendTag .len i)).length < 2 ^ 64)
    (rd : Nat → WT → Bytes → List Val → Res (List Val × Nat)) (put : Val → List Val)
    (hrd : ∀ wt body a, rd i wt body (put a) = Res.mapFst put (fieldRead (.ptr (.pslice t)) wt body a))
    (fuel : Nat) (rest : Bytes) (off : Nat)
    (hf : ((Ty.ptr (.pslice t)).app (.ptr (some (.slice (v :: vs)))) (appendTag .len i) ++ rest).length < fuel) :
    structLoop rd fuel ((Ty.ptr (.pslice t)).app (.ptr (some (.slice (v :: vs)))) (appendTag .len i) ++ rest)
        off (put (.ptr none))
      = structLoop rd fuel rest
          (off + ((Ty.ptr (.pslice t)).app (.ptr (some (.slice (v :: vs)))) (appendTag .len i)).length)
          (put (.ptr (some (.slice ((v :: vs).map (elemNorm t)))))) := by
  have hE : (Ty.ptr (.pslice t)).app (.ptr (some (.slice (v :: vs)))) (appendTag .len i)
      = (v :: vs).flatMap fun x => elemFrame t x (appendTag .len i) := by
    simp only [Ty.app]
    exact pslice_frames t (v :: vs) (appendTag .len i) hwf (by simpa only [Ty.hasTy] using hty)
      (deref_not_rep t hs) (appendTag_ne_nil _ _)
  rw [hE] at hsz hf ⊢
  simp only [Ty.wf] at hwf
  -- the reader, seen through `put' a = put (ptr (some a))`, is the reader of a plain repeated field
  have hrd' : ∀ wt body a, rd i wt body ((fun a => put (.ptr (some a))) a)
      = Res.mapFst (fun a => put (.ptr (some a))) (fieldRead (.pslice t) wt body a) := by
    intro wt body a
    simp only [hrd, fieldRead_ptr_some, Res.mapFst_mapFst]
  have hloop := pslice_loop t hwf.1 hs hwf.2.1 hwf.2.2.1 ((pp_ty t hwf.1).1 hs) i hi rd
    (fun a => put (.ptr (some a))) hrd' (v :: vs) [] fuel rest off hty hsz hf
  simp only [List.nil_append] at hloop
  rw [← hloop]
  -- first step: a nil field and a field pointing at `[]` are read alike
  simp only [List.flatMap_cons, elemFrame, List.append_assoc]
  apply structLoop_acc_congr rd fuel .len i hi
  rw [hrd, hrd, fieldRead_ptr_none]
  rfl

/-- F13, the other half. The same struct holding a non-nil pointer to a NON-EMPTY
list of values of a length-delimited element codec `t` in the round-trip shapes
(the hypotheses are those of the `.pslice` field law `RT.rtField_pslice` plus the
size bound of C01): `Unmarshal(Marshal(v))` gives a non-nil pointer to the list of
normalised elements — `RT.elemNorm t` is the element normal form used by the
existing `.pslice` / `.lslice` theorems (`RT.norm_pslice`): `t.norm`, except that
a nil pointer element comes back as a pointer to the zero value. -/
theorem f13_nonempty_roundtrip (t : Ty) (sname fname : String) (idx : Nat) (vs : List Val)
    (hwf : t.wf) (hwt : t.wt = .len) (hmap : t.isMap = false) (hps : t.isProtoSlice = false)
    (hs : Ty.rtShape false t) (hidx : idx < 2 ^ 61)
    (hne : vs ≠ []) (hty : ∀ v ∈ vs, t.hasTy v)
    (hsz : (marshal (.struct sname [(idx, fname, .ptr (.pslice t))]) (.struct [.ptr (some (.slice vs))])).length
      < 2 ^ 63) :
    unmarshal (.struct sname [(idx, fname, .ptr (.pslice t))])
        (marshal (.struct sname [(idx, fname, .ptr (.pslice t))]) (.struct [.ptr (some (.slice vs))]))
        (Ty.struct sname [(idx, fname, .ptr (.pslice t))]).zero
      = .ok (.struct [.ptr (some (.slice (vs.map (elemNorm t))))]) := by
  cases vs with
  | nil => exact absurd rfl hne
  | cons v vs =>
    have hmar : marshal (.struct sname [(idx, fname, .ptr (.pslice t))]) (.struct [.ptr (some (.slice (v :: vs)))])
        = (Ty.ptr (.pslice t)).app (.ptr (some (.slice (v :: vs)))) (appendTag .len idx) := by
      simp only [marshal, Val.omit, Bool.false_eq_true, ↓reduceIte, struct_body, fieldsApp, Option.isNone,
        Ty.wt, List.append_nil]
    rw [hmar] at hsz ⊢
    have hfield := field_ptr_pslice t ⟨hwf, hwt, hmap, hps⟩ hs idx hidx v vs hty (by omega)
      (fun i wt body acc => readField [(idx, fname, .ptr (.pslice t))] acc i wt body) (fun x => [x])
      (fun wt body a => readField_at [] idx fname (.ptr (.pslice t)) [] (by simp) [] rfl a [] wt body)
      (((Ty.ptr (.pslice t)).app (.ptr (some (.slice (v :: vs)))) (appendTag .len idx)).length + 1) [] 0
      (by simp only [List.append_nil]; omega)
    rw [List.append_nil] at hfield
    generalize (Ty.ptr (.pslice t)).app (.ptr (some (.slice (v :: vs)))) (appendTag .len idx) = A at hfield ⊢
    rw [structLoop_nil _ _ _ _ (by omega)] at hfield
    simp only [unmarshal, Ty.read, Ty.zero, zeros, hfield]

/-- … which is exactly the C01 statement `unmarshal S (marshal S v) S.zero = .ok (S.normPos v)`
at a shape `rtShape` excludes: for a non-empty pointee F13 costs nothing. -/
theorem f13_nonempty_roundtrip_normPos (t : Ty) (sname fname : String) (idx : Nat) (vs : List Val)
    (hwf : t.wf) (hwt : t.wt = .len) (hmap : t.isMap = false) (hps : t.isProtoSlice = false)
    (hs : Ty.rtShape false t) (hidx : idx < 2 ^ 61)
    (hne : vs ≠ []) (hty : ∀ v ∈ vs, t.hasTy v)
    (hsz : (marshal (.struct sname [(idx, fname, .ptr (.pslice t))]) (.struct [.ptr (some (.slice vs))])).length
      < 2 ^ 63) :
    unmarshal (.struct sname [(idx, fname, .ptr (.pslice t))])
        (marshal (.struct sname [(idx, fname, .ptr (.pslice t))]) (.struct [.ptr (some (.slice vs))]))
        (Ty.struct sname [(idx, fname, .ptr (.pslice t))]).zero
      = .ok ((Ty.struct sname [(idx, fname, .ptr (.pslice t))]).normPos (.struct [.ptr (some (.slice vs))])) := by
  rw [f13_nonempty_roundtrip t sname fname idx vs hwf hwt hmap hps hs hidx hne hty hsz]
  simp only [Ty.normPos, Val.omit, Bool.false_eq_true, ↓reduceIte, Ty.norm, fieldsNorm, Option.isNone]
  rfl

/-- the two halves side by side: whatever the (well-typed) pointee, the pointer
reads back non-nil exactly when the pointee is non-empty. -/
theorem f13_presence_iff_nonempty (t : Ty) (sname fname : String) (idx : Nat) (vs : List Val)
    (hwf : t.wf) (hwt : t.wt = .len) (hmap : t.isMap = false) (hps : t.isProtoSlice = false)
    (hs : Ty.rtShape false t) (hidx : idx < 2 ^ 61) (hty : ∀ v ∈ vs, t.hasTy v)
    (hsz : (marshal (.struct sname [(idx, fname, .ptr (.pslice t))]) (.struct [.ptr (some (.slice vs))])).length
      < 2 ^ 63) :
    unmarshal (.struct sname [(idx, fname, .ptr (.pslice t))])
        (marshal (.struct sname [(idx, fname, .ptr (.pslice t))]) (.struct [.ptr (some (.slice vs))]))
        (Ty.struct sname [(idx, fname, .ptr (.pslice t))]).zero
      = .ok (.struct [.ptr (if vs.isEmpty then none else some (.slice (vs.map (elemNorm t))))]) := by
  cases vs with
  | nil => exact (f13_empty_pointee_composed t sname fname idx).1
  | cons v vs =>
    exact f13_nonempty_roundtrip t sname fname idx (v :: vs) hwf hwt hmap hps hs hidx (by simp) hty hsz

/-! ### 3. concrete instances: `struct { F *[]string }`

`decide` does not reduce `appendVarUint` (well-founded recursion), so the three
varints that occur are unfolded by hand; the encodings then follow by `simp`
with the model definitions, and the decodings by `rfl` (the reader is structural). -/

/-- `struct { F *[]string \`plenc:"i"\` }`: the codec tree `build` produces. -/
def PS (i : Nat) : Ty := .struct "S" [(i, "F", .ptr (.pslice (.str false)))]

/-- `&[]string{}` / `&[]string{"a", "b"}` in that field. -/
def emptyList : Val := .struct [.ptr (some (.slice []))]
def ab : Val := .struct [.ptr (some (.slice [.str [97], .str [98]]))]

theorem varuint_1 : appendVarUint 1 = [1] := by rw [appendVarUint]; rfl
theorem varuint_10 : appendVarUint 10 = [10] := by rw [appendVarUint]; rfl
theorem varuint_1602 : appendVarUint 1602 = [194, 12] := by
  rw [appendVarUint]; simp only [show ¬ (1602 < 128) by decide, dite_false]
  rw [appendVarUint]; rfl

/-- `F: &[]string{}` under index 1: zero bytes, reads back `F: nil`. -/
theorem ex_empty_idx1 :
    marshal (PS 1) emptyList = [] ∧
    unmarshal (PS 1) [] (PS 1).zero = .ok (.struct [.ptr none]) ∧
    unmarshal (PS 1) (marshal (PS 1) emptyList) (PS 1).zero = .ok (.struct [.ptr none]) := by
  have h1 : marshal (PS 1) emptyList = [] := by
    simp [marshal, PS, emptyList, Val.omit, Ty.app, fieldsApp, frame]
  refine ⟨h1, rfl, ?_⟩
  rw [h1]; rfl

/-- `F: &[]string{"a","b"}` under index 1: two frames `0a 01 61`, `0a 01 62`,
reads back `F: &[]string{"a","b"}`. -/
theorem ex_ab_idx1 :
    marshal (PS 1) ab = [0x0a, 1, 97, 0x0a, 1, 98] ∧
    unmarshal (PS 1) [0x0a, 1, 97, 0x0a, 1, 98] (PS 1).zero = .ok ab ∧
    unmarshal (PS 1) (marshal (PS 1) ab) (PS 1).zero = .ok ab := by
  have h1 : marshal (PS 1) ab = [0x0a, 1, 97, 0x0a, 1, 98] := by
    simp [marshal, PS, ab, Val.omit, Ty.app, fieldsApp, frame, Ty.wt, appendTag, WT.code,
      varuint_1, varuint_10]
  refine ⟨h1, rfl, ?_⟩
  rw [h1]; rfl

/-- the same under index 200, whose tag `200 * 8 + 2 = 1602` takes two bytes (`c2 0c`). -/
theorem ex_empty_idx200 :
    marshal (PS 200) emptyList = [] ∧
    unmarshal (PS 200) [] (PS 200).zero = .ok (.struct [.ptr none]) ∧
    unmarshal (PS 200) (marshal (PS 200) emptyList) (PS 200).zero = .ok (.struct [.ptr none]) := by
  have h1 : marshal (PS 200) emptyList = [] := by
    simp [marshal, PS, emptyList, Val.omit, Ty.app, fieldsApp, frame]
  refine ⟨h1, rfl, ?_⟩
  rw [h1]; rfl

theorem ex_ab_idx200 :
    marshal (PS 200) ab = [0xc2, 0x0c, 1, 97, 0xc2, 0x0c, 1, 98] ∧
    unmarshal (PS 200) [0xc2, 0x0c, 1, 97, 0xc2, 0x0c, 1, 98] (PS 200).zero = .ok ab ∧
    unmarshal (PS 200) (marshal (PS 200) ab) (PS 200).zero = .ok ab := by
  have h1 : marshal (PS 200) ab = [0xc2, 0x0c, 1, 97, 0xc2, 0x0c, 1, 98] := by
    simp [marshal, PS, ab, Val.omit, Ty.app, fieldsApp, frame, Ty.wt, appendTag, WT.code,
      varuint_1, varuint_1602]
  refine ⟨h1, rfl, ?_⟩
  rw [h1]; rfl

/-- the hypotheses of `f13_nonempty_roundtrip` are satisfiable: the general
theorem instantiated at `*[]string`, `["a","b"]`, index 200 gives `ex_ab_idx200`'s
third component (strings are their own normal form). -/
example : unmarshal (PS 200) (marshal (PS 200) ab) (PS 200).zero = .ok ab := by
  have h := f13_nonempty_roundtrip (.str false) "S" "F" 200 [.str [97], .str [98]]
    (by simp [Ty.wf]) rfl rfl rfl (by simp [Ty.rtShape]) (by decide) (by simp)
    (by intro v hv; simp at hv; rcases hv with rfl | rfl <;> simp [Ty.hasTy])
    (by
      have := ex_ab_idx200.1
      simp only [PS, ab] at this
      rw [this]; decide)
  exact h

/-- the shape is outside `rtShape` (so C01 / C09 do not speak about it) although
the builder accepts it (`wf`). -/
theorem ps_wf_not_rtShape (i : Nat) (hi : i < 2 ^ 61) :
    (PS i).wf ∧ ¬ Ty.rtShape false (PS i) := by
  refine ⟨?_, ?_⟩
  · simp [PS, Ty.wf, fieldsWf, Ty.wt, Ty.isMap, Ty.isProtoSlice, hi]
  · simp [PS, Ty.rtShape, fieldsRtShape, Ty.isPtr]

end C09F13
