import Proofs.RegistryTyped
import Proofs.RegistryTrace
/-
  C07 — A Plenc instance may be used from any number of goroutines at once:
  every concurrent Marshal, Unmarshal and CodecForType call returns exactly what
  it would return if run alone, and there are no data races.  This holds in
  particular when several goroutines trigger the first-ever construction of
  codecs for the same, nested or mutually recursive types at the same moment.

  What is proved here, on the transition system of Plenc/Registry.lean (codec
  construction through the shared registry and the per-struct overlay
  registries; see the header of that file for the step granularity), for EVERY
  type graph, any number of goroutines, any list of top-level requests per
  goroutine and every interleaving (`Reach`, which also covers every order in
  which `publish()` may iterate its map):

  * `published_complete` (I1), `private_state` + `in_progress_private` (I2);
  * `use_never_sees_incomplete`, `error_publishes_nothing`;
  * `old_protocol_counterexample`: the protocol before the repair violates (I1)
    and lets a goroutine read a half-built struct codec;
  * `new_protocol_example`: non-vacuity;
  * `registry_shape`, `result_shape`, `result_agrees_with_sequential`: every
    returned codec unfolds, to every depth, to the unfolding of the type graph,
    hence to the same tree as the codec a goroutine running alone gets;
    `results_are_requests` ties the recorded call types to the requests.

  * `trace_replay_reach`, `trace_replay_sound`: a trace of shared-registry
    accesses recorded from the real implementation that `Registry.conform` can
    follow is an execution of this transition system, so (I1), the absence of
    faults and the shape of every result hold of the model states the real run
    went through (this is the statement behind the `regtrace` correspondence op).

  Not proved (see the end of the file): agreement of the outcome (error or
  codec) with the sequential run, termination.  Marshal/Unmarshal themselves
  are not modelled beyond the walk `use`; "no data races" is covered only in
  the form "no goroutine ever reads a struct codec node another goroutine may
  still write" (I2 privacy + I1), not as a happens-before analysis.
-/
namespace C07
open Registry

variable {g : Nat → TNode} {reqs : List (List Nat)} {d : Nat} {s : State}

/-- the invariant of Proofs/Registry.lean holds in every reachable state. -/
theorem inv (hr : Reach (init g reqs d) s) : Inv s := reach_inv (inv_init g reqs d) hr

/-- (I1) every codec node reachable (through pointer / slice / map / struct-field
edges) from an entry of the shared registry exists and is a complete struct
node or a non-struct node. -/
theorem published_complete (hr : Reach (init g reqs d) s) :
    ∀ ty c, (ty, c) ∈ s.registry → ∀ x, RF s.heap c x →
      x < s.heap.length ∧ okAt s.heap x = true := by
  intro ty c hc x hx
  have := (inv hr).reg _ hc x hx
  exact ⟨this.1, this.2.resolve_right (by simp)⟩

/-- (I2) everything reachable from what goroutine `i` holds privately (pending
entries of its overlays, partially built nodes, local variables) is complete or
is one of the struct nodes in progress on `i`'s OWN stack; those are incomplete
and pairwise distinct. -/
theorem private_state (hr : Reach (init g reqs d) s) (i : Nat) :
    (∀ r, r ∈ stackRoots (s.threads i).stack → ∀ x, RF s.heap r x →
      x < s.heap.length ∧ (okAt s.heap x = true ∨ x ∈ inProg (s.threads i).stack)) ∧
    (∀ a, a ∈ inProg (s.threads i).stack → a < s.heap.length ∧ okAt s.heap a = false) ∧
    (inProg (s.threads i).stack).Nodup :=
  ⟨(inv hr).thr i |>.roots, (inv hr).thr i |>.prog, (inv hr).thr i |>.nodup⟩

/-- (I2, privacy) a struct node in progress on goroutine `i` is referenced neither
from the shared registry nor from anything another goroutine holds (stack,
overlays, returned codecs), nor from a codec already returned to `i`. -/
theorem in_progress_private (hr : Reach (init g reqs d) s) {i a : Nat}
    (ha : a ∈ inProg (s.threads i).stack) :
    (∀ ty c, (ty, c) ∈ s.registry → ¬ RF s.heap c a) ∧
    (∀ j, j ≠ i → ∀ r, r ∈ stackRoots (s.threads j).stack → ¬ RF s.heap r a) ∧
    (∀ j r, r ∈ (s.threads j).doneRoots → ¬ RF s.heap r a) := by
  have hi := inv hr
  have hn := (hi.thr i).prog a ha
  refine ⟨fun ty c hc hx => ?_, fun j hj r hr' hx => ?_, fun j r hr' hx => ?_⟩
  · have := (hi.reg _ hc a hx).2
    simp [hn.2] at this
  · rcases ((hi.thr j).roots r hr' a hx).2 with h1 | h1
    · simp [hn.2] at h1
    · exact hi.disj i j a (Ne.symm hj) ha h1
  · have := ((hi.thr j).done r hr' a hx).2
    simp [hn.2] at this

/-- a codec returned by a completed top-level call is complete everywhere
reachable — at the moment of the return and in every later state —, so the walk
over it (`use`, one node read per step, interleaved with everything else)
never reads an incomplete struct node. -/
theorem use_never_sees_incomplete (hr : Reach (init g reqs d) s) (i : Nat) :
    (∀ ty c, (ty, some c) ∈ (s.threads i).results → ∀ x, RF s.heap c x →
      x < s.heap.length ∧ okAt s.heap x = true) ∧
    (∀ e, e ∈ (s.threads i).useQ → okAt s.heap e.1 = true) ∧
    (s.threads i).fault = false := by
  have hi := (inv hr).thr i
  refine ⟨fun ty c hc x hx => ?_, fun e he => ?_, hi.nofault⟩
  · have hm : c ∈ (s.threads i).doneRoots := by
      simp only [Thread.doneRoots, List.mem_append, List.mem_filterMap]
      exact .inl ⟨_, hc, rfl⟩
    have := hi.done c hm x hx
    exact ⟨this.1, this.2.resolve_right (by simp)⟩
  · have hm : e.1 ∈ (s.threads i).doneRoots := by
      simp only [Thread.doneRoots, List.mem_append, List.mem_map]
      exact .inr ⟨e, he, rfl⟩
    exact (hi.done _ hm _ .root).2.resolve_right (by simp)

/-- a failed top-level call (a `bad` type anywhere below it) publishes nothing:
the step that fails leaves registry and heap untouched and drops the whole
stack with its overlays; (I1) still holds; and the abandoned half-built struct
nodes (they stay incomplete) are referenced neither from the shared registry
nor from anything any goroutine holds.  (The single-threaded symptom of the old
protocol was a cached wrapper around the abandoned codec.) -/
theorem error_publishes_nothing (hr : Reach (init g reqs d) s) {i : Nat} {s' : State}
    (hs : stepThread s i = some s')
    (hf : (s'.threads i).results = ((s.threads i).cur, none) :: (s.threads i).results) :
    s'.registry = s.registry ∧ s'.heap = s.heap ∧ (s'.threads i).stack = [] ∧
    (∀ ty c, (ty, c) ∈ s'.registry → ∀ x, RF s'.heap c x →
      x < s'.heap.length ∧ okAt s'.heap x = true) ∧
    (∀ a, a ∈ inProg (s.threads i).stack →
      okAt s'.heap a = false ∧
      (∀ ty c, (ty, c) ∈ s'.registry → ¬ RF s'.heap c a) ∧
      (∀ j r, r ∈ stackRoots (s'.threads j).stack ∨ r ∈ (s'.threads j).doneRoots →
        ¬ RF s'.heap r a)) := by
  have hr' : Reach (init g reqs d) s' := .step hr hs
  have hI1 := published_complete hr'
  unfold stepThread stepGen at hs
  cases hc : stepCore false s.graph s.useDepth s.registry s.heap (s.threads i) with
  | none => rw [hc] at hs; cases hs
  | some r =>
  obtain ⟨reg', h', t'⟩ := r
  rw [hc] at hs
  cases hs
  simp only [State.upd, ↓reduceIte] at hf hI1 ⊢
  obtain ⟨e1, e2, e3, e4, _⟩ := stepCore_fail hc hf
  subst e1 e2
  refine ⟨rfl, rfl, e3, hI1, ?_⟩
  intro a ha
  obtain ⟨p1, p2, p3⟩ := in_progress_private hr ha
  refine ⟨((inv hr).thr i |>.prog a ha).2, p1, ?_⟩
  intro j r hjr
  by_cases hji : j = i
  · rw [if_pos hji] at hjr
    rcases hjr with h1 | h1
    · rw [e3] at h1; cases h1
    · refine p3 i r ?_
      simp only [Thread.doneRoots, hf, e4, List.filterMap_cons] at h1 ⊢
      exact h1
  · rw [if_neg hji] at hjr
    rcases hjr with h1 | h1
    · exact p2 j hji r h1
    · exact p3 j r h1

/-! ### the protocol before the repair -/

/-- A = struct{*B}, B = struct{*A}: 0 = A, 1 = B, 2 = *B, 3 = *A. -/
def abGraph : Nat → TNode
  | 0 => .struct [2]
  | 1 => .struct [3]
  | 2 => .ptr 1
  | 3 => .ptr 0
  | _ => .bad

/-- goroutine 0 runs `CodecForType(A)` up to the `StoreOrSwap` of the `*A`
wrapper built inside B inside A (14 steps); then goroutine 1 runs
`CodecForType(*A)` and uses the result (5 steps). -/
def oldSchedule : List Nat := List.replicate 14 0 ++ List.replicate 5 1

/-- Under the old protocol (overlay `StoreOrSwap` writes through) that schedule
publishes `*A ↦ ptrC 0` while node 0 (A's codec) still has no fields and is
incomplete; goroutine 1 gets that codec from the shared registry as the result
of a successful call, walks it, and reads the incomplete node (`fault`).
Goroutine 0 has not failed or finished: its stack is still 4 frames deep. -/
theorem old_protocol_counterexample :
    ∃ s, runScheduleOld (init abGraph [[0], [3]]) oldSchedule = some s ∧
      s.registry = [(3, 2)] ∧
      s.heap = [.structC 0 [] false, .structC 1 [] false, .ptrC 0] ∧
      (s.threads 1).results = [(3, some 2)] ∧ (s.threads 1).fault = true ∧
      (s.threads 0).stack.length = 4 ∧
      (∃ ty c x, (ty, c) ∈ s.registry ∧ RF s.heap c x ∧ okAt s.heap x = false) := by
  have key : (runScheduleOld (init abGraph [[0], [3]]) oldSchedule).map
      (fun s => (s.registry, s.heap, (s.threads 1).results, (s.threads 1).fault,
        (s.threads 0).stack.length)) =
      some ([(3, 2)], [.structC 0 [] false, .structC 1 [] false, .ptrC 0], [(3, some 2)], true, 4) := by
    rfl
  cases hrun : runScheduleOld (init abGraph [[0], [3]]) oldSchedule with
  | none => rw [hrun] at key; cases key
  | some s =>
    rw [hrun] at key
    simp only [Option.map_some, Option.some.injEq, Prod.mk.injEq] at key
    obtain ⟨k1, k2, k3, k4, k5⟩ := key
    refine ⟨s, rfl, k1, k2, k3, k4, k5, 3, 2, 0, by rw [k1]; simp, ?_, by rw [k2]; rfl⟩
    rw [k2]
    exact .step .root (by decide)

/-! ### non-vacuity: the same race under the repaired protocol -/

/-- the two goroutines alternate steps (goroutine 1 first) until both are done. -/
def newSchedule : List Nat := (List.replicate 34 [1, 0]).flatten ++ [1, 1, 1, 1]

/-- Same graph, same two requests (`A` on goroutine 0, `*A` on goroutine 1),
strictly alternating steps: both goroutines build A and B at the same time (two
copies of each node), both calls return a codec, both walks finish without
fault, every node of the heap is complete at the end, and (I1) holds (checked
on the concrete state, and also a consequence of `published_complete`). -/
theorem new_protocol_example :
    ∃ s, runSchedule (init abGraph [[0], [3]]) newSchedule = some s ∧
      s.summary 2 =
        ([(3, 4), (1, 2), (2, 6), (0, 0)],
         [.structC 0 [6] true, .structC 0 [7] true, .structC 1 [4] true, .structC 1 [5] true,
          .ptrC 0, .ptrC 1, .ptrC 2, .ptrC 3, .ptrC 0],
         [([(0, some 0)], false, true), ([(3, some 4)], false, true)]) ∧
      s.heap.all CNode.ok = true ∧
      (∀ ty c, (ty, c) ∈ s.registry → ∀ x, RF s.heap c x →
        x < s.heap.length ∧ okAt s.heap x = true) := by
  have key : (runSchedule (init abGraph [[0], [3]]) newSchedule).map
      (fun s => (s.summary 2, s.heap.all CNode.ok)) =
      some (([(3, 4), (1, 2), (2, 6), (0, 0)],
         [.structC 0 [6] true, .structC 0 [7] true, .structC 1 [4] true, .structC 1 [5] true,
          .ptrC 0, .ptrC 1, .ptrC 2, .ptrC 3, .ptrC 0],
         [([(0, some 0)], false, true), ([(3, some 4)], false, true)]), true) := by
    rfl
  cases hrun : runSchedule (init abGraph [[0], [3]]) newSchedule with
  | none => rw [hrun] at key; cases key
  | some s =>
    rw [hrun] at key
    simp only [Option.map_some, Option.some.injEq, Prod.mk.injEq] at key
    exact ⟨s, rfl, key.1, key.2, published_complete (runSchedule_reach hrun)⟩

/-! ### results do not depend on the interleaving -/

/-- every codec in the shared registry has, to every depth, exactly the shape
of the type graph at its type (complete struct nodes with one field codec per
field type, in order). -/
theorem registry_shape (hr : Reach (init g reqs d) s) :
    ∀ ty c, (ty, c) ∈ s.registry → ∀ n, unfoldC s.heap n c = unfoldT g n ty := by
  intro ty c hm n
  have ht := (reach_tinv (inv_init g reqs d) (tinv_init g reqs d) hr).reg ty c hm n
  rw [show s.graph = g from reach_graph hr] at ht
  exact typed_unfold ht

/-- the codec a goroutine gets back for type `τ` unfolds, to every depth `n`, to
the unfolding of the type graph at `τ` — whatever the other goroutines did. -/
theorem result_shape (hr : Reach (init g reqs d) s) {i τ c : Nat}
    (h : (τ, some c) ∈ (s.threads i).results) (n : Nat) :
    unfoldC s.heap n c = unfoldT g n τ := by
  have ht := (reach_tinv (inv_init g reqs d) (tinv_init g reqs d) hr).thr i |>.res τ c h n
  rw [show s.graph = g from reach_graph hr] at ht
  exact typed_unfold ht

/-- the call types recorded with the results are the goroutine's requests, in
order: finished calls ++ call in progress ++ calls still to make = `reqs[i]`. -/
theorem results_are_requests (hr : Reach (init g reqs d) s) (i : Nat) :
    (s.threads i).results.reverse.map (·.1) ++
      (if (s.threads i).stack.isEmpty then [] else [(s.threads i).cur]) ++
      (s.threads i).requests = (reqs[i]?).getD [] := reach_hist hr i

/-- `result_agrees_with_sequential`: take ANY two runs on the same type graph —
in particular `s` reached by many goroutines racing and `s'` reached by a single
goroutine running `CodecForType(τ)` alone on a fresh instance (`reqs' = [[τ]]`).
If both calls for `τ` returned a codec, the two codecs unfold to the same tree
to every depth `n`. -/
theorem result_agrees_with_sequential {reqs' : List (List Nat)} {d' : Nat} {s' : State}
    (hr : Reach (init g reqs d) s) (hr' : Reach (init g reqs' d') s') {i j τ c c' : Nat}
    (h : (τ, some c) ∈ (s.threads i).results) (h' : (τ, some c') ∈ (s'.threads j).results)
    (n : Nat) : unfoldC s.heap n c = unfoldC s'.heap n c' := by
  rw [result_shape hr h, result_shape hr' h']

/-- non-vacuity for the sequential side: goroutine 0 alone, `CodecForType(*A)`,
38 steps (build, return, walk), returns the codec at address 2. -/
example : (runSchedule (init abGraph [[3]]) (List.replicate 38 0)).map
    (fun s => ((s.threads 0).results, unfoldC s.heap 4 2)) =
    some ([(3, some 2)], .ptr (.struct 0 [.ptr (.struct 1 [.cut])])) := by
  rfl

/-! ### outcomes -/

mutual
/-- does the unfolding mention a type no codec exists for? -/
def _root_.Registry.Tree.hasBad : Tree → Bool
  | .bad => true
  | .ptr t | .slice t => t.hasBad
  | .map k v => k.hasBad || v.hasBad
  | .struct _ fs => hasBadL fs
  | _ => false
def _root_.Registry.hasBadL : List Tree → Bool
  | [] => false
  | t :: r => t.hasBad || hasBadL r
end

theorem hasBadL_map_false {α} (f : α → Tree) (l : List α) (h : ∀ a ∈ l, (f a).hasBad = false) :
    hasBadL (l.map f) = false := by
  induction l with
  | nil => rfl
  | cons a r ih =>
    simp only [List.map_cons, hasBadL, Bool.or_eq_false_iff]
    exact ⟨h a (by simp), ih fun b hb => h b (by simp [hb])⟩

/-- a codec never unfolds to `bad`. -/
theorem unfoldC_noBad (h : Heap) : ∀ (n c : Nat), (unfoldC h n c).hasBad = false := by
  intro n
  induction n with
  | zero => intro c; rfl
  | succ n ih =>
    intro c
    unfold unfoldC
    split <;> simp only [Tree.hasBad, ih, Bool.or_self]
    exact hasBadL_map_false _ _ fun a _ => ih a

/-- One direction of "the outcome agrees with the sequential run": a call for `τ`
can only SUCCEED — under any interleaving — if no type without a codec is
reachable from `τ` in the type graph, to any depth; so whenever the sequential
call fails because such a type is reachable, every concurrent call fails too,
whatever the other goroutines have built or cached meanwhile. -/
theorem success_means_no_bad (hr : Reach (init g reqs d) s) {i τ c : Nat}
    (h : (τ, some c) ∈ (s.threads i).results) (n : Nat) : (unfoldT g n τ).hasBad = false := by
  rw [← result_shape hr h n]
  exact unfoldC_noBad s.heap n c

/-- … and nothing published in the shared registry is for a type from which a
type without a codec is reachable. -/
theorem registry_no_bad (hr : Reach (init g reqs d) s) {ty c : Nat} (h : (ty, c) ∈ s.registry) (n : Nat) :
    (unfoldT g n ty).hasBad = false := by
  rw [← registry_shape hr ty c h n]
  exact unfoldC_noBad s.heap n c

/-! ### recorded traces -/

/-- a recorded trace that the model follows is an execution of the protocol. -/
theorem trace_replay_reach {nodes : List TNode} {pre : List Nat} {rq : List (List Nat)}
    {fuel : Nat} {evs : List (Nat × Ev)} {s' : State} (n : Nat)
    (h : conform fuel (startState nodes pre rq fuel) evs 0 = .ok s') :
    Reach (init (graphOf nodes) (pre :: rq)) (finish fuel s' n) :=
  replay_reach n h

/-- … hence everything above holds at the end of the replay (and, by the same
argument, after every prefix of the trace): the shared registry only holds
complete codecs, no goroutine has read an incomplete node, and every codec
returned for a type unfolds to that type. -/
theorem trace_replay_sound {nodes : List TNode} {pre : List Nat} {rq : List (List Nat)}
    {fuel : Nat} {evs : List (Nat × Ev)} {s' : State} (n : Nat)
    (h : conform fuel (startState nodes pre rq fuel) evs 0 = .ok s') :
    let sf := finish fuel s' n
    (∀ ty c, (ty, c) ∈ sf.registry → ∀ x, RF sf.heap c x → x < sf.heap.length ∧ okAt sf.heap x = true) ∧
    (∀ i, (sf.threads i).fault = false) ∧
    (∀ i τ c, (τ, some c) ∈ (sf.threads i).results →
      ∀ m, unfoldC sf.heap m c = unfoldT (graphOf nodes) m τ) := by
  intro sf
  have hr : Reach (init (graphOf nodes) (pre :: rq)) sf := replay_reach n h
  exact ⟨published_complete hr, fun i => (use_never_sees_incomplete hr i).2.2,
    fun i τ c hc m => result_shape hr hc m⟩

/-- each recorded event is performed as the model's own next shared access of
that goroutine (after the Go map iteration order of `publish()` is fixed). -/
theorem trace_event_is_model_step {fuel : Nat} {s s' : State} {i : Nat} {e : Ev}
    (h : doEvent fuel s i e = .ok s') :
    sharedNext ((reorderFor (advance fuel s i) i e).threads i) = some e ∧
    stepThread (reorderFor (advance fuel s i) i e) i = some s' :=
  doEvent_event h

/-- non-vacuity: the mutually recursive pair `A{*B}`, `B{*A}` (types 0, 1; `*B`
= 2, `*A` = 3), goroutine 1 asks for `A`, goroutine 2 for `*A`; the trace below
(goroutine 2 looks `*A` and `A` up while goroutine 1 is in the middle of
building `A`, and builds its own copy; goroutine 1's `publish()` hands over `*B`
before `B`, not in insertion order) is followed to the end; all four types end
up in the shared registry. -/
example :
    (match conform 1000 (startState [.struct [2], .struct [3], .ptr 1, .ptr 0] [] [[0], [3]] 1000)
        [(1, .load 0), (1, .load 2), (2, .load 3), (2, .load 0), (1, .load 1), (2, .load 2),
         (2, .load 1), (1, .load 3), (1, .store 3), (2, .load 3), (1, .store 2), (2, .store 1),
         (1, .store 1), (2, .store 2), (2, .store 0), (2, .store 3), (1, .store 0)] 0 with
     | .ok s => some ((finish 1000 s 3).keys, ((finish 1000 s 3).threads 1).results.map (·.2.isSome),
                      ((finish 1000 s 3).threads 2).results.map (·.2.isSome))
     | .error _ => none) = some ([3, 2, 1, 0], [true], [true]) := by
  decide +kernel

/-
  NOT PROVED:
  * termination of the construction: the outcome of every FINISHED call is
    characterised (Props/C07Outcome.lean), that a call returns at all is not claimed.
  * Marshal / Unmarshal themselves are not modelled beyond the walk `use`.
-/

end C07
