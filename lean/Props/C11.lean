import Proofs.Alias
import Proofs.Intern
/-
  C11 — No aliasing: inputs are never modified and outputs never share memory
  with them.  Marshal does not modify the value it is given nor any byte of the
  destination buffer below its length, and the bytes it returns do not share
  memory with the value.  Unmarshal does not modify the input bytes, and the
  decoded value shares no memory with them: overwriting or re-using the input
  buffer after Unmarshal returns never changes any decoded string, byte slice,
  map key or interned string.

  Property theorems only.  Model: Plenc/Alias.lean; helper lemmas: Proofs/Alias.lean.

  PARTIAL: SHARING OF MEMORY IS A RUNTIME FACT THAT THE LABELS ONLY REPRESENT.
  In the value model (`Val`) a string is a list of bytes and cannot alias
  anything.  `Alias.LVal` adds to every string / byte slice (map keys included)
  a label `fresh | view off len`; the labelled decoder `readLP pol` is the model
  decoder with offsets threaded through and one label decision per leaf reader,
  taken from the policy `pol`.  `goPolicy` (all `fresh`) is the classification of
  the copy sites of the Go source (`string(data)`, `append([]byte(nil), data...)`,
  the intern table's `string(data)`), listed in the header of Plenc/Alias.lean.
  What is PROVED: the labelled decoder is the model decoder (`erase_readL`, for
  every policy); under `goPolicy` no `view` label can appear anywhere in a
  decoded value — not through containers, priors, map slots, zero values or
  keys kept by `mapassign` (`decoded_all_fresh`); hence what a reader observes
  is independent of the later contents of the input buffer
  (`input_overwrite_invisible`); and the statement is not vacuous: the same
  decoder under a zero-copy `StringCodec.Read` policy yields `view` labels with
  the right offsets and an observable change (`zero_copy_counterexample`).
  What is NOT proved here: that the Go expressions at the leaf readers copy.
  That is validated by the correspondence harness (op `alias`): decode, overwrite
  the input buffer with a pattern, re-read every string / []byte / map key;
  marshal into a buffer with spare capacity, mutate the value, compare the
  output and the value / prefix snapshots.  The model predicts "unchanged".

  The encoder-side statements (`marshal_preserves_prefix`, `marshal_output_fresh`,
  `marshal_pure`, `unmarshal_input_unchanged`) are true BY CONSTRUCTION of a
  model in which `Marshal` is a function returning `buf ++ bytes` and values and
  buffers are immutable arguments; their content is the reading of the source
  recorded next to `marshalInto` ("every `Append` only appends copies").
-/
namespace C11
open Alias

/-! ### Unmarshal -/

/-- **the labelled decoder refines the model decoder**: same outcome (ok / error),
same value once the labels are erased, same consumed count — for every prior
value and every offset. -/
theorem erase_readL (t : Ty) (wt : WT) (base : Nat) (d : Bytes) (lp : LVal) :
    Res.mapFst erase (readL t wt base d lp) = t.read wt d (erase lp) :=
  erase_readLP goPolicy t wt base d lp

/-- … and so does the same decoder under ANY leaf policy (in particular the
zero-copy one of the counterexample): the labels do not influence decoding. -/
theorem erase_readLP (pol : Policy) (t : Ty) (wt : WT) (base : Nat) (d : Bytes) (lp : LVal) :
    Res.mapFst erase (readLP pol t wt base d lp) = t.read wt d (erase lp) :=
  Alias.erase_readLP pol t wt base d lp

/-- top level. -/
theorem erase_unmarshalL (t : Ty) (d : Bytes) (lp : LVal) :
    Res.map erase (unmarshalL t d lp) = unmarshal t d (erase lp) :=
  erase_unmarshalLP goPolicy t d lp

/-- **the decoded value is all fresh**: decoding into a target that shares no
memory with the input buffer yields a value none of whose strings, byte slices
or map keys shares memory with it. -/
theorem decoded_all_fresh (t : Ty) (wt : WT) (base : Nat) (d : Bytes) (lp : LVal) (hlp : allFresh lp)
    (lv : LVal) (n : Nat) (e : readL t wt base d lp = .ok (lv, n)) : allFresh lv :=
  readLP_labels goPolicy (· = .fresh) rfl goPolicy_within_fresh t wt base d lp hlp lv n e

theorem unmarshal_all_fresh (t : Ty) (d : Bytes) (lp : LVal) (hlp : allFresh lp)
    (lv : LVal) (e : unmarshalL t d lp = .ok lv) : allFresh lv :=
  unmarshalLP_labels goPolicy (· = .fresh) rfl goPolicy_within_fresh t d lp hlp lv e

/-- the usual targets: a zero value, or any value the caller built itself. -/
theorem zero_prior_fresh (v : Val) : allFresh (lift v) := allQ_lift (· = .fresh) rfl v

/-- more generally the decoder never invents a label: whatever property the
policy's labels, `fresh` and the prior's labels have, the result's labels have. -/
theorem decoded_labels (pol : Policy) (Q : Prov → Prop) (hQ : Q .fresh) (hp : pol.within Q)
    (t : Ty) (wt : WT) (base : Nat) (d : Bytes) (lp : LVal) (hlp : allQ Q lp) (lv : LVal) (n : Nat)
    (e : readLP pol t wt base d lp = .ok (lv, n)) : allQ Q lv :=
  readLP_labels pol Q hQ hp t wt base d lp hlp lv n e

/-- an all-fresh value reads the same whatever the input buffer holds. -/
theorem observe_of_fresh (buf : Bytes) (lv : LVal) (h : allFresh lv) : observe buf lv = erase lv :=
  observe_fresh buf lv h

/-- **overwriting the input is invisible**: after `Unmarshal(buf, &target)`
returned `lv`, whatever the buffer holds later (`buf'`: overwritten, re-used,
truncated, grown), every string, byte slice and map key of the decoded value
reads exactly as it did — namely as the value the model decoder returned. -/
theorem input_overwrite_invisible (t : Ty) (buf : Bytes) (lp : LVal) (hlp : allFresh lp)
    (lv : LVal) (e : unmarshalL t buf lp = .ok lv) (buf' : Bytes) :
    observe buf' lv = observe buf lv ∧ .ok (observe buf' lv) = unmarshal t buf (erase lp) := by
  have hf := unmarshal_all_fresh t buf lp hlp lv e
  refine ⟨by rw [observe_fresh buf' lv hf, observe_fresh buf lv hf], ?_⟩
  rw [observe_fresh buf' lv hf, ← erase_unmarshalL, e]; rfl

/-- the same for any sub-decode at any offset. -/
theorem input_overwrite_invisible_at (t : Ty) (wt : WT) (base : Nat) (d : Bytes) (lp : LVal)
    (hlp : allFresh lp) (lv : LVal) (n : Nat) (e : readL t wt base d lp = .ok (lv, n))
    (buf buf' : Bytes) : observe buf' lv = observe buf lv := by
  have hf := decoded_all_fresh t wt base d lp hlp lv n e
  rw [observe_fresh buf' lv hf, observe_fresh buf lv hf]

/-- `Unmarshal` does not modify the input bytes (by construction: the buffer is an
immutable argument of the model; no `Read` method stores through `data`). -/
theorem unmarshal_input_unchanged (t : Ty) (d : Bytes) (lp : LVal) : (unmarshalCall t d lp).2 = d := rfl

/-- the `fresh` label of the interning reader is what the intern machine of C19
(Plenc/Intern.lean) produces: from every table satisfying its invariant, the
string handed out is a private allocation holding the requested bytes. -/
theorem intern_label_justified (tbl : Intern.Table) (h : Intern.Inv tbl) (d : Bytes) :
    (∃ id, (Intern.internRead tbl d).1.prov = .fresh id) ∧ (Intern.internRead tbl d).1.bytes = d ∧
    ∀ buf, (Intern.internRead tbl d).1.observe buf = d := by
  obtain ⟨h1, _, h3⟩ := Intern.internRead_spec h d
  obtain ⟨id, hid⟩ := h1.fresh h3
  have hb := h1.val_eq_key d _ h3
  exact ⟨⟨id, hid⟩, hb, fun buf => by rw [Intern.observe_fresh hid buf, hb]⟩

/-! ### the labels are not vacuous -/

/-- a struct with a string, a byte slice, a string-keyed map and a slice of strings. -/
def exTy : Ty :=
  .struct "S" [(1, "A", .str false), (2, "B", .bytes), (3, "M", .map (.str false) (.int 64) false),
    (4, "L", .lslice (.str false))]

/-- the encoding of `{A: "hi", B: {1,2}, M: {"k": 3}, L: {"xy", "z"}}`. -/
def exBuf : Bytes := [10, 2, 104, 105, 18, 2, 1, 2, 27, 1, 5, 10, 1, 107, 16, 6, 35, 2, 2, 120, 121, 1, 122]

/-- the caller re-uses its read buffer. -/
def exBuf' : Bytes := exBuf.map fun _ => 0

/-- the first string field of a struct value (to tell two values apart). -/
def firstStr : Val → Bytes
  | .struct (.str s :: _) => s
  | _ => []

/-- what the Go decoder yields: every leaf `fresh`. -/
theorem go_decoder_example :
    unmarshalL exTy exBuf (lift exTy.zero) = .ok (.struct [.str [104, 105] .fresh, .bytes [1, 2] .fresh,
      .map (some [(.str [107] .fresh, .int 3)]), .slice [.str [120, 121] .fresh, .str [122] .fresh]]) := by
  rfl

/-- **counterexample**: with a hypothetical zero-copy `StringCodec.Read`
(`unsafe.String(&data[0], len(data))`) the same decoder returns `view` labels —
at the offsets where the strings sit in the buffer — `decoded_all_fresh` FAILS,
and so does `input_overwrite_invisible`: the value reads correctly while the
buffer is intact and changes (field, map key and slice elements) once the buffer
is re-used. The byte slice, still copied, does not change. -/
theorem zero_copy_counterexample :
    ∃ lv, unmarshalLP zeroCopyStrings exTy exBuf (lift exTy.zero) = .ok lv ∧
      lv = .struct [.str [104, 105] (.view 2 2), .bytes [1, 2] .fresh,
        .map (some [(.str [107] (.view 13 1), .int 3)]),
        .slice [.str [120, 121] (.view 19 2), .str [122] (.view 22 1)]] ∧
      ¬ allFresh lv ∧
      observe exBuf lv = erase lv ∧
      observe exBuf' lv = .struct [.str [0, 0], .bytes [1, 2], .map (some [(.str [0], .int 3)]),
        .slice [.str [0, 0], .str [0]]] ∧
      observe exBuf' lv ≠ observe exBuf lv := by
  refine ⟨.struct [.str [104, 105] (.view 2 2), .bytes [1, 2] .fresh,
        .map (some [(.str [107] (.view 13 1), .int 3)]),
        .slice [.str [120, 121] (.view 19 2), .str [122] (.view 22 1)]], rfl, rfl, ?_, rfl, rfl, ?_⟩
  · simp [allFresh, allQ, allQL]
  · intro h
    have h' := congrArg firstStr h
    revert h'
    decide

/-! ### Marshal — by construction of the model -/

/-- `Marshal(buf, v)` does not modify any byte of the destination below its length. -/
theorem marshal_preserves_prefix (buf : Bytes) (t : Ty) (v : Val) :
    (marshalInto buf t v).take buf.length = buf := by
  simp [marshalInto]

/-- … it only appends, and what it appends does not depend on the destination. -/
theorem marshal_appends (buf : Bytes) (t : Ty) (v : Val) :
    (marshalInto buf t v).drop buf.length = marshal t v ∧ marshalInto [] t v = marshal t v := by
  simp [marshalInto]

/-- the returned bytes do not share memory with the value (label `fresh` by
construction: every `Append` copies the bytes of strings / byte slices into the
destination). Consequently mutating the value afterwards cannot change them:
the bytes are a function of the value AT THE TIME OF THE CALL. -/
theorem marshal_output_fresh (buf : Bytes) (t : Ty) (v : LVal) :
    (marshalL buf t v).2 = .fresh ∧ (marshalL buf t v).1 = marshalInto buf t (erase v) := ⟨rfl, rfl⟩

/-- the value is not modified (an immutable argument of the model), whatever its
own labels are — a value decoded earlier included. -/
theorem marshal_pure (buf : Bytes) (t : Ty) (v : LVal) : (marshalCall buf t v).2 = v := rfl

/-- the labels of the value play no role in the encoding. -/
theorem marshal_ignores_labels (buf : Bytes) (t : Ty) (v w : LVal) (h : erase v = erase w) :
    (marshalCall buf t v).1 = (marshalCall buf t w).1 := by
  simp [marshalCall, h]

end C11
