import Plenc.Descriptor
import Plenc.Typing
import Plenc.Build
/-
  C14 — The Descriptor mirrors the type definition exactly.

  `descriptor : Ty → Desc` (Plenc/Descriptor.lean) is one arm per codec's
  `Descriptor()` method. The theorems here are over *all* codec trees `Ty` (no
  well-formedness hypothesis is needed): one element per encoded field, in
  declaration order, with the field's index and name; the struct's type name;
  a field type that determines the wire type class; the explicit-presence flag;
  the map / map-entry / timestamp logical types; recursion through pointers,
  slices and maps. `build_fields_mirror` ties the field list of a struct codec
  to the user's definition (Plenc/Build.lean): unexported and `plenc:"-"` fields
  are absent, the name is the json tag name when there is one, otherwise the Go
  field name. Property theorems only.

  Recursive Go types have no descriptor (finding D20: `Descriptor()` does not
  return); `Ty` is a finite tree, so the theorems are about non-recursive types.
-/
namespace C14

/-! ### struct: one element per encoded field, in declaration order -/

/-- the elements of a struct descriptor are exactly the field codecs'
descriptors carrying the field's index and name, in declaration order. -/
theorem descriptor_field_elems (n : String) (fs : Fields) :
    (descriptor (.struct n fs)).elements
      = fs.map (fun f => { descriptor f.2.2 with index := f.1, name := f.2.1 }) := by
  simp only [descriptor]
  induction fs with
  | nil => rfl
  | cons f r ih =>
    obtain ⟨i, nm, t⟩ := f
    simp only [fieldDescs, List.map_cons, ih]

/-- one element per encoded field, in declaration order, carrying that field's
plenc index and name — and nothing else. -/
theorem descriptor_fields (n : String) (fs : Fields) :
    (descriptor (.struct n fs)).elements.map (fun e => (e.index, e.name))
      = fs.map (fun f => (f.1, f.2.1)) := by
  rw [descriptor_field_elems, List.map_map]
  rfl

theorem descriptor_fields_length (n : String) (fs : Fields) :
    (descriptor (.struct n fs)).elements.length = fs.length := by
  rw [descriptor_field_elems, List.length_map]

theorem descriptor_struct_typeName (n : String) (fs : Fields) :
    (descriptor (.struct n fs)).typeName = n := rfl

theorem descriptor_struct_type (n : String) (fs : Fields) :
    (descriptor (.struct n fs)).type = .struct := rfl

/-- setting the index and name keeps everything else of the field's descriptor. -/
theorem descriptor_field_rest (n : String) (fs : Fields) (e : Desc)
    (he : e ∈ (descriptor (.struct n fs)).elements) :
    ∃ f ∈ fs, e.index = f.1 ∧ e.name = f.2.1 ∧ e.type = (descriptor f.2.2).type
      ∧ e.typeName = (descriptor f.2.2).typeName ∧ e.elements = (descriptor f.2.2).elements
      ∧ e.explicitPresence = (descriptor f.2.2).explicitPresence
      ∧ e.logicalType = (descriptor f.2.2).logicalType := by
  rw [descriptor_field_elems] at he
  obtain ⟨f, hf, rfl⟩ := List.mem_map.mp he
  exact ⟨f, hf, rfl, rfl, rfl, rfl, rfl, rfl, rfl⟩

/-! ### the field type determines the wire type class -/

/-- the wire types a field type can be encoded with. Only `Slice` has two:
packed (`WTLength`) for varint / fixed elements and the protobuf repeated forms,
counted (`WTSlice`) for length-delimited elements and plenc maps. -/
def wireClass : FieldType → List WT
  | .int | .uint | .flatInt | .bool => [.varint]
  | .float32 => [.w32]
  | .float64 => [.w64]
  | .string | .time | .struct => [.len]
  | .slice => [.len, .slice]
  | .jsonObject | .jsonArray => [.slice]

theorem descriptor_type_matches_wire : (t : Ty) → t.wt ∈ wireClass (descriptor t).type
  | .bool | .int _ | .uint _ | .flat _ | .f32 | .f64 | .str _ | .bytes | .time _ => by
      simp [descriptor, Ty.wt, wireClass]
  | .ptr t => by
      have := descriptor_type_matches_wire t
      simpa [descriptor, Ty.wt] using this
  | .vslice _ | .fslice _ | .lslice _ | .pslice _ | .struct _ _ => by
      simp [descriptor, Ty.wt, wireClass]
  | .map _ _ p => by cases p <;> simp [descriptor, mapDesc, Ty.wt, wireClass]

/-- conversely the wire type determines the class of field types. -/
def typeClass : WT → List FieldType
  | .varint => [.int, .uint, .flatInt, .bool]
  | .w32 => [.float32]
  | .w64 => [.float64]
  | .len => [.string, .time, .struct, .slice]
  | .slice => [.slice]
  | _ => []

theorem descriptor_type_of_wire : (t : Ty) → (descriptor t).type ∈ typeClass t.wt
  | .bool | .int _ | .uint _ | .flat _ | .f32 | .f64 | .str _ | .bytes | .time _ => by
      simp [descriptor, Ty.wt, typeClass]
  | .ptr t => by
      have := descriptor_type_of_wire t
      simpa [descriptor, Ty.wt] using this
  | .vslice _ | .fslice _ | .lslice _ | .pslice _ | .struct _ _ => by
      simp [descriptor, Ty.wt, typeClass]
  | .map _ _ p => by cases p <;> simp [descriptor, mapDesc, Ty.wt, typeClass]

/-- the field type as a function of the codec behind any pointers. -/
def fieldTypeOf : Ty → FieldType
  | .bool => .bool | .int _ => .int | .uint _ => .uint | .flat _ => .flatInt
  | .f32 => .float32 | .f64 => .float64 | .str _ => .string | .bytes => .string
  | .time _ => .time | .ptr t => fieldTypeOf t
  | .vslice _ | .fslice _ | .lslice _ | .pslice _ | .map _ _ _ => .slice
  | .struct _ _ => .struct

theorem descriptor_type : (t : Ty) → (descriptor t).type = fieldTypeOf t
  | .ptr t => by
      have := descriptor_type t
      simpa [descriptor, fieldTypeOf] using this
  | .map _ _ _ => by simp [descriptor, mapDesc, fieldTypeOf]
  | .bool | .int _ | .uint _ | .flat _ | .f32 | .f64 | .str _ | .bytes | .time _
  | .vslice _ | .fslice _ | .lslice _ | .pslice _ | .struct _ _ => by
      simp [descriptor, fieldTypeOf]

/-- no codec of the modelled set reports a JSON object / array field type
(those belong to `JSONMapCodec` / `JSONArrayCodec`, registered by hand). -/
theorem descriptor_not_json (t : Ty) :
    (descriptor t).type ≠ .jsonObject ∧ (descriptor t).type ≠ .jsonArray := by
  have h := descriptor_type_of_wire t
  generalize (descriptor t).type = ft at h
  cases ft <;> simp at * <;> (cases hw : t.wt <;> simp [hw, typeClass] at h)

/-! ### explicit presence -/

theorem descriptor_presence : (t : Ty) → (descriptor t).explicitPresence = t.isPtr
  | .ptr _ => by simp [descriptor, Ty.isPtr]
  | .map _ _ _ => by simp [descriptor, mapDesc, Ty.isPtr]
  | .bool | .int _ | .uint _ | .flat _ | .f32 | .f64 | .str _ | .bytes | .time _
  | .vslice _ | .fslice _ | .lslice _ | .pslice _ | .struct _ _ => by
      simp [descriptor, Ty.isPtr]

/-! ### logical types -/

def logicalOf : Ty → LogicalType
  | .time _ => .timestamp
  | .map _ _ _ => .map
  | .ptr t => logicalOf t
  | _ => .none

theorem descriptor_logical : (t : Ty) → (descriptor t).logicalType = logicalOf t
  | .ptr t => by
      have := descriptor_logical t
      simpa [descriptor, logicalOf] using this
  | .map _ _ _ => by simp [descriptor, mapDesc, logicalOf]
  | .bool | .int _ | .uint _ | .flat _ | .f32 | .f64 | .str _ | .bytes | .time _
  | .vslice _ | .fslice _ | .lslice _ | .pslice _ | .struct _ _ => by
      simp [descriptor, logicalOf]

theorem descriptor_time (c : Bool) :
    descriptor (.time c) = { type := .time, logicalType := .timestamp } := rfl

/-- a map is a slice with logical type Map of one struct with logical type
MapEntry, whose two elements are the key (index 1, "key") and the value
(index 2, "value") descriptors; the entry is named `map_<k>_<v>`, each side
being its type name or, without one, `FieldType.String()` (the stale stringer:
`FieldType(9)`, `FieldType(10)`, `FieldType(11)` for the three newest). -/
theorem descriptor_map (k v : Ty) (p : Bool) :
    descriptor (.map k v p) =
      { type := .slice, logicalType := .map,
        elements := [
          { type := .struct, logicalType := .mapEntry,
            typeName := "map_"
              ++ (if (descriptor k).typeName = "" then (descriptor k).type.goString else (descriptor k).typeName)
              ++ "_"
              ++ (if (descriptor v).typeName = "" then (descriptor v).type.goString else (descriptor v).typeName),
            elements := [ { descriptor k with index := 1, name := "key" },
                          { descriptor v with index := 2, name := "value" } ] } ] } := rfl

theorem descriptor_map_entry (k v : Ty) (p : Bool) :
    ∃ e, (descriptor (.map k v p)).elements = [e] ∧ e.type = .struct ∧ e.logicalType = .mapEntry
      ∧ e.explicitPresence = false
      ∧ e.elements.map (fun x => (x.index, x.name, x.type, x.explicitPresence))
          = [(1, "key", (descriptor k).type, k.isPtr), (2, "value", (descriptor v).type, v.isPtr)] := by
  refine ⟨_, rfl, rfl, rfl, rfl, ?_⟩
  simp [descriptor_presence]

/-! ### recursion through pointers and slices -/

theorem descriptor_ptr (t : Ty) :
    descriptor (.ptr t) = { descriptor t with explicitPresence := true } := rfl

theorem descriptor_vslice (t : Ty) :
    descriptor (.vslice t) = { type := .slice, elements := [descriptor t] } := rfl
theorem descriptor_fslice (t : Ty) :
    descriptor (.fslice t) = { type := .slice, elements := [descriptor t] } := rfl
theorem descriptor_lslice (t : Ty) :
    descriptor (.lslice t) = { type := .slice, elements := [descriptor t] } := rfl
theorem descriptor_pslice (t : Ty) :
    descriptor (.pslice t) = { type := .slice, elements := [descriptor t] } := rfl

/-- leaves have no elements, no type name. -/
theorem descriptor_leaf : (t : Ty) → fieldTypeOf t ≠ .slice ∧ fieldTypeOf t ≠ .struct →
    (descriptor t).elements = [] ∧ (descriptor t).typeName = ""
  | .ptr t => fun h => by
      simpa [descriptor] using descriptor_leaf t (by simpa [fieldTypeOf] using h)
  | .bool | .int _ | .uint _ | .flat _ | .f32 | .f64 | .str _ | .bytes | .time _ => fun _ => by
      simp [descriptor]
  | .vslice _ | .fslice _ | .lslice _ | .pslice _ | .struct _ _ | .map _ _ _ => fun h => by
      simp [fieldTypeOf] at h

/-- field-type and logical-type code points (the iota values). -/
theorem code_points :
    [FieldType.int, .uint, .float32, .float64, .string, .slice, .struct, .bool, .time,
      .jsonObject, .jsonArray, .flatInt].map FieldType.code = [0, 1, 2, 3, 4, 5, 6, 7, 8, 9, 10, 11]
    ∧ [LogicalType.none, .timestamp, .date, .time, .map, .mapEntry].map LogicalType.code
      = [0, 1, 2, 3, 4, 5] := by decide

/-! ### from the user's definition: skipped fields absent, the name rule -/

/-- a field of the definition reaches the codec: exported and not tagged `-`. -/
def encoded (fd : String × Bool × String × String × TyDef) : Bool :=
  fd.2.1 && fd.2.2.1 != "-"

/-- the field loop of `BuildStructCodec`: when it succeeds, the codec's fields
are the encoded fields of the definition, in declaration order, named by the
json tag name when there is one and by the Go field name otherwise. -/
theorem buildFields_names (cfg : Cfg) : ∀ (fds : FieldDefs) (cfs : Fields),
    buildFields cfg fds = .ok cfs →
    cfs.map (·.2.1) = (fds.filter encoded).map (fun fd => fieldName fd.1 fd.2.2.2.1)
  | [], cfs, h => by
      simp only [buildFields, Res.ok.injEq] at h
      subst h; rfl
  | (goName, exported, ptag, json, t) :: r, cfs, h => by
      simp only [buildFields] at h
      cases hx : exported with
      | false =>
        simp only [hx, Bool.not_false, ↓reduceIte] at h
        have ih := buildFields_names cfg r cfs h
        simpa [encoded, hx] using ih
      | true =>
        simp only [hx, Bool.not_true, Bool.false_eq_true, ↓reduceIte] at h
        by_cases h1 : (ptag == "") = true
        · simp [h1] at h
        · simp only [h1, Bool.false_eq_true, ↓reduceIte] at h
          by_cases h2 : (ptag == "-") = true
          · simp only [h2, ↓reduceIte] at h
            have ih := buildFields_names cfg r cfs h
            have : (ptag != "-") = false := by simp [bne, h2]
            simpa [encoded, hx, this] using ih
          · simp only [h2, Bool.false_eq_true, ↓reduceIte] at h
            have hne : (ptag != "-") = true := by simpa [bne] using h2
            split at h
            · exact absurd h (by simp)
            · rename_i idx _
              split at h
              · exact absurd h (by simp)
              · generalize build cfg t _ = rb at h
                cases rb with
                | ok c =>
                  simp only at h
                  cases hr : buildFields cfg r with
                  | ok cfs' =>
                    rw [hr] at h
                    simp only [Res.ok.injEq] at h
                    subst h
                    have ih := buildFields_names cfg r cfs' hr
                    simp [encoded, hne, ih]
                  | err => rw [hr] at h; simp at h
                  | panic => rw [hr] at h; simp at h
                  | hang => rw [hr] at h; simp at h
                | err => simp at h
                | panic => simp at h
                | hang => simp at h

/-- composed with `descriptor_fields`: the descriptor of a struct codec built
from a definition names exactly the encoded fields — unexported and skipped
fields do not appear, and nothing else does. -/
theorem build_fields_mirror (cfg : Cfg) (n : String) (fds : FieldDefs) (cfs : Fields)
    (h : buildFields cfg fds = .ok cfs) :
    (descriptor (.struct n cfs)).elements.map (·.name)
      = (fds.filter encoded).map (fun fd => fieldName fd.1 fd.2.2.2.1) := by
  rw [← buildFields_names cfg fds cfs h, descriptor_field_elems, List.map_map]
  rfl

/-- the same from `CodecForType` on a struct definition without a user
registration: the codec is a struct codec with the definition's type name, and
its descriptor lists exactly the encoded fields under the name rule. -/
theorem build_struct_mirror (cfg : Cfg) (name : String) (fds : FieldDefs) (tag : String) (c : Ty)
    (hc : customLoad cfg (.struct name fds) tag = none)
    (h : build cfg (.struct name fds) tag = .ok c) :
    (descriptor c).type = .struct ∧ (descriptor c).typeName = name ∧
    (descriptor c).elements.map (·.name)
      = (fds.filter encoded).map (fun fd => fieldName fd.1 fd.2.2.2.1) := by
  simp only [build, hc] at h
  split at h
  · exact absurd h (by simp)
  · cases hr : buildFields cfg fds with
    | ok cfs =>
      rw [hr] at h
      simp only at h
      split at h
      · exact absurd h (by simp)
      · simp only [Res.ok.injEq] at h
        subst h
        exact ⟨rfl, rfl, build_fields_mirror cfg name fds cfs hr⟩
    | err => rw [hr] at h; simp at h
    | panic => rw [hr] at h; simp at h
    | hang => rw [hr] at h; simp at h

/-! ### non-vacuity -/

def exTy : Ty :=
  .struct "S" [(1, "A", .int 64), (3, "name", .ptr (.str false)),
    (4, "D", .vslice (.ptr (.flat 32))), (7, "T", .time true),
    (8, "H", .map (.str false) (.lslice (.struct "T" [(1, "X", .uint 8)])) false),
    (9, "I", .map (.flat 8) .f32 true)]

example :
    descriptor exTy =
      { type := .struct, typeName := "S",
        elements := [
          { index := 1, name := "A", type := .int },
          { index := 3, name := "name", type := .string, explicitPresence := true },
          { index := 4, name := "D", type := .slice,
            elements := [{ type := .flatInt, explicitPresence := true }] },
          { index := 7, name := "T", type := .time, logicalType := .timestamp },
          { index := 8, name := "H", type := .slice, logicalType := .map,
            elements := [
              { type := .struct, logicalType := .mapEntry, typeName := "map_FieldTypeString_FieldTypeSlice",
                elements := [
                  { index := 1, name := "key", type := .string },
                  { index := 2, name := "value", type := .slice,
                    elements := [{ type := .struct, typeName := "T",
                                   elements := [{ index := 1, name := "X", type := .uint }] }] } ] } ] },
          { index := 9, name := "I", type := .slice, logicalType := .map,
            elements := [
              { type := .struct, logicalType := .mapEntry, typeName := "map_FieldType(11)_FieldTypeFloat32",
                elements := [
                  { index := 1, name := "key", type := .flatInt },
                  { index := 2, name := "value", type := .float32 } ] } ] } ] } := by
  rfl

example : (descriptor exTy).elements.map (fun e => (e.index, e.name))
    = [(1, "A"), (3, "name"), (4, "D"), (7, "T"), (8, "H"), (9, "I")] := by
  rw [exTy, descriptor_fields]; rfl

end C14
