import Props.C01
/-
  C09 — Explicit presence: nil/invalid stays absent, present zero values stay
  present. Corollaries of the round trip (C01.roundtrip) specialised to
  positions. null.Int/Bool/Float/String/Time are, at the value level, exactly
  pointers to their payload (Plenc/Build.lean `nullCodec`), so the pointer
  statements cover them; the Descriptor's explicit-presence flag is C14's
  `descriptor_presence`.
-/
namespace C09

/-- what a struct field of codec `t` holding `v` reads back as (the component of
`fieldsNorm` for that field). -/
def fieldBack (t : Ty) (v : Val) : Val := if v.omit then t.zero else t.norm v

theorem fieldsNorm_cons (i : Nat) (n : String) (t : Ty) (r : Fields) (v : Val) (vs : List Val) :
    fieldsNorm ((i, n, t) :: r) (v :: vs) = fieldBack t v :: fieldsNorm r vs := by
  simp [fieldsNorm, fieldBack]

/-- a pointer field: absent stays absent; present stays present with its
(normalised) value — even when that value is the zero value or encodes to zero bytes. -/
theorem presence_ptr_field (t : Ty) (o : Option Val) :
    fieldBack (.ptr t) (.ptr o) = .ptr (o.map t.norm) := by
  cases o <;> simp [fieldBack, Val.omit, Ty.zero, Ty.norm]

/-- the same at top level / map key / map value positions (`normPos`). -/
theorem presence_ptr_pos (t : Ty) (o : Option Val) :
    (Ty.ptr t).normPos (.ptr o) = .ptr (o.map t.norm) := by
  cases o <;> simp [Ty.normPos, Val.omit, Ty.zero, Ty.norm]

/-- a present pointer is never omitted, whatever it points to. -/
theorem present_never_omitted (v : Val) : (Val.ptr (some v)).omit = false := rfl

/-- pointer-valued map entries: the entry survives with its presence. -/
theorem presence_map_value (k t : Ty) (p : Bool) (key : Val) (o : Option Val) (rest : List (Val × Val)) :
    ∃ key' rest', (Ty.map k (.ptr t) p).norm (.map (some ((key, .ptr o) :: rest)))
      = .map (some ((key', .ptr (o.map t.norm)) :: rest')) := by
  cases o <;> simp [Ty.norm, Val.omit, Ty.zero]

/-- the end-to-end statement for a struct whose first field is a pointer (or a
null.X): after Marshal and Unmarshal into a fresh variable the field is nil iff
it was nil, and otherwise points to the normalised value. -/
theorem presence_roundtrip (name : String) (i : Nat) (fname : String) (t : Ty) (r : Fields)
    (o : Option Val) (vs : List Val)
    (hwf : (Ty.struct name ((i, fname, .ptr t) :: r)).wf)
    (hshape : Ty.rtShape false (Ty.struct name ((i, fname, .ptr t) :: r)))
    (hty : (Ty.struct name ((i, fname, .ptr t) :: r)).hasTy (.struct (.ptr o :: vs)))
    (hsz : (marshal (Ty.struct name ((i, fname, .ptr t) :: r)) (.struct (.ptr o :: vs))).length < 2 ^ 63) :
    unmarshal (Ty.struct name ((i, fname, .ptr t) :: r))
        (marshal (Ty.struct name ((i, fname, .ptr t) :: r)) (.struct (.ptr o :: vs)))
        (Ty.struct name ((i, fname, .ptr t) :: r)).zero
      = .ok (.struct (.ptr (o.map t.norm) :: fieldsNorm r vs)) := by
  have h := C01.roundtrip _ _ hwf hshape rfl hty hsz
  rw [h]
  simp only [Ty.normPos, Val.omit, Bool.false_eq_true, ↓reduceIte, Ty.norm, fieldsNorm_cons, presence_ptr_field]

/-- plain (non-pointer) positions have no presence: whatever is omitted reads
back as the zero value … -/
theorem plain_no_presence (t : Ty) (v : Val) (h : v.omit = true) : fieldBack t v = t.zero := by
  simp [fieldBack, h]

/-- … and for the plain scalar, string, bytes and time kinds "omitted" means
exactly "is the zero value" (floats: also -0.0, the documented normalisation). -/
theorem omit_iff_zero :
    (∀ b, (Val.bool b).omit = true ↔ Val.bool b = Ty.bool.zero) ∧
    (∀ w i, (Val.int i).omit = true ↔ Val.int i = (Ty.int w).zero) ∧
    (∀ w n, (Val.uint n).omit = true ↔ Val.uint n = (Ty.uint w).zero) ∧
    (∀ c s, (Val.str s).omit = true ↔ Val.str s = (Ty.str c).zero) ∧
    (∀ s, (Val.bytes s).omit = true ↔ Val.bytes s = Ty.bytes.zero) ∧
    (∀ c sec nsec, (Val.time sec nsec).omit = true ↔ Val.time sec nsec = (Ty.time c).zero) ∧
    (∀ bits, bits < 2 ^ 64 → ((Val.f64 bits).omit = true ↔ bits = 0 ∨ bits = 2 ^ 63)) := by
  refine ⟨?_, ?_, ?_, ?_, ?_, ?_, ?_⟩
  · intro b; cases b <;> simp [Val.omit, Ty.zero]
  · intro w i; simp [Val.omit, Ty.zero]
  · intro w n; simp [Val.omit, Ty.zero]
  · intro c s; cases s <;> simp [Val.omit, Ty.zero]
  · intro s; cases s <;> simp [Val.omit, Ty.zero]
  · intro c sec nsec; simp [Val.omit, Ty.zero, zeroTimeSec]
  · intro bits hb; simp only [Val.omit, beq_iff_eq]; omega

-- non-vacuity: a struct with a pointer to a zero int and a nil pointer
example : fieldBack (.ptr (.int 64)) (.ptr (some (.int 0))) = .ptr (some (.int 0))
    ∧ fieldBack (.ptr (.int 64)) (.ptr none) = .ptr none
    ∧ fieldBack (.int 64) (.int 0) = .int 0 := by
  simp [fieldBack, Val.omit, Ty.zero, Ty.norm]

end C09
