import Proofs.Total
import Proofs.Alloc
/-
  C04 — Decoding arbitrary bytes is total: value or error, never crash, hang or
  read outside the input.  Property theorems only; helper lemmas live in
  Proofs/Total.lean.

  `Res.fine r` means `r` is `ok _` or `err`: not `panic` (where the Go code would
  panic: slice bounds, nil dereference, integer divide by zero) and not `hang`
  (a loop combinator out of fuel: where the Go code would spin).
-/
namespace C04
open Total

/-- The zero value (`Codec.New()`, a fresh target) is a well-shaped prior. -/
theorem shape_zero (t : Ty) : Shape t t.zero := Total.shape_zero t

/-- `Codec.Read` on EVERY byte string, for every codec tree the builder accepts,
every wire type handed down by the caller and every well-shaped prior target:
a value or an error; at most `|d|` bytes reported consumed; the value decoded
is again a well-shaped target (so it can be decoded into again). -/
theorem read_total (t : Ty) (hwf : t.wf) : ∀ (wt : WT) (d : Bytes) (p : Val), Shape t p →
    (t.read wt d p).fine ∧ ∀ v n, t.read wt d p = .ok (v, n) → n ≤ d.length ∧ Shape t v :=
  Total.read_total t hwf

/-- the same under the only part of `wf` the proof uses: no
`WTFixedSliceWrapper` over an element codec of size zero. -/
theorem read_total_of_noDiv0 (t : Ty) (h : NoDiv0 t) : ∀ (wt : WT) (d : Bytes) (p : Val), Shape t p →
    (t.read wt d p).fine ∧ ∀ v n, t.read wt d p = .ok (v, n) → n ≤ d.length ∧ Shape t v :=
  Total.read_total_of_noDiv0 t h

/-- `plenc.Unmarshal(data, &fresh)` never panics and never hangs. -/
theorem unmarshal_total (t : Ty) (hwf : t.wf) (d : Bytes) : (unmarshal t d t.zero).fine :=
  Total.unmarshal_total t hwf d

/-- `plenc.Unmarshal(data, &target)` into a used target (e.g. the result of an
earlier `Unmarshal`), and the target stays usable. -/
theorem unmarshal_total_prior (t : Ty) (hwf : t.wf) (d : Bytes) (p : Val) (hp : Shape t p) :
    (unmarshal t d p).fine ∧ ∀ v, unmarshal t d p = .ok v → Shape t v :=
  Total.unmarshal_total_of_shape t hwf d p hp

/-- decoding twice into the same target is total as well. -/
theorem unmarshal_twice (t : Ty) (hwf : t.wf) (d₁ d₂ : Bytes) (v : Val)
    (h : unmarshal t d₁ t.zero = .ok v) : (unmarshal t d₂ v).fine :=
  (unmarshal_total_prior t hwf d₂ v
    ((unmarshal_total_prior t hwf d₁ t.zero (shape_zero t)).2 v h)).1

/-! ### the hypotheses are needed (for the model as written) -/

/-- without `wf`: a fixed-size packed slice over a pointer element divides by
`Size(nil) = 0`. The builder never produces this tree (`wf` for `.fslice` is
`t = .f32 ∨ t = .f64`). -/
example : (Ty.fslice (.ptr .f32)).read .len [] (.slice []) = .panic := by rfl

/-- without `Shape`: a struct prior with fewer values than fields has no slot to
read field 1 into. Go targets are typed memory, so this prior does not exist
there; the hypothesis only excludes ill-formed *model* values. -/
example : (Ty.struct "S" [(1, "a", .bool)]).read .len [8, 1] (.struct []) = .panic := by rfl

/-! ### non-vacuity -/

/-- a codec tree using every constructor. -/
def exTy : Ty :=
  .struct "S" [(1, "a", .int 64), (2, "b", .str false),
    (3, "c", .lslice (.struct "T" [(1, "x", .f64), (2, "y", .bool), (3, "z", .flat 64)])),
    (4, "m", .map (.str true) (.ptr (.uint 32)) false),
    (5, "t", .time false), (6, "v", .vslice (.int 32)), (7, "f", .fslice .f32),
    (8, "p", .pslice (.bytes)), (9, "pm", .map (.uint 64) (.time true) true)]

/-- the hypotheses of `unmarshal_total` hold for it, and both outcomes occur:
the theorem is neither vacuous nor trivially "always err". -/
example : exTy.wf ∧ Shape exTy exTy.zero
    ∧ (unmarshal exTy [0x08, 0x02, 0x12, 0x01, 0x41, 0x32, 0x02, 0x01, 0x03] exTy.zero).isOk = true
    ∧ (unmarshal exTy [0x08, 0x80] exTy.zero).isErr = true :=
  ⟨by simp [exTy, Ty.wf, fieldsWf, validWidth, Ty.wt, Ty.isMap, Ty.isProtoSlice], shape_zero _, by decide, by decide⟩

/-! ### stretch (a): steps bound -/

/-- at every loop-nesting level, the loop bodies of `structLoop` / `countVarints`
/ `readN` / `elemLoop` / `mapLoop` / `Skip` run at most `2·|d|` times in total
during `t.read wt d p` (and at most twice the bytes consumed when it succeeds).
The counter `Total.stepsAt` follows the run of the reader; the bound holds
because every iteration consumes a byte, not because of the fuel. -/
theorem steps_per_level (t : Ty) (hwf : t.wf) (lvl : Nat) (wt : WT) (d : Bytes) (p : Val)
    (hp : Shape t p) :
    stepsAt lvl t wt d p ≤ 2 * d.length ∧
    ∀ v n, t.read wt d p = .ok (v, n) → stepsAt lvl t wt d p ≤ 2 * n :=
  Total.stepsAt_le t hwf lvl wt d p hp

/-- no loop runs at a level beyond `loopDepth t`. -/
theorem steps_depth (t : Ty) (lvl : Nat) (h : loopDepth t ≤ lvl) (wt : WT) (d : Bytes) (p : Val) :
    stepsAt lvl t wt d p = 0 :=
  Total.stepsAt_deep t lvl h wt d p

/-- total work is linear in the input; the constant depends on the codec tree only. -/
theorem steps_total (t : Ty) (hwf : t.wf) (wt : WT) (d : Bytes) (p : Val) (hp : Shape t p) :
    steps t wt d p ≤ loopDepth t * (2 * d.length) :=
  Total.steps_le t hwf wt d p hp

/-- the counters are not trivially zero: 52 input bytes, 4 levels, 9 + 15 + 3 + 0
loop iterations. -/
example :
    let inp : Bytes := [0x08, 0x02, 0x12, 0x01, 0x41,
      0x1b, 0x02, 0x02, 0x10, 0x01, 0x04, 0x10, 0x01, 0x18, 0x05,
      0x23, 0x01, 0x05, 0x0a, 0x01, 0x41, 0x10, 0x07,
      0x2a, 0x04, 0x08, 0x02, 0x10, 0x04,
      0x32, 0x03, 0x01, 0x03, 0x05,
      0x3a, 0x08, 0, 0, 0, 0, 0, 0, 0, 0,
      0x42, 0x01, 0x09,
      0x53, 0x02, 0x01, 0x00, 0x00]
    (unmarshal exTy inp exTy.zero).isOk = true ∧ loopDepth exTy = 4 ∧
    (List.range 4).map (fun l => stepsAt l exTy .len inp exTy.zero) = [9, 15, 3, 0] := by
  decide

/-! ### what a counted container asks the allocator for

The allocation theorems below count what the decode CREATES. The implementation
also decides how much room to request before it has read anything: until fix
bbb7821 that was the count the data claims (bounded only by the bytes that
remain), and nested levels that each claim everything made the request quadratic
in the input length. It is now `entriesPresent body count` — the number of
entries whose length prefixes are really there. -/

/-- the capacity a counted slice / map / JSON array requests is at most the count
it was told and at most the number of bytes of its body. Tied to the code by the
`entriespresent` ops (the real function, through a verif hook, on hostile and
well-formed bodies). -/
theorem capacity_bounded (body : Bytes) (count : Nat) :
    entriesPresent body count ≤ count ∧ entriesPresent body count ≤ body.length :=
  ⟨entriesPresent_le_max body count, entriesPresent_le_len body count⟩

-- a body of one entry that covers everything, under a count that claims five: room for one
example : entriesPresent [4, 9, 9, 9, 9] 5 = 1 := by decide
-- three empty entries and a truncated fourth
example : entriesPresent [0, 0, 0, 7, 1] 10 = 3 := by decide

/-! ### stretch (b): allocation bound

`Total.allocAt lvl` counts what the decode creates at container-nesting depth
`lvl` of the target: slice elements (the full `count` of the counted readers, one
per call of the protobuf append readers), map entries, string / `[]byte` bytes,
pointees.  NOT covered (not expressible in the model): the capacity doubling of
the append readers (amortised ≤ 8 capacity slots per appended element from a nil
slice; proportional to the prior length when the target already holds a full
slice), and the copy-on-miss table of `InternedStringCodec`, which is not linear
(see the report). -/

/-- per nesting level of the value, the decode creates at most `2·|d| + 1` items
(`2·n + 1` for `n` bytes consumed). -/
theorem alloc_per_level (t : Ty) (hwf : t.wf) (lvl : Nat) (wt : WT) (d : Bytes) (p : Val)
    (hp : Shape t p) :
    allocAt lvl t wt d p ≤ 2 * d.length + 1 ∧
    ∀ v n, t.read wt d p = .ok (v, n) →
      allocAt lvl t wt d p ≤ 2 * n + 1 ∧ (1 ≤ n → allocAt lvl t wt d p ≤ 2 * n) :=
  Total.allocAt_le t hwf lvl wt d p hp

/-- nothing is created deeper than `allocDepth t`. -/
theorem alloc_depth (t : Ty) (lvl : Nat) (h : allocDepth t ≤ lvl) (wt : WT) (d : Bytes) (p : Val) :
    allocAt lvl t wt d p = 0 :=
  Total.allocAt_deep t lvl h wt d p

/-- `alloc ≤ K t · (|d| + 1)` with `K t = 2 · allocDepth t`: no decompression bomb. -/
theorem alloc_total (t : Ty) (hwf : t.wf) (wt : WT) (d : Bytes) (p : Val) (hp : Shape t p) :
    alloc t wt d p ≤ (2 * allocDepth t) * (d.length + 1) :=
  Total.alloc_le t hwf wt d p hp

/-- not trivially zero: on the 52-byte example, 10 items at depth 0 and 3 at depth 1. -/
example :
    let inp : Bytes := [0x08, 0x02, 0x12, 0x01, 0x41,
      0x1b, 0x02, 0x02, 0x10, 0x01, 0x04, 0x10, 0x01, 0x18, 0x05,
      0x23, 0x01, 0x05, 0x0a, 0x01, 0x41, 0x10, 0x07,
      0x2a, 0x04, 0x08, 0x02, 0x10, 0x04,
      0x32, 0x03, 0x01, 0x03, 0x05,
      0x3a, 0x08, 0, 0, 0, 0, 0, 0, 0, 0,
      0x42, 0x01, 0x09,
      0x53, 0x02, 0x01, 0x00, 0x00]
    allocDepth exTy = 2 ∧
    (List.range 2).map (fun l => allocAt l exTy .len inp exTy.zero) = [10, 3] := by
  decide

end C04
