import Proofs.JSONAny
/-
  C16 — the JSON-any codecs (plenccodec/json.go: JSONMapCodec for
  `map[string]any`, JSONArrayCodec for `[]any`) round-trip every JSON-model
  value, at top level, as a struct field and as a skipped unknown field, and
  the descriptor walk over the same bytes renders the value.

  Property theorems only; the model is `Plenc/JSONAny.lean`, the helper lemmas
  and the mutual structural inductions over `JVal` are in `Proofs/JSONAny.lean`.

  Reading the statements:
  * `JVal` — nil, string, int, float64 (bit pattern), bool, json.Number,
    `[]any` (`arr none` = nil slice), `map[string]any` (`obj none` = nil map;
    entries as an association list in iteration order: every list = every order).
  * `WF v` — ints are 64-bit, float bit patterns are 64-bit, object keys are
    pairwise distinct (a Go map cannot hold anything else).
  * sizes below 2^63: Go's `int` does not overflow.
  * `jnorm` / `jnormTop` — the only identification the codecs make (see §2).
-/
namespace C16
open JSONAny

/-! ### 1. Size = |Append| -/

/-- `sizeJSONValue`, `JSONArrayCodec.size/Size`, `JSONMapCodec.size/Size` and
`sizeKV` report exactly the number of bytes the matching append writes — for
every value (no well-formedness needed), every tag. -/
theorem size_eq_append :
    (∀ v : JVal, sizeValue v = (appendValue v).length) ∧
    (∀ (a : Option (List JVal)) (tag : Bytes), arrSize a tag = (arrAppend a tag).length) ∧
    (∀ (m : Option (List (Bytes × JVal))) (tag : Bytes), mapSize m tag = (mapAppend m tag).length) ∧
    (∀ (k : Bytes) (v : JVal), kvSizeOf k (sizeValue v) = (strAppend k keyTag ++ appendValue v).length) := by
  refine ⟨sizeValue_eq, ?_, ?_, kvSize_eq⟩
  · intro a tag; simp only [arrSize, arrAppend, arrBodySize_eq, List.length_append]; omega
  · intro m tag; simp only [mapSize, mapAppend, mapBodySize_eq, List.length_append]; omega

/-! ### 2. Round trip -/

/-- What the codecs identify, exactly: in a *nested* position (array element,
object value) a nil `[]any` reads back as an empty non-nil `[]any`, a nil map
as an empty non-nil map, and nothing else changes. -/
theorem jnorm_facts :
    jnorm .null = .null ∧ (∀ s, jnorm (.str s) = .str s) ∧ (∀ i, jnorm (.int i) = .int i) ∧
    (∀ b, jnorm (.float b) = .float b) ∧ (∀ b, jnorm (.bool b) = .bool b) ∧
    (∀ t, jnorm (.num t) = .num t) ∧
    jnorm (.arr none) = .arr (some []) ∧ jnorm (.arr (some [])) = .arr (some []) ∧
    jnorm (.obj none) = .obj (some []) ∧ jnorm (.obj (some [])) = .obj (some []) ∧
    (∀ x xs, jnorm (.arr (some (x :: xs))) = .arr (some (jnorm x :: jnormList xs))) ∧
    (∀ k x kvs, jnorm (.obj (some ((k, x) :: kvs))) = .obj (some ((k, jnorm x) :: jnormKvs kvs))) := by
  simp [jnorm, jnormArr, jnormMap, jnormList, jnormKvs]

/-- …and at top level (or as a struct field) the Omit rule adds: a nil map is
not written and the fresh target stays nil; an empty map is written and comes
back empty non-nil; a nil *or empty* `[]any` is not written and the fresh
target stays nil. -/
theorem jnormTop_facts :
    jnormTop (.obj none) = .obj none ∧ jnormTop (.obj (some [])) = .obj (some []) ∧
    jnormTop (.arr none) = .arr none ∧ jnormTop (.arr (some [])) = .arr none ∧
    (∀ x xs, jnormTop (.arr (some (x :: xs))) = .arr (some (jnorm x :: jnormList xs))) ∧
    (∀ kvs, jnormTop (.obj (some kvs)) = .obj (some (jnormKvs kvs))) := by
  simp [jnormTop, jnormList, jnormKvs]

/-- **Nested / prefix-stable form.** Whatever follows the encoding (`rest`: the
remaining fields of an enclosing struct, or nothing), whatever wire type the
caller passes, for every sufficient recursion budget:
* `JSONMapCodec.Read` into a nil map yields the entries in encoding order,
  each value `jnorm`alised, and consumes exactly the encoding;
* `JSONArrayCodec.Read` into *any* prior slice yields exactly the encoded
  elements and consumes exactly the encoding;
* `readJSONKV` over an array entry / an object entry yields the value / the key
  and the value and consumes the entry. -/
theorem jsonany_roundtrip :
    (∀ (m : Option (List (Bytes × JVal))), WFMap m → mapSize m [] < 2 ^ 63 →
      ∀ (depth : Nat) (rest : Bytes) (wt : WT), (mapAppend m []).length < depth →
        mapRead depth (mapAppend m [] ++ rest) wt none
          = .ok (some (jnormMap m), (mapAppend m []).length)) ∧
    (∀ (a : Option (List JVal)), WFArr a → arrSize a [] < 2 ^ 63 →
      ∀ (depth : Nat) (rest : Bytes) (wt : WT) (prior : Option (List JVal)),
        (arrAppend a []).length < depth →
        arrRead depth (arrAppend a [] ++ rest) wt prior
          = .ok (some (jnormArr a), (arrAppend a []).length)) ∧
    (∀ (v : JVal), WF v → sizeValue v < 2 ^ 63 →
      ∀ (depth : Nat), (appendValue v).length < depth →
        readKV depth (appendValue v) false [] .null
          = .ok (([], jnorm v), (appendValue v).length)) ∧
    (∀ (k : Bytes) (v : JVal), WF v → kvSizeOf k (sizeValue v) < 2 ^ 63 →
      ∀ (depth : Nat), (strAppend k keyTag ++ appendValue v).length < depth →
        readKV depth (strAppend k keyTag ++ appendValue v) true [] .null
          = .ok ((k, jnorm v), (strAppend k keyTag ++ appendValue v).length)) := by
  refine ⟨?_, ?_, ?_, ?_⟩
  · intro m hwf hs depth rest wt hd
    simp only [mapSize, mapAppend, mapBodySize_eq, List.nil_append, List.length_nil, Nat.add_zero] at *
    exact rt_map m hwf hs depth rest wt hd
  · intro a hwf hs depth rest wt prior hd
    simp only [arrSize, arrAppend, arrBodySize_eq, List.nil_append, List.length_nil, Nat.add_zero] at *
    exact rt_arr a hwf hs depth rest wt prior hd
  · intro v hwf hs depth hd
    rw [sizeValue_eq] at hs
    have h2 := appendValue_len_ge v
    obtain ⟨d, rfl⟩ : ∃ d, depth = d + 1 := ⟨depth - 1, by omega⟩
    rw [readKV_succ, rt_value v hwf hs d _ 0 jsonTypeNil false [] (by omega) (by omega)]
    simp
  · intro k v hwf hs depth hd
    rw [kvSize_eq] at hs
    have hEl : (strAppend k keyTag ++ appendValue v).length
        = (strAppend k keyTag).length + (appendValue v).length := List.length_append
    have h2 := appendValue_len_ge v
    have hkl := strAppend_key_len k
    obtain ⟨d, rfl⟩ : ∃ d, depth = d + 1 := ⟨depth - 1, by omega⟩
    rw [readKV_succ, kvLoop_key _ _ _ k (by omega),
      rt_value v hwf (by omega) d _ _ jsonTypeNil true k (by omega) (by omega), hEl, hkl, keyTag_eq]
    simp only [List.length_cons, List.length_nil]
    congr 2; omega

/-- **Top level.** `plenc.Marshal` (with its Omit rule) of a well-formed
`map[string]any` or `[]any`, then `plenc.Unmarshal` into a fresh nil target,
gives the value back up to `jnormTop`. -/
theorem jsonany_roundtrip_top :
    (∀ (m : Option (List (Bytes × JVal))), WFMap m → mapSize m [] < 2 ^ 63 →
      jsonRoundTripTop (.obj m) = .ok (jnormTop (.obj m))) ∧
    (∀ (a : Option (List JVal)), WFArr a → arrSize a [] < 2 ^ 63 →
      jsonRoundTripTop (.arr a) = .ok (jnormTop (.arr a))) := by
  refine ⟨?_, ?_⟩
  · intro m hwf hs
    cases m with
    | none =>
      simp [jsonRoundTripTop, jsonEncodeTop, omitMap, jsonDecodeTop, mapRead, readVarUint, uvarintAux,
        jnormTop]
    | some kvs =>
      have h := (jsonany_roundtrip.1 (some kvs) hwf hs ((mapAppend (some kvs) []).length + 1) [] .slice
        (by omega))
      rw [List.append_nil] at h
      simp only [jsonRoundTripTop, jsonEncodeTop, omitMap, Option.isNone_some, Bool.false_eq_true,
        ↓reduceIte, jsonDecodeTop, h, jnormTop, jnormMap]
  · intro a hwf hs
    cases a with
    | none =>
      simp [jsonRoundTripTop, jsonEncodeTop, omitArr, jsonDecodeTop, arrRead, readVarUint, uvarintAux,
        jnormTop]
    | some xs =>
      cases xs with
      | nil =>
        simp [jsonRoundTripTop, jsonEncodeTop, omitArr, jsonDecodeTop, arrRead, readVarUint, uvarintAux,
          jnormTop]
      | cons x xs =>
        have h := (jsonany_roundtrip.2.1 (some (x :: xs)) hwf hs
          ((arrAppend (some (x :: xs)) []).length + 1) [] .slice none (by omega))
        rw [List.append_nil] at h
        simp only [jsonRoundTripTop, jsonEncodeTop, omitArr, List.isEmpty_cons, Bool.false_eq_true,
          ↓reduceIte, jsonDecodeTop, h, jnormTop, jnormArr]

/-- **Struct field.** What `StructCodec.append` writes for a JSON-any field of
plenc index `idx` (`fieldAppend`), followed by the other fields `rest`:
either nothing (Omit: the target keeps its zero value, which is `jnormTop`), or
a tag that `StructCodec.Read` decodes to `(WTSlice, idx)` — not WTLength, so it
hands the codec everything after the tag — and the codec reads its value and
consumes exactly its own bytes. -/
theorem jsonany_roundtrip_field (idx : Nat) (hidx : idx < 2 ^ 61) (rest : Bytes) :
    (∀ (m : Option (List (Bytes × JVal))), WFMap m → mapSize m [] < 2 ^ 63 →
      (omitMap m = true → fieldAppend idx (.obj m) = [] ∧ jnormTop (.obj m) = .obj none) ∧
      (omitMap m = false →
        fieldAppend idx (.obj m) = appendTag .slice idx ++ mapAppend m [] ∧
        readTag (fieldAppend idx (.obj m) ++ rest) = some (.slice, idx, (appendTag .slice idx).length) ∧
        ∀ depth, (mapAppend m []).length < depth →
          mapRead depth ((fieldAppend idx (.obj m) ++ rest).drop (appendTag .slice idx).length) .slice none
            = .ok (some (jnormMap m), (mapAppend m []).length))) ∧
    (∀ (a : Option (List JVal)), WFArr a → arrSize a [] < 2 ^ 63 →
      (omitArr a = true → fieldAppend idx (.arr a) = [] ∧ jnormTop (.arr a) = .arr none) ∧
      (omitArr a = false →
        fieldAppend idx (.arr a) = appendTag .slice idx ++ arrAppend a [] ∧
        readTag (fieldAppend idx (.arr a) ++ rest) = some (.slice, idx, (appendTag .slice idx).length) ∧
        ∀ depth prior, (arrAppend a []).length < depth →
          arrRead depth ((fieldAppend idx (.arr a) ++ rest).drop (appendTag .slice idx).length) .slice prior
            = .ok (some (jnormArr a), (arrAppend a []).length))) := by
  refine ⟨?_, ?_⟩
  · intro m hwf hs
    refine ⟨?_, ?_⟩
    · intro ho
      cases m with
      | none => simp [fieldAppend, omitMap, jnormTop]
      | some kvs => simp [omitMap] at ho
    · intro ho
      have e : fieldAppend idx (.obj m) = appendTag .slice idx ++ mapAppend m [] := by
        simp [fieldAppend, ho, mapAppend]
      refine ⟨e, ?_, ?_⟩
      · rw [e, List.append_assoc]; exact tag_roundtrip _ _ hidx _
      · intro depth hd
        rw [e, List.append_assoc, drop_len _ _ _ rfl]
        exact jsonany_roundtrip.1 m hwf hs depth rest .slice hd
  · intro a hwf hs
    refine ⟨?_, ?_⟩
    · intro ho
      cases a with
      | none => simp [fieldAppend, omitArr, jnormTop]
      | some xs =>
        cases xs with
        | nil => simp [fieldAppend, omitArr, jnormTop]
        | cons x xs => simp [omitArr] at ho
    · intro ho
      have e : fieldAppend idx (.arr a) = appendTag .slice idx ++ arrAppend a [] := by
        simp [fieldAppend, ho, arrAppend]
      refine ⟨e, ?_, ?_⟩
      · rw [e, List.append_assoc]; exact tag_roundtrip _ _ hidx _
      · intro depth prior hd
        rw [e, List.append_assoc, drop_len _ _ _ rfl]
        exact jsonany_roundtrip.2.1 a hwf hs depth rest .slice prior hd

/-! ### 3. An unknown JSON field is skipped exactly -/

/-- `plenccore.Skip` with wire type WTSlice over the payload of a JSON map or
array field (the bytes after the tag), whatever follows it, returns exactly the
payload's length: both bodies are a count followed by that many
length-prefixed entries (`entriesBytes`), the shape `Skip` walks. -/
theorem jsonany_skip_exact :
    (∀ (m : Option (List (Bytes × JVal))) (rest : Bytes), mapSize m [] < 2 ^ 63 →
      mapAppend m [] = appendVarUint (mapEntries m).length ++ entriesBytes (mapEntries m) ∧
      skip (mapAppend m [] ++ rest) .slice = .ok (mapAppend m []).length) ∧
    (∀ (a : Option (List JVal)) (rest : Bytes), arrSize a [] < 2 ^ 63 →
      arrAppend a [] = appendVarUint (arrEntries a).length ++ entriesBytes (arrEntries a) ∧
      skip (arrAppend a [] ++ rest) .slice = .ok (arrAppend a []).length) := by
  refine ⟨?_, ?_⟩
  · intro m rest hs
    simp only [mapSize, mapAppend, mapBodySize_eq, List.nil_append, List.length_nil, Nat.add_zero] at *
    refine ⟨mapBody_shape m, ?_⟩
    rw [mapBody_shape m] at hs ⊢
    exact skip_shape _ rest (by omega)
  · intro a rest hs
    simp only [arrSize, arrAppend, arrBodySize_eq, List.nil_append, List.length_nil, Nat.add_zero] at *
    refine ⟨arrBody_shape a, ?_⟩
    rw [arrBody_shape a] at hs ⊢
    exact skip_shape _ rest (by omega)

/-- the unknown-field step of `StructCodec.Read` over a JSON-any field: the tag
decodes to WTSlice and `Skip` lands exactly on the next field. -/
theorem jsonany_skip_field (idx : Nat) (hidx : idx < 2 ^ 61) (rest : Bytes) :
    (∀ (m : Option (List (Bytes × JVal))), mapSize m [] < 2 ^ 63 → omitMap m = false →
      readTag (fieldAppend idx (.obj m) ++ rest) = some (.slice, idx, (appendTag .slice idx).length) ∧
      skip ((fieldAppend idx (.obj m) ++ rest).drop (appendTag .slice idx).length) .slice
        = .ok ((fieldAppend idx (.obj m)).length - (appendTag .slice idx).length) ∧
      (fieldAppend idx (.obj m) ++ rest).drop (fieldAppend idx (.obj m)).length = rest) ∧
    (∀ (a : Option (List JVal)), arrSize a [] < 2 ^ 63 → omitArr a = false →
      readTag (fieldAppend idx (.arr a) ++ rest) = some (.slice, idx, (appendTag .slice idx).length) ∧
      skip ((fieldAppend idx (.arr a) ++ rest).drop (appendTag .slice idx).length) .slice
        = .ok ((fieldAppend idx (.arr a)).length - (appendTag .slice idx).length) ∧
      (fieldAppend idx (.arr a) ++ rest).drop (fieldAppend idx (.arr a)).length = rest) := by
  refine ⟨?_, ?_⟩
  · intro m hs ho
    have e : fieldAppend idx (.obj m) = appendTag .slice idx ++ mapAppend m [] := by
      simp [fieldAppend, ho, mapAppend]
    refine ⟨?_, ?_, by simp⟩
    · rw [e, List.append_assoc]; exact tag_roundtrip _ _ hidx _
    · rw [e, List.append_assoc, drop_len _ _ _ rfl, (jsonany_skip_exact.1 m rest hs).2]
      simp
  · intro a hs ho
    have e : fieldAppend idx (.arr a) = appendTag .slice idx ++ arrAppend a [] := by
      simp [fieldAppend, ho, arrAppend]
    refine ⟨?_, ?_, by simp⟩
    · rw [e, List.append_assoc]; exact tag_roundtrip _ _ hidx _
    · rw [e, List.append_assoc, drop_len _ _ _ rfl, (jsonany_skip_exact.2 a rest hs).2]
      simp

/-! ### 4. The descriptor walk renders the value -/

/-- `Descriptor{FieldTypeJSONObject}.read` / `Descriptor{FieldTypeJSONArray}.read`
over the encoding (followed by anything) make exactly the Outputter calls
`toCalls v` and consume exactly the encoding. nil renders as `Raw("null")`,
nil containers like empty ones. -/
theorem jsonany_desc :
    (∀ (m : Option (List (Bytes × JVal))) (rest : Bytes), WFMap m → mapSize m [] < 2 ^ 63 →
      descCallsObj (mapAppend m [] ++ rest) = .ok (toCalls (.obj m), (mapAppend m []).length)) ∧
    (∀ (a : Option (List JVal)) (rest : Bytes), WFArr a → arrSize a [] < 2 ^ 63 →
      descCallsArr (arrAppend a [] ++ rest) = .ok (toCalls (.arr a), (arrAppend a []).length)) := by
  refine ⟨?_, ?_⟩
  · intro m rest hwf hs
    simp only [mapSize, mapAppend, mapBodySize_eq, List.nil_append, List.length_nil, Nat.add_zero] at *
    simp only [descCallsObj, toCalls]
    exact ds_map m hwf hs _ rest (by simp only [List.length_append]; omega)
  · intro a rest hwf hs
    simp only [arrSize, arrAppend, arrBodySize_eq, List.nil_append, List.length_nil, Nat.add_zero] at *
    simp only [descCallsArr, toCalls]
    exact ds_arr a hwf hs _ rest (by simp only [List.length_append]; omega)

/-- at top level, including the Omit rule (an omitted nil map renders `{}`, an
omitted nil or empty array renders `[]`). -/
theorem jsonany_desc_top :
    (∀ (m : Option (List (Bytes × JVal))), WFMap m → mapSize m [] < 2 ^ 63 →
      jsonDescTop true (jsonEncodeTop (.obj m)) = .ok (toCalls (.obj m))) ∧
    (∀ (a : Option (List JVal)), WFArr a → arrSize a [] < 2 ^ 63 →
      jsonDescTop false (jsonEncodeTop (.arr a)) = .ok (toCalls (.arr a))) := by
  refine ⟨?_, ?_⟩
  · intro m hwf hs
    cases m with
    | none =>
      simp [jsonDescTop, jsonEncodeTop, omitMap, descCallsObj, descRead, readVarUint, uvarintAux,
        descLoop, toCalls, mapCalls]
    | some kvs =>
      have h := jsonany_desc.1 (some kvs) [] hwf hs
      rw [List.append_nil] at h
      simp only [jsonDescTop, jsonEncodeTop, omitMap, Option.isNone_some, Bool.false_eq_true,
        ↓reduceIte, h]
  · intro a hwf hs
    cases a with
    | none =>
      simp [jsonDescTop, jsonEncodeTop, omitArr, descCallsArr, descRead, readVarUint, uvarintAux,
        descLoop, toCalls, arrCalls]
    | some xs =>
      cases xs with
      | nil =>
        simp [jsonDescTop, jsonEncodeTop, omitArr, descCallsArr, descRead, readVarUint, uvarintAux,
          descLoop, toCalls, arrCalls, itemsCalls]
      | cons x xs =>
        have h := jsonany_desc.2 (some (x :: xs)) [] hwf hs
        rw [List.append_nil] at h
        simp only [jsonDescTop, jsonEncodeTop, omitArr, List.isEmpty_cons, Bool.false_eq_true,
          ↓reduceIte, h]

/-! ### 5. Totality on arbitrary bytes -/

/-- On ARBITRARY bytes, with any prior targets and any wire type, the readers
(`JSONMapCodec.Read`, `JSONArrayCodec.Read`, `readJSONKV`) and the descriptor
walks give a value or an error — never a panic, never a hang (the `for offset <
len(data)` loops always progress, the recursion budget `len(data) + 1` is never
exhausted) — and never report more consumed bytes than they were given. -/
theorem jsonany_total (data : Bytes) :
    (∀ wt prior, (mapRead (data.length + 1) data wt prior).fine ∧
      ∀ m n, mapRead (data.length + 1) data wt prior = .ok (m, n) → n ≤ data.length) ∧
    (∀ wt prior, (arrRead (data.length + 1) data wt prior).fine ∧
      ∀ a n, arrRead (data.length + 1) data wt prior = .ok (a, n) → n ≤ data.length) ∧
    (∀ hasKey key val, (readKV (data.length + 1) data hasKey key val).fine ∧
      ∀ kv n, readKV (data.length + 1) data hasKey key val = .ok (kv, n) → n ≤ data.length) ∧
    ((descCallsObj data).fine ∧ ∀ cs n, descCallsObj data = .ok (cs, n) → n ≤ data.length) ∧
    ((descCallsArr data).fine ∧ ∀ cs n, descCallsArr data = .ok (cs, n) → n ≤ data.length) ∧
    (∀ isObj, (jsonDecodeTop isObj data).fine) ∧ (∀ isObj, (jsonDescTop isObj data).fine) := by
  have hr := readers_total (data.length + 1) data (by omega)
  have hdo := descRead_total (data.length + 1) data true (by omega)
  have hda := descRead_total (data.length + 1) data false (by omega)
  refine ⟨fun wt prior => hr.2.2 wt prior, fun wt prior => hr.2.1 wt prior,
    fun hk key val => hr.1 hk key val, hdo, hda, ?_, ?_⟩
  · intro isObj
    cases isObj with
    | true =>
      have := (hr.2.2 .slice none).1
      simp only [jsonDecodeTop, ↓reduceIte]
      cases h : mapRead (data.length + 1) data .slice none with
      | ok p => obtain ⟨m, n⟩ := p; simp [Res.fine]
      | err => simp [Res.fine]
      | panic => rw [h] at this; exact absurd this (by simp [Res.fine])
      | hang => rw [h] at this; exact absurd this (by simp [Res.fine])
    | false =>
      have := (hr.2.1 .slice none).1
      simp only [jsonDecodeTop, Bool.false_eq_true, ↓reduceIte]
      cases h : arrRead (data.length + 1) data .slice none with
      | ok p => obtain ⟨m, n⟩ := p; simp [Res.fine]
      | err => simp [Res.fine]
      | panic => rw [h] at this; exact absurd this (by simp [Res.fine])
      | hang => rw [h] at this; exact absurd this (by simp [Res.fine])
  · intro isObj
    cases isObj with
    | true =>
      have := hdo.1
      simp only [jsonDescTop, ↓reduceIte, descCallsObj]
      cases h : descRead (data.length + 1) true data with
      | ok p => obtain ⟨m, n⟩ := p; simp [Res.fine]
      | err => simp [Res.fine]
      | panic => rw [h] at this; exact absurd this (by simp [Res.fine])
      | hang => rw [h] at this; exact absurd this (by simp [Res.fine])
    | false =>
      have := hda.1
      simp only [jsonDescTop, Bool.false_eq_true, ↓reduceIte, descCallsArr]
      cases h : descRead (data.length + 1) false data with
      | ok p => obtain ⟨m, n⟩ := p; simp [Res.fine]
      | err => simp [Res.fine]
      | panic => rw [h] at this; exact absurd this (by simp [Res.fine])
      | hang => rw [h] at this; exact absurd this (by simp [Res.fine])

/-! ### 6. Non-vacuity: a concrete nested value -/

/-- `{"": nil, "s": "", "i": 0, "f": 0.0, "n": json.Number("0"), "b": false,
"an": []any(nil), "ae": []any{}, "on": map(nil), "oe": map{},
"x": [nil, -1, {"": []any(nil), "k": {}}, "hi", [[]]]}` -/
def sampleM : Option (List (Bytes × JVal)) := some [
  ([], .null), ([115], .str []), ([105], .int 0), ([102], .float 0), ([110], .num [48]),
  ([98], .bool false), ([97, 110], .arr none), ([97, 101], .arr (some [])),
  ([111, 110], .obj none), ([111, 101], .obj (some [])),
  ([120], .arr (some [.null, .int (-1), .obj (some [([], .arr none), ([107], .obj (some []))]),
     .str [104, 105], .arr (some [.arr (some [])])]))]

theorem sampleM_wf : WFMap sampleM := by
  simp [sampleM, WFMap, WFKvs, WF, WFArr, WFList]

theorem sampleM_small : mapSize sampleM [] < 2 ^ 63 := by
  simp [mapSize, sampleM, mapBodySize, kvsSize, kvSizeOf, sizeValue, arrBodySize, itemsSize, sizeVarUint,
    sizeTag, WT.code, strSize, sizeVarInt, zigZag, valueWTLTag_eq, valueWTVITag_eq, valueWT64Tag_eq,
    valueWTSliceTag_eq, jsonTypeNil, jsonTypeString, jsonTypeInt, jsonTypeFloat, jsonTypeBool,
    jsonTypeArray, jsonTypeObject, jsonTypeNumber]

example : jsonRoundTripTop (.obj sampleM) = .ok (.obj (some [
  ([], .null), ([115], .str []), ([105], .int 0), ([102], .float 0), ([110], .num [48]),
  ([98], .bool false), ([97, 110], .arr (some [])), ([97, 101], .arr (some [])),
  ([111, 110], .obj (some [])), ([111, 101], .obj (some [])),
  ([120], .arr (some [.null, .int (-1), .obj (some [([], .arr (some [])), ([107], .obj (some []))]),
     .str [104, 105], .arr (some [.arr (some [])])]))])) := by
  rw [jsonany_roundtrip_top.1 sampleM sampleM_wf sampleM_small]; rfl

example : (jsonDecodeTop true [5]).isErr = true := by decide

example : jsonDescTop true (jsonEncodeTop (.obj sampleM)) = .ok [
    .startObj, .name [], .raw nullTok, .name [115], .str [], .name [105], .int64 0, .name [102], .f64 0,
    .name [110], .raw [48], .name [98], .bool false, .name [97, 110], .startArr, .endArr,
    .name [97, 101], .startArr, .endArr, .name [111, 110], .startObj, .endObj,
    .name [111, 101], .startObj, .endObj,
    .name [120], .startArr, .raw nullTok, .int64 (-1),
      .startObj, .name [], .startArr, .endArr, .name [107], .startObj, .endObj, .endObj,
      .str [104, 105], .startArr, .startArr, .endArr, .endArr, .endArr,
    .endObj] := by
  rw [jsonany_desc_top.1 sampleM sampleM_wf sampleM_small]; rfl

example (rest : Bytes) :
    skip (mapAppend sampleM [] ++ rest) .slice = .ok (mapAppend sampleM []).length :=
  (jsonany_skip_exact.1 sampleM rest sampleM_small).2

/-- the same object as an element of a top-level `[]any`, next to a nil slice. -/
def sampleA : Option (List JVal) := some [.obj sampleM, .arr none]

theorem sampleA_wf : WFArr sampleA := by
  simp [sampleA, WFArr, WFList, WF, sampleM_wf]

theorem sampleA_small : arrSize sampleA [] < 2 ^ 63 := by
  have h146 : len64 146 = 8 := by decide
  simp [arrSize, sampleA, h146, sampleM, mapBodySize, kvsSize, kvSizeOf, sizeValue, arrBodySize,
    itemsSize, sizeVarUint, sizeTag, WT.code, strSize, sizeVarInt, zigZag, valueWTLTag_eq,
    valueWTVITag_eq, valueWT64Tag_eq, valueWTSliceTag_eq, jsonTypeNil, jsonTypeString, jsonTypeInt,
    jsonTypeFloat, jsonTypeBool, jsonTypeArray, jsonTypeObject, jsonTypeNumber]

example : jsonRoundTripTop (.arr sampleA) = .ok (.arr (some [jnorm (.obj sampleM), .arr (some [])])) := by
  rw [jsonany_roundtrip_top.2 sampleA sampleA_wf sampleA_small]; rfl

example : jsonDescTop false (jsonEncodeTop (.arr sampleA))
    = .ok (.startArr :: toCalls (.obj sampleM) ++ [.startArr, .endArr, .endArr]) := by
  rw [jsonany_desc_top.2 sampleA sampleA_wf sampleA_small]; rfl

example : jsonRoundTripTop (.arr (some [])) = .ok (.arr none) :=
  jsonany_roundtrip_top.2 (some []) (by simp [WFArr, WFList]) (by simp [arrSize, arrBodySize, itemsSize, sizeVarUint])
example : jsonRoundTripTop (.obj none) = .ok (.obj none) :=
  jsonany_roundtrip_top.1 none (by simp [WFMap]) (by simp [mapSize, mapBodySize, sizeVarUint])
example : jsonRoundTripTop (.obj (some [])) = .ok (.obj (some [])) :=
  jsonany_roundtrip_top.1 (some []) (by simp [WFMap, WFKvs]) (by simp [mapSize, mapBodySize, kvsSize, sizeVarUint])

/-- hostile bytes: count 5 with one byte of data, a truncated varint, an
unknown entry field index, a nested array that claims more than there is. -/
example : (jsonDecodeTop true [5, 0]).isErr = true := by decide
example : (jsonDecodeTop false [0x80]).isOk = true := by decide   -- n == 0: nothing read
example : (jsonDecodeTop false [1, 2, 0x20, 0]).isErr = true := by decide
example : (jsonDecodeTop false [1, 4, 0x10, 5, 0x1b, 9]).isErr = true := by decide
example : (jsonDescTop false [1, 4, 0x10, 5, 0x1b, 9]).isErr = true := by decide
example (d : Bytes) : (jsonDecodeTop true d).fine ∧ (jsonDescTop false d).fine :=
  ⟨(jsonany_total d).2.2.2.2.2.1 true, (jsonany_total d).2.2.2.2.2.2 false⟩

end C16
