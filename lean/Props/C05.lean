import Proofs.SizeApp
import Proofs.BQTime
/-
  C05 — Codec laws: reported size, appended bytes, framing and consumed length
  all agree.  Property theorems only; helper lemmas live in Proofs/SizeApp.lean.

  `t.size v tag` / `t.app v tag` / `t.read wt d p` are `Codec.Size(ptr, tag)`,
  `Codec.Append(nil, ptr, tag)`, `Codec.Read(d, ptr, wt)` of the codec tree `t`
  (`t.wf`: a tree the builder can return; `t.hasTy v`: `v` is a value of the Go
  type the codec was built for).
-/
namespace C05

/-! ### 1. Size = |Append| -/

/-- the reported size is the number of bytes appended: every accepted codec,
every value of its type, every tag (empty or not). -/
theorem size_eq_append (t : Ty) (v : Val) (tag : Bytes) (hwf : t.wf) (hty : t.hasTy v) :
    t.size v tag = (t.app v tag).length :=
  size_eq_app_len t v tag hwf hty

/-- the same for the field loop of a struct body. -/
theorem fields_size_eq_append (fs : Fields) (vs : List Val) (hwf : fieldsWf fs)
    (hty : fieldsHaveTy fs vs) : fieldsSize fs vs = (fieldsApp fs vs).length :=
  fieldsSize_eq_app_len fs vs hwf hty

/-- a nil pointer (at any depth of a pointer chain) appends nothing and reports
size 0. -/
theorem absent_appends_nothing (t : Ty) (v : Val) (tag : Bytes) (hwf : t.wf) (hty : t.hasTy v)
    (h : v.present = false) : t.app v tag = [] ∧ t.size v tag = 0 := by
  have ha := app_absent t v tag h
  exact ⟨ha, by rw [size_eq_app_len t v tag hwf hty, ha]; rfl⟩

/-! ### 2. Framing -/

/-- length-delimited, non-repeated codec, present value, non-empty tag:
tag, varint length of the body, body — where the body is what the codec appends
with no tag. `Ty.deref` looks through `PointerWrapper`s; `(ptr t).wt = t.wt`. -/
theorem frame_len (t : Ty) (v : Val) (tag : Bytes) (hwf : t.wf) (hty : t.hasTy v)
    (hp : v.present = true) (hl : t.wt = .len) (hr : t.deref.isProtoRep = false) (ht : tag ≠ []) :
    t.app v tag = tag ++ appendVarUint (t.app v []).length ++ t.app v [] :=
  app_frame_len t v tag hwf hty hp hl hr ht

/-- the same at the level of `Size`: the reported size of the framed form is
tag + varint(size of body) + size of body. -/
theorem size_frame_len (t : Ty) (v : Val) (tag : Bytes) (hwf : t.wf) (hty : t.hasTy v)
    (hp : v.present = true) (hl : t.wt = .len) (hr : t.deref.isProtoRep = false) (ht : tag ≠ []) :
    t.size v tag = tag.length + sizeVarUint (t.size v []) + t.size v [] := by
  rw [size_eq_app_len t v tag hwf hty, size_eq_app_len t v [] hwf hty,
    app_frame_len t v tag hwf hty hp hl hr ht, size_eq_len]
  simp only [List.length_append]

/-- every other wire type (varint, 32/64-bit, plenc's WTSlice): the tag is
prepended to the untagged encoding, which delimits itself. -/
theorem frame_other (t : Ty) (v : Val) (tag : Bytes) (hwf : t.wf) (hty : t.hasTy v)
    (hp : v.present = true) (hl : t.wt ≠ .len) :
    t.app v tag = tag ++ t.app v [] :=
  app_frame_other t v tag hwf hty hp hl

/-- under a single pointer (or none) "present" is simply "not the nil pointer". -/
theorem present_iff_not_nil (t : Ty) (v : Val) (h : t.isPtr = false) (hty : (Ty.ptr t).hasTy v)
    (hv : v ≠ .ptr none) : v.present = true :=
  present_of_ne_nil t v h hty hv

/-- protobuf repeated field (`ProtoSliceWrapper`): one frame per element, each
under the caller's tag; a nil pointer element gets the empty frame `tag ++ [0]`. -/
theorem frame_proto_slice (t : Ty) (vs : List Val) (tag : Bytes)
    (hwf : (Ty.pslice t).wf) (hty : (Ty.pslice t).hasTy (.slice vs)) (ht : tag ≠ []) :
    (Ty.pslice t).app (.slice vs) tag
        = vs.flatMap (fun v => tag ++ appendVarUint (t.app v []).length ++ t.app v [])
    ∧ ∀ v ∈ vs, v.present = false →
        tag ++ appendVarUint (t.app v []).length ++ t.app v [] = tag ++ [0] :=
  ⟨pslice_frames t vs tag hwf hty (wf_pslice_elem_not_protoRep hwf) ht,
    fun v _ h => elemFrame_absent t v tag h⟩

/-- protobuf map (`ProtoMapCodec`): one frame per entry under the caller's tag,
the entry body being the key under index 1 then the value under index 2 (each
left out when `Omit`); a nil map appends nothing. -/
theorem frame_proto_map (k v : Ty) (es : List (Val × Val)) (tag : Bytes)
    (hwf : (Ty.map k v true).wf) (hty : (Ty.map k v true).hasTy (.map (some es))) :
    (Ty.map k v true).app (.map (some es)) tag
        = es.flatMap (fun e => tag ++ appendVarUint (entryBody k v e).length ++ entryBody k v e)
    ∧ (Ty.map k v true).app (.map none) tag = [] :=
  ⟨pmap_frames k v es tag hwf hty, pmap_nil k v tag⟩

/-- plenc's own slice form (`WTLengthSliceWrapper`, WTSlice): tag, element
count, then every element as varint length + untagged encoding. -/
theorem frame_plenc_slice (t : Ty) (vs : List Val) (tag : Bytes)
    (hwf : (Ty.lslice t).wf) (hty : (Ty.lslice t).hasTy (.slice vs)) :
    (Ty.lslice t).app (.slice vs) tag
      = tag ++ appendVarUint vs.length
          ++ vs.flatMap (fun v => appendVarUint (t.app v []).length ++ t.app v []) :=
  lslice_entries t vs tag hwf hty

/-- plenc's own map form (`MapCodec`, WTSlice): tag, entry count, then every
entry as varint length + entry body. -/
theorem frame_plenc_map (k v : Ty) (es : List (Val × Val)) (tag : Bytes)
    (hwf : (Ty.map k v false).wf) (hty : (Ty.map k v false).hasTy (.map (some es))) :
    (Ty.map k v false).app (.map (some es)) tag
      = tag ++ appendVarUint es.length
          ++ es.flatMap (fun e => appendVarUint (entryBody k v e).length ++ entryBody k v e) :=
  map_entries k v es tag hwf hty

/-! ### 3. Consumed length (self-delimiting scalars) -/

/-- bool, the integer codecs and the floats: reading what was appended, followed
by anything, returns the value and consumes exactly the appended length. -/
theorem scalar_read_exact (t : Ty) (v : Val) (rest : Bytes) (p : Val)
    (hs : t.isScalar = true) (hwf : t.wf) (hty : t.hasTy v) :
    t.read t.wt (t.app v [] ++ rest) p = .ok (v, (t.app v []).length)
    ∧ (t.app v []).length = t.size v [] :=
  ⟨_root_.scalar_read_exact t v t.wt rest p hs hwf hty, (size_eq_app_len t v [] hwf hty).symm⟩

/-- framing and `Skip` agree: a present value of a non-repeated codec under a
non-empty tag is `tag ++ payload`, and `plenccore.Skip` with the codec's wire
type steps over exactly `payload` whatever follows — so a generic field walker
reaches exactly the end of every field, at every nesting level. -/
theorem field_skip_exact (t : Ty) (v : Val) (tag rest : Bytes) (hwf : t.wf) (hty : t.hasTy v)
    (hp : v.present = true) (hr : t.deref.isProtoRep = false) (ht : tag ≠ [])
    (hsz : (t.app v []).length < 2 ^ 64) :
    ∃ payload, t.app v tag = tag ++ payload ∧ skip (payload ++ rest) t.wt = .ok payload.length :=
  _root_.field_skip_exact t v tag rest hwf hty hp hr ht hsz

/-! ### non-vacuity -/

theorem appendVarUint_small (v : Nat) (h : v < 128) : appendVarUint v = [v.toUInt8] := by
  rw [appendVarUint]; simp [h]

def exTy : Ty := .struct "S"
  [ (1, "A", .int 64), (2, "B", .str false), (3, "C", .ptr (.struct "T" [(1, "X", .bool)])),
    (4, "D", .vslice (.uint 32)), (5, "E", .pslice (.str true)),
    (6, "F", .map (.str false) .f64 true), (7, "G", .fslice .f32),
    (8, "H", .lslice (.ptr (.time false))), (9, "I", .map (.int 32) .bytes false),
    (10, "J", .flat 16), (11, "K", .ptr (.uint 8)) ]

def exVal : Val := .struct
  [ .int (-5), .str [104, 105], .ptr (some (.struct [.bool true])),
    .slice [.uint 1, .uint 300], .slice [.str [97], .str []],
    .map (some [(.str [107], .f64 4607182418800017408)]), .slice [.f32 0, .f32 1065353216],
    .slice [.ptr none, .ptr (some (.time 0 5))], .map (some [(.int 1, .bytes [1]), (.int 2, .bytes [])]),
    .int (-3), .ptr none ]

theorem exTy_wf : exTy.wf := by
  simp [exTy, Ty.wf, fieldsWf, validWidth, Ty.wt, Ty.isMap, Ty.isProtoSlice]

theorem exTy_hasTy : exTy.hasTy exVal := by
  simp [exTy, exVal, Ty.hasTy, fieldsHaveTy, intRange, keysDistinct, Val.beq]

-- law 1 on a struct with scalar, string, pointer, packed, fixed, proto-repeated,
-- proto-map, plenc-slice (with a nil pointer element), plenc-map, flat and nil
-- pointer fields, as a field of an enclosing message (tag = field 3, WTLength)
example : exTy.size exVal (appendTag .len 3) = (exTy.app exVal (appendTag .len 3)).length :=
  size_eq_append exTy exVal _ exTy_wf exTy_hasTy

-- law 2a on the same value
example : exTy.app exVal (appendTag .len 3)
    = appendTag .len 3 ++ appendVarUint (exTy.app exVal []).length ++ exTy.app exVal [] :=
  frame_len exTy exVal _ exTy_wf exTy_hasTy (by simp [exVal, Val.present]) (by simp [exTy, Ty.wt])
    (by simp [exTy, Ty.deref, Ty.isProtoRep]) (append_ne_nil _)

-- law 2c: a repeated field with a nil pointer element
example : (Ty.pslice (.ptr (.str false))).app (.slice [.ptr (some (.str [97])), .ptr none]) (appendTag .len 5)
    = [.ptr (some (.str [97])), .ptr none].flatMap
        (fun v => appendTag .len 5 ++ appendVarUint ((Ty.ptr (.str false)).app v []).length ++ (Ty.ptr (.str false)).app v []) :=
  (frame_proto_slice (.ptr (.str false)) _ _ (by simp [Ty.wf, Ty.wt, Ty.isMap, Ty.isProtoSlice])
    (by simp [Ty.hasTy]) (append_ne_nil _)).1

-- law 3
example : (Ty.int 16).read .varint ((Ty.int 16).app (.int (-300)) [] ++ [1, 2, 3]) (.int 7)
    = .ok (.int (-300), ((Ty.int 16).app (.int (-300)) []).length) :=
  (scalar_read_exact (.int 16) (.int (-300)) [1, 2, 3] (.int 7) rfl (by simp [Ty.wf, validWidth])
    (by simp [Ty.hasTy, intRange])).1

-- framing agrees with Skip: a message field holding a struct with a WTSlice field
example : ∃ payload,
    (Ty.struct "P" [(1, "A", .uint 8), (2, "B", .str false), (3, "C", .lslice (.str false))]).app
        (.struct [.uint 7, .str [104, 105], .slice [.str [1], .str []]]) (appendTag .len 2) = appendTag .len 2 ++ payload
    ∧ skip (payload ++ [9, 9]) .len = .ok payload.length :=
  field_skip_exact (.struct "P" [(1, "A", .uint 8), (2, "B", .str false), (3, "C", .lslice (.str false))])
    (.struct [.uint 7, .str [104, 105], .slice [.str [1], .str []]]) (appendTag .len 2) [9, 9]
    (by simp [Ty.wf, fieldsWf, validWidth, Ty.wt, Ty.isMap, Ty.isProtoSlice])
    (by simp [Ty.hasTy, fieldsHaveTy])
    (by simp [Val.present]) (by simp [Ty.deref, Ty.isProtoRep]) (append_ne_nil _)
    (by simp [Ty.app, fieldsApp, Val.omit, frame, appendTag, WT.code, Ty.wt, Ty.size, frameSize,
          appendVarUint_small])

/-! ### the side conditions of law 2 are needed -/

/-- "present" cannot be weakened to "not the nil pointer": a pointer to a nil
pointer is accepted, is not `.ptr none`, and appends nothing. -/
example : (Ty.ptr (.ptr .bool)).wf ∧ (Ty.ptr (.ptr .bool)).hasTy (.ptr (some (.ptr none)))
    ∧ (Ty.ptr (.ptr .bool)).wt ≠ .len
    ∧ (Ty.ptr (.ptr .bool)).app (.ptr (some (.ptr none))) [8]
        ≠ [8] ++ (Ty.ptr (.ptr .bool)).app (.ptr (some (.ptr none))) [] := by
  simp [Ty.wf, Ty.hasTy, Ty.wt, Ty.app, Ty.isMap]

/-- the element of a repeated field must not itself be a repeated form: a
`ProtoSliceWrapper` of `ProtoSliceWrapper` would write the inner elements under
the outer tag, not one frame per outer element. The `isProtoSlice` clause of
`wf` (the builder's check) is what excludes it — which is why
`frame_proto_slice` needs no separate side condition on the element. -/
example : ¬ (Ty.pslice (.pslice (.str false))).wf
    ∧ (Ty.pslice (.pslice (.str false))).app (.slice [.slice [.str [1], .str [2]]]) [10]
        = [10, 1, 1, 10, 1, 2]
    ∧ [10] ++ appendVarUint ((Ty.pslice (.str false)).app (.slice [.str [1], .str [2]]) []).length
          ++ (Ty.pslice (.str false)).app (.slice [.str [1], .str [2]]) [] = [10, 2, 1, 2] := by
  simp [Ty.wf, Ty.wt, Ty.isMap, Ty.isProtoSlice, Ty.app, frame, appendVarUint_small]

/-- with an empty tag a length-delimited codec writes the bare body. -/
example : (Ty.str false).app (.str [97]) [] = [97] := by simp [Ty.app, frame]

/-- law 1 needs `wf`: a fixed-width slice wrapper around a varint codec (which the
builder never produces) would size every element like the zero value. -/
example : (Ty.fslice (.uint 64)).size (.slice [.uint 300]) [] = 1
    ∧ ((Ty.fslice (.uint 64)).app (.slice [.uint 300]) []).length = 2 := by
  simp [Ty.size, Ty.app, Ty.zero, frame, frameSize, sizeVarUint, appendVarUint]

/-! ### the BigQuery timestamp codec (`BQTimestampCodec`, an exported codec outside `Ty`) -/

/-- law 1: reported size = bytes appended, with and without a tag. -/
theorem bq_size_eq_append (sec nsec : Int) (tag : Bytes) :
    BQTime.size sec nsec tag = (BQTime.app sec nsec tag).length := BQTime.size_eq_append sec nsec tag

/-- law 2 (a varint codec): tagged = tag ++ untagged. -/
theorem bq_frame (sec nsec : Int) (tag : Bytes) :
    BQTime.app sec nsec tag = tag ++ BQTime.app sec nsec [] := BQTime.app_tag sec nsec tag

/-- law 3 with the value: reading the body back, whatever follows it, consumes
exactly its length and yields the time truncated to whole microseconds (the
codec's resolution), for every time whose microsecond count fits int64. -/
theorem bq_read_exact (sec nsec : Int) (rest : Bytes) (hn : 0 ≤ nsec ∧ nsec < 1000000000)
    (hr : intRange 64 (sec * 1000000 + nsec / 1000)) :
    BQTime.read (BQTime.app sec nsec [] ++ rest)
      = .ok ((sec, nsec / 1000 * 1000), (BQTime.app sec nsec []).length) :=
  BQTime.read_app sec nsec rest hn hr

/-- the decoder never panics or hangs (C04 for this codec). -/
theorem bq_read_total (data : Bytes) :
    BQTime.read data = .err ∨ ∃ t n, BQTime.read data = .ok (t, n) := BQTime.read_total data

-- non-vacuity: 2023-11-14T22:13:20.123456789Z meets the hypotheses; it reads back
-- at microsecond resolution whatever follows it; so does a time before 1970
example : BQTime.read (BQTime.app 1700000000 123456789 [] ++ [7])
    = .ok ((1700000000, 123456000), (BQTime.app 1700000000 123456789 []).length) :=
  bq_read_exact 1700000000 123456789 [7] (by omega) (by unfold intRange; omega)
example : BQTime.read (BQTime.app (-1) 999999000 [])
    = .ok ((-1, 999999000), (BQTime.app (-1) 999999000 []).length) := by
  have h := bq_read_exact (-1) 999999000 [] (by omega) (by unfold intRange; omega)
  simpa using h

end C05
