import Proofs.Build
/-
  C08 — Type definitions are validated: asking for a codec for any Go type
  either returns a codec that obeys the other properties ("Accepted", `Ty.wf`:
  the hypothesis of every other property theorem) or returns an error — never a
  panic, never a hang.  Unexported fields and fields tagged "-" are never
  encoded.

  `build cfg d tag` is `Plenc.CodecForTypeRegistry(registry, typ, tag)` on the
  type definition `d` (`TyDef`: Go type syntax with struct tags) for an instance
  configured by `cfg` (options + the user's registrations); `buildNamed cfg n d
  tag` is the kind switch for a defined type `type n d`; `buildFields` is the
  field loop of `BuildStructCodec`.  Property theorems only; helper lemmas are
  in Proofs/Build.lean.

  Hypotheses of `build_sound` (each is needed, see the examples after it):
    `cfg.wf`       the user's registered codecs are themselves Accepted, are not
                   map codecs and not pointer-to-float wrappers;
    `d.widthsOK`   integer widths are 8/16/32/64 (every Go type);
    `d.keysOK`     no map key is of kind map (every Go type: compile error).
  Two former hypotheses are now theorems about the repaired builder: field
  indexes are at most `maxFieldIndex = 2^29 - 1` (`buildFields_idx_le`,
  `rejects_huge_index`), and a slice whose element codec has a fixed-width wire
  type is accepted only for element kind float32/float64
  (`rejects_slice_of_nonfloat`: `[]*float64` and `[]null.Float`).
-/
namespace C08
open Build

/-! ### 1. a codec or an error — never a panic, never a hang -/

theorem build_total (cfg : Cfg) (d : TyDef) (tag : String) : (build cfg d tag).fine :=
  Build.build_total cfg d tag

theorem buildNamed_total (cfg : Cfg) (n : String) (d : TyDef) (tag : String) :
    (buildNamed cfg n d tag).fine :=
  Build.buildNamed_total cfg n d tag

theorem buildFields_total (cfg : Cfg) (fs : FieldDefs) : (buildFields cfg fs).fine :=
  Build.buildFields_total cfg fs

/-- spelled out: the result is `ok` of a codec tree, or `err`. -/
theorem build_ok_or_err (cfg : Cfg) (d : TyDef) (tag : String) :
    (∃ t, build cfg d tag = .ok t) ∨ build cfg d tag = .err :=
  fine_cases (Build.build_total cfg d tag)

/-! ### 2. every codec returned is Accepted -/

/-- THE key theorem: whatever the builder returns satisfies `Ty.wf` — Go integer
widths, the slice wrapper matches the element wire type, field indexes are
pairwise distinct and fit a tag, no map codec under a pointer, slice or map, and
no protobuf repeated form (directly or behind pointers) as the element of a
length-delimited slice or as the key or value of a map. -/
theorem build_sound {cfg : Cfg} (hc : cfg.wf) {d : TyDef} (hw : d.widthsOK) (hk : d.keysOK)
    {tag : String} {t : Ty} (h : build cfg d tag = .ok t) : t.wf :=
  Build.build_sound hc hw hk h

theorem buildNamed_sound {cfg : Cfg} (hc : cfg.wf) {d : TyDef} (hw : d.widthsOK) (hk : d.keysOK)
    {n tag : String} {t : Ty} (h : buildNamed cfg n d tag = .ok t) : t.wf :=
  Build.buildNamed_sound hc hw hk h

theorem buildFields_sound {cfg : Cfg} (hc : cfg.wf) {name : String} {fs : FieldDefs}
    (hw : (TyDef.struct name fs).widthsOK) (hk : (TyDef.struct name fs).keysOK)
    {cfs : Fields} (h : buildFields cfg fs = .ok cfs) :
    fieldsWf cfs ∧ (∀ f ∈ cfs, f.1 < 2 ^ 61) :=
  Build.buildFields_sound hc hw hk h

/-- corollary of `build_sound` (the `isProtoSlice(subc)` check of the slice arm):
the element codec of a returned `ProtoSliceWrapper` or `WTLengthSliceWrapper` is
not, and does not point to, a `ProtoSliceWrapper` — at the top of the returned
tree; `build_sound` gives the same at every depth. -/
theorem build_no_proto_slice_elements {cfg : Cfg} (hc : cfg.wf) {d : TyDef} (hw : d.widthsOK)
    (hk : d.keysOK) {tag : String} {t : Ty} :
    (build cfg d tag = .ok (.pslice t) → t.isProtoSlice = false) ∧
    (build cfg d tag = .ok (.lslice t) → t.isProtoSlice = false) := by
  refine ⟨fun h => ?_, fun h => ?_⟩
  · have := Build.build_sound hc hw hk h
    simp only [Ty.wf] at this
    exact this.2.2.2
  · have := Build.build_sound hc hw hk h
    simp only [Ty.wf] at this
    exact this.2.2.2

/-- corollary of `build_sound` (the `isProtoSlice(valueCodec) ||
isProtoSlice(keyCodec)` check of `BuildMapCodec`): neither the value codec nor
the key codec of a returned map codec is, or points to, a `ProtoSliceWrapper`. -/
theorem build_no_proto_slice_in_maps {cfg : Cfg} (hc : cfg.wf) {d : TyDef} (hw : d.widthsOK)
    (hk : d.keysOK) {tag : String} {k v : Ty} {p : Bool}
    (h : build cfg d tag = .ok (.map k v p)) : v.isProtoSlice = false ∧ k.isProtoSlice = false := by
  have := Build.build_sound hc hw hk h
  simp only [Ty.wf] at this
  exact this.2.2.2.2

/-- total + sound in one statement. -/
theorem build_validated {cfg : Cfg} (hc : cfg.wf) {d : TyDef} (hw : d.widthsOK) (hk : d.keysOK)
    (tag : String) :
    (∃ t, build cfg d tag = .ok t ∧ t.wf) ∨ build cfg d tag = .err := by
  rcases build_ok_or_err cfg d tag with ⟨t, h⟩ | h
  · exact .inl ⟨t, h, Build.build_sound hc hw hk h⟩
  · exact .inr h

/-- a map codec is returned only for a definition of kind map (so the
`Kind() == reflect.Map` guards of the pointer, slice and map-value arms keep
map codecs out of those positions) … -/
theorem build_isMap {cfg : Cfg} (hc : cfg.wf) {d : TyDef} (hw : d.widthsOK) (hk : d.keysOK)
    {tag : String} {t : Ty} (h : build cfg d tag = .ok t) (hm : t.isMap = true) : d.kind = .map :=
  Build.build_isMap hc hw hk h hm

/-- … and a definition of kind map (with no user registration under its own
name) builds a map codec or fails. -/
theorem build_kind_map {cfg : Cfg} {d : TyDef} {tag : String} {c : Ty} (hk : d.kind = .map)
    (hreg : customLoad cfg d tag = none) (h : build cfg d tag = .ok c) : c.isMap = true :=
  Build.build_kind_map hk hreg h

/-- the duplicate check is exactly "not pairwise distinct". -/
theorem hasDup_iff (l : List Nat) : hasDup l = true ↔ ¬ l.Nodup := Build.hasDup_iff l

/-- `strconv.Atoi` results are Go ints. -/
theorem atoi_range {s : String} {v : Int} (h : atoi s = some v) :
    -(2 ^ 63 : Int) ≤ v ∧ v < (2 ^ 63 : Int) := Build.atoi_range h

/-- with no hypothesis at all: built indexes are at most `maxFieldIndex = 2^29 - 1`
(the protobuf field number range), so they fit a tag (`< 2^61`) and the
`fieldsByIndex` table is bounded. -/
theorem buildFields_idx_le {cfg : Cfg} {fs : FieldDefs} {cfs : Fields}
    (h : buildFields cfg fs = .ok cfs) : ∀ f ∈ cfs, f.1 ≤ 536870911 :=
  Build.buildFields_idx_le cfg fs cfs h

theorem buildFields_idx_lt {cfg : Cfg} {fs : FieldDefs} {cfs : Fields}
    (h : buildFields cfg fs = .ok cfs) : ∀ f ∈ cfs, f.1 < 2 ^ 61 :=
  Build.buildFields_idx_lt cfg fs cfs h

/-! each hypothesis of `build_sound` is needed: without it the builder model
returns a tree that is not Accepted -/

/-- not a Go type (map keys must be comparable); the builder has no guard of its own. -/
example : build {} (.map (.map (.basic .str) (.basic .bool)) (.basic .bool)) ""
      = .ok (.map (.map (.str false) .bool false) .bool false)
    ∧ ¬ (Ty.map (.map (.str false) .bool false) .bool false).wf :=
  ⟨rfl, by simp [Ty.wf, Ty.isMap]⟩

/-- not a Go type. -/
example : build {} (.basic (.int 7)) "" = .ok (.int 7) ∧ ¬ (Ty.int 7).wf :=
  ⟨rfl, by simp [Ty.wf, validWidth]⟩

/-- a user registration of a map codec for a non-map type defeats the
pointer-to-map guard; one of a pointer-to-float codec for a float-kinded
defined type defeats the element-kind guard of the fixed-width slice wrapper. -/
example : build {custom := [("M", "", .map (.str false) .bool false)]}
      (.ptr (.named "M" (.basic .bool))) "" = .ok (.ptr (.map (.str false) .bool false))
    ∧ ¬ (Ty.ptr (.map (.str false) .bool false)).wf :=
  ⟨rfl, by simp [Ty.wf, Ty.isMap]⟩
example : build {custom := [("P", "", .ptr .f64)]}
      (.slice (.named "P" (.basic .f64))) "" = .ok (.fslice (.ptr .f64))
    ∧ ¬ (Ty.fslice (.ptr .f64)).wf :=
  ⟨rfl, by simp [Ty.wf]⟩

/-! ### 3. what is rejected

Each class for an arbitrary surrounding struct: the offending field anywhere in
the field list `fs`, the other fields arbitrary (by totality they cannot turn
the error into a panic).  `hreg` says the struct type itself carries no user
registration (which `registry.Load` would return before looking at any field);
it holds for every `name`/`tag` when `cfg.custom = []` (`no_registrations`). -/

theorem no_registrations {cfg : Cfg} (h : cfg.custom = []) (d : TyDef) (tag : String) :
    customLoad cfg d tag = none := customLoad_nil h d tag

/-- an exported field without a plenc tag. -/
theorem rejects_missing_tag {cfg : Cfg} {name tag : String} {fs : FieldDefs} {g j : String}
    {t : TyDef} (hm : (g, true, "", j, t) ∈ fs)
    (hreg : customLoad cfg (.struct name fs) tag = none) :
    build cfg (.struct name fs) tag = .err :=
  struct_err_of_field hm (encField_noTag cfg g j t) hreg

/-- an index `strconv.Atoi` rejects (empty, non-digits, spaces, overflow). -/
theorem rejects_unparsable_index {cfg : Cfg} {name tag : String} {fs : FieldDefs}
    {g p j : String} {t : TyDef} (hm : (g, true, p, j, t) ∈ fs) (hp : p ≠ "-")
    (ha : atoi (splitComma p).1 = none)
    (hreg : customLoad cfg (.struct name fs) tag = none) :
    build cfg (.struct name fs) tag = .err :=
  struct_err_of_field hm (encField_atoi hp ha) hreg

/-- a negative index. -/
theorem rejects_negative_index {cfg : Cfg} {name tag : String} {fs : FieldDefs}
    {g p j : String} {t : TyDef} {idx : Int} (hm : (g, true, p, j, t) ∈ fs) (hp : p ≠ "-")
    (ha : atoi (splitComma p).1 = some idx) (hneg : idx < 0)
    (hreg : customLoad cfg (.struct name fs) tag = none) :
    build cfg (.struct name fs) tag = .err :=
  struct_err_of_field hm (encField_negative hp ha hneg) hreg

/-- an index beyond `maxFieldIndex = 2^29 - 1` (formerly accepted, after which
`make([]shortDesc, maxIndex+1)` panicked or exhausted memory). -/
theorem rejects_huge_index {cfg : Cfg} {name tag : String} {fs : FieldDefs}
    {g p j : String} {t : TyDef} {idx : Int} (hm : (g, true, p, j, t) ∈ fs) (hp : p ≠ "-")
    (ha : atoi (splitComma p).1 = some idx) (hbig : idx > 536870911)
    (hreg : customLoad cfg (.struct name fs) tag = none) :
    build cfg (.struct name fs) tag = .err :=
  struct_err_of_field hm (encField_huge hp ha hbig) hreg

/-- two exported fields whose tags parse to the same index (anywhere in the
list, anything before, between and after them). -/
theorem rejects_duplicate_index {cfg : Cfg} {name tag : String} {a b c : FieldDefs}
    {g1 p1 j1 g2 p2 j2 : String} {t1 t2 : TyDef} {i : Int}
    (h1 : atoi (splitComma p1).1 = some i) (h2 : atoi (splitComma p2).1 = some i)
    (hreg : customLoad cfg
      (.struct name (a ++ (g1, true, p1, j1, t1) :: b ++ (g2, true, p2, j2, t2) :: c)) tag = none) :
    build cfg (.struct name (a ++ (g1, true, p1, j1, t1) :: b ++ (g2, true, p2, j2, t2) :: c)) tag
      = .err :=
  struct_dup (encKey_of_atoi h1) (encKey_of_atoi h2) name tag hreg

/-- a tag option with no matching codec, on a basic kind: directly … -/
theorem rejects_unknown_option {cfg : Cfg} {b : Basic} {tag : String}
    (hc : customLoad cfg (.basic b) tag = none) (hb : regBasic b tag = none) :
    build cfg (.basic b) tag = .err :=
  build_basic_err hc hb

/-- … and as a field `X b \`plenc:"idx,opt"\`` of any struct. -/
theorem rejects_unknown_option_field {cfg : Cfg} {name tag : String} {fs : FieldDefs}
    {g p j : String} {b : Basic} (hm : (g, true, p, j, .basic b) ∈ fs) (hp0 : p ≠ "") (hp : p ≠ "-")
    (hc : customLoad cfg (.basic b) (subTag (splitComma p).2) = none)
    (hb : regBasic b (subTag (splitComma p).2) = none)
    (hreg : customLoad cfg (.struct name fs) tag = none) :
    build cfg (.struct name fs) tag = .err :=
  struct_err_of_field_type hm hp0 hp (build_basic_err hc hb) hreg

/-- an unsupported kind (complex, array, chan, func, interface, uintptr, unsafe pointer). -/
theorem rejects_bad_kind (cfg : Cfg) (k tag : String) : build cfg (.bad k) tag = .err :=
  build_bad cfg k tag

/-- a slice whose element codec has a fixed-width wire type but whose element
type is not of kind float32/float64: pointers to floats and null.Float
(formerly accepted; every Marshal then panicked). -/
theorem rejects_slice_of_nonfloat {cfg : Cfg} {t : TyDef} {c : Ty} (tag : String)
    (hk : t.isFloatKind = false) (hne : t ≠ .basic (.uint 8))
    (hb : build cfg t "" = .ok c) (hw : c.wt = .w64 ∨ c.wt = .w32) :
    build cfg (.slice t) tag = .err :=
  build_slice_nonfloat tag hk hne hb hw

/-- the pointer instance: slices of pointers to floats. -/
theorem rejects_slice_of_float_ptr {cfg : Cfg} {t : TyDef} {c : Ty} (tag : String)
    (hk : t.kind = .ptr) (hb : build cfg t "" = .ok c) (hw : c.wt = .w64 ∨ c.wt = .w32) :
    build cfg (.slice t) tag = .err :=
  build_slice_ptr_float tag hk hb hw

/-- the null.Float instance, for every tag and both array modes. -/
theorem rejects_slice_of_null_float {cfg : Cfg} (tag : String) (hn : cfg.nullCodecs = true)
    (hreg : customLoad cfg (.ext "null.Float") "" = none) :
    build cfg (.slice (.ext "null.Float")) tag = .err := by
  have hb : build cfg (.ext "null.Float") "" = .ok (.ptr .f64) := by
    rw [build]; simp [regLoad, hreg, hn, nullCodec]
  exact build_slice_nonfloat tag rfl (by simp) hb (.inl rfl)

/-- slices of slices of length-delimited elements: rejected under EVERY option
combination. (Until the repair `fix: … slices of slices … under
ProtoCompatibleArrays` this theorem needed the hypothesis `cfg.protoArrays =
false`: with the option set the inner slice was built in the protobuf repeated
form, whose wire type is WTLength, so the outer slice accepted it and the
elements of neighbouring inner slices ran together: `[[a b] [c]]` read back as
`[[a] [b] [c]]`. The excluded point was a genuine defect.) -/
theorem rejects_slice_of_slice {cfg : Cfg} {t : TyDef} {c : Ty} (tag : String)
    (hne : t ≠ .basic (.uint 8))
    (hb : build cfg t "" = .ok c) (hw : c.wt = .len) :
    build cfg (.slice (.slice t)) tag = .err :=
  build_slice_slice_len tag hne hb hw

/-- the same behind pointers: any slice whose element codec is, or points to, the
protobuf repeated form (`[]*[]string` under ProtoCompatibleArrays). -/
theorem rejects_slice_of_proto_slice {cfg : Cfg} {t : TyDef} {c : Ty} (tag : String)
    (hne : t ≠ .basic (.uint 8)) (hb : build cfg t "" = .ok c) (hp : c.isProtoSlice = true) :
    build cfg (.slice t) tag = .err :=
  build_slice_protoslice tag hne hb hp

/-- a map whose values are (pointers to) slices in the protobuf repeated form —
`map[string][]string`, `map[K][]struct`, `map[K]*[]string` under
ProtoCompatibleArrays: rejected (repair e18fcf6: a map entry holds ONE value
field, the repeated form writes one per element; such maps failed to decode or
silently kept the first element of each value). -/
theorem rejects_map_of_proto_slice {cfg : Cfg} (k : TyDef) {v : TyDef} {vc : Ty} (tag : String)
    (hb : build cfg v "" = .ok vc) (hp : vc.isProtoSlice = true) :
    build cfg (.map k v) tag = .err :=
  build_map_protoslice k tag hb hp

example : build {protoArrays := true} (.map (.basic .str) (.slice (.basic .str))) "" = .err := rfl
example : build {protoArrays := true} (.map (.basic .str) (.ptr (.slice (.basic .str)))) "proto" = .err := rfl
/-- … the same map in default mode, and a map of packed slices in proto mode, stay accepted. -/
example : build {} (.map (.basic .str) (.slice (.basic .str))) ""
    = .ok (.map (.str false) (.lslice (.str false)) false) := rfl
example : build {protoArrays := true} (.map (.basic .str) (.slice (.basic (.int 64)))) "proto"
    = .ok (.map (.str false) (.vslice (.int 64)) true) := rfl

/-- `[][]string` and `[]*[]string` under ProtoCompatibleArrays, concretely. -/
example : build {protoArrays := true} (.slice (.slice (.basic .str))) "" = .err := rfl
example : build {protoArrays := true} (.slice (.ptr (.slice (.basic .str)))) "" = .err := rfl
example : build {protoArrays := true}
    (.struct "S" [("A", true, "1", "", .slice (.slice (.struct "E" [("X", true, "1", "", .basic .bool)])))]) ""
    = .err := rfl
/-- … while `[][]byte` and `[][]int` stay accepted there (their inner codecs are not the repeated form). -/
example : build {protoArrays := true} (.slice (.slice (.basic (.uint 8)))) "" = .ok (.pslice .bytes) := rfl
example : build {protoArrays := true} (.slice (.slice (.basic (.int 64)))) ""
    = .ok (.pslice (.vslice (.int 64))) := rfl

/-- any slice whose element codec has plenc's WTSlice wire type. -/
theorem rejects_slice_of_wtslice {cfg : Cfg} {t : TyDef} {c : Ty} (tag : String)
    (hne : t ≠ .basic (.uint 8)) (hb : build cfg t "" = .ok c) (hw : c.wt = .slice) :
    build cfg (.slice t) tag = .err :=
  build_slice_wtslice tag hne hb hw

/-- maps where they cannot be encoded: as map value, pointer target, slice element. -/
theorem rejects_map_of_map {cfg : Cfg} (k : TyDef) {v : TyDef} (tag : String) (h : v.kind = .map) :
    build cfg (.map k v) tag = .err := build_map_map k tag h
theorem rejects_ptr_to_map {cfg : Cfg} {t : TyDef} (tag : String) (h : t.kind = .map) :
    build cfg (.ptr t) tag = .err := build_ptr_map tag h
theorem rejects_slice_of_map {cfg : Cfg} {t : TyDef} (tag : String) (h : t.kind = .map) :
    build cfg (.slice t) tag = .err := build_slice_map tag h

/-- the general lemma: if a sub-definition in a built position (field type,
pointer target, slice element, map key, map value, underlying type of a defined
type, nested struct field — `Build.Reach`, any depth) fails, the whole fails. -/
theorem build_propagates_err {cfg : Cfg} {d' : TyDef} {t' : String} {d : TyDef} {tag : String}
    (hr : Reach cfg d' t' none d tag) (he : build cfg d' t' = .err) : build cfg d tag = .err :=
  Build.build_propagates_err hr he

theorem buildNamed_propagates_err {cfg : Cfg} {d' : TyDef} {t' n : String} {d : TyDef}
    {tag : String} (hr : Reach cfg d' t' (some n) d tag) (he : build cfg d' t' = .err) :
    buildNamed cfg n d tag = .err :=
  Build.build_propagates_err hr he

/-- an unsupported kind in any reachable position. -/
theorem rejects_bad_kind_anywhere {cfg : Cfg} {k t' : String} {d : TyDef} {tag : String}
    (hr : Reach cfg (.bad k) t' none d tag) : build cfg d tag = .err :=
  Build.build_propagates_err hr (build_bad cfg k t')

/-- the one-step form for a struct: a field whose type fails. -/
theorem rejects_field_type {cfg : Cfg} {name tag : String} {fs : FieldDefs}
    {g p j : String} {t : TyDef} (hm : (g, true, p, j, t) ∈ fs) (hp0 : p ≠ "") (hp : p ≠ "-")
    (hb : build cfg t (subTag (splitComma p).2) = .err)
    (hreg : customLoad cfg (.struct name fs) tag = none) :
    build cfg (.struct name fs) tag = .err :=
  struct_err_of_field_type hm hp0 hp hb hreg

/-! ### 4. skipped fields never reach a codec -/

/-- `Build.skipped f`: `f` is unexported, or tagged "-". -/
theorem skipped_iff (g : String) (e : Bool) (p j : String) (t : TyDef) :
    skipped (g, e, p, j, t) = true ↔ e = false ∨ p = "-" := by
  cases e <;> simp [skipped]

/-- an unexported field or a field tagged "-" contributes nothing, wherever it
stands and whatever its type (even an unsupported one). -/
theorem skipped_fields_absent (cfg : Cfg) {f : FieldDef} (hs : skipped f = true)
    (pre post : FieldDefs) :
    buildFields cfg (pre ++ f :: post) = buildFields cfg (pre ++ post) :=
  buildFields_skip cfg hs post pre

/-- hence the struct codec — and with it every `size`, `app` and `read` — is the
one of the definition without the field. -/
theorem skipped_fields_same_codec (cfg : Cfg) {f : FieldDef} (hs : skipped f = true)
    (name : String) (pre post : FieldDefs) (tag : String) :
    build cfg (.struct name (pre ++ f :: post)) tag = build cfg (.struct name (pre ++ post)) tag :=
  build_skip cfg hs name pre post tag

theorem skipped_fields_same_codec_named (cfg : Cfg) {f : FieldDef} (hs : skipped f = true)
    (n name : String) (pre post : FieldDefs) (tag : String) :
    buildNamed cfg n (.struct name (pre ++ f :: post)) tag =
      buildNamed cfg n (.struct name (pre ++ post)) tag :=
  buildNamed_skip cfg hs n name pre post tag

theorem skipped_fields_no_bytes (cfg : Cfg) {f : FieldDef} (hs : skipped f = true)
    (name : String) (pre post : FieldDefs) (tag : String) (t t' : Ty)
    (h : build cfg (.struct name (pre ++ f :: post)) tag = .ok t)
    (h' : build cfg (.struct name (pre ++ post)) tag = .ok t') :
    (∀ v tg, t.app v tg = t'.app v tg) ∧ (∀ v tg, t.size v tg = t'.size v tg) ∧
    (∀ wt d p, t.read wt d p = t'.read wt d p) := by
  rw [build_skip cfg hs name pre post tag, h'] at h
  cases h
  exact ⟨fun _ _ => rfl, fun _ _ => rfl, fun _ _ _ => rfl⟩

/-- the fields of the codec are exactly the non-skipped fields of the
definition, in declaration order, under (tag index, json-or-Go name). -/
theorem encoded_fields_only {cfg : Cfg} {fs : FieldDefs} {cfs : Fields}
    (h : buildFields cfg fs = .ok cfs) :
    cfs.map (fun c => (c.1, c.2.1)) = fs.filterMap encKey :=
  buildFields_keys cfg fs cfs h

theorem encKey_skipped {f : FieldDef} (hs : skipped f = true) : encKey f = none := by
  simp [encKey, hs]

/-! ### 5. non-vacuity -/

/-- a struct with flat / intern / proto options, json names, a nested map
(inside a struct-valued map), named types, an unexported field and a "-" field
of unsupported kinds, a pointer, `[][]byte`, a named slice of pointers and an
interned null.String. -/
def exDef : TyDef := .struct "Ex" [
  ("A", true, "1,flat", "a,omitempty", .basic (.int 64)),
  ("B", true, "2,intern", "", .basic .str),
  ("C", true, "3,proto", "", .slice (.basic .str)),
  ("D", true, "4", "", .map (.basic .str)
      (.struct "In" [("M", true, "1,proto", "m", .map (.basic (.int 32)) (.slice (.basic .f64)))])),
  ("E", true, "5", "", .named "Celsius" (.basic .f32)),
  ("hidden", false, "", "", .bad "chan"),
  ("F", true, "-", "", .bad "func"),
  ("G", true, "7", "", .ptr .time),
  ("H", true, "8", "", .slice (.slice (.basic (.uint 8)))),
  ("I", true, "9", "", .named "IDs" (.slice (.ptr (.basic (.uint 32))))),
  ("J", true, "10,intern", "", .ext "null.String")]

def exCfg : Cfg := {nullCodecs := true}

example : build exCfg exDef "" = .ok (.struct "Ex" [
    (1, "a", .flat 64), (2, "B", .str true), (3, "C", .pslice (.str false)),
    (4, "D", .map (.str false) (.struct "In" [(1, "m", .map (.int 32) (.fslice .f64) true)]) false),
    (5, "E", .f32), (7, "G", .ptr (.time false)), (8, "H", .lslice .bytes),
    (9, "I", .vslice (.ptr (.uint 32))), (10, "J", .ptr (.str true))]) := rfl

/-- the hypotheses of `build_sound` hold for it (all decidable), so the tree is Accepted. -/
example : ∃ t, build exCfg exDef "" = .ok t ∧ t.wf :=
  have h : build exCfg exDef "" = .ok _ := rfl
  ⟨_, h, build_sound (cfg := exCfg) (d := exDef) (cfg_wf_nil rfl) (by decide) (by decide) h⟩

/-- the two corollaries are not vacuous: a repeated-form slice of pointers under
ProtoCompatibleArrays, and a map of length-delimited slices in default mode. -/
example : (Ty.ptr (.str false)).isProtoSlice = false :=
  (build_no_proto_slice_elements (cfg := {protoArrays := true}) (d := .slice (.ptr (.basic .str)))
    (tag := "") (cfg_wf_nil rfl) (by decide) (by decide)).1 rfl
example : (Ty.lslice (.str false)).isProtoSlice = false ∧ (Ty.str false).isProtoSlice = false :=
  build_no_proto_slice_in_maps (cfg := {}) (d := .map (.basic .str) (.slice (.basic .str)))
    (tag := "") (cfg_wf_nil rfl) (by decide) (by decide) rfl

/-- a named map type at top level, proto form. -/
example : build {} (.named "Index" (.map (.basic .str) (.slice (.basic (.int 64))))) "proto"
    = .ok (.map (.str false) (.vslice (.int 64)) true) := rfl

/-- a user registration shadows the default and is looked up by exact (type, tag). -/
example : build {custom := [("int64", "ts", .uint 64)]}
    (.struct "T" [("At", true, "1,ts", "", .basic (.int 64))]) ""
    = .ok (.struct "T" [(1, "At", .uint 64)]) := rfl

/-! one concrete definition per error class -/

example : build {} (.struct "S" [("A", true, "1", "", .basic .bool), ("B", true, "", "", .basic .bool)]) ""
    = .err := rfl                                                        -- no tag
example : build {} (.struct "S" [("A", true, "x1", "", .basic .bool)]) "" = .err := rfl     -- Atoi
example : build {} (.struct "S" [("A", true, " 1", "", .basic .bool)]) "" = .err := rfl     -- Atoi
example : build {} (.struct "S" [("A", true, ",flat", "", .basic (.int 64))]) "" = .err := rfl
example : build {} (.struct "S" [("A", true, "9223372036854775808", "", .basic .bool)]) ""
    = .err := rfl                                                        -- overflow
example : build {} (.struct "S" [("A", true, "-1", "", .basic .bool)]) "" = .err := rfl     -- negative
example : build {} (.struct "S" [("A", true, "536870912", "", .basic .bool)]) "" = .err := rfl   -- 2^29
example : build {} (.struct "S" [("A", true, "2305843009213693952", "", .basic .bool)]) ""
    = .err := rfl                                                        -- 2^61 (former panic)
example : build {} (.struct "S" [("A", true, "536870911", "", .basic .bool)]) ""
    = .ok (.struct "S" [(536870911, "A", .bool)]) := rfl                 -- the largest index
example : build {} (.struct "S" [("A", true, "1", "", .basic .bool), ("h", false, "1", "", .basic .bool),
    ("B", true, "+1", "", .basic .str)]) "" = .err := rfl                -- duplicate
example : build {} (.struct "S" [("A", true, "1,flat", "", .basic .str)]) "" = .err := rfl  -- option
example : build {} (.struct "S" [("A", true, "1,intern ", "", .basic .str)]) "" = .err := rfl
example : build {} (.struct "S" [("A", true, "1", "", .ptr (.slice (.bad "complex128")))]) ""
    = .err := rfl                                                        -- kind
example : build {} (.map (.bad "interface") (.basic .bool)) "" = .err := rfl
example : build {} (.named "F" (.bad "func")) "" = .err := rfl
example : build {} (.slice (.ptr (.basic .f32))) "" = .err := rfl        -- []*float32
example : build {nullCodecs := true} (.slice (.ext "null.Float")) "" = .err := rfl   -- []null.Float
example : build {nullCodecs := true} (.slice (.ext "null.Int")) ""
    = .ok (.vslice (.ptr (.int 64))) := rfl                              -- []null.Int still builds
example : build {} (.slice (.named "Celsius" (.basic .f32))) "" = .ok (.fslice .f32) := rfl
example : build {} (.slice (.slice (.basic .str))) "" = .err := rfl      -- [][]string
example : build {} (.slice (.slice (.slice (.basic (.uint 8))))) "" = .err := rfl   -- [][][]byte
example : build {} (.map (.basic .str) (.map (.basic .str) (.basic .bool))) "" = .err := rfl
example : build {} (.ptr (.named "M" (.map (.basic .str) (.basic .bool)))) "" = .err := rfl
example : build {} (.slice (.map (.basic .str) (.basic .bool))) "" = .err := rfl
example : build {} (.struct "S" [("T", true, "1,x", "", .time)]) "" = .err := rfl   -- time with option

/-- the rejection lemmas applied: a `chan` three levels down in the third field. -/
example (pre post : FieldDefs) :
    build {} (.struct "S" (pre ++ ("C", true, "3", "", .map (.basic .str) (.ptr (.slice (.bad "chan")))) :: post)) ""
      = .err :=
  rejects_bad_kind_anywhere (k := "chan") (t' := "")
    (.field (g := "C") (p := "3") (j := "")
      (t := .map (.basic .str) (.ptr (.slice (.bad "chan")))) (fun _ => customLoad_nil rfl _ _) (by simp)
      (by decide) (by decide)
      (.mapVal (.ptr (.slice (fun _ => regLoad_slice_none _ (by simp)) .here))))

/-- the skipping lemma applied: an unexported `chan` field changes nothing. -/
example (pre post : FieldDefs) (cfg : Cfg) :
    buildFields cfg (pre ++ ("c", false, "", "", .bad "chan") :: post) = buildFields cfg (pre ++ post) :=
  skipped_fields_absent cfg rfl pre post

end C08
