import Proofs.World
/-
  C17 — Registrations and options are scoped to their Plenc instance and
  (type, tag) key.  A codec registered for a type — optionally under a tag name —
  is the one used wherever exactly that type (with that tag option) occurs: as a
  value, struct field, pointer target, slice element, map key or map value,
  taking precedence over the kind-based defaults, while named types without
  their own registration fall back to the codec of their underlying kind.
  Registrations and the ProtoCompatible options of one Plenc instance never
  affect any other instance or the package-level default, and the package-level
  functions behave exactly like a default-configured instance.

  Property theorems only.  Models: Plenc/Build.lean (`build` =
  `CodecForTypeRegistry`, `customLoad`/`regLoad` = `registry.Load`) and
  Plenc/World.lean (several instances, `step`/`run`); helper lemmas in
  Proofs/World.lean.

  PARTIAL IN AN ESSENTIAL WAY.  The theorems below are about a pure functional
  model in which an instance *is* its configuration; in such a model instances
  cannot share hidden state, so `instance_isolation` and `default_is_default`
  only show that the model's own bookkeeping (instance ids, list updates) keeps
  instances apart.  Absence of hidden global state in the GO code (a registry
  made a package-level variable, a codec cache shared between instances, …) is
  exactly what a pure model cannot show; that part of C17 is carried by the
  correspondence run (`world` scripts: several instances with differing options
  and registrations, marker codecs, registered types in every position, the
  package-level functions against a fresh default-configured instance).

  Scope of the model (see the header of Plenc/World.lean):
  * the codec cache (`StoreOrSwap`) is not modelled; scripts are compared in the
    fragment "registrations precede the first use of the instance"
    (`World.regBeforeUse`; a late registration answers `Out.late`).  The
    theorems about `build` are about the registration list alone and hold for
    every `Cfg`.
  * a registration is keyed by the Go type NAME (`TyDef.regName`): basic types,
    `time.Time`, defined types, named structs, library structs and `[]byte`.
    Registrations for unnamed pointer / slice / map / anonymous struct types
    (possible in Go) are outside the model.
  * interpretation of "with that tag option" (DESIGN §5): the positions the
    builder propagates a tag to — the type itself, a struct field's type (the
    option after the comma; `intern` is stripped and handled apart) and a
    pointer's target.  Slice elements and map keys/values are looked up under
    the empty tag, as the comment in codec.go says.
-/
namespace C17
open World

/-! ### registered wins -/

/-- **as a value**: if `(n, tag, c)` is the last registration of the key `(n, tag)`
in the instance's list and `d` is the type named `n`, the codec for `(d, tag)` is
`c` — before any kind-based default, whatever `d`'s kind. -/
theorem registered_wins {cfg : Cfg} {d : TyDef} {n tag : String} {c : Ty}
    (hn : d.regName = some n) (h : LastReg cfg n tag c) : build cfg d tag = .ok c :=
  build_of_customLoad (customLoad_of_last hn h)

/-- the lookup is by last registration and nothing else: `customLoad` hits iff
there is a last registration of the key. -/
theorem registered_iff {cfg : Cfg} {d : TyDef} {tag : String} {c : Ty} :
    customLoad cfg d tag = some c ↔ ∃ n, d.regName = some n ∧ LastReg cfg n tag c :=
  ⟨last_of_customLoad, fun ⟨_, hn, h⟩ => customLoad_of_last hn h⟩

/-- a later registration of the same key replaces the earlier one … -/
theorem later_registration_replaces (cfg : Cfg) {d : TyDef} {n : String} (tag : String) (c : Ty)
    (hn : d.regName = some n) : build (cfgRegister cfg n tag c) d tag = .ok c :=
  registered_wins hn (lastReg_register cfg n tag c)

/-- … and a registration under another key (another type, or the same type under
another tag) does not disturb it. -/
theorem other_key_irrelevant {cfg : Cfg} {d : TyDef} {n tag : String} {c : Ty} (n' tag' : String) (c' : Ty)
    (hne : ¬ (n' = n ∧ tag' = tag)) (hn : d.regName = some n) (h : LastReg cfg n tag c) :
    build (cfgRegister cfg n' tag' c') d tag = .ok c :=
  registered_wins hn (lastReg_register_other n' tag' c' hne h)

/-- **pointer target** (the pointer's tag is passed down). Go refuses pointers to
maps before looking anything up, hence `d.kind ≠ .map`. -/
theorem registered_wins_ptr {cfg : Cfg} {d : TyDef} {n tag : String} {c : Ty}
    (hn : d.regName = some n) (h : LastReg cfg n tag c) (hk : d.kind ≠ .map) :
    build cfg (.ptr d) tag = .ok (.ptr c) :=
  build_ptr_registered (customLoad_of_last hn h) hk

/-- **slice element** (looked up under ""; the slice's tag only chooses the
wrapper). `hs`: the slice type itself misses the registry — it hits only for
`[]byte` (see `slice_misses_registry`). -/
theorem registered_wins_slice {cfg : Cfg} {d : TyDef} {n tag : String} {c : Ty}
    (hn : d.regName = some n) (h : LastReg cfg n "" c) (hk : d.kind ≠ .map)
    (hs : regLoad cfg (.slice d) tag = none) :
    build cfg (.slice d) tag = sliceWrap cfg tag (!d.isFloatKind) c :=
  build_slice_registered hs (customLoad_of_last hn h) hk

theorem slice_misses_registry {cfg : Cfg} {d : TyDef} {tag : String} (h : d ≠ .basic (.uint 8)) :
    regLoad cfg (.slice d) tag = none :=
  regLoad_slice_none h

/-- **map key** (looked up under ""). `hps`: the value codec is not the protobuf
repeated form of a slice, which the map builder rejects (a map entry holds one
value field). -/
theorem registered_wins_map_key {cfg : Cfg} {k v : TyDef} {n tag : String} {c vc : Ty}
    (hn : k.regName = some n) (h : LastReg cfg n "" c) (hk : v.kind ≠ .map)
    (hv : build cfg v "" = .ok vc) (hps : vc.isProtoSlice = false) (hpk : c.isProtoSlice = false) :
    build cfg (.map k v) tag = .ok (.map c vc (tag == "proto")) :=
  build_map_key_registered (customLoad_of_last hn h) hk hv hps hpk

/-- **map value** (looked up under ""). -/
theorem registered_wins_map_val {cfg : Cfg} {k v : TyDef} {n tag : String} {c kc : Ty}
    (hn : v.regName = some n) (h : LastReg cfg n "" c) (hk : v.kind ≠ .map)
    (hkc : build cfg k "" = .ok kc) (hps : c.isProtoSlice = false) (hpk : kc.isProtoSlice = false) :
    build cfg (.map k v) tag = .ok (.map kc c (tag == "proto")) :=
  build_map_val_registered (customLoad_of_last hn h) hk hkc hps hpk

/-- **struct field**: the field `g` with tag `plenc:"<idx>[,<option>]"` (option ≠
`intern`) of a type registered under that option gets `c`. `Res.map` threads the
outcome of the remaining fields. -/
theorem registered_wins_field {cfg : Cfg} {g ptag json idxS : String} {pfx : Option String}
    {idx : Int} {d : TyDef} {r : FieldDefs} {n : String} {c : Ty}
    (hs : splitComma ptag = (idxS, pfx)) (ha : atoi idxS = some idx) (h0 : 0 ≤ idx) (hmax : idx ≤ 536870911)
    (hi : pfx ≠ some "intern") (hn : d.regName = some n) (h : LastReg cfg n (pfx.getD "") c) :
    buildFields cfg ((g, true, ptag, json, d) :: r) =
      (buildFields cfg r).map fun cfs => (idx.toNat, fieldName g json, c) :: cfs :=
  buildFields_registered hs ha h0 hmax hi (customLoad_of_last hn h)

/-- a field tagged `intern`: the type is looked up under "" and the codec found is
kept unless it implements `Interner` (only the string codecs do) … -/
theorem registered_wins_field_intern {cfg : Cfg} {g ptag json idxS : String}
    {idx : Int} {d : TyDef} {r : FieldDefs} {n : String} {c : Ty}
    (hs : splitComma ptag = (idxS, some "intern")) (ha : atoi idxS = some idx) (h0 : 0 ≤ idx) (hmax : idx ≤ 536870911)
    (hn : d.regName = some n) (h : LastReg cfg n "" c) (h1 : c ≠ .str false) (h2 : c ≠ .ptr (.str false)) :
    buildFields cfg ((g, true, ptag, json, d) :: r) =
      (buildFields cfg r).map fun cfs => (idx.toNat, fieldName g json, c) :: cfs :=
  buildFields_registered_intern hs ha h0 hmax (customLoad_of_last hn h) h1 h2

/-- … and a type registered with the plain string codec gets its interning form. -/
theorem registered_wins_field_intern_str {cfg : Cfg} {g ptag json idxS : String}
    {idx : Int} {d : TyDef} {r : FieldDefs} {n : String}
    (hs : splitComma ptag = (idxS, some "intern")) (ha : atoi idxS = some idx) (h0 : 0 ≤ idx) (hmax : idx ≤ 536870911)
    (hn : d.regName = some n) (h : LastReg cfg n "" (.str false)) :
    buildFields cfg ((g, true, ptag, json, d) :: r) =
      (buildFields cfg r).map fun cfs => (idx.toNat, fieldName g json, .str true) :: cfs :=
  buildFields_registered_intern_str hs ha h0 hmax (customLoad_of_last hn h)

/-- the struct arm hands the field list to the field loop (unless the struct type
is registered itself), so the field lemma reaches `build`; here for one field. -/
theorem registered_wins_struct_field {cfg : Cfg} {name g ptag json idxS : String}
    {pfx : Option String} {idx : Int} {d : TyDef} {n : String} {c : Ty}
    (hname : Unregistered cfg name "")
    (hs : splitComma ptag = (idxS, pfx)) (ha : atoi idxS = some idx) (h0 : 0 ≤ idx) (hmax : idx ≤ 536870911)
    (hi : pfx ≠ some "intern") (hn : d.regName = some n) (h : LastReg cfg n (pfx.getD "") c) :
    build cfg (.struct name [(g, true, ptag, json, d)]) "" =
      .ok (.struct name [(idx.toNat, fieldName g json, c)]) :=
  build_struct_field_registered hname hs ha h0 hmax hi (customLoad_of_last hn h)

/-- the same four call sites inside a DEFINED pointer / slice / map type
(`buildNamed`); a defined slice type has no `[]byte` exception. -/
theorem registered_wins_named_sites {cfg : Cfg} {m : String} {d : TyDef} {n tag : String} {c : Ty}
    (hn : d.regName = some n) (hk : d.kind ≠ .map) :
    (LastReg cfg n tag c → buildNamed cfg m (.ptr d) tag = .ok (.ptr c)) ∧
    (LastReg cfg n "" c → buildNamed cfg m (.slice d) tag = sliceWrap cfg tag (!d.isFloatKind) c) ∧
    (LastReg cfg n "" c → ∀ v vc, v.kind ≠ .map → build cfg v "" = .ok vc → vc.isProtoSlice = false →
        c.isProtoSlice = false →
        buildNamed cfg m (.map d v) tag = .ok (.map c vc (tag == "proto"))) ∧
    (LastReg cfg n "" c → ∀ k kc, build cfg k "" = .ok kc → c.isProtoSlice = false →
        kc.isProtoSlice = false →
        buildNamed cfg m (.map k d) tag = .ok (.map kc c (tag == "proto"))) :=
  ⟨fun h => buildNamed_ptr_registered (customLoad_of_last hn h) hk,
   fun h => buildNamed_slice_registered (customLoad_of_last hn h) hk,
   fun h _ _ hv hb hps hpk => buildNamed_map_key_registered (customLoad_of_last hn h) hv hb hps hpk,
   fun h _ _ hb hps hpk => buildNamed_map_val_registered (customLoad_of_last hn h) hk hb hps hpk⟩

/-- the same in a world of instances: after `register i n tag c`, and whatever is
done to other instances or under other keys, instance `i` answers `c`. -/
theorem registered_wins_world (i : Nat) (w : World) (hi : i < w.length) (n tag : String) (c : Ty)
    (mid : List Op) (hmid : ∀ o ∈ mid, o.inst = some i → Op.touchesKey n tag o = false)
    (d : TyDef) (hd : d.regName = some n) :
    (step (run (.register i n tag c :: mid) w).1 (.codecFor i d tag)).2 = .codec (.ok c) :=
  world_registered_wins i w hi n tag c mid hmid d hd

/-! ### defined types fall back to their underlying kind -/

/-- a defined type over a basic kind, without a registration of its own under
this tag, gets the codec of the unnamed basic type under this tag. -/
theorem named_fallback {cfg : Cfg} {n : String} {b : Basic} {tag : String}
    (h : Unregistered cfg n tag) : build cfg (.named n (.basic b)) tag = build cfg (.basic b) tag := by
  rw [build_named_unregistered h, buildNamed_basic]

/-- a defined pointer type: the pointer arm. -/
theorem named_fallback_ptr {cfg : Cfg} {n : String} {t : TyDef} {tag : String}
    (h : Unregistered cfg n tag) : build cfg (.named n (.ptr t)) tag = build cfg (.ptr t) tag := by
  rw [build_named_unregistered h, buildNamed_ptr]

/-- a defined map type: the map arm. -/
theorem named_fallback_map {cfg : Cfg} {n : String} {k v : TyDef} {tag : String}
    (h : Unregistered cfg n tag) : build cfg (.named n (.map k v)) tag = build cfg (.map k v) tag := by
  rw [build_named_unregistered h, buildNamed_map]

/-- a defined slice type: the slice arm, for every element type but `byte` … -/
theorem named_fallback_slice {cfg : Cfg} {n : String} {t : TyDef} {tag : String}
    (h : Unregistered cfg n tag) (ht : t ≠ .basic (.uint 8)) :
    build cfg (.named n (.slice t)) tag = build cfg (.slice t) tag := by
  rw [build_named_unregistered h, buildNamed_slice _ _ _ _ (regLoad_slice_none ht)]

/-- … while a defined `[]byte` type is NOT `BytesCodec`: the exact-type entry of
the registry does not apply to it, it is a packed slice of `uint8` varints. -/
theorem named_bytes_is_not_BytesCodec {cfg : Cfg} {n : String} (h : cfg.custom = []) :
    build cfg (.slice (.basic (.uint 8))) "" = .ok .bytes ∧
    build cfg (.named n (.slice (.basic (.uint 8)))) "" = .ok (.vslice (.uint 8)) := by
  have hc : ∀ d tag, customLoad cfg d tag = none := by
    intro d tag; unfold customLoad; rw [h]; cases d.regName <;> rfl
  constructor
  · rw [build]; simp [regLoad, hc]
  · rw [build, hc, buildNamed]
    simp only [TyDef.kind, reduceCtorEq, ↓reduceIte]
    rw [build]
    simp [regLoad, hc, regBasic, sliceWrap, Ty.wt]

/-- the name of an intermediate defined type is irrelevant (`type N M`: N's
underlying type is M's; M's registrations are not inherited by N). -/
theorem named_fallback_named {cfg : Cfg} {n m : String} {t : TyDef} {tag : String}
    (h : Unregistered cfg n tag) : build cfg (.named n (.named m t)) tag = build cfg (.named n t) tag := by
  rw [build_named_unregistered h, build_named_unregistered h, buildNamed_named]

/-- a defined struct type (`type N M`, `M` a struct): `M`'s fields under `N`'s name. -/
theorem named_fallback_struct {cfg : Cfg} {n m : String} {fs : FieldDefs} {tag : String}
    (h : Unregistered cfg n tag) :
    build cfg (.named n (.struct m fs)) tag =
      (buildFields cfg fs).bind fun cfs =>
        if hasDup (cfs.map (·.1)) then .err else .ok (.struct n cfs) := by
  rw [build_named_unregistered h, buildNamed_struct]

/-- a defined type over `time.Time` is NOT the time codec either: it is a struct
with no exported fields. -/
theorem named_time_is_not_TimeCodec {cfg : Cfg} {n : String} {tag : String}
    (h : Unregistered cfg n tag) : build cfg (.named n .time) tag = .ok (.struct n []) := by
  rw [build_named_unregistered h, buildNamed]

/-! ### instances are isolated -/

/-- **the local-run theorem** (the strongest form): an instance that exists
evolves exactly as the single-instance machine fed with the ops addressed to it:
same final state, same outputs. -/
theorem instance_local (i : Nat) (ops : List Op) (w : World) (s : Inst) (h : w[i]? = some s) :
    (run ops w).1[i]? = some (runInst s (ops.filter fun o => o.inst = some i)).1 ∧
    outsAt i ops (run ops w).2 = (runInst s (ops.filter fun o => o.inst = some i)).2 :=
  run_local i ops w s h

/-- **instance isolation**: for every script and every instance `i` that exists
at the start, the outputs of the ops addressed to `i` are those of the script
with every other op removed. (`hi` is needed: ids are allocated in creation
order, so removing the creation ops changes which instance a later id denotes —
`isolation_needs_existing` below.) -/
theorem instance_isolation (i : Nat) (ops : List Op) (w : World) (hi : i < w.length) :
    outsAt i ops (run ops w).2 =
      outsAt i (ops.filter fun o => o.inst = some i) (run (ops.filter fun o => o.inst = some i) w).2 :=
  World.instance_isolation i ops w hi

/-- for ANY instance, including those the script creates: remove every op
addressed to another instance, keep the creations. -/
theorem instance_isolation_created (i : Nat) (ops : List Op) (w : World) :
    outsAt i ops (run ops w).2 =
      outsAt i (ops.filter fun o => o.inst = some i || o.inst = none)
        (run (ops.filter fun o => o.inst = some i || o.inst = none) w).2 :=
  World.instance_isolation_created i ops w

/-- the options other instances are created with are invisible as well: scripts
with the same ops on `i` give the same outputs on `i`. -/
theorem other_options_invisible (i : Nat) (ops ops' : List Op) (w : World) (hi : i < w.length)
    (h : (ops.filter fun o => o.inst = some i) = ops'.filter fun o => o.inst = some i) :
    outsAt i ops (run ops w).2 = outsAt i ops' (run ops' w).2 :=
  creation_options_invisible i ops ops' w hi h

/-- **the package-level functions are a default-configured instance**: from
program start, whatever the script does, the answers of the ops addressed to
instance 0 are the answers a freshly created instance with both options off
(instance 1 of the right-hand script) gives to the same calls. -/
theorem default_is_default (ops : List Op) :
    outsAt 0 ops (run ops init).2 =
      outsAt 1 (.newInstance false false :: (ops.filter fun o => o.inst = some 0).map (Op.retarget 1))
        (run (.newInstance false false :: (ops.filter fun o => o.inst = some 0).map (Op.retarget 1)) init).2 :=
  World.default_is_default ops

/-- scripts that register before use stay inside the modelled fragment. -/
theorem reg_before_use_never_late (ops : List Op) (h : regBeforeUse [] ops = true) :
    Out.late ∉ (run ops init).2 :=
  no_late_init ops h

/-! ### options are local -/

/-- **options are local**: `build` reads `ProtoCompatibleTime` only through the
registry entry of `time.Time` and `ProtoCompatibleArrays` only through the
wrapper choice for slices of length-delimited elements; a definition with
neither builds to the same codec under all four combinations. -/
theorem options_local (cfg : Cfg) (a b : Bool) (d : TyDef) (tag : String)
    (ht : noTime d) (hs : arraysStable cfg d) :
    build { cfg with protoArrays := a, protoTime := b } d tag = build cfg d tag :=
  build_options_local cfg a b d tag ht hs

/-- each option separately, with only its own hypothesis. -/
theorem protoTime_local (cfg : Cfg) (b : Bool) (d : TyDef) (tag : String) (ht : noTime d) :
    build { cfg with protoTime := b } d tag = build cfg d tag :=
  build_protoTime cfg b d tag ht

theorem protoArrays_local (cfg : Cfg) (a : Bool) (d : TyDef) (tag : String) (hs : arraysStable cfg d) :
    build { cfg with protoArrays := a } d tag = build cfg d tag :=
  build_protoArrays cfg a d tag hs

/-- the only two places the options are read. -/
theorem options_read_sites (cfg : Cfg) (a b : Bool) :
    (∀ d tag, customLoad { cfg with protoArrays := a, protoTime := b } d tag = customLoad cfg d tag) ∧
    (∀ d tag, regLoad { cfg with protoArrays := a } d tag = regLoad cfg d tag) ∧
    (∀ d tag, d ≠ .time → regLoad { cfg with protoTime := b } d tag = regLoad cfg d tag) ∧
    (∀ tag ep c, sliceWrap { cfg with protoTime := b } tag ep c = sliceWrap cfg tag ep c) ∧
    (∀ tag ep c, c.wt ≠ .len ∨ tag = "proto" →
        sliceWrap { cfg with protoArrays := a } tag ep c = sliceWrap cfg tag ep c) :=
  ⟨customLoad_options cfg a b, regLoad_protoArrays cfg a, regLoad_protoTime cfg b,
   sliceWrap_protoTime cfg b, sliceWrap_protoArrays cfg a⟩

/-! ### non-vacuity -/

/-- a defined integer type … -/
def myInt : TyDef := .named "MyInt" (.basic (.int 64))

/-- … registered with the flat codec on an otherwise default instance … -/
def cfgEx : Cfg := { custom := [("MyInt", "", .flat 64)] }

/-- … used as field, pointer target, slice element, map key and map value. -/
def sEx : TyDef :=
  .struct "S" [("A", true, "1", "", myInt), ("B", true, "2", "", .ptr myInt),
    ("C", true, "3", "", .slice myInt), ("D", true, "4", "", .map myInt myInt),
    ("E", true, "5", "", .basic (.int 64))]

/-- the registered codec is at all five positions; the plain `int64` field next to
them still gets the zig-zag default. -/
example : build cfgEx sEx "" =
    .ok (.struct "S" [(1, "A", .flat 64), (2, "B", .ptr (.flat 64)), (3, "C", .vslice (.flat 64)),
      (4, "D", .map (.flat 64) (.flat 64) false), (5, "E", .int 64)]) := by rfl

/-- without the registration the defined type falls back to the codec of its kind. -/
example : build {} sEx "" =
    .ok (.struct "S" [(1, "A", .int 64), (2, "B", .ptr (.int 64)), (3, "C", .vslice (.int 64)),
      (4, "D", .map (.int 64) (.int 64) false), (5, "E", .int 64)]) := by rfl

/-- the hypotheses of `registered_wins` hold for the example. -/
example : myInt.regName = some "MyInt" ∧ LastReg cfgEx "MyInt" "" (.flat 64) :=
  ⟨rfl, [], [], rfl, by simp⟩

/-- a registration under a tag name is used only for fields carrying that option. -/
example : build { custom := [("MyInt", "wide", .flat 64)] }
      (.struct "S" [("A", true, "1,wide", "", myInt), ("B", true, "2", "", myInt)]) "" =
    .ok (.struct "S" [(1, "A", .flat 64), (2, "B", .int 64)]) := by rfl

/-- a later registration of the same key replaces the earlier one. -/
example : build { custom := [("MyInt", "", .flat 64), ("MyInt", "", .uint 64)] } myInt "" = .ok (.uint 64) := by rfl

/-- `type B []byte` is a packed varint slice, `[]byte` is `BytesCodec`. -/
example : build {} (.named "B" (.slice (.basic (.uint 8)))) "" = .ok (.vslice (.uint 8)) ∧
    build {} (.slice (.basic (.uint 8))) "" = .ok .bytes := ⟨rfl, rfl⟩

/-- the options DO matter at their own sites (so `options_local` is not vacuous) … -/
example : build { protoTime := true } .time "" = .ok (.time true) ∧
    build {} .time "" = .ok (.time false) ∧
    build { protoArrays := true } (.slice (.basic .str)) "" = .ok (.pslice (.str false)) ∧
    build {} (.slice (.basic .str)) "" = .ok (.lslice (.str false)) := ⟨rfl, rfl, rfl, rfl⟩

/-- … and the example struct satisfies the hypotheses of `options_local`. -/
example : noTime sEx ∧ arraysStable cfgEx sEx := by
  refine ⟨by simp [noTime, fieldsNoTime, sEx, myInt], ?_⟩
  have hb : build cfgEx myInt "" = .ok (.flat 64) := rfl
  simp only [arraysStable, fieldsStable, sEx, myInt, and_true, true_and] at *
  intro c hc
  rw [hb] at hc
  cases hc
  decide

/-- a script: instance 1 is created proto-compatible and registers the flat codec;
the same types get different codecs on instance 1 and on the default instance,
and the late registration is flagged. -/
def script : List Op :=
  [.newInstance true true, .register 1 "MyInt" "" (.flat 64),
   .codecFor 1 (.slice myInt) "", .codecFor 0 (.slice myInt) "",
   .codecFor 1 (.slice (.basic .str)) "", .codecFor 0 (.slice (.basic .str)) "",
   .codecFor 1 .time "", .codecFor 0 .time "",
   .register 1 "X" "" .bool]

example : (run script init).2 =
    [.created 1, .done, .codec (.ok (.vslice (.flat 64))), .codec (.ok (.vslice (.int 64))),
     .codec (.ok (.pslice (.str false))), .codec (.ok (.lslice (.str false))),
     .codec (.ok (.time true)), .codec (.ok (.time false)), .late] := by
  rfl

example : regBeforeUse [] script = false ∧ regBeforeUse [] script.dropLast = true := ⟨rfl, rfl⟩

/-- `instance_isolation` needs the instance to exist at the start: with the
creation op filtered away, id 1 denotes nothing. -/
theorem isolation_needs_existing :
    let ops : List Op := [.newInstance true false, .codecFor 1 .time ""]
    outsAt 1 ops (run ops init).2 = [.codec (.ok (.time true))] ∧
    outsAt 1 (ops.filter fun o => o.inst = some 1) (run (ops.filter fun o => o.inst = some 1) init).2 = [.noInst] :=
  ⟨rfl, rfl⟩

end C17
