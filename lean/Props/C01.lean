import Proofs.RoundTrip
/-
  C01 — Round trip: Unmarshal(Marshal(v)) recovers v for every accepted type and
  value, up to the documented normalisations (`Ty.normPos`).
  Property theorems only; helper lemmas live in Proofs/RoundTrip*.lean.

  Hypotheses: `wf` = "accepted" (the shapes the builder produces); `rtShape false`
  excludes the known findings (protobuf repeated forms outside a struct field,
  pointer to pointer) and asks for `keySafe` map keys; `isPtr = false` excludes
  the top-level-pointer finding; `hasTy` includes distinct map keys
  (`keysDistinct`) and struct value lists of the right length; `hsz` says every
  length prefix fits.
-/
namespace C01

/-- Round trip, all sixteen codec constructors. -/
theorem roundtrip (t : Ty) (v : Val) (hwf : t.wf) (hshape : Ty.rtShape false t) (hnp : t.isPtr = false)
    (hty : t.hasTy v) (hsz : (marshal t v).length < 2 ^ 63) :
    unmarshal t (marshal t v) t.zero = .ok (t.normPos v) :=
  RT.roundtrip t v hwf hshape hnp hty hsz

/-- …and the reader consumes exactly the marshalled bytes. -/
theorem roundtrip_consumed (t : Ty) (v : Val) (hwf : t.wf) (hshape : Ty.rtShape false t)
    (hnp : t.isPtr = false) (hty : t.hasTy v) (hsz : (marshal t v).length < 2 ^ 63) :
    t.read t.wt (marshal t v) t.zero = .ok (t.normPos v, (marshal t v).length) :=
  RT.roundtrip_consumed t v hwf hshape hnp hty hsz

/-- non-vacuity: a struct with a varint, a string, a repeated (proto) slice of
strings, a packed slice of integer pointers with a nil entry, a negative-zero
float, a nested struct, a slice of struct pointers with a nil entry, a plenc map
with a zero key and a struct-keyed proto map satisfies every hypothesis. -/
def exTy : Ty :=
  .struct "S" [(1, "A", .int 64), (2, "B", .str false), (3, "C", .pslice (.str false)),
    (4, "D", .vslice (.ptr (.int 32))), (5, "E", .f64), (6, "F", .struct "T" [(1, "X", .uint 8)]),
    (7, "G", .lslice (.ptr (.struct "T" [(1, "X", .uint 8)]))),
    (8, "H", .map (.str false) (.lslice (.time false)) false),
    (9, "I", .map (.struct "K" [(1, "P", .int 8), (2, "Q", .bool)]) (.ptr .f32) true)]

def exVal : Val :=
  .struct [.int (-5), .str [104, 105], .slice [.str [1], .str []],
    .slice [.ptr (some (.int 7)), .ptr none], .f64 (2 ^ 63), .struct [.uint 200],
    .slice [.ptr none, .ptr (some (.struct [.uint 1]))],
    .map (some [(.str [], .slice [.time 5 6]), (.str [97], .slice [])]),
    .map (some [(.struct [.int (-1), .bool true], .ptr none), (.struct [.int 0, .bool false], .ptr (some (.f32 1)))])]

theorem ex_hyps : exTy.wf ∧ Ty.rtShape false exTy ∧ exTy.isPtr = false ∧ exTy.hasTy exVal
    ∧ (marshal exTy exVal).length < 2 ^ 63 := by
  refine ⟨?_, ?_, rfl, ?_, by decide +kernel⟩
  · simp [exTy, Ty.wf, fieldsWf, validWidth, Ty.wt, Ty.isMap, Ty.isProtoSlice]
  · simp [exTy, Ty.rtShape, fieldsRtShape, Ty.isPtr, Ty.keySafe, fieldsKeySafe]
  · simp [exTy, exVal, Ty.hasTy, fieldsHaveTy, intRange, keysDistinct, Val.beq, Val.beqList]

/-- the theorem applies to the example. -/
example : unmarshal exTy (marshal exTy exVal) exTy.zero = .ok (exTy.normPos exVal) :=
  roundtrip exTy exVal ex_hyps.1 ex_hyps.2.1 ex_hyps.2.2.1 ex_hyps.2.2.2.1 ex_hyps.2.2.2.2

end C01
