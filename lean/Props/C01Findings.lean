import Proofs.RoundTrip
/-!
  C01 — the shapes the round-trip theorem excludes, characterised.

  `C01.roundtrip` asks for `Ty.rtShape false t` and `t.isPtr = false`. The shapes
  those two hypotheses remove are the known findings F01, F02, F03 (and F13, see
  `Props/C09F13.lean`); F17 is a finding about the decoder alone (a legal
  protobuf encoding that `Marshal` never produces). This module does not prove a
  property of those shapes: it records, as machine-checked statements, what the
  model (and the code, which the correspondence runs tie to the model) actually
  does there.

    * F01 `f01_nil_pointer`         — top-level `*T`, nil: nothing is written, and
                                       reading it back gives a pointer to `T`'s zero
                                       value (not nil);
    * F03 `f03_outer_pointer_lost`  — struct field `**T` holding a non-nil pointer
                                       to a nil pointer: nothing is written, the
                                       field reads back nil (outer pointer lost);
    * F02 `f02_marshal_concat`,
          `f02_collision`           — a slice in the protobuf repeated form at top
                                       level is the bare concatenation of its
                                       elements: `["ab","cd"]` and `["abcd"]` have
                                       the same bytes, which read back `["abcd"]`;
    * F17 `f17_entry_swapped`,
          `f17_plenc_map_swapped`,
          `f17_proto_map_swapped`   — a map entry with the value field (2) before
                                       the key field (1): the entry reader stops
                                       after the value with the zero key; the plenc
                                       map then fails, the protobuf map returns
                                       `{"": 0}` instead of `{"a": 7}`.
-/
namespace C01Findings
open RT

/-! ### F01 — top-level pointer: nil reads back as a pointer to the zero value -/

/-- `Marshal` of a nil pointer writes nothing, whatever the pointee codec. -/
theorem f01_marshal_nil (t : Ty) : marshal (.ptr t) (.ptr none) = [] := by
  simp [marshal, Val.omit]

/-- reading no bytes into the zero value gives the zero value: `RT.read_nil` with
the shape hypothesis reduced to what its proof uses (not a pointer, not a
protobuf repeated form: those two read `[]` as something else, see below). -/
theorem read_nil' (t : Ty) (hwf : t.wf) (hrep : t.isProtoRep = false) (hp : t.isPtr = false) :
    t.read t.wt [] t.zero = .ok (t.zero, 0) := by
  cases t with
  | bool => simp [Ty.read, Ty.zero, readVarUint, uvarintAux]
  | int w =>
    simp only [Ty.wf] at hwf
    rcases hwf with rfl | rfl | rfl | rfl <;> simp [Ty.read, Ty.zero, readVarUint, uvarintAux, zagZig, wrapS]
  | uint w => simp [Ty.read, Ty.zero, readVarUint, uvarintAux, wrapU]
  | flat w =>
    simp only [Ty.wf] at hwf
    rcases hwf with rfl | rfl | rfl | rfl <;> simp [Ty.read, Ty.zero, readVarUint, uvarintAux, wrapS]
  | f32 => simp [Ty.read, Ty.zero]
  | f64 => simp [Ty.read, Ty.zero]
  | str b => simp [Ty.read, Ty.zero]
  | bytes => simp [Ty.read, Ty.zero]
  | time c => simp [Ty.read, Ty.zero]
  | ptr u => simp [Ty.isPtr] at hp
  | vslice u => simp [Ty.read, Ty.zero, countVarints, readN]
  | fslice u =>
    simp only [Ty.wf] at hwf
    rcases hwf with rfl | rfl <;> simp [Ty.read, Ty.zero, Ty.size, readN]
  | lslice u => simp [Ty.read, Ty.zero, Ty.wt, readVarUint, uvarintAux, elemLoop]
  | pslice u => simp [Ty.isProtoRep] at hrep
  | struct n fs => simp [Ty.read, Ty.zero, structLoop]
  | map k v p =>
    cases p with
    | true => simp [Ty.isProtoRep] at hrep
    | false => simp [Ty.read, Ty.zero]

/-- F01. A top-level pointer `*T` for any accepted `T` that is not itself a
pointer or a protobuf repeated form: the nil pointer marshals to no bytes, and
`Unmarshal` of no bytes into a nil `*T` allocates a `T` and leaves it zero — the
result is a non-nil pointer to the zero value. -/
theorem f01_nil_pointer (t : Ty) (hwf : t.wf) (hrep : t.isProtoRep = false) (hp : t.isPtr = false) :
    marshal (.ptr t) (.ptr none) = [] ∧
    unmarshal (.ptr t) [] (.ptr none) = .ok (.ptr (some t.zero)) := by
  refine ⟨f01_marshal_nil t, ?_⟩
  simp only [unmarshal, Ty.read, Ty.wt, read_nil' t hwf hrep hp]

/-- the same, composed and set against the C01 right-hand side: the round trip
gives `&T{}` where `normPos` (the documented normalisation) says nil. -/
theorem f01_nil_pointer_composed (t : Ty) (hwf : t.wf) (hrep : t.isProtoRep = false) (hp : t.isPtr = false) :
    unmarshal (.ptr t) (marshal (.ptr t) (.ptr none)) (Ty.ptr t).zero = .ok (.ptr (some t.zero)) ∧
    (Ty.ptr t).normPos (.ptr none) = .ptr none := by
  refine ⟨?_, ?_⟩
  · rw [f01_marshal_nil]; exact (f01_nil_pointer t hwf hrep hp).2
  · simp [Ty.normPos, Val.omit, Ty.zero]

/-- the same under the hypotheses of `C01.roundtrip` on the pointee. -/
theorem f01_nil_pointer_rtShape (t : Ty) (hwf : t.wf) (hs : Ty.rtShape false t) (hp : t.isPtr = false) :
    marshal (.ptr t) (.ptr none) = [] ∧
    unmarshal (.ptr t) [] (.ptr none) = .ok (.ptr (some t.zero)) := by
  refine ⟨f01_marshal_nil t, ?_⟩
  simp only [unmarshal, Ty.read, Ty.wt, read_nil t hwf hs hp]

/-- families: `*intW`, `*string`, `*struct{…}` (no hypothesis on the fields). -/
theorem f01_int (w : Nat) (hw : validWidth w) :
    unmarshal (.ptr (.int w)) [] (.ptr none) = .ok (.ptr (some (.int 0))) :=
  (f01_nil_pointer (.int w) (by simpa [Ty.wf] using hw) rfl rfl).2

theorem f01_str (i : Bool) :
    unmarshal (.ptr (.str i)) [] (.ptr none) = .ok (.ptr (some (.str []))) := by
  simp [unmarshal, Ty.read]

theorem f01_struct (s : String) (fs : Fields) :
    unmarshal (.ptr (.struct s fs)) [] (.ptr none) = .ok (.ptr (some (.struct (zeros fs)))) := by
  simp [unmarshal, Ty.read, Ty.zero, structLoop]

/-- concrete instances, by evaluation. -/
example : unmarshal (.ptr (.int 64)) (marshal (.ptr (.int 64)) (.ptr none)) (.ptr none)
    = .ok (.ptr (some (.int 0))) := rfl
example : unmarshal (.ptr (.struct "S" [(1, "A", .int 64), (2, "B", .str false)]))
      (marshal (.ptr (.struct "S" [(1, "A", .int 64), (2, "B", .str false)])) (.ptr none)) (.ptr none)
    = .ok (.ptr (some (.struct [.int 0, .str []]))) := rfl

/-- the two excluded pointees do not even give the zero value: no bytes read as
ONE element (protobuf repeated form) resp. ONE entry (protobuf map), so a nil
`*[]string` in the repeated form would read back as `&[]string{""}`. -/
example : unmarshal (.ptr (.pslice (.str false))) [] (.ptr none)
    = .ok (.ptr (some (.slice [.str []]))) := rfl

/-! ### F03 — pointer to pointer: "outer set, inner nil" has no encoding -/

/-- F03. A struct whose only field is a `**T` holding a non-nil pointer to a nil
pointer: `Omit` of the outer pointer is false, the inner `PointerWrapper.Append`
writes nothing, so the struct body is empty; reading the empty body back leaves
the field nil. No hypothesis on `t`, the index or the names. -/
theorem f03_outer_pointer_lost (t : Ty) (sname fname : String) (idx : Nat) :
    marshal (.struct sname [(idx, fname, .ptr (.ptr t))]) (.struct [.ptr (some (.ptr none))]) = [] ∧
    unmarshal (.struct sname [(idx, fname, .ptr (.ptr t))]) [] (Ty.struct sname [(idx, fname, .ptr (.ptr t))]).zero
      = .ok (.struct [.ptr none]) := by
  refine ⟨?_, ?_⟩
  · simp [marshal, Val.omit, Ty.app, fieldsApp, frame]
  · simp [unmarshal, Ty.read, Ty.zero, zeros, structLoop]

/-- composed, and set against the C01 right-hand side: `normPos` keeps the value
(`&(*T)(nil)` is its own normal form), the round trip returns the nil field. -/
theorem f03_outer_pointer_lost_composed (t : Ty) (sname fname : String) (idx : Nat) :
    unmarshal (.struct sname [(idx, fname, .ptr (.ptr t))])
        (marshal (.struct sname [(idx, fname, .ptr (.ptr t))]) (.struct [.ptr (some (.ptr none))]))
        (Ty.struct sname [(idx, fname, .ptr (.ptr t))]).zero
      = .ok (.struct [.ptr none]) ∧
    (Ty.struct sname [(idx, fname, .ptr (.ptr t))]).normPos (.struct [.ptr (some (.ptr none))])
      = .struct [.ptr (some (.ptr none))] := by
  refine ⟨?_, ?_⟩
  · rw [(f03_outer_pointer_lost t sname fname idx).1]
    exact (f03_outer_pointer_lost t sname fname idx).2
  · simp [Ty.normPos, Val.omit, Ty.norm, fieldsNorm]

/-- the shape is accepted by the builder (`wf`) and outside `rtShape`. -/
theorem f03_wf_not_rtShape (t : Ty) (sname fname : String) (idx : Nat) (hidx : idx < 2 ^ 61)
    (hwf : t.wf) (hmap : t.isMap = false) :
    (Ty.struct sname [(idx, fname, .ptr (.ptr t))]).wf ∧
    ¬ Ty.rtShape false (Ty.struct sname [(idx, fname, .ptr (.ptr t))]) := by
  refine ⟨?_, ?_⟩
  · have h1 : (Ty.ptr t).isMap = false := rfl
    simp [Ty.wf, fieldsWf, hidx, hwf, hmap, h1]
  · simp [Ty.rtShape, fieldsRtShape, Ty.isPtr]

/-- concrete instance: `struct { P **int64 }`, by evaluation. -/
example : unmarshal (.struct "S" [(1, "P", .ptr (.ptr (.int 64)))])
      (marshal (.struct "S" [(1, "P", .ptr (.ptr (.int 64)))]) (.struct [.ptr (some (.ptr none))]))
      (.struct [.ptr none])
    = .ok (.struct [.ptr none]) := rfl

/-! ### F02 — the repeated form at top level is not self-delimiting -/

/-- F02, general. `Marshal` of a slice in the protobuf repeated form at top level
(empty tag) is the concatenation of the elements' untagged encodings: no count,
no tag, no length between them. -/
theorem f02_marshal_concat (t : Ty) (vs : List Val) :
    marshal (.pslice t) (.slice vs) = vs.flatMap fun v => t.app v [] := by
  cases vs with
  | nil => simp [marshal, Val.omit]
  | cons v vs => simp [marshal, Val.omit, Ty.app]

/-- for strings the untagged encoding is the string itself: the bytes are the
concatenation of the strings. -/
theorem f02_marshal_strings (i : Bool) (ss : List Bytes) :
    marshal (.pslice (.str i)) (.slice (ss.map Val.str)) = ss.flatten := by
  rw [f02_marshal_concat]
  induction ss with
  | nil => rfl
  | cons s ss ih =>
    simp only [List.map_cons, List.flatMap_cons, List.flatten_cons, ih]
    simp [Ty.app, frame]

/-- the reader takes all the bytes as ONE element appended to the target. -/
theorem f02_unmarshal_strings (i : Bool) (d : Bytes) (prior : List Val) :
    unmarshal (.pslice (.str i)) d (.slice prior) = .ok (.slice (prior ++ [.str d])) := by
  simp [unmarshal, Ty.read]

/-- F02, the collision: `["ab","cd"]` and `["abcd"]` are different values with the
same encoding, so no decoder can invert `Marshal` at this shape. -/
theorem f02_collision :
    marshal (.pslice (.str false)) (.slice [.str [97, 98], .str [99, 100]])
      = marshal (.pslice (.str false)) (.slice [.str [97, 98, 99, 100]]) ∧
    marshal (.pslice (.str false)) (.slice [.str [97, 98], .str [99, 100]]) = [97, 98, 99, 100] ∧
    Val.slice [.str [97, 98], .str [99, 100]] ≠ Val.slice [.str [97, 98, 99, 100]] := by
  have h1 := f02_marshal_strings false [[97, 98], [99, 100]]
  have h2 := f02_marshal_strings false [[97, 98, 99, 100]]
  simp only [List.map_cons, List.map_nil] at h1 h2
  refine ⟨?_, ?_, ?_⟩
  · rw [h1, h2]; rfl
  · rw [h1]; rfl
  · intro h; cases h

/-- … and what `Unmarshal` makes of those bytes: the one-element list. The
two-element value does not survive the round trip; a value that is typed, accepted
and needs no normalisation (`normPos` is the identity on it). -/
theorem f02_roundtrip_two :
    unmarshal (.pslice (.str false)) (marshal (.pslice (.str false)) (.slice [.str [97, 98], .str [99, 100]]))
        (Ty.pslice (.str false)).zero
      = .ok (.slice [.str [97, 98, 99, 100]]) ∧
    (Ty.pslice (.str false)).normPos (.slice [.str [97, 98], .str [99, 100]])
      = .slice [.str [97, 98], .str [99, 100]] := by
  refine ⟨?_, ?_⟩
  · rw [f02_collision.2.1]; rfl
  · simp [Ty.normPos, Val.omit, Ty.norm]

/-- an empty-string element disappears altogether, and the empty encoding of the
empty list reads back as `[""]` when handed to the codec (top level `Unmarshal`
of zero bytes does call `Read`). -/
example : marshal (.pslice (.str false)) (.slice [.str [], .str [97]]) = [97] := by
  have := f02_marshal_strings false [[], [97]]
  simpa using this
example : unmarshal (.pslice (.str false)) [] (.slice []) = .ok (.slice [.str []]) := rfl

/-! ### F17 — map entries are read in field order key, value only -/

/-- `struct { M map[string]int64 }`, plenc map form (`WTSlice`: count, then
length-prefixed entries) and protobuf map form (one `WTLength` frame per entry). -/
def MS : Ty := .struct "S" [(1, "M", .map (.str false) (.int 64) false)]
def MP : Ty := .struct "S" [(1, "M", .map (.str false) (.int 64) true)]

/-- `{"a": 7}`. -/
def a7 : Val := .struct [.map (some [(.str [97], .int 7)])]

/-- the key / value readers `MapCodec.Read` hands to `readMapEntry` for `map[string]int64`. -/
def rdK : WT → Bytes → Res (Val × Nat) := fun wt b => (Ty.str false).read wt b (Ty.str false).zero
def rdV : WT → Bytes → Val → Res (Val × Nat) := fun wt b s => (Ty.int 64).read wt b s

/-- the entry `0a 01 61 | 10 0e` (field 1 = "a", field 2 = zigzag 7), key first:
read as `("a", 7)`, all five bytes consumed. -/
theorem f17_entry_normal :
    readMapEntry rdK rdV (.str []) (.int 0) [0x0a, 1, 0x61, 0x10, 0x0e] []
      = .ok ([(.str [97], .int 7)], 5) := rfl

/-- F17. The same two fields in the other order, `10 0e | 0a 01 61` (legal
protobuf: field order is not significant): the entry reader sees index 2 first,
takes the zero key, reads the value and returns — entry `("", 7)`, two of the five
bytes consumed, the key field never looked at. -/
theorem f17_entry_swapped :
    readMapEntry rdK rdV (.str []) (.int 0) [0x10, 0x0e, 0x0a, 1, 0x61] []
      = .ok ([(.str [], .int 7)], 2) := rfl

/-- plenc map form, normal order: `0b 01 05 0a 01 61 10 0e` is what `Marshal`
writes for `{"a": 7}` and it reads back. -/
theorem f17_plenc_map_normal :
    marshal MS a7 = [0x0b, 1, 5, 0x0a, 1, 0x61, 0x10, 0x0e] ∧
    unmarshal MS [0x0b, 1, 5, 0x0a, 1, 0x61, 0x10, 0x0e] MS.zero = .ok a7 := by
  refine ⟨by decide +kernel, rfl⟩

/-- F17, plenc map form, swapped entry `0b 01 05 10 0e 0a 01 61`: an error. (The
map loop resumes after the two bytes the entry reader consumed, the count is
exhausted, and the struct loop then takes the left-over key field `0a 01 61` for a
second occurrence of field 1, whose one-byte body `61` is not a valid map.) -/
theorem f17_plenc_map_swapped :
    unmarshal MS [0x0b, 1, 5, 0x10, 0x0e, 0x0a, 1, 0x61] MS.zero = .err := rfl

/-- protobuf map form, normal order: `0a 05 0a 01 61 10 0e` is what `Marshal`
writes for `{"a": 7}` and it reads back. -/
theorem f17_proto_map_normal :
    marshal MP a7 = [0x0a, 5, 0x0a, 1, 0x61, 0x10, 0x0e] ∧
    unmarshal MP [0x0a, 5, 0x0a, 1, 0x61, 0x10, 0x0e] MP.zero = .ok a7 := by
  refine ⟨by decide +kernel, rfl⟩

/-- F17, protobuf map form, swapped entry `0a 05 10 0e 0a 01 61` — what any other
protobuf writer may legally emit for `{"a": 7}`: no error, and the wrong map
`{"": 0}`. (The entry reads as `("", 7)`; the struct loop resumes inside the entry
frame, takes `0a 01 61` for another entry of field 1, and that entry — the single
byte `61`, a tag with index 12 — stores the zero value under the zero key.) -/
theorem f17_proto_map_swapped :
    unmarshal MP [0x0a, 5, 0x10, 0x0e, 0x0a, 1, 0x61] MP.zero
      = .ok (.struct [.map (some [(.str [], .int 0)])]) := rfl

/-- both map shapes satisfy every hypothesis of `C01.roundtrip`: F17 is not a
round-trip failure (`Marshal` always writes the key first) but a decoder
restriction on foreign encodings. -/
theorem f17_shapes_in_c01 :
    (MS.wf ∧ Ty.rtShape false MS ∧ MS.isPtr = false ∧ MS.hasTy a7) ∧
    (MP.wf ∧ Ty.rtShape false MP ∧ MP.isPtr = false ∧ MP.hasTy a7) := by
  refine ⟨⟨?_, ?_, rfl, ?_⟩, ⟨?_, ?_, rfl, ?_⟩⟩
  · simp [MS, Ty.wf, fieldsWf, validWidth, Ty.isMap, Ty.isProtoSlice]
  · simp [MS, Ty.rtShape, fieldsRtShape, Ty.keySafe]
  · simp [MS, a7, Ty.hasTy, fieldsHaveTy, intRange, keysDistinct]
  · simp [MP, Ty.wf, fieldsWf, validWidth, Ty.isMap, Ty.isProtoSlice]
  · simp [MP, Ty.rtShape, fieldsRtShape, Ty.keySafe]
  · simp [MP, a7, Ty.hasTy, fieldsHaveTy, intRange, keysDistinct]

end C01Findings
