import Proofs.Evolve
/-
  C03 — Schema evolution: data marshalled from a struct type S decodes without
  error into any struct type S' obtained from S by removing fields, adding fields
  under fresh indexes, renaming fields or reordering their declarations, at any
  nesting depth. Shared indexes receive the value they would receive when
  decoding into S, fields not in the data keep the target's prior value, unknown
  fields of every wire type are skipped exactly.

  Property theorems only; definitions are in Plenc/Evolve.lean (`Ty.Evolves`,
  `FieldsEvolve`, `Ty.proj`, `project`, `priorFits`, `Ty.eraseNames`), helper
  lemmas in Proofs/Evolve.lean.

  Hypotheses of the main theorem (`decode_evolved`):
  * `S.wf`, `S'.wf` — both are accepted types (distinct indexes below 2^61,
    wrapper choice matching the element wire type, …);
  * `S.Evolves S'` — the edit relation, at every depth; nothing at all is asked of
    added fields beyond `S'.wf`, nothing of removed fields beyond `S.wf`;
  * `Ty.rtShape false S` — as in C01: the writer's type avoids the known
    round-trip findings (repeated forms only directly in a struct field, no
    pointer to pointer, `keySafe` map keys). No shape condition on `S'`;
  * `S.hasTy v`, the `2^63` size bound — as in C01;
  * `priorFits` — the prior has one value per field of `S'`: arbitrary for every
    field that the data does not fill (added fields, and shared fields whose value
    the writer omitted — they keep it); arbitrary also for a field the data fills
    when its codec overwrites (`Ty.overwrites`: scalars, strings, bytes, times,
    packed and counted slices, pointers to those); its zero value for a field the
    data fills whose codec merges (repeated-field slices append, maps and structs
    are updated in place — what the result then is, is C10's statement, and
    `project` does not describe it: S = S' = struct{1: []string (proto form)},
    v = ["a"], prior = ["x"] decodes to ["x","a"], not ["a"]).
-/
namespace C03

/-! ### rename invisibility -/

/-- `Size`, `Append`, `Read` (and the wire type and zero value) do not depend on
field names or struct names. -/
theorem append_name_irrelevant (t : Ty) :
    Ty.wt t.eraseNames = Ty.wt t ∧ Ty.zero t.eraseNames = Ty.zero t ∧ Ty.size t.eraseNames = Ty.size t ∧
      Ty.app t.eraseNames = Ty.app t ∧ Ty.read t.eraseNames = Ty.read t :=
  Evolve.nameLaw_ty t

/-- … likewise the field-list functions used by the struct codec. -/
theorem fields_name_irrelevant (fs : Fields) :
    zeros (fieldsEraseNames fs) = zeros fs ∧ fieldsSize (fieldsEraseNames fs) = fieldsSize fs ∧
      fieldsApp (fieldsEraseNames fs) = fieldsApp fs ∧ readField (fieldsEraseNames fs) = readField fs :=
  Evolve.nameLaw_fields fs

/-- two types equal up to names marshal to the same bytes and unmarshal every
input to the same result. -/
theorem rename_invisible (t1 t2 : Ty) (h : t1.eraseNames = t2.eraseNames) :
    marshal t1 = marshal t2 ∧ unmarshal t1 = unmarshal t2 :=
  ⟨(Evolve.rename_invisible t1 t2 h).2.2.2.2.2.1, (Evolve.rename_invisible t1 t2 h).2.2.2.2.2.2⟩

/-! ### unknown fields are skipped exactly -/

/-- A struct type that has no field with index `i`: its field loop, started on
the encoding of a present value of any non-repeated codec `t` under tag
`(t.wt, i)` — varint, fixed 32/64, length-delimited (strings, nested structs,
packed slices), counted (`WTSlice`: slices of length-delimited elements, maps) —
followed by arbitrary bytes `rest`, continues on `rest` at the right offset with
every field value unchanged. -/
theorem skip_unknown_exact (t : Ty) (v : Val) (i : Nat) (hi : i < 2 ^ 61)
    (hwf : t.wf) (hty : t.hasTy v) (hp : v.present = true) (hr : t.deref.isProtoRep = false)
    (hsz : (t.app v []).length < 2 ^ 64)
    (fs' : Fields) (acc : List Val) (hni : i ∉ fs'.map (·.1)) (hacc : acc.length = fs'.length)
    (fuel : Nat) (rest : Bytes) (off : Nat)
    (hf : (t.app v (appendTag t.wt i) ++ rest).length < fuel) :
    structLoop (fun idx wt body acc => readField fs' acc idx wt body) fuel
        (t.app v (appendTag t.wt i) ++ rest) off acc
      = structLoop (fun idx wt body acc => readField fs' acc idx wt body) fuel rest
          (off + (t.app v (appendTag t.wt i)).length) acc :=
  Evolve.skip_unknown_exact t v i hi hwf hty hp hr hsz fs' acc hni hacc fuel rest off hf

/-- The same for every shape a struct field can take (`rtShape true`), which adds
the two repeated forms: `ProtoSliceWrapper` and `ProtoMapCodec` fields are one
frame per element / entry, each skipped in its own loop iteration. -/
theorem skip_unknown_exact_field (t : Ty) (hwf : t.wf) (hs : Ty.rtShape true t) (v : Val) (hty : t.hasTy v)
    (hom : v.omit = false) (i : Nat) (hi : i < 2 ^ 61)
    (hsz : (t.app v (appendTag t.wt i)).length < 2 ^ 64)
    (fs' : Fields) (acc : List Val) (hni : i ∉ fs'.map (·.1)) (hacc : acc.length = fs'.length)
    (fuel : Nat) (rest : Bytes) (off : Nat)
    (hf : (t.app v (appendTag t.wt i) ++ rest).length < fuel) :
    structLoop (fun idx wt body acc => readField fs' acc idx wt body) fuel
        (t.app v (appendTag t.wt i) ++ rest) off acc
      = structLoop (fun idx wt body acc => readField fs' acc idx wt body) fuel rest
          (off + (t.app v (appendTag t.wt i)).length) acc :=
  Evolve.skip_unknown_exact_field t hwf hs v hty hom i hi hsz fs' acc hni hacc fuel rest off hf

/-! ### decoding into the evolved type -/

/-- Top-level evolution only: fields removed, added under fresh indexes, renamed
and reordered at the top level, every shared index keeping its codec. -/
theorem decode_evolved_toplevel (n n' : String) (fs fs' : Fields) (vs prior : List Val)
    (hwf : (Ty.struct n fs).wf) (hwf' : (Ty.struct n' fs').wf)
    (hsame : ∀ f ∈ fs, ∀ f' ∈ fs', f.1 = f'.1 → f'.2.2 = f.2.2)
    (hshape : Ty.rtShape false (.struct n fs)) (hty : (Ty.struct n fs).hasTy (.struct vs))
    (hsz : (marshal (.struct n fs) (.struct vs)).length < 2 ^ 63)
    (hprior : priorFitsTop fs fs' vs prior) :
    unmarshal (.struct n' fs') (marshal (.struct n fs) (.struct vs)) (.struct prior)
      = .ok (.struct (projectTop fs fs' vs prior)) := by
  have := Evolve.decode_toplevel_consumed n n' fs fs' vs prior hwf hwf' hsame hshape hty hsz hprior
  simp only [unmarshal, Ty.wt, this]

/-- **Main theorem.** Evolution at any nesting depth (through nested structs,
pointers, both slice forms with length-delimited elements, map values). -/
theorem decode_evolved (n n' : String) (fs fs' : Fields) (vs prior : List Val)
    (hwf : (Ty.struct n fs).wf) (hwf' : (Ty.struct n' fs').wf)
    (hev : (Ty.struct n fs).Evolves (.struct n' fs'))
    (hshape : Ty.rtShape false (.struct n fs)) (hty : (Ty.struct n fs).hasTy (.struct vs))
    (hsz : (marshal (.struct n fs) (.struct vs)).length < 2 ^ 63)
    (hprior : priorFits fs fs' vs prior) :
    unmarshal (.struct n' fs') (marshal (.struct n fs) (.struct vs)) (.struct prior)
      = .ok (.struct (project fs fs' vs prior)) := by
  have := Evolve.decode_evolved_consumed n n' fs fs' vs prior hwf hwf' hev hshape hty hsz hprior
  simp only [unmarshal, Ty.wt, this]

/-- … and the reader consumes exactly the marshalled bytes (nothing after an
unknown field is lost or misread). -/
theorem decode_evolved_consumed (n n' : String) (fs fs' : Fields) (vs prior : List Val)
    (hwf : (Ty.struct n fs).wf) (hwf' : (Ty.struct n' fs').wf)
    (hev : (Ty.struct n fs).Evolves (.struct n' fs'))
    (hshape : Ty.rtShape false (.struct n fs)) (hty : (Ty.struct n fs).hasTy (.struct vs))
    (hsz : (marshal (.struct n fs) (.struct vs)).length < 2 ^ 63)
    (hprior : priorFits fs fs' vs prior) :
    (Ty.struct n' fs').read .len (marshal (.struct n fs) (.struct vs)) (.struct prior)
      = .ok (.struct (project fs fs' vs prior), (marshal (.struct n fs) (.struct vs)).length) :=
  Evolve.decode_evolved_consumed n n' fs fs' vs prior hwf hwf' hev hshape hty hsz hprior

/-- Any root (a slice of structs, a map of structs, …), fresh target. -/
theorem decode_evolved_zero (t t' : Ty) (v : Val) (hwf : t.wf) (hwf' : t'.wf) (hev : t.Evolves t')
    (hshape : Ty.rtShape false t) (hnp : t.isPtr = false) (hty : t.hasTy v)
    (hsz : (marshal t v).length < 2 ^ 63) :
    unmarshal t' (marshal t v) t'.zero = .ok (if v.omit then t'.zero else t.proj t' v) :=
  Evolve.decode_evolved_zero t t' v hwf hwf' hev hshape hnp hty hsz

/-! ### what `project` says, field by field -/

/-- A target field (position `j`) whose index is shared with a source field
(position `k`) receives the decoded value if the writer put the value on the
wire, and keeps its prior value if the writer omitted it. With the same codec on
both sides (`Evolve.proj_self`) the decoded value is `t.norm v`: exactly the
value the field receives when decoding into `S` itself (C01: `fieldsNorm`). -/
theorem project_shared (fs fs' : Fields) (vs prior : List Val) (hnd : (fs.map (·.1)).Nodup)
    (j k : Nat) (f f' : Nat × String × Ty) (v p : Val)
    (hf : fs[k]? = some f) (hv : vs[k]? = some v) (hf' : fs'[j]? = some f') (hp : prior[j]? = some p)
    (hidx : f'.1 = f.1) :
    (project fs fs' vs prior)[j]? = some (if v.omit = false then f.2.2.proj f'.2.2 v else p) :=
  Evolve.project_shared fs fs' vs prior hnd j k f f' v p hf hv hf' hp hidx

/-- A target field whose index the source does not have keeps its prior value. -/
theorem project_fresh (fs fs' : Fields) (vs prior : List Val)
    (j : Nat) (f' : Nat × String × Ty) (p : Val)
    (hf' : fs'[j]? = some f') (hp : prior[j]? = some p) (hfresh : f'.1 ∉ fs.map (·.1)) :
    (project fs fs' vs prior)[j]? = some p :=
  Evolve.project_fresh fs fs' vs prior j f' p hf' hp hfresh

/-- projecting a value onto its own type is the documented normalisation of C01 … -/
theorem proj_self (t : Ty) (v : Val) (hwf : t.wf) (hty : t.hasTy v) : t.proj t v = t.norm v :=
  Evolve.proj_self t v hwf hty

/-- … every accepted type evolves into itself … -/
theorem evolves_refl (t : Ty) (hwf : t.wf) : t.Evolves t := Evolve.evolves_refl t hwf

/-- … so that the evolution theorem at `S' = S` is the C01 round trip of structs. -/
theorem identity_is_roundtrip (n : String) (fs : Fields) (vs : List Val)
    (hwf : (Ty.struct n fs).wf) (hshape : Ty.rtShape false (.struct n fs))
    (hty : (Ty.struct n fs).hasTy (.struct vs))
    (hsz : (marshal (.struct n fs) (.struct vs)).length < 2 ^ 63) :
    (Ty.struct n fs).read .len (marshal (.struct n fs) (.struct vs)) (.struct (zeros fs))
      = .ok (.struct (fieldsNorm fs vs), (marshal (.struct n fs) (.struct vs)).length) :=
  Evolve.identity_is_roundtrip n fs vs hwf hshape hty hsz

/-! ### non-vacuity

`exS` → `exS'`: fields 3–10 removed (one of every wire form: fixed 32, fixed 64,
nested struct, packed slice, counted slice, plenc map, repeated slice, repeated
map — all unknown to the reader and all *followed by* known fields), fields 20
and 21 added, 1/2/15 reordered, 2 renamed, the struct itself renamed, and the
nested struct `T` evolved into `T2` (field 2 removed, field 7 added, fields
reordered, field 3 renamed) directly (11), under a slice of pointers with a nil
entry (12), as a map value (13) and as the element of a repeated field (14).
Field 16 is shared but omitted by the writer: it keeps the prior value. The
prior holds non-zero values in added fields (20, 21), in the omitted shared
field (16) and in overwritten shared fields (15, 2, 1). -/

def exT : Ty := .struct "T" [(1, "X", .uint 8), (2, "Y", .str false), (3, "Z", .bool)]
def exT' : Ty := .struct "T2" [(3, "Zed", .bool), (1, "X", .uint 8), (7, "W", .f64)]

def exFs : Fields :=
  [(1, "A", .int 64), (2, "B", .str false),
   (3, "Gone32", .f32), (4, "Gone64", .f64),
   (5, "GoneInner", .struct "G" [(1, "X", .uint 8)]),
   (6, "GonePacked", .vslice (.int 32)),
   (7, "GoneCounted", .lslice (.str false)),
   (8, "GoneMap", .map (.str false) (.int 64) false),
   (9, "GoneRepeated", .pslice (.str false)),
   (10, "GoneProtoMap", .map (.int 32) (.str false) true),
   (11, "Inner", exT),
   (12, "Ptrs", .lslice (.ptr exT)),
   (13, "M", .map (.str false) exT false),
   (14, "Rep", .pslice exT),
   (15, "Last", .uint 16),
   (16, "Unset", .str false)]

def exFs' : Fields :=
  [(15, "Last", .uint 16), (2, "Renamed", .str false), (1, "A", .int 64),
   (20, "New", .lslice (.str false)),
   (11, "Inner", exT'),
   (12, "Ptrs", .lslice (.ptr exT')),
   (13, "M", .map (.str false) exT' false),
   (14, "Rep", .pslice exT'),
   (21, "NewPtr", .ptr (.int 64)),
   (16, "Unset", .str false)]

def exS : Ty := .struct "S" exFs
def exS' : Ty := .struct "S2" exFs'

def exVals : List Val :=
  [.int (-5), .str [104, 105], .f32 1, .f64 2, .struct [.uint 9], .slice [.int 1, .int (-1)],
   .slice [.str [1], .str []], .map (some [(.str [97], .int 3)]), .slice [.str [7], .str []],
   .map (some [(.int 1, .str [98])]),
   .struct [.uint 200, .str [121], .bool true],
   .slice [.ptr none, .ptr (some (.struct [.uint 1, .str [], .bool true]))],
   .map (some [(.str [107], .struct [.uint 2, .str [122], .bool false])]),
   .slice [.struct [.uint 3, .str [1], .bool true], .struct [.uint 0, .str [], .bool false]],
   .uint 513, .str []]

def exPrior : List Val :=
  [.uint 77, .str [111, 108, 100], .int 99, .slice [.str [112]], .struct [.bool false, .uint 0, .f64 0],
   .slice [], .map none, .slice [], .ptr (some (.int 42)), .str [107, 101, 112, 116]]

theorem ex_wf : exS.wf := by
  simp [exS, exFs, exT, Ty.wf, fieldsWf, validWidth, Ty.wt, Ty.isMap, Ty.isProtoSlice]
theorem ex_wf' : exS'.wf := by
  simp [exS', exFs', exT', Ty.wf, fieldsWf, validWidth, Ty.wt, Ty.isMap, Ty.isProtoSlice]
theorem ex_ev : exS.Evolves exS' := by
  simp [exS, exS', exFs, exFs', exT, exT', Ty.Evolves, fieldEvolves]
theorem ex_shape : Ty.rtShape false exS := by
  simp [exS, exFs, exT, Ty.rtShape, fieldsRtShape, Ty.isPtr, Ty.keySafe]
theorem ex_ty : exS.hasTy (.struct exVals) := by
  simp [exS, exFs, exT, exVals, Ty.hasTy, fieldsHaveTy, intRange, keysDistinct]
theorem ex_sz : (marshal exS (.struct exVals)).length < 2 ^ 63 := by decide +kernel
theorem ex_prior : priorFits exFs exFs' exVals exPrior := by
  simp [priorFits, priorFitsWith, exFs, exFs', exVals, exPrior, exT, exT', fieldsProj, Val.omit, Ty.zero, zeros,
    Ty.overwrites]

/-- the main theorem applies to the example … -/
example : unmarshal exS' (marshal exS (.struct exVals)) (.struct exPrior)
    = .ok (.struct (project exFs exFs' exVals exPrior)) :=
  decode_evolved "S" "S2" exFs exFs' exVals exPrior ex_wf ex_wf' ex_ev ex_shape ex_ty ex_sz ex_prior

/-- … and this is the projection: shared fields decoded (nested ones projected:
`Y` gone, `W` zero, order of `T2`), the nil pointer element a pointer to a zero
`T2`, added and omitted fields at their prior values. -/
example : project exFs exFs' exVals exPrior =
    [.uint 513, .str [104, 105], .int (-5), .slice [.str [112]],
     .struct [.bool true, .uint 200, .f64 0],
     .slice [.ptr (some (.struct [.bool false, .uint 0, .f64 0])), .ptr (some (.struct [.bool true, .uint 1, .f64 0]))],
     .map (some [(.str [107], .struct [.bool false, .uint 2, .f64 0])]),
     .slice [.struct [.bool true, .uint 3, .f64 0], .struct [.bool false, .uint 0, .f64 0]],
     .ptr (some (.int 42)), .str [107, 101, 112, 116]] := by
  rfl

/-- top-level-only example: the first ten fields of `exS` (nothing nested evolves)
read by a target that keeps 2 and 1 (swapped, 2 renamed), drops 3–10 and adds 20. -/
def exTopFs : Fields := exFs.take 10
def exTopFs' : Fields := [(2, "Renamed", .str false), (20, "New", .lslice (.str false)), (1, "A", .int 64)]
def exTopVals : List Val := exVals.take 10
def exTopPrior : List Val := [.str [1], .slice [.str [112]], .int 7]

example : unmarshal (.struct "S2" exTopFs') (marshal (.struct "S" exTopFs) (.struct exTopVals)) (.struct exTopPrior)
    = .ok (.struct (projectTop exTopFs exTopFs' exTopVals exTopPrior)) :=
  decode_evolved_toplevel "S" "S2" exTopFs exTopFs' exTopVals exTopPrior
    (by simp [exTopFs, exFs, Ty.wf, fieldsWf, validWidth, Ty.wt, Ty.isMap, Ty.isProtoSlice])
    (by simp [exTopFs', Ty.wf, fieldsWf, validWidth, Ty.wt, Ty.isMap, Ty.isProtoSlice])
    (by simp [exTopFs, exTopFs', exFs])
    (by simp [exTopFs, exFs, Ty.rtShape, fieldsRtShape, Ty.keySafe])
    (by simp [exTopFs, exTopVals, exFs, exVals, Ty.hasTy, fieldsHaveTy, intRange, keysDistinct])
    (by decide +kernel)
    (by simp [priorFitsTop, priorFitsWith, exTopFs, exTopFs', exTopVals, exTopPrior, exFs, exVals, lookupWith,
      Val.omit, Ty.overwrites])

example : projectTop exTopFs exTopFs' exTopVals exTopPrior = [.str [104, 105], .slice [.str [112]], .int (-5)] := by
  rfl

/-- renaming: `exT` with every name changed erases to the same tree. -/
example : exT.eraseNames = (Ty.struct "Other" [(1, "a", .uint 8), (2, "b", .str false), (3, "c", .bool)]).eraseNames :=
  rfl

/-- `skip_unknown_exact` applies to, e.g., a plenc map (wire type `WTSlice`)
under index 8 read by a struct that only knows index 15. -/
example (rest : Bytes) (fuel : Nat)
    (hf : ((Ty.map (.str false) (.int 64) false).app (.map (some [(.str [97], .int 3)])) (appendTag .slice 8) ++ rest).length < fuel) :
    structLoop (fun idx wt body acc => readField [(15, "Last", .uint 16)] acc idx wt body) fuel
        ((Ty.map (.str false) (.int 64) false).app (.map (some [(.str [97], .int 3)])) (appendTag .slice 8) ++ rest)
        0 [.uint 5]
      = structLoop (fun idx wt body acc => readField [(15, "Last", .uint 16)] acc idx wt body) fuel rest
          (0 + ((Ty.map (.str false) (.int 64) false).app (.map (some [(.str [97], .int 3)])) (appendTag .slice 8)).length)
          [.uint 5] :=
  skip_unknown_exact (.map (.str false) (.int 64) false) (.map (some [(.str [97], .int 3)])) 8 (by omega)
    (by simp [Ty.wf, validWidth, Ty.isMap, Ty.isProtoSlice]) (by simp [Ty.hasTy, intRange, keysDistinct]) rfl rfl
    (by decide +kernel) [(15, "Last", .uint 16)] [.uint 5] (by simp) rfl fuel rest 0 hf

end C03
