import Proofs.Intern
import Proofs.InternTrace
import Plenc.Codec
/-
  C19 — A string field tagged `intern` (including null.String) decodes, for every
  sequence of inputs and from any number of goroutines, to exactly the strings
  the same field would produce without the option, and the encoding of such a
  field is unchanged by the option.  Interned strings are private immutable
  copies: they never reference the caller's buffer and never change after being
  returned, however the table grows afterwards.

  Property theorems only; the model is Plenc/Intern.lean (+ Plenc/Codec.lean for
  the encoder side), helper lemmas are in Proofs/Intern.lean.
-/
namespace C19
open Intern

/-! ### one codec, reads one after the other -/

/-- the empty table of a fresh codec satisfies the invariant and every `Read`
preserves it. -/
theorem inv_preserved :
    Intern.Inv withInterning ∧ ∀ tbl d, Intern.Inv tbl → Intern.Inv (internRead tbl d).2 :=
  ⟨Inv.nil, fun _ d h => (internRead_spec h d).1⟩

/-- one read, from any table the codec can be in: same contents as the plain
codec's `string(data)`. -/
theorem interned_read_eq_plain (tbl : Table) (h : Intern.Inv tbl) (d : Bytes) (n : Nat) :
    (internRead tbl d).1.bytes = (plainRead n d).bytes ∧ (plainRead n d).bytes = d := by
  obtain ⟨h1, _, h3⟩ := internRead_spec h d
  exact ⟨h1.val_eq_key d _ h3, rfl⟩

/-- for every list of inputs decoded in order through a fresh interning codec,
the results are exactly the inputs — which is what the plain codec returns. -/
theorem interned_history (ds : List Bytes) :
    internSeq ds = plainSeq ds ∧ internSeq ds = ds := by
  have h := (internRun_spec Inv.nil ds).2.2.1
  unfold internSeq plainSeq
  rw [plainRun_bytes]
  exact ⟨h, h⟩

/-- the same for null.String: both codecs set `Valid`, the string contents agree,
and the table evolves exactly as for a plain string field. -/
theorem null_interned_eq_plain (tbl : Table) (h : Intern.Inv tbl) (d : Bytes) (n : Nat) :
    (nullInternRead tbl d).1.valid = (nullPlainRead n d).valid ∧
    (nullInternRead tbl d).1.str.bytes = (nullPlainRead n d).str.bytes ∧
    (nullInternRead tbl d).1.str = (internRead tbl d).1 ∧
    (nullInternRead tbl d).2 = (internRead tbl d).2 :=
  ⟨rfl, (interned_read_eq_plain tbl h d n).1, rfl, rfl⟩

/-- every string handed out is a private allocation, never a view of the input
buffer: whatever the caller's buffer holds later, the string reads the same. -/
theorem interned_private (ds : List Bytes) :
    ∀ s, s ∈ (internRun withInterning ds).1 →
      (∃ id, s.prov = .fresh id) ∧ ∀ buf, s.observe buf = s.bytes := by
  intro s hs
  have hinv := (internRun_spec Inv.nil ds).1
  obtain ⟨id, hid⟩ := hinv.fresh (internRun_mem Inv.nil ds s hs)
  exact ⟨⟨id, hid⟩, observe_fresh hid⟩

/-- one read only ever extends the table, and no existing entry changes. -/
theorem table_monotone (tbl : Table) (h : Intern.Inv tbl) (d : Bytes) :
    tbl <+: (internRead tbl d).2 ∧
    ∀ k v, (k, v) ∈ tbl → lookup (internRead tbl d).2 k = some v := by
  obtain ⟨h1, h2, _⟩ := internRead_spec h d
  exact ⟨h2, fun k v hm => lookup_of_prefix h1 h2 hm⟩

/-- a string returned at any point of any history is unaffected by the reads
that follow: the table it came from is a prefix of every later table, the later
tables still map the same bytes to the very same string (a re-read returns it
and adds nothing), and it reads as the requested bytes under any later
contents of the caller's buffer. -/
theorem interned_stable (before : List Bytes) (d : Bytes) (later : List Bytes) :
    let r := internRead (internRun withInterning before).2 d
    let final := (internRun r.2 later).2
    r.2 <+: final ∧ lookup final d = some r.1 ∧ internRead final d = (r.1, final) ∧
    ∀ buf, r.1.observe buf = d := by
  intro r final
  have h0 := (internRun_spec Inv.nil before).1
  obtain ⟨h1, _, h3⟩ := internRead_spec h0 d
  obtain ⟨i1, i2, _, _⟩ := internRun_spec h1 later
  have hl : lookup final d = some r.1 := lookup_of_prefix i1 i2 h3
  obtain ⟨id, hid⟩ := h1.fresh h3
  refine ⟨i2, hl, internRead_hit hl, fun buf => ?_⟩
  exact (observe_fresh hid buf).trans (h1.val_eq_key d _ h3)

/-! ### the encoder side (Plenc/Codec.lean) -/

/-- `Size`, `Append`, `Omit`, the wire type, the zero value and the value read
are the same for `StringCodec` and `InternedStringCodec`; hence so is `Marshal`. -/
theorem append_unaffected (v : Val) (tag : Bytes) :
    (Ty.str true).app v tag = (Ty.str false).app v tag ∧
    (Ty.str true).size v tag = (Ty.str false).size v tag ∧
    (Ty.str true).wt = (Ty.str false).wt ∧
    (Ty.str true).zero = (Ty.str false).zero ∧
    marshal (.str true) v = marshal (.str false) v ∧
    (∀ wt d p, (Ty.str true).read wt d p = (Ty.str false).read wt d p) ∧
    (∀ d p, unmarshal (.str true) d p = unmarshal (.str false) d p) := by
  have happ : (Ty.str true).app v tag = (Ty.str false).app v tag := by
    cases v <;> simp [Ty.app]
  have happ0 : (Ty.str true).app v [] = (Ty.str false).app v [] := by
    cases v <;> simp [Ty.app]
  have hsize : (Ty.str true).size v tag = (Ty.str false).size v tag := by
    cases v <;> simp [Ty.size]
  have hread : ∀ wt d p, (Ty.str true).read wt d p = (Ty.str false).read wt d p := by
    intro wt d p; simp [Ty.read]
  refine ⟨happ, hsize, rfl, by simp [Ty.zero], ?_, hread, ?_⟩
  · simp [marshal, happ0]
  · intro d p; simp [unmarshal, hread, Ty.wt]

/-- the same for whole messages: erasing every `intern` option anywhere in a codec
tree (struct fields, slices, maps, pointers, at any depth) changes neither the
bytes `Marshal` produces, nor the sizes, nor what `Unmarshal` returns. -/
theorem option_erasure (t : Ty) :
    (∀ v tag, t.unintern.app v tag = t.app v tag) ∧
    (∀ v tag, t.unintern.size v tag = t.size v tag) ∧
    (∀ v, marshal t.unintern v = marshal t v) ∧
    (∀ wt d p, t.unintern.read wt d p = t.read wt d p) ∧
    (∀ d p, unmarshal t.unintern d p = unmarshal t d p) ∧
    t.unintern.wt = t.wt ∧ t.unintern.zero = t.zero ∧
    (Ty.str true).unintern = .str false :=
  ⟨unintern_app t, unintern_size t, unintern_marshal t, unintern_read t, unintern_unmarshal t,
   unintern_wt t, unintern_zero t, by simp [Ty.unintern]⟩

/-- whether a field is omitted is decided by the value alone (`Val.omit` takes no
codec), and what the model's reader stores for an interned field is the string
the interning machine returns. -/
theorem read_value_is_interned (tbl : Table) (h : Intern.Inv tbl) (wt : WT) (d : Bytes) (p : Val) :
    (Ty.str true).read wt d p = .ok (.str (internRead tbl d).1.bytes, d.length) := by
  rw [(interned_read_eq_plain tbl h d 0).1]
  simp [Ty.read, plainRead, strCopy]

/-! ### any number of goroutines, any interleaving -/

/-- reachable states are exactly the states some schedule replays to. -/
theorem reach_iff_schedule (s0 s : State) :
    Reach s0 s ↔ ∃ sched, runSchedule s0 sched = some s :=
  ⟨reach_runSchedule, fun ⟨_, h⟩ => runSchedule_reach h⟩

/-- the executable step function is the step relation. -/
theorem step_fn_iff_rel (s s' : State) (i : Nat) (l : Label) :
    stepThreadL s i = some (l, s') ↔ Step s i l s' := step_iff

/-- every completed request, of every thread, under every interleaving: the
result has the requested bytes, is a private allocation, and is the entry the
published table holds for those bytes. -/
theorem conc_results (reqs : List (List Bytes)) (s : State) (hr : Reach (init reqs) s)
    (i : Nat) (t : Thread) (hi : s.threads[i]? = some t) (d : Bytes) (v : Str)
    (hd : (d, v) ∈ t.done) :
    v.bytes = d ∧ (∃ id, v.prov = .fresh id) ∧ (∀ buf, v.observe buf = d) ∧
    lookup s.tbl d = some v := by
  have hinv := reach_inv (init_inv reqs) hr
  have hm := (hinv.thr i t hi).1 _ hd
  obtain ⟨id, hid⟩ := hinv.tbl.fresh hm
  have hb := hinv.tbl.val_eq_key d v hm
  exact ⟨hb, ⟨id, hid⟩, fun buf => by rw [observe_fresh hid, hb],
    lookup_of_mem hinv.tbl.keys_nodup hm⟩

/-- the string a thread is about to return (it has been chosen but `Read` has not
returned yet) already has the requested bytes. -/
theorem conc_pending_result (reqs : List (List Bytes)) (s : State) (hr : Reach (init reqs) s)
    (i : Nat) (t : Thread) (hi : s.threads[i]? = some t) (d : Bytes) (v : Str)
    (hpc : t.pc = .ret d v ∨ t.pc = .unlock d v) : v.bytes = d ∧ ∃ id, v.prov = .fresh id := by
  have hinv := reach_inv (init_inv reqs) hr
  have ht := (hinv.thr i t hi).2
  have hm : (d, v) ∈ s.tbl := by
    rcases hpc with hpc | hpc <;> simpa only [hpc] using ht
  exact ⟨hinv.tbl.val_eq_key d v hm, hinv.tbl.fresh hm⟩

/-- per thread, in order: the contents of the results so far, then the request in
progress, then the requests not yet started, are the thread's input list.  No
request is dropped, duplicated, reordered or answered with other bytes. -/
theorem conc_history (reqs : List (List Bytes)) (s : State) (hr : Reach (init reqs) s)
    (i : Nat) (t : Thread) (hi : s.threads[i]? = some t) :
    reqs[i]? = some (t.results.map (·.bytes) ++ (t.pc.cur.toList ++ t.todo)) := by
  have hinv := reach_inv (init_inv reqs) hr
  have hq := reach_requests hr
  rw [init_requests] at hq
  have : (s.threads.map Thread.requests)[i]? = some t.requests := by
    simp [List.getElem?_map, hi]
  rw [hq] at this
  rw [this]
  have hdone : ∀ l : List (Bytes × Str), (∀ p, p ∈ l → p ∈ s.tbl) →
      l.map (·.1) = (l.map (·.2)).map (·.bytes) := by
    intro l hl
    induction l with
    | nil => rfl
    | cons p r ih =>
      simp only [List.map_cons, List.cons.injEq]
      refine ⟨(hinv.tbl.val_eq_key p.1 p.2 (hl p (by simp))).symm, ih fun q hq => hl q (by simp [hq])⟩
  simp only [Thread.requests, Thread.results]
  rw [hdone t.done.reverse (fun p hp => (hinv.thr i t hi).1 p (List.mem_reverse.1 hp))]

/-- so when all goroutines are done, each has obtained exactly its inputs —
what the plain codec gives — whatever the interleaving was. -/
theorem conc_finished (reqs : List (List Bytes)) (s : State) (hr : Reach (init reqs) s)
    (hf : s.finished = true) : s.results = reqs ∧ s.results = reqs.map plainSeq := by
  have key : s.results = reqs := by
    apply List.ext_getElem?
    intro i
    simp only [State.results, List.getElem?_map]
    cases hi : s.threads[i]? with
    | none =>
      have hq := reach_requests hr
      rw [init_requests] at hq
      have : (s.threads.map Thread.requests)[i]? = none := by simp [List.getElem?_map, hi]
      rw [hq] at this
      simp [this]
    | some t =>
      have h := conc_history reqs s hr i t hi
      have hfin : t.finished = true := by
        have := List.all_eq_true.1 hf t (List.mem_of_getElem? hi)
        exact this
      have hpc : t.pc = .idle ∧ t.todo = [] := by
        unfold Thread.finished at hfin
        split at hfin
        · rename_i h1 h2; exact ⟨h1, h2⟩
        · cases hfin
      rw [h]
      simp [hpc.1, hpc.2, PC.cur]
  refine ⟨key, ?_⟩
  rw [key]
  have : plainSeq = id := funext fun r => by unfold plainSeq; exact plainRun_bytes 0 r
  rw [this, List.map_id]

/-- every published table satisfies the table invariant. -/
theorem conc_inv (reqs : List (List Bytes)) (s : State) (hr : Reach (init reqs) s) : Intern.Inv s.tbl :=
  (reach_inv (init_inv reqs) hr).tbl

/-- published tables are never mutated, only replaced by extensions: one step
leaves the table alone or appends one entry; over any continuation the earlier
table is a prefix of the later one and every earlier entry is still what the
later table returns for its key. -/
theorem conc_table_monotone (reqs : List (List Bytes)) (s s' : State)
    (hr : Reach (init reqs) s) (hr' : Reach s s') :
    s.tbl <+: s'.tbl ∧ ∀ k v, (k, v) ∈ s.tbl → lookup s'.tbl k = some v := by
  have hinv := reach_inv (init_inv reqs) hr
  have hp := reach_prefix hinv hr'
  exact ⟨hp, fun k v hm => lookup_of_prefix (reach_inv hinv hr').tbl hp hm⟩

/-- a single step changes the published table by at most one appended entry,
and only the `store` transition does. -/
theorem conc_step_table (reqs : List (List Bytes)) (s s' : State) (i : Nat) (l : Label)
    (hr : Reach (init reqs) s) (st : Step s i l s') :
    (l ≠ .store → s'.tbl = s.tbl) ∧ (l = .store → ∃ d v, s'.tbl = s.tbl ++ [(d, v)]) := by
  have hinv := reach_inv (init_inv reqs) hr
  cases st with
  | store hi hpc =>
    rename_i t d m2 v
    have := (hinv.thr i t hi).2
    simp only [hpc] at this
    exact ⟨fun h => absurd rfl h, fun _ => ⟨d, v, this.2.2⟩⟩
  | _ => exact ⟨fun _ => rfl, fun h => by cases h⟩

/-- a table loaded earlier and still in use by some thread (a stale snapshot) is
a prefix of the current table: reading it without the lock sees only entries
that are still current. -/
theorem conc_snapshot (reqs : List (List Bytes)) (s : State) (hr : Reach (init reqs) s)
    (i : Nat) (t : Thread) (hi : s.threads[i]? = some t) (d : Bytes) (m : Table) :
    (t.pc = .lookup d m → m <+: s.tbl) ∧ (t.pc = .relookup d m → m = s.tbl) := by
  have ht := ((reach_inv (init_inv reqs) hr).thr i t hi).2
  constructor <;> intro hpc <;> simpa only [hpc] using ht

/-- at most one thread is between `Lock()` and `Unlock()`, and it is the owner of
the mutex (so `Unlock` never hits an unlocked mutex). -/
theorem conc_mutex (reqs : List (List Bytes)) (s : State) (hr : Reach (init reqs) s)
    (i j : Nat) (ti tj : Thread) (hi : s.threads[i]? = some ti) (hj : s.threads[j]? = some tj)
    (hhi : ti.pc.holds = true) (hhj : tj.pc.holds = true) : i = j ∧ s.lock = some i := by
  have hinv := reach_inv (init_inv reqs) hr
  have h1 := hinv.owner i ti hi hhi
  have h2 := hinv.owner j tj hj hhj
  rw [h1] at h2
  injection h2 with h2
  exact ⟨h2, h1⟩

/-- interning is canonical across goroutines: any two completed requests for the
same bytes, by whichever threads, got the very same string (same allocation). -/
theorem conc_canonical (reqs : List (List Bytes)) (s : State) (hr : Reach (init reqs) s)
    (i j : Nat) (ti tj : Thread) (hi : s.threads[i]? = some ti) (hj : s.threads[j]? = some tj)
    (d : Bytes) (v w : Str) (hv : (d, v) ∈ ti.done) (hw : (d, w) ∈ tj.done) : v = w := by
  have hinv := reach_inv (init_inv reqs) hr
  exact mem_unique hinv.tbl.keys_nodup ((hinv.thr i ti hi).1 _ hv) ((hinv.thr j tj hj).1 _ hw)

/-- the protocol cannot deadlock: while some goroutine has work left, some
goroutine can take a step. -/
theorem conc_no_deadlock (reqs : List (List Bytes)) (s : State) (hr : Reach (init reqs) s)
    (hf : s.finished = false) : ∃ i, enabled s i = true := by
  have hinv := reach_inv (init_inv reqs) hr
  cases hl : s.lock with
  | some k =>
    obtain ⟨t, ht, hh⟩ := hinv.owned k hl
    exact ⟨k, enabled_of_holds ht hh⟩
  | none =>
    have : ∃ t, t ∈ s.threads ∧ t.finished = false := by
      unfold State.finished at hf
      have := List.all_eq_false.1 hf
      obtain ⟨t, ht, hft⟩ := this
      exact ⟨t, ht, by simpa using hft⟩
    obtain ⟨t, ht, hft⟩ := this
    obtain ⟨i, hi⟩ := List.mem_iff_getElem?.1 ht
    exact ⟨i, enabled_of_not_holding_lock_free hi hft hl⟩

/-- the sequential machine of the first part is this protocol run without
interruption: a whole `Read` by one thread from a state where nobody holds the
mutex is `internRead` on the published table (and is one of the interleavings). -/
theorem uninterrupted_read_is_sequential (s : State) (i : Nat) (t : Thread) (d : Bytes) (ds : List Bytes)
    (hi : s.threads[i]? = some t) (hpc : t.pc = .idle) (htodo : t.todo = d :: ds) (hl : s.lock = none) :
    runThread 9 s i =
      { tbl := (internRead s.tbl d).2, lock := none,
        threads := s.threads.set i ⟨.idle, ds, (d, (internRead s.tbl d).1) :: t.done⟩ } ∧
    Reach s (runThread 9 s i) :=
  ⟨runThread_eq_internRead hi hpc htodo hl, runThread_reach 9 s i⟩

/-- one goroutine alone: table and results are those of `internRun`. -/
theorem solo_is_sequential (ds : List Bytes) :
    runReads ds.length (init [ds]) 0 =
      ⟨(internRun withInterning ds).2, none,
        [⟨.idle, [], (ds.zip (internRun withInterning ds).1).reverse⟩]⟩ ∧
    Reach (init [ds]) (runReads ds.length (init [ds]) 0) := by
  refine ⟨?_, runReads_reach _ _ _⟩
  have := runReads_eq_internRun (tbl := withInterning) (threads := [⟨.idle, ds, []⟩]) (i := 0)
    (ds := ds) (done := []) rfl
  simpa [init] using this

/-- all of the above for a replayed schedule (the form the trace checker uses). -/
theorem schedule_sound (reqs : List (List Bytes)) (sched : List Nat) (s : State)
    (h : runSchedule (init reqs) sched = some s) :
    Intern.Inv s.tbl ∧
    (∀ (i : Nat) (t : Thread), s.threads[i]? = some t →
      reqs[i]? = some (t.results.map (·.bytes) ++ (t.pc.cur.toList ++ t.todo))) ∧
    (s.finished = true → s.results = reqs) := by
  have hr := runSchedule_reach h
  exact ⟨conc_inv reqs s hr, fun i t hi => conc_history reqs s hr i t hi,
    fun hf => (conc_finished reqs s hr hf).1⟩

/-! ### non-vacuity -/

-- a 3-input history with a repeat: contents as the plain codec, and the repeat
-- is answered with the very same allocation as the first occurrence
example : internSeq [[104, 105], [33], [104, 105]] = [[104, 105], [33], [104, 105]] := by decide
example : internIds [[104, 105], [33], [104, 105]] = [0, 1, 0] := by decide
example : (internRun withInterning [[104, 105], [33], [104, 105]]).2 =
    [([104, 105], ⟨[104, 105], .fresh 0⟩), ([33], ⟨[33], .fresh 1⟩)] := by decide
example : Intern.Inv (internRun withInterning [[104, 105], [33], [104, 105]]).2 :=
  (internRun_spec Inv.nil _).1

-- two goroutines, different strings, both miss on the empty table, both insert
def schedBoth : List Nat := [0,1,0,1,0,1, 0,0,0,0,0,0, 1,1,1,1,1,1]
example : (runSchedule (init [[[1]], [[2]]]) schedBoth).map (·.tbl) =
    some [([1], ⟨[1], .fresh 0⟩), ([2], ⟨[2], .fresh 1⟩)] := by decide
example : (runSchedule (init [[[1]], [[2]]]) schedBoth).map (fun s => (s.lock, s.finished)) =
    some (none, true) := by decide
example : (runSchedule (init [[[1]], [[2]]]) schedBoth).map (·.results) = some [[[1]], [[2]]] := by decide

-- the race: two goroutines decode the same bytes, both miss on the empty table;
-- the second finds the entry on the re-check under the lock and inserts nothing:
-- one entry, both got the same string
example : (runSchedule (init [[[7]], [[7]]]) [0,1,0,1,0,1, 0,0,0,0,0,0, 1,1,1,1,1]).map
    (fun s => (s.tbl, s.threads.map (·.done))) =
    some ([([7], ⟨[7], .fresh 0⟩)],
      [[([7], ⟨[7], .fresh 0⟩)], [([7], ⟨[7], .fresh 0⟩)]]) := by decide

-- the same as a labelled trace
example : (runTrace (init [[[7]], [[7]]])
    [(0, .begin), (1, .begin), (0, .load), (1, .load), (0, .miss), (1, .miss),
     (0, .lock), (0, .reload), (0, .remiss), (0, .store), (0, .unlock), (0, .ret),
     (1, .lock), (1, .reload), (1, .rehit), (1, .unlock), (1, .ret)]).map (·.finished) = some true := by
  decide

-- the mutex blocks: thread 1 cannot take the lock while thread 0 holds it
example : runSchedule (init [[[1]], [[2]]]) [0,1,0,1,0,1, 0, 1] = none := by decide

/-! ### recorded traces (the `interntrace` correspondence op) -/

/-- a trace recorded at the yield points of the real codec that the model
follows is an execution of the protocol … -/
theorem trace_replay_reach (reqs : List (List Bytes)) (evs : List (Nat × TEv)) (s : State)
    (h : conformT (init reqs) evs 0 = .ok s) : Reach (init reqs) s :=
  conformT_reach h

/-- … so the table reached satisfies the invariant, every answer given so far
is a private copy of its request, and once every goroutine has finished the
results are the requests (= what the plain codec returns). -/
theorem trace_replay_sound (reqs : List (List Bytes)) (evs : List (Nat × TEv)) (s : State)
    (h : conformT (init reqs) evs 0 = .ok s) :
    Intern.Inv s.tbl ∧
    (∀ (i : Nat) (t : Thread) (d : Bytes) (v : Str), s.threads[i]? = some t → (d, v) ∈ t.done →
      v.bytes = d ∧ (∃ id, v.prov = .fresh id) ∧ ∀ buf, v.observe buf = d) ∧
    (s.finished = true → s.results = reqs ∧ s.results = reqs.map plainSeq) := by
  have hr := conformT_reach h
  refine ⟨conc_inv reqs s hr, fun i t d v hi hd => ?_, conc_finished reqs s hr⟩
  have := conc_results reqs s hr i t hi d v hd
  exact ⟨this.1, this.2.1, this.2.2.1⟩

-- non-vacuity: two goroutines decode the same new string at once; both miss,
-- goroutine 0 gets the mutex and stores, goroutine 1 finds it on its second lookup
example : (match conformT (init [[[7]], [[7]]])
      [(0, .load), (1, .load), (0, .miss), (1, .miss), (0, .locked), (0, .store), (1, .locked)] 0 with
    | .ok s => some (s.finished, s.keys, s.results)
    | .error _ => none) = some (true, [[7]], [[[7]], [[7]]]) := by decide
-- … and a trace the real code cannot produce is refused: goroutine 1 "arrives"
-- behind the mutex while goroutine 0 still holds it
example : (match conformT (init [[[7]], [[8]]])
      [(0, .load), (1, .load), (0, .miss), (1, .miss), (0, .locked), (1, .locked)] 0 with
    | .ok _ => none
    | .error (k, _) => some k) = some 5 := by decide

-- option erasure on a struct with an interned field, a nested struct with one, and a plain field
example : (Ty.struct "T" [(1, "A", .str true), (2, "B", .struct "U" [(1, "X", .str true)]), (3, "C", .int 64)]).unintern
    = .struct "T" [(1, "A", .str false), (2, "B", .struct "U" [(1, "X", .str false)]), (3, "C", .int 64)] := by
  simp [Ty.unintern, uninternFields]

-- the properties can fail: a zero-copy string is not private — it changes when
-- the caller reuses the buffer
example : (strAlias 1 [7, 8]).observe [0, 7, 8] = [7, 8] ∧ (strAlias 1 [7, 8]).observe [0, 9, 9] = [9, 9] := by
  decide
-- … and a table holding one violates the invariant
example : ¬ Intern.Inv [([7, 8], strAlias 1 [7, 8])] := fun h => by
  have := h.fresh_idx 0 [7, 8] (strAlias 1 [7, 8]) rfl
  cases this

end C19
