import Proofs.JSONOut
/-
  C15 — the JSON outputter (plenccodec/output.go, `JSONOutput`) emits, for every
  well-nested sequence of Outputter calls, one valid JSON document whose parse
  is the call tree; after Reset it behaves like a new one.
  Property theorems only; helper lemmas live in Proofs/JSONOut.lean, the model
  and the specification (pretty-printer `render`, parser `parse`) in
  Plenc/JSONOut.lean.

  Reading guide.
  * `J` is a call tree, `J.calls` its call sequence (the well-nested sequences
    are exactly the image of `J.calls`); `str` leaves and object names carry the
    RAW bytes of the Go string, `tok` leaves carry the already formatted token of
    Int64/Uint64/Float64/Float32/Bool/Raw/Time (strconv/time are not modelled).
  * (A) holds for ALL tokens and ALL byte strings.  (B) needs every `tok` leaf to
    be a well-formed token (`J.Good`): JSON number grammar, `true`/`false`/
    `null`, or a quoted string without anything to escape (Time).  Strings and
    names are unrestricted in (B) too.
-/
namespace C15
open JSONOut

/-! ## (A) the machine prints the specification's rendering -/

/-- In EVERY machine state (any buffer, depth, inField, stack) the calls of a
tree have exactly the effect of one `Raw` call carrying the tree's rendering at
the current depth: prefix, then the bytes, then punctuation.  In particular the
trailing-comma trim in `end()` never removes anything but a separator the
machine itself wrote — whatever the token and string contents are. -/
theorem run_tree (t : J) (o : Out) : run o t.calls = step o (.tok (render o.depth t)) := by
  rw [run_value, body_eq_render]; rfl

/-- Theorem A: from a fresh outputter, and from any outputter after `Reset()`,
`Done()` after the calls of a tree is the rendering at depth 0 plus "\n". -/
theorem done_eq (t : J) (o : Out) : (run o.reset t.calls).done = render 0 t ++ [10] := by
  rw [run_tree]
  simp [Out.reset, Out.done, step, Out.pre, Out.punct, Out.fin, indent, nl]

theorem done_eq_fresh (t : J) : jsonOutRun t.calls = render 0 t ++ [10] := done_eq t fresh

/-- `depth == len(stack)` in every state reachable from a fresh outputter by ANY
call sequence: the slice expression `j.stack[:len(j.stack)-1]` in `end()`
cannot panic (so modelling it by `List.tail` loses nothing). -/
theorem depth_eq_stack (cs : List Call) : (run fresh cs).depth = (run fresh cs).stack.length :=
  JSONOut.depth_eq_stack cs fresh rfl

/-! ## (B) the rendering parses back to the call tree -/

/-- Every byte string — valid UTF-8 or not; quotes, backslashes, control
characters, 0x7f, bytes ≥ 0x80 (so also U+2028/U+2029) — escaped by
`appendString` parses back to exactly itself, whatever follows. -/
theorem string_roundtrip (s rest : Bytes) :
    parse (escapeString s ++ rest) = some (.str s, rest) := by
  unfold parse; exact parseValue_str _ s rest

/-- A well-formed number token is read back as exactly that token, provided the
next byte (if any) cannot continue a number (`numStop`: not a digit, `.`, `e`, `E`). -/
theorem number_roundtrip (t rest : Bytes) (h : NumberToken t) (hr : headOk numStop rest = true) :
    parse (t ++ rest) = some (.num t, rest) := by
  have := parse_render_rest (.tok t) 0 rest (by simp only [J.Good]; exact Or.inl (Or.inl h)) hr
  simpa [render, toJV, tokJV_number h] using this

/-- Theorem B, general form: at any indentation depth and in front of any rest
that does not continue a number token, the parser consumes exactly the rendering
and returns the call tree. -/
theorem parse_render_rest (t : J) (d : Nat) (rest : Bytes) (hg : t.Good)
    (hr : headOk numStop rest = true) : parse (render d t ++ rest) = some (toJV t, rest) :=
  JSONOut.parse_render_rest t d rest hg hr

/-- Theorem B: the rendering of a tree with well-formed tokens is one JSON value
— nothing is left over — and its parse is the call tree. -/
theorem parse_render (t : J) (d : Nat) (hg : t.Good) : parse (render d t) = some (toJV t, []) := by
  simpa using JSONOut.parse_render_rest t d [] hg rfl

/-- A + B: what `Done()` returns after the calls of a tree with well-formed
tokens (fresh or Reset outputter) is a complete JSON document (one value, then
only the final newline) whose parse is the call tree. -/
theorem done_parses (t : J) (o : Out) (hg : t.Good) :
    parseDoc ((run o.reset t.calls).done) = some (toJV t) := by
  rw [done_eq]
  have := JSONOut.parse_render_rest t 0 [10] hg (by decide)
  simp [parseDoc, this, skipWs, isWs]

/-! ## (C) Reset -/

/-- After `Reset()` the outputter is indistinguishable from a new one: every
call sequence drives both to the same data/depth/inField/stack (these four
fields are the whole model state; Go's Reset keeps only slice capacity). -/
theorem reset_fresh (o : Out) (cs : List Call) : run o.reset cs = run fresh cs := rfl

theorem reset_fresh_fields (o : Out) (cs : List Call) :
    (run o.reset cs).data = (run fresh cs).data ∧ (run o.reset cs).depth = (run fresh cs).depth ∧
    (run o.reset cs).inField = (run fresh cs).inField ∧ (run o.reset cs).stack = (run fresh cs).stack :=
  ⟨rfl, rfl, rfl, rfl⟩

/-- in particular `Done()` after Reset and a call sequence equals `Done()` of a
new outputter after the same sequence, whatever happened before the Reset. -/
theorem reset_done (o : Out) (cs : List Call) : (run o.reset cs).done = jsonOutRun cs := rfl

/-! ## non-vacuity -/

/-- `1` -/
theorem good_1 : NumberToken [49] :=
  ⟨[], [49], [], [], rfl, Or.inl rfl, Or.inr ⟨49, [], rfl, by decide, by decide, by simp [AllDigits]⟩,
    Or.inl rfl, Or.inl rfl⟩

/-- `-1.5e+07` (what `strconv.AppendFloat(-1.5e7, 'g', -1, 64)` gives) -/
theorem good_float : NumberToken [45, 49, 46, 53, 101, 43, 48, 55] :=
  ⟨[45], [49], [46, 53], [101, 43, 48, 55], rfl, Or.inr rfl,
    Or.inr ⟨49, [], rfl, by decide, by decide, by simp [AllDigits]⟩,
    Or.inr ⟨[53], rfl, by simp, by simp [AllDigits]; decide⟩,
    Or.inr ⟨101, [43], [48, 55], rfl, Or.inl rfl, Or.inr (Or.inl rfl), by simp,
      by simp [AllDigits]; decide⟩⟩

/-- `{"a\"b": [1, [], {}, "\"\\\n\x01\xffx,"], "t": -1.5e+07, "": "é", "n": null}`:
nested, with empty containers, an empty name, a name with a quote, a string with
`"`, `\`, newline, byte 0x01, byte 0xff and a trailing comma, and a string ending
in ",\n" right before a container closes. -/
def exTree : J :=
  .obj [([97, 34, 98], .arr [.tok [49], .arr [], .obj [],
                             .str [34, 92, 10, 1, 255, 120, 44], .str [44, 10]]),
        ([116], .tok [45, 49, 46, 53, 101, 43, 48, 55]),
        ([], .str [195, 169]),
        ([110], .tok tNull)]

theorem exTree_good : exTree.Good := by
  simp only [exTree, J.Good, GoodKV, GoodL, and_true, true_and]
  exact ⟨Or.inl (Or.inl good_1), Or.inl (Or.inl good_float), Or.inl (Or.inr (Or.inr (Or.inr rfl)))⟩

example : parseDoc (jsonOutRun exTree.calls) = some (toJV exTree) := done_parses exTree fresh exTree_good

-- the same, by evaluation (independent of the theorems).
set_option maxRecDepth 10000 in
example : parseDoc (jsonOutRun exTree.calls) = some (toJV exTree) := rfl

/-- exact bytes, separators and empty containers:
`[\n  1,\n  [\n  ],\n  {\n    "a": "\"\u0001"\n  }\n]\n` -/
example : jsonOutRun (J.arr [.tok [49], .arr [], .obj [([97], .str [34, 1])]]).calls =
    [91, 10, 32, 32, 49, 44, 10, 32, 32, 91, 10, 32, 32, 93, 44, 10, 32, 32, 123, 10,
     32, 32, 32, 32, 34, 97, 34, 58, 32, 34, 92, 34, 92, 117, 48, 48, 48, 49, 34, 10,
     32, 32, 125, 10, 93, 10] := by decide

/-- Reset in the middle of a half-written document. -/
example : (run (run fresh [.startObj, .name [97], .startArr, .tok [49]]).reset exTree.calls).done
    = jsonOutRun exTree.calls := rfl

/-- The token hypothesis of (B) is needed, and this is what the implementation
does for non-finite floats: `Float64(NaN)` appends the token `NaN`
(`+Inf`, `-Inf` likewise), and the document is not JSON. -/
example : parseDoc (jsonOutRun (J.arr [.tok [78, 97, 78]]).calls) = none := rfl
example : parseDoc (jsonOutRun (J.arr [.tok [43, 73, 110, 102]]).calls) = none := rfl

end C15
