import Props.C13
import Props.C15
/-
  C13 ∘ C15 — "descriptor-driven decoding yields valid JSON equal to the value",
  as one theorem instead of the prose composition of `C13.descRead_calls` (the
  walker's calls are `toCalls t v`) with `C15.done_parses` (the calls of a call
  tree render to a document that parses to the tree).

  The two do not compose literally, for two reasons, both handled here.

  (1) `OCall` carries typed payloads, `JSONOut.Call` formatted tokens. `lower k`
      maps the one to the other exactly as the methods of `JSONOutput` do
      (output.go): Int64/Uint64/Float32/Float64 append a token, formatted by
      strconv — a parameter (`Toks`); Bool appends `true`/`false`; Raw its
      argument; Time appends the quoted RFC 3339 text in one piece, i.e. it is
      `Call.tok (timeTok …)` like the numbers (as in Plenc/JSONOut.lean), the
      text being a parameter. `time_as_string` shows this is the same as a
      `String` call of the text when the text needs no escaping.

  (2) FINDING (measured on the Go code too, /tmp/c13work/go): the walker writes
      the key of a string-keyed map with `out.String(key)`, not `NameField`. For
      the outputter the two are NOT the same call: `str_in_key_position` — in key
      position `String` does exactly what `NameField` does except that `inField`
      stays false; therefore the `prefix()` of the member's value writes the
      indentation, and the document reads `"a":     1`. So the lowered sequence
      is not of the form `J.calls`, the machine states after it and after its
      normalisation (`normKeys`: key-position `str` ↦ `name`) differ in `data`,
      and so do the `Done()` bytes (example after `run_same_control`). What
      holds, and is proved for ALL call trees and ALL machine states:
        * same control state (depth, inField, stack): `run_same_control`;
        * the buffer is that of one scalar carrying `renderQ` — `render` with the
          indentation (`keyPad`) after the `": "` of such keys: `run_treeQ`,
          `done_eqQ`;
        * the extra bytes are JSON whitespace: `parse_renderQ_rest`,
          `done_parsesQ`, `done_parses_both` (both documents parse to the same
          value).
      `Q` is `JSONOut.J` with one bit per object (how its keys are written);
      `Q.erase : Q → J` forgets it, `Q.calls` / `renderQ` use it.

  WHAT IS PROVED (no hypotheses beyond those listed; every constructor of `Ty`
  — `pslice`, proto maps, proto-compatible times and pointer-to-pointer are
  ruled out by `descShape` exactly as in C13 — by the same mutual induction over
  `Ty` / `Fields` as `C13.pp_ty`):
    a. `Toks`, `lower`, `toJ k t v : J` — the JSON tree a value denotes, case for
       case as `toCalls` (`emptyJ`, `zeroJ`, the `nonNil` filter, omitted fields,
       both map forms); `toQ` is the same with the bit, `erase_toQ :
       (toQ k t v).erase = toJ k t v` (unconditional).
    b. `lowered_calls : (toCalls t v).map (lower k) = (toQ k t v).calls` and
       `lowered_calls_norm : normKeys [] ((toCalls t v).map (lower k)) =
       (toJ k t v).calls`, under `t.wf`, `descShape t`, `t.hasTy v`,
       `v ≠ .ptr none`, `v ≠ .map none` (hypotheses of `descRead_calls`; `descOK`
       and the size bound are not needed here). `normKeys_calls`,
       `normKeys_stack` tie the normaliser to trees and to the machine's stack.
    c. `desc_json` (and `desc_json_calls`, `desc_json_bytes`,
       `desc_json_marshal`): under the hypotheses of `descRead_calls` and
       `(toJ k t v).Good`, `descJSON` — the walk into a new or Reset outputter,
       then `Done()` — returns a document whose `parseDoc` is
       `toJV (toJ k t v)`; its exact bytes are `renderQ 0 (toQ k t v) ++ "\n"`.
       `toJ_good : k.Good → (toJ k t v).Good` discharges the token hypothesis
       from the formatting assumption (`Toks.Good`: numbers are JSON number
       tokens, the time text has nothing to escape; `null` (`nullTok`),
       `true`, `false` need nothing).
    d. `cx_desc_json` and the examples after it: a struct with a string-keyed
       map of integer pointers (one nil: `null`, one `""` key), a slice of
       strings, a packed integer slice, an integer-keyed map and a time; decimal
       integer formatting; the hypotheses are discharged, the tree, the parsed
       value and the exact bytes (by evaluation too) are written out.

  LEFT OUT / ASSUMED: the formatting itself (strconv, time.AppendFormat) is a
  parameter; `Toks.Good` for f32/f64 on ALL bit patterns excludes NaN/±Inf, for
  which the real token is not JSON (Props/C15.lean, last examples) — `desc_json`
  therefore asks only for `(toJ k t v).Good`. Nothing else.
-/

namespace C13
open RT DW JSONOut

/-! ## 1. call trees whose objects remember how their keys are written -/

/-- a `JSONOut.J` tree in which every object carries one bit: are its keys
written with `String` (`true`: the walker's string-keyed maps) or with
`NameField` (`false`: structs and key/value entry objects). -/
inductive Q where
  | str (raw : Bytes)
  | tok (t : Bytes)
  | arr (xs : List Q)
  | obj (strKeys : Bool) (kvs : List (Bytes × Q))
deriving Repr

/-- the call that writes an object key. -/
def keyCall (q : Bool) (k : Bytes) : Call := if q then .str k else .name k

mutual
/-- the call sequence of a tree: as `J.calls`, except that the keys of a
`strKeys` object are `Call.str`. -/
def Q.calls : Q → List Call
  | .str s => [.str s]
  | .tok t => [.tok t]
  | .arr xs => .startArr :: (qcallsL xs ++ [.endArr])
  | .obj q kvs => .startObj :: (qcallsKV q kvs ++ [.endObj])
def qcallsL : List Q → List Call
  | [] => [] | x :: r => x.calls ++ qcallsL r
def qcallsKV : Bool → List (Bytes × Q) → List Call
  | _, [] => [] | q, (k, x) :: r => (keyCall q k :: x.calls) ++ qcallsKV q r
end

mutual
/-- forget the bit: the `J` tree with the same keys and values. Its `J.calls`
is `Q.calls` with every key-position `Call.str` replaced by `Call.name`. -/
def Q.erase : Q → J
  | .str s => .str s
  | .tok t => .tok t
  | .arr xs => .arr (eraseL xs)
  | .obj _ kvs => .obj (eraseKV kvs)
def eraseL : List Q → List J
  | [] => [] | x :: r => x.erase :: eraseL r
def eraseKV : List (Bytes × Q) → List (Bytes × J)
  | [] => [] | (k, x) :: r => (k, x.erase) :: eraseKV r
end

/-- what the machine writes between `": "` and the member's value: nothing
after `NameField`, the indentation after `String`. -/
def keyPad (q : Bool) (d : Nat) : Bytes := if q then indent d else []

mutual
/-- the specification's pretty-printer `JSONOut.render`, with `keyPad`. -/
def renderQ : Nat → Q → Bytes
  | _, .str s => escapeString s
  | _, .tok t => t
  | d, .arr xs => [91, 10] ++ renderQL (d+1) xs ++ indent d ++ [93]
  | d, .obj q kvs => [123, 10] ++ renderQKV q (d+1) kvs ++ indent d ++ [125]
def renderQL : Nat → List Q → Bytes
  | _, [] => []
  | d, x :: r => indent d ++ renderQ d x ++ sep r ++ renderQL d r
def renderQKV : Bool → Nat → List (Bytes × Q) → Bytes
  | _, _, [] => []
  | q, d, (k, x) :: r =>
      indent d ++ escapeString k ++ [58, 32] ++ keyPad q d ++ renderQ d x ++ sep r ++ renderQKV q d r
end

/-! ## 2. the machine on such a sequence -/

/-- THE DIFFERENCE, at the level of one call: where a key is expected, `String`
does to the outputter exactly what `NameField` does, except that it leaves
`inField` false — so the `prefix()` of the member's value indents. -/
theorem str_in_key_position (o : Out) (r : List St) (k : Bytes) (hs : o.stack = .key :: r) :
    step o (.str k) = { step o (.name k) with inField := false } := by
  cases o with
  | mk data depth inField stack =>
    simp only at hs
    subst hs
    cases inField <;> simp [step, Out.pre, Out.punct]

theorem key_then_value (q : Bool) (o : Out) (n : Nat) (r : List St) (k b : Bytes)
    (hd : o.depth = n) (hf : o.inField = false) (hs : o.stack = .key :: r) :
    after (step o (keyCall q k)) b =
      { o with data := o.data ++ indent n ++ escapeString k ++ [58, 32] ++ keyPad q n ++ b ++ [comma, nl] } := by
  cases o with
  | mk data depth inField stack =>
    simp only at hd hf hs
    subst hd; subst hf; subst hs
    cases q <;> simp [keyCall, keyPad, after, step, Out.pre, Out.punct]

mutual
def Q.body : Nat → Q → Bytes
  | _, .str s => escapeString s
  | _, .tok t => t
  | d, .arr xs => [91, nl] ++ closeElems (qelemsL (d+1) xs) ++ indent d ++ [93]
  | d, .obj q kvs => [123, nl] ++ closeElems (qelemsKV q (d+1) kvs) ++ indent d ++ [125]
def qelemsL : Nat → List Q → Bytes
  | _, [] => [] | d, x :: r => indent d ++ x.body d ++ [comma, nl] ++ qelemsL d r
def qelemsKV : Bool → Nat → List (Bytes × Q) → Bytes
  | _, _, [] => []
  | q, d, (k, x) :: r =>
      indent d ++ escapeString k ++ [58, 32] ++ keyPad q d ++ x.body d ++ [comma, nl] ++ qelemsKV q d r
end

theorem qelemsL_ends (d : Nat) : ∀ xs : List Q, qelemsL d xs = [] ∨ ∃ e, qelemsL d xs = e ++ [comma, nl]
  | [] => Or.inl (by simp [qelemsL])
  | x :: r => by
    right
    rcases qelemsL_ends d r with h | ⟨e, h⟩
    · exact ⟨indent d ++ x.body d, by simp [qelemsL, h]⟩
    · exact ⟨indent d ++ x.body d ++ [comma, nl] ++ e, by simp [qelemsL, h]⟩

theorem qelemsKV_ends (q : Bool) (d : Nat) :
    ∀ xs : List (Bytes × Q), qelemsKV q d xs = [] ∨ ∃ e, qelemsKV q d xs = e ++ [comma, nl]
  | [] => Or.inl (by simp [qelemsKV])
  | (k, x) :: r => by
    right
    rcases qelemsKV_ends q d r with h | ⟨e, h⟩
    · exact ⟨indent d ++ escapeString k ++ [58, 32] ++ keyPad q d ++ x.body d, by simp [qelemsKV, h]⟩
    · exact ⟨indent d ++ escapeString k ++ [58, 32] ++ keyPad q d ++ x.body d ++ [comma, nl] ++ e,
        by simp [qelemsKV, h]⟩

mutual
/-- in EVERY machine state, the calls of a tree act like one scalar whose token
is the machine-shaped rendering of the tree at the current depth. -/
theorem run_valueQ : (t : Q) → ∀ o : Out, run o t.calls = after o (t.body o.depth)
  | .str s, o => by simp [Q.calls, run, Q.body, str_step]
  | .tok t, o => by simp [Q.calls, run, Q.body, tok_step]
  | .arr xs, o => by
      simp only [Q.calls, Q.body]
      rw [show Call.startArr :: (qcallsL xs ++ [Call.endArr]) = [Call.startArr] ++ qcallsL xs ++ [Call.endArr] by simp]
      rw [run_append, run_append]
      have h1 : run o [Call.startArr] =
          ⟨o.pre.data ++ [91, nl], o.depth + 1, false, .value :: o.stack⟩ := by
        simp [run, step, pre_inField, pre_stack, pre_depth]
      rw [h1, run_elemsQ xs ⟨o.pre.data ++ [91, nl], o.depth + 1, false, .value :: o.stack⟩ (o.depth + 1) o.stack rfl rfl rfl]
      have := close_container o 91 93 (by decide) (qelemsL (o.depth + 1) xs) (qelemsL_ends _ xs) .value
      simpa [run, step] using this
  | .obj q kvs, o => by
      simp only [Q.calls, Q.body]
      rw [show Call.startObj :: (qcallsKV q kvs ++ [Call.endObj]) = [Call.startObj] ++ qcallsKV q kvs ++ [Call.endObj] by simp]
      rw [run_append, run_append]
      have h1 : run o [Call.startObj] =
          ⟨o.pre.data ++ [123, nl], o.depth + 1, false, .key :: o.stack⟩ := by
        simp [run, step, pre_inField, pre_stack, pre_depth]
      rw [h1, run_kvsQ q kvs ⟨o.pre.data ++ [123, nl], o.depth + 1, false, .key :: o.stack⟩ (o.depth + 1) o.stack rfl rfl rfl]
      have := close_container o 123 125 (by decide) (qelemsKV q (o.depth + 1) kvs) (qelemsKV_ends q _ kvs) .key
      simpa [run, step] using this
theorem run_elemsQ : (xs : List Q) → ∀ (o : Out) (n : Nat) (r : List St),
    o.depth = n → o.inField = false → o.stack = .value :: r →
    run o (qcallsL xs) = { o with data := o.data ++ qelemsL n xs }
  | [], o, n, r, _, _, _ => by simp [qcallsL, run, qelemsL]
  | x :: xs, o, n, r, hd, hf, hs => by
      subst hd
      simp only [qcallsL, run_append, qelemsL]
      rw [run_valueQ x o, after_arr o o.depth r _ rfl hf hs]
      rw [run_elemsQ xs { o with data := o.data ++ indent o.depth ++ x.body o.depth ++ [comma, nl] } o.depth r rfl hf hs]
      simp [List.append_assoc]
theorem run_kvsQ : (q : Bool) → (kvs : List (Bytes × Q)) → ∀ (o : Out) (n : Nat) (r : List St),
    o.depth = n → o.inField = false → o.stack = .key :: r →
    run o (qcallsKV q kvs) = { o with data := o.data ++ qelemsKV q n kvs }
  | q, [], o, n, r, _, _, _ => by simp [qcallsKV, run, qelemsKV]
  | q, (k, x) :: kvs, o, n, r, hd, hf, hs => by
      subst hd
      simp only [qcallsKV, run_append, qelemsKV]
      have hstep : run o [keyCall q k] = step o (keyCall q k) := by simp [run]
      rw [show keyCall q k :: x.calls = [keyCall q k] ++ x.calls by simp, run_append, hstep, run_valueQ x _]
      have hdn : (step o (keyCall q k)).depth = o.depth := by
        cases q <;> simp only [keyCall, Bool.false_eq_true, ↓reduceIte, step, Out.punct] <;>
          split <;> simp [pre_depth]
      rw [hdn, key_then_value q o o.depth r k _ rfl hf hs]
      rw [run_kvsQ q kvs { o with data := o.data ++ indent o.depth ++ escapeString k ++ [58, 32] ++ keyPad q o.depth ++ x.body o.depth ++ [comma, nl] } o.depth r rfl hf hs]
      simp [List.append_assoc]
end


theorem qelemsL_shape (d : Nat) (xs : List Q) :
    (qelemsL d xs = [] ∧ xs = []) ∨ (xs ≠ [] ∧ ∃ e, qelemsL d xs = e ++ [comma, nl]) := by
  cases xs with
  | nil => left; simp [qelemsL]
  | cons x r =>
    right; refine ⟨by simp, ?_⟩
    rcases qelemsL_ends d (x :: r) with h | h
    · simp [qelemsL] at h
    · exact h

theorem qelemsKV_shape (q : Bool) (d : Nat) (xs : List (Bytes × Q)) :
    (qelemsKV q d xs = [] ∧ xs = []) ∨ (xs ≠ [] ∧ ∃ e, qelemsKV q d xs = e ++ [comma, nl]) := by
  cases xs with
  | nil => left; simp [qelemsKV]
  | cons x r =>
    obtain ⟨k, x⟩ := x
    right; refine ⟨by simp, ?_⟩
    rcases qelemsKV_ends q d ((k, x) :: r) with h | h
    · simp [qelemsKV] at h
    · exact h

mutual
/-- the machine-shaped rendering is the pretty-printer `renderQ`. -/
theorem bodyQ_eq_render : (t : Q) → ∀ d, t.body d = renderQ d t
  | .str s, d => by simp [Q.body, renderQ]
  | .tok t, d => by simp [Q.body, renderQ]
  | .arr xs, d => by simp [Q.body, renderQ, close_qelemsL xs (d+1), nl]
  | .obj q kvs, d => by simp [Q.body, renderQ, close_qelemsKV q kvs (d+1), nl]
theorem close_qelemsL : (xs : List Q) → ∀ d, closeElems (qelemsL d xs) = renderQL d xs
  | [], d => by simp [qelemsL, renderQL, closeElems]
  | x :: r, d => by
      simp only [qelemsL, renderQL]
      rw [closeElems_cons_sep (indent d ++ x.body d) (qelemsL d r) r (qelemsL_shape d r),
        close_qelemsL r d, bodyQ_eq_render x d]
theorem close_qelemsKV : (q : Bool) → (xs : List (Bytes × Q)) → ∀ d,
    closeElems (qelemsKV q d xs) = renderQKV q d xs
  | _, [], d => by simp [qelemsKV, renderQKV, closeElems]
  | q, (k, x) :: r, d => by
      simp only [qelemsKV, renderQKV]
      rw [closeElems_cons_sep (indent d ++ escapeString k ++ [58, 32] ++ keyPad q d ++ x.body d)
        (qelemsKV q d r) r (qelemsKV_shape q d r), close_qelemsKV q r d, bodyQ_eq_render x d]
end

/-- in EVERY machine state the calls of a tree have exactly the effect of one
`Raw` call carrying `renderQ` of the tree at the current depth (C15.run_tree for
sequences with `String` keys). -/
theorem run_treeQ (t : Q) (o : Out) : run o t.calls = step o (.tok (renderQ o.depth t)) := by
  rw [run_valueQ, bodyQ_eq_render]; rfl

/-- `Done()` after the calls of a tree, from a fresh or Reset outputter. -/
theorem done_eqQ (t : Q) (o : Out) : (run o.reset t.calls).done = renderQ 0 t ++ [10] := by
  rw [run_treeQ]
  simp [Out.reset, Out.done, step, Out.pre, Out.punct, Out.fin, indent, nl]


/-! ## 3. the parser reads `renderQ` back as the erased tree -/

theorem parseValue_keyPad (q : Bool) (f d : Nat) (s : Bytes) :
    parseValue f (keyPad q d ++ s) = parseValue f s := by
  cases q
  · simp [keyPad]
  · simp only [keyPad, ↓reduceIte]; exact parseValue_indent f d s

theorem renderQ_head (d : Nat) : ∀ t : Q, t.erase.Good → ∃ c r, renderQ d t = c :: r ∧ isWs c = false ∧ c ≠ 93
  | .str s, _ => ⟨34, s.flatMap escByte ++ [34], by simp [renderQ, escapeString], by decide, by decide⟩
  | .tok t, h => by
      simp only [Q.erase, J.Good] at h
      simpa [renderQ] using goodToken_head h
  | .arr xs, _ => ⟨91, _, by simp only [renderQ, List.cons_append, List.nil_append]; rfl, by decide, by decide⟩
  | .obj q kvs, _ => ⟨123, _, by simp only [renderQ, List.cons_append, List.nil_append]; rfl, by decide, by decide⟩

theorem skipWs_renderQL_head (d : Nat) (x : Q) (r : List Q) (hx : x.erase.Good) (tail : Bytes) :
    ∃ c tl, skipWs (10 :: (renderQL d (x :: r) ++ tail)) = c :: tl ∧ c ≠ 93 := by
  obtain ⟨c, r0, hc, hws, h93⟩ := renderQ_head d x hx
  refine ⟨c, r0 ++ sep r ++ renderQL d r ++ tail, ?_, h93⟩
  have : renderQL d (x :: r) ++ tail = indent d ++ (c :: (r0 ++ sep r ++ renderQL d r ++ tail)) := by
    simp [renderQL, hc]
  rw [this, skipWs_nl, skipWs_indent, skipWs_stop c _ hws]

theorem skipWs_renderQKV_head (q : Bool) (d : Nat) (k : Bytes) (x : Q) (r : List (Bytes × Q)) (tail : Bytes) :
    ∃ tl, skipWs (10 :: (renderQKV q d ((k, x) :: r) ++ tail)) = 34 :: tl := by
  refine ⟨k.flatMap escByte ++ 34 :: (58 :: 32 :: (keyPad q d ++ renderQ d x ++ sep r ++ renderQKV q d r ++ tail)), ?_⟩
  have : renderQKV q d ((k, x) :: r) ++ tail
      = indent d ++ escapeString k ++ [58, 32] ++ (keyPad q d ++ renderQ d x ++ sep r ++ renderQKV q d r ++ tail) := by
    simp [renderQKV]
  rw [this, skipWs_nl, parseMembers_name]

mutual
theorem parseValue_renderQ : (t : Q) → ∀ (d f : Nat) (rest : Bytes), t.erase.Good → need t.erase ≤ f →
    headOk numStop rest = true → parseValue f (renderQ d t ++ rest) = some (toJV t.erase, rest)
  | .str s, d, f, rest, _, hf, _ => by
      cases f with
      | zero => simp [Q.erase, need] at hf
      | succ f => simp only [renderQ, Q.erase, toJV, parseValue_str]
  | .tok t, d, f, rest, hg, hf, hr => by
      cases f with
      | zero => simp [Q.erase, need] at hf
      | succ f =>
        simp only [Q.erase, J.Good] at hg
        simp only [renderQ, Q.erase, toJV, parseValue_tok f t rest hg hr]
  | .arr xs, d, f, rest, hg, hf, hr => by
      cases f with
      | zero => simp [Q.erase, need] at hf
      | succ f =>
        simp only [Q.erase, J.Good] at hg
        simp only [Q.erase, need] at hf
        cases xs with
        | nil =>
          have : renderQ d (.arr []) ++ rest = 91 :: 10 :: (indent d ++ 93 :: rest) := by
            simp [renderQ, renderQL]
          rw [this, parseValue_arr_empty]; simp [Q.erase, eraseL, toJV, toJVL]
        | cons x r =>
          have hE := parseElems_renderQ (x :: r) (d+1) d f rest (by simp) hg (by omega)
          simp only [eraseL, GoodL] at hg
          obtain ⟨c, tl, hsk, h93⟩ := skipWs_renderQL_head (d+1) x r hg.1 (indent d ++ 93 :: rest)
          have : renderQ d (.arr (x :: r)) ++ rest
              = 91 :: 10 :: (renderQL (d+1) (x :: r) ++ (indent d ++ 93 :: rest)) := by
            simp [renderQ]
          rw [this, parseValue_arr_nonempty f c tl _ rest _ hsk h93 hE]; simp [Q.erase, toJV]
  | .obj q kvs, d, f, rest, hg, hf, hr => by
      cases f with
      | zero => simp [Q.erase, need] at hf
      | succ f =>
        simp only [Q.erase, J.Good] at hg
        simp only [Q.erase, need] at hf
        cases kvs with
        | nil =>
          have : renderQ d (.obj q []) ++ rest = 123 :: 10 :: (indent d ++ 125 :: rest) := by
            simp [renderQ, renderQKV]
          rw [this, parseValue_obj_empty]; simp [Q.erase, eraseKV, toJV, toJVKV]
        | cons kx r =>
          obtain ⟨k, x⟩ := kx
          have hM := parseMembers_renderQ q ((k, x) :: r) (d+1) d f rest (by simp) hg (by omega)
          obtain ⟨tl, hsk⟩ := skipWs_renderQKV_head q (d+1) k x r (indent d ++ 125 :: rest)
          have : renderQ d (.obj q ((k, x) :: r)) ++ rest
              = 123 :: 10 :: (renderQKV q (d+1) ((k, x) :: r) ++ (indent d ++ 125 :: rest)) := by
            simp [renderQ]
          rw [this, parseValue_obj_nonempty f 34 tl _ rest _ hsk (by decide) hM]; simp [Q.erase, toJV]
theorem parseElems_renderQ : (xs : List Q) → ∀ (d d0 f : Nat) (rest : Bytes), xs ≠ [] → GoodL (eraseL xs) →
    needL (eraseL xs) ≤ f →
    parseElems f (renderQL d xs ++ (indent d0 ++ 93 :: rest)) = some (toJVL (eraseL xs), rest)
  | [], _, _, _, _, h, _, _ => absurd rfl h
  | x :: r, d, d0, f, rest, _, hg, hf => by
      cases f with
      | zero => simp [eraseL, needL] at hf
      | succ f =>
        simp only [eraseL, GoodL] at hg
        simp only [eraseL, needL] at hf
        cases r with
        | nil =>
          have hv := parseValue_renderQ x d f (10 :: (indent d0 ++ 93 :: rest)) hg.1 (by omega)
            (by simp [headOk]; decide)
          have : renderQL d [x] ++ (indent d0 ++ 93 :: rest)
              = indent d ++ (renderQ d x ++ 10 :: (indent d0 ++ 93 :: rest)) := by
            simp [renderQL, sep]
          rw [this, parseElems_last f d0 _ rest (toJV x.erase) (by rw [parseValue_indent]; exact hv)]
          simp [eraseL, toJVL]
        | cons y r =>
          have hv := parseValue_renderQ x d f
            (44 :: 10 :: (renderQL d (y :: r) ++ (indent d0 ++ 93 :: rest))) hg.1 (by omega)
            (by simp [headOk]; decide)
          have hE := parseElems_renderQ (y :: r) d d0 f rest (by simp) hg.2 (by omega)
          have : renderQL d (x :: y :: r) ++ (indent d0 ++ 93 :: rest)
              = indent d ++ (renderQ d x ++ 44 :: 10 :: (renderQL d (y :: r) ++ (indent d0 ++ 93 :: rest))) := by
            simp [renderQL, sep]
          rw [this, parseElems_more f _ _ rest (toJV x.erase) (toJVL (eraseL (y :: r)))
            (by rw [parseValue_indent]; exact hv) hE]
          simp [eraseL, toJVL]
theorem parseMembers_renderQ : (q : Bool) → (kvs : List (Bytes × Q)) → ∀ (d d0 f : Nat) (rest : Bytes),
    kvs ≠ [] → GoodKV (eraseKV kvs) → needKV (eraseKV kvs) ≤ f →
    parseMembers f (renderQKV q d kvs ++ (indent d0 ++ 125 :: rest)) = some (toJVKV (eraseKV kvs), rest)
  | _, [], _, _, _, _, h, _, _ => absurd rfl h
  | q, (k, x) :: r, d, d0, f, rest, _, hg, hf => by
      cases f with
      | zero => simp [eraseKV, needKV] at hf
      | succ f =>
        simp only [eraseKV, GoodKV] at hg
        simp only [eraseKV, needKV] at hf
        cases r with
        | nil =>
          have hv := parseValue_renderQ x d f (10 :: (indent d0 ++ 125 :: rest)) hg.1 (by omega)
            (by simp [headOk]; decide)
          have : renderQKV q d [(k, x)] ++ (indent d0 ++ 125 :: rest)
              = indent d ++ escapeString k ++ [58, 32] ++
                (keyPad q d ++ (renderQ d x ++ 10 :: (indent d0 ++ 125 :: rest))) := by
            simp [renderQKV, sep]
          rw [this, parseMembers_last f d d0 k _ rest (toJV x.erase) (by rw [parseValue_keyPad]; exact hv)]
          simp [eraseKV, toJVKV]
        | cons y r =>
          have hv := parseValue_renderQ x d f
            (44 :: 10 :: (renderQKV q d (y :: r) ++ (indent d0 ++ 125 :: rest))) hg.1 (by omega)
            (by simp [headOk]; decide)
          have hM := parseMembers_renderQ q (y :: r) d d0 f rest (by simp) hg.2 (by omega)
          have : renderQKV q d ((k, x) :: y :: r) ++ (indent d0 ++ 125 :: rest)
              = indent d ++ escapeString k ++ [58, 32] ++
                (keyPad q d ++ (renderQ d x ++ 44 :: 10 :: (renderQKV q d (y :: r) ++ (indent d0 ++ 125 :: rest)))) := by
            simp [renderQKV, sep]
          rw [this, parseMembers_more f d k _ _ rest (toJV x.erase) (toJVKV (eraseKV (y :: r)))
            (by rw [parseValue_keyPad]; exact hv) hM]
          simp [eraseKV, toJVKV]
end

mutual
theorem needQ_le : (t : Q) → ∀ d, t.erase.Good → need t.erase ≤ (renderQ d t).length
  | .str s, d, _ => by simp [Q.erase, need, renderQ, escapeString]
  | .tok t, d, h => by
      simp only [Q.erase, J.Good] at h
      obtain ⟨c, r, ht, _⟩ := goodToken_head h
      simp [Q.erase, need, renderQ, ht]
  | .arr xs, d, h => by
      simp only [Q.erase, J.Good] at h
      have := needQL_le xs (d+1) h
      simp only [Q.erase, need, renderQ, List.length_append, List.length_cons, List.length_nil]
      omega
  | .obj q kvs, d, h => by
      simp only [Q.erase, J.Good] at h
      have := needQKV_le q kvs (d+1) h
      simp only [Q.erase, need, renderQ, List.length_append, List.length_cons, List.length_nil]
      omega
theorem needQL_le : (xs : List Q) → ∀ d, GoodL (eraseL xs) → needL (eraseL xs) ≤ (renderQL d xs).length
  | [], d, _ => by simp [eraseL, needL]
  | x :: r, d, h => by
      simp only [eraseL, GoodL] at h
      have h1 := needQ_le x d h.1
      have h2 := needQL_le r d h.2
      have h3 := sep_length r
      simp only [eraseL, needL, renderQL, List.length_append]
      omega
theorem needQKV_le : (q : Bool) → (kvs : List (Bytes × Q)) → ∀ d, GoodKV (eraseKV kvs) →
    needKV (eraseKV kvs) ≤ (renderQKV q d kvs).length
  | _, [], d, _ => by simp [eraseKV, needKV]
  | q, (k, x) :: r, d, h => by
      simp only [eraseKV, GoodKV] at h
      have h1 := needQ_le x d h.1
      have h2 := needQKV_le q r d h.2
      have h3 := sep_length r
      simp only [eraseKV, needKV, renderQKV, List.length_append]
      omega
end

/-- at any depth and in front of any rest that does not continue a number, the
parser consumes exactly `renderQ` and returns the erased tree: the extra
indentation after a `String` key is JSON whitespace. -/
theorem parse_renderQ_rest (t : Q) (d : Nat) (rest : Bytes) (hg : t.erase.Good)
    (hr : headOk numStop rest = true) : parse (renderQ d t ++ rest) = some (toJV t.erase, rest) := by
  unfold parse
  apply parseValue_renderQ t d _ rest hg _ hr
  have := needQ_le t d hg
  simp only [List.length_append]; omega

/-- C15.done_parses for call sequences with `String` keys. -/
theorem done_parsesQ (t : Q) (o : Out) (hg : t.erase.Good) :
    parseDoc ((run o.reset t.calls).done) = some (toJV t.erase) := by
  rw [done_eqQ]
  have := parse_renderQ_rest t 0 [10] hg (by decide)
  simp [parseDoc, this, skipWs, isWs]


/-! ## 4. from outputter calls with typed payloads to `JSONOutput` calls -/

/-- the number / time formatting the outputter applies (strconv.AppendInt,
AppendUint, AppendFloat, `time.AppendFormat` with RFC3339Nano), as parameters:
`time` is the text between the quotes. -/
structure Toks where
  int : Int → Bytes
  uint : Nat → Bytes
  f32 : Nat → Bytes
  f64 : Nat → Bytes
  time : Int → Nat → Bytes

/-- `Time` appends the quoted text in one piece. -/
def timeTok (k : Toks) (s : Int) (n : Nat) : Bytes := 34 :: (k.time s n ++ [34])

def boolTok (b : Bool) : Bytes := if b then tTrue else tFalse

/-- the `JSONOutput` method each `Outputter` call is (output.go). -/
def lower (k : Toks) : OCall → Call
  | .startObj => .startObj
  | .endObj => .endObj
  | .startArr => .startArr
  | .endArr => .endArr
  | .name s => .name s
  | .str s => .str s
  | .int64 v => .tok (k.int v)
  | .uint64 v => .tok (k.uint v)
  | .f32 b => .tok (k.f32 b)
  | .f64 b => .tok (k.f64 b)
  | .bool b => .tok (boolTok b)
  | .time s n => .tok (timeTok k s n)
  | .raw t => .tok t

/-! ## 5. the tree a value denotes -/

/-- the string a string-kind map key is. -/
def keyOf : Ty → Val → Bytes
  | .str _, .str s => s
  | .bytes, .bytes s => s
  | .ptr t, .ptr (some v) => keyOf t v
  | _, _ => []

/-- `emptyCalls` as a tree. -/
def emptyQ (k : Toks) : Ty → Q
  | .struct _ _ => .obj false []
  | .str _ | .bytes => .str []
  | .time _ => .tok (timeTok k zeroTimeSec 0)
  | .vslice _ | .fslice _ | .lslice _ | .pslice _ => .arr []
  | _ => .tok nullTok

/-- `zeroCalls` as a tree. -/
def zeroQ (k : Toks) : Ty → Q
  | .ptr _ => .tok nullTok
  | .bool => .tok (boolTok false)
  | .int _ | .flat _ => .tok (k.int 0)
  | .uint _ => .tok (k.uint 0)
  | .f32 => .tok (k.f32 0)
  | .f64 => .tok (k.f64 0)
  | .str _ | .bytes => .str []
  | .time _ => .tok (timeTok k zeroTimeSec 0)
  | .vslice _ | .fslice _ | .lslice _ | .pslice _ => .arr []
  | .struct _ _ => .obj false []
  | .map kt _ _ => if strKeyed kt then .obj true [] else .arr []

mutual
/-- `toCalls` as a tree (with the key-writing bit): case for case. Ill-typed
pairs, for which `toCalls` is empty, give `null`. -/
def toQ (k : Toks) : Ty → Val → Q
  | .bool, .bool b => .tok (boolTok b)
  | .int _, .int i => .tok (k.int i)
  | .uint _, .uint n => .tok (k.uint n)
  | .flat _, .int i => .tok (k.int i)
  | .f32, .f32 b => .tok (k.f32 b)
  | .f64, .f64 b => .tok (k.f64 b)
  | .str _, .str s => .str s
  | .bytes, .bytes s => .str s
  | .time _, .time sec nsec => .tok (timeTok k sec nsec)
  | .ptr t, .ptr (some v) => toQ k t v
  | .vslice t, .slice vs => .arr ((vs.filter nonNil).map (fun a => toQ k t a))
  | .fslice t, .slice vs => .arr (vs.map (fun a => toQ k t a))
  | .lslice t, .slice vs =>
      .arr (vs.map (fun a => match t, a with
        | .ptr u, .ptr none => emptyQ k u
        | _, a => toQ k t a))
  | .struct _ fs, .struct vs => .obj false (fieldsQ k fs vs)
  | .map kt vt _, .map (some es) =>
      if strKeyed kt then
        .obj true (es.map (fun e =>
          (if e.1.omit then [] else keyOf kt e.1, if e.2.omit then zeroQ k vt else toQ k vt e.2)))
      else
        .arr (es.map (fun e => .obj false
          ((if e.1.omit then [] else [(strBytes "key", toQ k kt e.1)])
            ++ (if e.2.omit then [] else [(strBytes "value", toQ k vt e.2)]))))
  | _, _ => .tok nullTok
def fieldsQ (k : Toks) : Fields → List Val → List (Bytes × Q)
  | (_, nm, t) :: r, v :: vs => (if v.omit then [] else [(strBytes nm, toQ k t v)]) ++ fieldsQ k r vs
  | _, _ => []
end

/-- `emptyCalls` as a JSON tree: `{}`, `""`, the zero time, `[]`. -/
def emptyJ (k : Toks) : Ty → J
  | .struct _ _ => .obj []
  | .str _ | .bytes => .str []
  | .time _ => .tok (timeTok k zeroTimeSec 0)
  | .vslice _ | .fslice _ | .lslice _ | .pslice _ => .arr []
  | _ => .tok nullTok

/-- `zeroCalls` as a JSON tree. -/
def zeroJ (k : Toks) : Ty → J
  | .ptr _ => .tok nullTok
  | .bool => .tok (boolTok false)
  | .int _ | .flat _ => .tok (k.int 0)
  | .uint _ => .tok (k.uint 0)
  | .f32 => .tok (k.f32 0)
  | .f64 => .tok (k.f64 0)
  | .str _ | .bytes => .str []
  | .time _ => .tok (timeTok k zeroTimeSec 0)
  | .vslice _ | .fslice _ | .lslice _ | .pslice _ => .arr []
  | .struct _ _ => .obj []
  | .map kt _ _ => if strKeyed kt then .obj [] else .arr []

mutual
/-- THE JSON TREE A VALUE DENOTES: structs as objects keyed by field name with
omitted fields absent, slices as arrays (nil integer pointers dropped, a nil
pointer to a length-delimited kind an empty element), string-keyed maps as
objects (`""` for an omitted key, the zero / `null` for an omitted value), other
maps as arrays of `{"key":…,"value":…}` objects with omitted parts absent,
pointers as their target, times as strings, numbers as their tokens. -/
def toJ (k : Toks) : Ty → Val → J
  | .bool, .bool b => .tok (boolTok b)
  | .int _, .int i => .tok (k.int i)
  | .uint _, .uint n => .tok (k.uint n)
  | .flat _, .int i => .tok (k.int i)
  | .f32, .f32 b => .tok (k.f32 b)
  | .f64, .f64 b => .tok (k.f64 b)
  | .str _, .str s => .str s
  | .bytes, .bytes s => .str s
  | .time _, .time sec nsec => .tok (timeTok k sec nsec)
  | .ptr t, .ptr (some v) => toJ k t v
  | .vslice t, .slice vs => .arr ((vs.filter nonNil).map (fun a => toJ k t a))
  | .fslice t, .slice vs => .arr (vs.map (fun a => toJ k t a))
  | .lslice t, .slice vs =>
      .arr (vs.map (fun a => match t, a with
        | .ptr u, .ptr none => emptyJ k u
        | _, a => toJ k t a))
  | .struct _ fs, .struct vs => .obj (fieldsJ k fs vs)
  | .map kt vt _, .map (some es) =>
      if strKeyed kt then
        .obj (es.map (fun e =>
          (if e.1.omit then [] else keyOf kt e.1, if e.2.omit then zeroJ k vt else toJ k vt e.2)))
      else
        .arr (es.map (fun e => .obj
          ((if e.1.omit then [] else [(strBytes "key", toJ k kt e.1)])
            ++ (if e.2.omit then [] else [(strBytes "value", toJ k vt e.2)]))))
  | _, _ => .tok nullTok
def fieldsJ (k : Toks) : Fields → List Val → List (Bytes × J)
  | (_, nm, t) :: r, v :: vs => (if v.omit then [] else [(strBytes nm, toJ k t v)]) ++ fieldsJ k r vs
  | _, _ => []
end


/-! ### `toJ` is `toQ` without the bit -/

theorem eraseL_map {α} (f : α → Q) (l : List α) : eraseL (l.map f) = l.map (fun a => (f a).erase) := by
  induction l with
  | nil => rfl
  | cons a l ih => simp [eraseL, ih]

theorem eraseKV_append (a b : List (Bytes × Q)) : eraseKV (a ++ b) = eraseKV a ++ eraseKV b := by
  induction a with
  | nil => rfl
  | cons x a ih => obtain ⟨k, x⟩ := x; simp [eraseKV, ih]

theorem eraseKV_map {α} (f : α → Bytes × Q) (l : List α) :
    eraseKV (l.map f) = l.map (fun a => ((f a).1, (f a).2.erase)) := by
  induction l with
  | nil => rfl
  | cons a l ih => simp [eraseKV, ih]

theorem erase_emptyQ (k : Toks) (t : Ty) : (emptyQ k t).erase = emptyJ k t := by
  cases t <;> simp [emptyQ, emptyJ, Q.erase, eraseL, eraseKV]

theorem erase_zeroQ (k : Toks) (t : Ty) : (zeroQ k t).erase = zeroJ k t := by
  cases t <;> simp [zeroQ, zeroJ, Q.erase, eraseL, eraseKV]
  split <;> simp [Q.erase, eraseL, eraseKV]

mutual
theorem erase_toQ (k : Toks) : (t : Ty) → ∀ v, (toQ k t v).erase = toJ k t v
  | .bool, v => by cases v <;> simp [toQ, toJ, Q.erase]
  | .int _, v => by cases v <;> simp [toQ, toJ, Q.erase]
  | .uint _, v => by cases v <;> simp [toQ, toJ, Q.erase]
  | .flat _, v => by cases v <;> simp [toQ, toJ, Q.erase]
  | .f32, v => by cases v <;> simp [toQ, toJ, Q.erase]
  | .f64, v => by cases v <;> simp [toQ, toJ, Q.erase]
  | .str _, v => by cases v <;> simp [toQ, toJ, Q.erase]
  | .bytes, v => by cases v <;> simp [toQ, toJ, Q.erase]
  | .time _, v => by cases v <;> simp [toQ, toJ, Q.erase]
  | .ptr t, v => by
      have ih := erase_toQ k t
      cases v with
      | ptr o => cases o <;> simp [toQ, toJ, Q.erase, ih]
      | _ => simp [toQ, toJ, Q.erase]
  | .vslice t, v => by
      have ih := erase_toQ k t
      cases v <;> simp [toQ, toJ, Q.erase, eraseL_map, ih]
  | .fslice t, v => by
      have ih := erase_toQ k t
      cases v <;> simp [toQ, toJ, Q.erase, eraseL_map, ih]
  | .lslice t, v => by
      have ih := erase_toQ k t
      cases v with
      | slice vs =>
        simp only [toQ, toJ, Q.erase, eraseL_map]
        congr 1
        apply List.map_congr_left
        intro a _
        split <;> simp [erase_emptyQ, ih]
      | _ => simp [toQ, toJ, Q.erase]
  | .pslice _, v => by cases v <;> simp [toQ, toJ, Q.erase]
  | .struct _ fs, v => by
      have ih := erase_fieldsQ k fs
      cases v <;> simp [toQ, toJ, Q.erase, ih]
  | .map kt vt _, v => by
      have ihk := erase_toQ k kt
      have ihv := erase_toQ k vt
      cases v with
      | map o =>
        cases o with
        | none => simp [toQ, toJ, Q.erase]
        | some es =>
          simp only [toQ, toJ]
          split
          · simp only [Q.erase, eraseKV_map]
            congr 1
            apply List.map_congr_left
            intro e _
            cases e.2.omit <;> simp [ihv, erase_zeroQ]
          · simp only [Q.erase, eraseL_map]
            congr 1
            apply List.map_congr_left
            intro e _
            cases e.1.omit <;> cases e.2.omit <;> simp [eraseKV, ihk, ihv]
      | _ => simp [toQ, toJ, Q.erase]
theorem erase_fieldsQ (k : Toks) : (fs : Fields) → ∀ vs, eraseKV (fieldsQ k fs vs) = fieldsJ k fs vs
  | [], vs => by simp [fieldsQ, fieldsJ, eraseKV]
  | (_, nm, t) :: r, vs => by
      have ih := erase_toQ k t
      have ihr := erase_fieldsQ k r
      cases vs with
      | nil => simp [fieldsQ, fieldsJ, eraseKV]
      | cons v vs =>
        simp only [fieldsQ, fieldsJ, eraseKV_append, ihr]
        cases v.omit <;> simp [eraseKV, ih]
end


/-! ### its tokens are well formed when the formatting is -/

/-- the assumption about strconv / time formatting: integers and floats are
formatted as JSON numbers, the time text needs no escaping. (For floats this is
an assumption about the VALUES too: `AppendFloat` gives `NaN` / `+Inf` / `-Inf`
for the non-finite ones, see the examples at the end of Props/C15.lean; the
end-to-end theorem `desc_json` asks only for `(toJ k t v).Good`.) -/
structure Toks.Good (k : Toks) : Prop where
  int : ∀ v, NumberToken (k.int v)
  uint : ∀ v, NumberToken (k.uint v)
  f32 : ∀ b, NumberToken (k.f32 b)
  f64 : ∀ b, NumberToken (k.f64 b)
  time : ∀ s n, ∀ b ∈ k.time s n, 32 ≤ b.toNat ∧ b ≠ 34 ∧ b ≠ 92

theorem good_num {t : Bytes} (h : NumberToken t) : (J.tok t).Good := Or.inl (Or.inl h)
theorem good_bool (b : Bool) : (J.tok (boolTok b)).Good := by
  cases b
  · exact Or.inl (Or.inr (Or.inr (Or.inl rfl)))
  · exact Or.inl (Or.inr (Or.inl rfl))
theorem good_null : (J.tok nullTok).Good := Or.inl (Or.inr (Or.inr (Or.inr rfl)))
theorem good_time (k : Toks) (hk : k.Good) (s : Int) (n : Nat) : (J.tok (timeTok k s n)).Good :=
  Or.inr ⟨k.time s n, rfl, hk.time s n⟩

theorem goodL_map {α} (f : α → J) (l : List α) (h : ∀ a ∈ l, (f a).Good) : GoodL (l.map f) := by
  induction l with
  | nil => simp [GoodL]
  | cons a l ih =>
    simp only [List.map_cons, GoodL]
    exact ⟨h a (by simp), ih (fun b hb => h b (by simp [hb]))⟩

theorem goodKV_append (a b : List (Bytes × J)) (ha : GoodKV a) (hb : GoodKV b) : GoodKV (a ++ b) := by
  induction a with
  | nil => simpa using hb
  | cons x a ih =>
    obtain ⟨k, x⟩ := x
    simp only [GoodKV] at ha
    simp only [List.cons_append, GoodKV]
    exact ⟨ha.1, ih ha.2⟩

theorem goodKV_map {α} (f : α → Bytes × J) (l : List α) (h : ∀ a ∈ l, (f a).2.Good) :
    GoodKV (l.map f) := by
  induction l with
  | nil => simp [GoodKV]
  | cons a l ih =>
    have h1 := h a (by simp)
    have h2 := ih (fun b hb => h b (by simp [hb]))
    simp only [List.map_cons]
    cases hfa : f a with
    | mk k x =>
      rw [hfa] at h1
      simp only [GoodKV]
      exact ⟨h1, h2⟩

theorem good_emptyJ (k : Toks) (hk : k.Good) (t : Ty) : (emptyJ k t).Good := by
  cases t <;> simp [emptyJ, J.Good, GoodL, GoodKV] <;>
    first | exact good_null | exact good_time k hk _ _

theorem good_zeroJ (k : Toks) (hk : k.Good) (t : Ty) : (zeroJ k t).Good := by
  cases t with
  | map kt vt p => simp only [zeroJ]; split <;> simp [J.Good, GoodL, GoodKV]
  | bool => exact good_bool false
  | int w => exact good_num (hk.int 0)
  | flat w => exact good_num (hk.int 0)
  | uint w => exact good_num (hk.uint 0)
  | f32 => exact good_num (hk.f32 0)
  | f64 => exact good_num (hk.f64 0)
  | time c => exact good_time k hk _ _
  | ptr u => exact good_null
  | _ => simp [zeroJ, J.Good, GoodL, GoodKV]

mutual
theorem good_toJ (k : Toks) (hk : k.Good) : (t : Ty) → ∀ v, (toJ k t v).Good
  | .bool, v => by cases v <;> simp only [toJ] <;> first | exact good_bool _ | exact good_null
  | .int _, v => by cases v <;> simp only [toJ] <;> first | exact good_num (hk.int _) | exact good_null
  | .uint _, v => by cases v <;> simp only [toJ] <;> first | exact good_num (hk.uint _) | exact good_null
  | .flat _, v => by cases v <;> simp only [toJ] <;> first | exact good_num (hk.int _) | exact good_null
  | .f32, v => by cases v <;> simp only [toJ] <;> first | exact good_num (hk.f32 _) | exact good_null
  | .f64, v => by cases v <;> simp only [toJ] <;> first | exact good_num (hk.f64 _) | exact good_null
  | .str _, v => by cases v <;> simp only [toJ] <;> first | exact good_null | trivial
  | .bytes, v => by cases v <;> simp only [toJ] <;> first | exact good_null | trivial
  | .time _, v => by cases v <;> simp only [toJ] <;> first | exact good_time k hk _ _ | exact good_null
  | .ptr t, v => by
      have ih := good_toJ k hk t
      cases v with
      | ptr o => cases o <;> simp only [toJ] <;> first | exact ih _ | exact good_null
      | _ => simp only [toJ]; exact good_null
  | .vslice t, v => by
      have ih := good_toJ k hk t
      cases v with
      | slice vs => simp only [toJ, J.Good]; exact goodL_map _ _ (fun a _ => ih a)
      | _ => simp only [toJ]; exact good_null
  | .fslice t, v => by
      have ih := good_toJ k hk t
      cases v with
      | slice vs => simp only [toJ, J.Good]; exact goodL_map _ _ (fun a _ => ih a)
      | _ => simp only [toJ]; exact good_null
  | .lslice t, v => by
      have ih := good_toJ k hk t
      cases v with
      | slice vs =>
        simp only [toJ, J.Good]
        apply goodL_map
        intro a _
        split
        · exact good_emptyJ k hk _
        · exact ih _
      | _ => simp only [toJ]; exact good_null
  | .pslice _, v => by cases v <;> simp only [toJ] <;> exact good_null
  | .struct _ fs, v => by
      have ih := good_fieldsJ k hk fs
      cases v with
      | struct vs => simp only [toJ, J.Good]; exact ih vs
      | _ => simp only [toJ]; exact good_null
  | .map kt vt _, v => by
      have ihk := good_toJ k hk kt
      have ihv := good_toJ k hk vt
      cases v with
      | map o =>
        cases o with
        | none => simp only [toJ]; exact good_null
        | some es =>
          simp only [toJ]
          split
          · simp only [J.Good]
            apply goodKV_map
            intro e _
            show (if e.2.omit then zeroJ k vt else toJ k vt e.2).Good
            split
            · exact good_zeroJ k hk vt
            · exact ihv _
          · simp only [J.Good]
            apply goodL_map
            intro e _
            simp only [J.Good]
            apply goodKV_append
            · split
              · simp [GoodKV]
              · simp only [GoodKV, and_true]; exact ihk _
            · split
              · simp [GoodKV]
              · simp only [GoodKV, and_true]; exact ihv _
      | _ => simp only [toJ]; exact good_null
theorem good_fieldsJ (k : Toks) (hk : k.Good) : (fs : Fields) → ∀ vs, GoodKV (fieldsJ k fs vs)
  | [], vs => by simp [fieldsJ, GoodKV]
  | (_, nm, t) :: r, vs => by
      have ih := good_toJ k hk t
      have ihr := good_fieldsJ k hk r
      cases vs with
      | nil => simp [fieldsJ, GoodKV]
      | cons v vs =>
        simp only [fieldsJ]
        apply goodKV_append
        · split
          · simp [GoodKV]
          · simp only [GoodKV, and_true]; exact ih _
        · exact ihr vs
end


/-! ## 6. the lowered calls of a value are the calls of its tree -/

theorem qcallsL_map {α} (f : α → Q) (l : List α) : qcallsL (l.map f) = l.flatMap (fun a => (f a).calls) := by
  induction l with
  | nil => rfl
  | cons a l ih => simp [qcallsL, ih]

theorem qcallsKV_append (q : Bool) (a b : List (Bytes × Q)) :
    qcallsKV q (a ++ b) = qcallsKV q a ++ qcallsKV q b := by
  induction a with
  | nil => rfl
  | cons x a ih => obtain ⟨k, x⟩ := x; simp [qcallsKV, ih]

theorem qcallsKV_map {α} (q : Bool) (f : α → Bytes × Q) (l : List α) :
    qcallsKV q (l.map f) = l.flatMap (fun a => keyCall q (f a).1 :: (f a).2.calls) := by
  induction l with
  | nil => rfl
  | cons a l ih => simp [qcallsKV, ih]

theorem flatMap_congr_mem {α β} (l : List α) (f g : α → List β) (h : ∀ a ∈ l, f a = g a) :
    l.flatMap f = l.flatMap g := by
  induction l with
  | nil => rfl
  | cons a l ih =>
    simp only [List.flatMap_cons]
    rw [h a (by simp), ih (fun b hb => h b (by simp [hb]))]

theorem lower_flatMap {α} (k : Toks) (l : List α) (g : α → List OCall) :
    (l.flatMap g).map (lower k) = l.flatMap (fun a => (g a).map (lower k)) := by
  induction l with
  | nil => rfl
  | cons a l ih => simp [ih]

/-- the invariant of the induction: for a present value of the type, the
lowered calls are the calls of the tree. -/
def CVal (k : Toks) (t : Ty) : Prop :=
  ∀ v, t.hasTy v → v ≠ .ptr none → v ≠ .map none → (toCalls t v).map (lower k) = (toQ k t v).calls

theorem cv_bool (k : Toks) : CVal k .bool := by
  intro v hty _ _
  cases v <;> simp [Ty.hasTy] at hty <;> simp [toCalls, toQ, lower, Q.calls]
theorem cv_int (k : Toks) (w : Nat) : CVal k (.int w) := by
  intro v hty _ _
  cases v <;> simp [Ty.hasTy] at hty <;> simp [toCalls, toQ, lower, Q.calls]
theorem cv_uint (k : Toks) (w : Nat) : CVal k (.uint w) := by
  intro v hty _ _
  cases v <;> simp [Ty.hasTy] at hty <;> simp [toCalls, toQ, lower, Q.calls]
theorem cv_flat (k : Toks) (w : Nat) : CVal k (.flat w) := by
  intro v hty _ _
  cases v <;> simp [Ty.hasTy] at hty <;> simp [toCalls, toQ, lower, Q.calls]
theorem cv_f32 (k : Toks) : CVal k .f32 := by
  intro v hty _ _
  cases v <;> simp [Ty.hasTy] at hty <;> simp [toCalls, toQ, lower, Q.calls]
theorem cv_f64 (k : Toks) : CVal k .f64 := by
  intro v hty _ _
  cases v <;> simp [Ty.hasTy] at hty <;> simp [toCalls, toQ, lower, Q.calls]
theorem cv_str (k : Toks) (b : Bool) : CVal k (.str b) := by
  intro v hty _ _
  cases v <;> simp [Ty.hasTy] at hty <;> simp [toCalls, toQ, lower, Q.calls]
theorem cv_bytes (k : Toks) : CVal k .bytes := by
  intro v hty _ _
  cases v <;> simp [Ty.hasTy] at hty <;> simp [toCalls, toQ, lower, Q.calls]
theorem cv_time (k : Toks) (c : Bool) : CVal k (.time c) := by
  intro v hty _ _
  cases v <;> simp [Ty.hasTy] at hty <;> simp [toCalls, toQ, lower, Q.calls]

theorem cv_ptr (k : Toks) (u : Ty) (hu : u.isPtr = false) (hm : u.isMap = false) (h : CVal k u) :
    CVal k (.ptr u) := by
  intro v hty hv _
  cases v with
  | ptr o =>
    cases o with
    | none => exact absurd rfl hv
    | some x =>
      simp only [Ty.hasTy] at hty
      simp only [toCalls, toQ]
      exact h x hty (ne_ptr_none_of_not_ptr u hu x hty) (ne_map_none_of_not_map u hm x hty)
  | _ => simp [Ty.hasTy] at hty

theorem cv_vslice (k : Toks) (u : Ty) (hm : u.isMap = false) (h : CVal k u) : CVal k (.vslice u) := by
  intro v hty _ _
  cases v with
  | slice vs =>
    simp only [Ty.hasTy] at hty
    simp only [toCalls, toQ, Q.calls, qcallsL_map, List.map_cons, List.map_append, lower_flatMap, lower,
      List.map_nil, List.cons_append]
    congr 2
    apply flatMap_congr_mem
    intro a ha
    obtain ⟨hmem, hne⟩ := mem_filter_nonNil vs a ha
    exact h a (hty a hmem) hne (ne_map_none_of_not_map u hm a (hty a hmem))
  | _ => simp [Ty.hasTy] at hty

theorem cv_fslice (k : Toks) (u : Ty) (hwf : (Ty.fslice u).wf) (h : CVal k u) : CVal k (.fslice u) := by
  intro v hty _ _
  cases v with
  | slice vs =>
    simp only [Ty.hasTy] at hty
    simp only [toCalls, toQ, Q.calls, qcallsL_map, List.map_cons, List.map_append, lower_flatMap, lower,
      List.map_nil, List.cons_append]
    congr 2
    apply flatMap_congr_mem
    intro a ha
    have hta := hty a ha
    have hnp : a ≠ .ptr none := by
      rcases hwf with rfl | rfl <;> cases a <;> simp [Ty.hasTy] at hta <;> simp
    have hnm : a ≠ .map none := by
      rcases hwf with rfl | rfl <;> cases a <;> simp [Ty.hasTy] at hta <;> simp
    exact h a hta hnp hnm
  | _ => simp [Ty.hasTy] at hty

/-- `elemCalls` as a tree. -/
def elemQ (k : Toks) (t : Ty) (a : Val) : Q :=
  match t, a with
  | .ptr u, .ptr none => emptyQ k u
  | _, a => toQ k t a

theorem toQ_lslice (k : Toks) (t : Ty) (vs : List Val) :
    toQ k (.lslice t) (.slice vs) = .arr (vs.map (elemQ k t)) := by
  simp only [toQ]; rfl

theorem elemQ_present (k : Toks) (t : Ty) (a : Val) (ha : a ≠ .ptr none) : elemQ k t a = toQ k t a := by
  unfold elemQ
  split
  · exact absurd rfl ha
  · rfl

theorem empty_calls (k : Toks) (u : Ty) (hw : u.wt = .len) (hp : u.isPtr = false) (hm : u.isMap = false) :
    (emptyCalls u).map (lower k) = (emptyQ k u).calls := by
  cases u <;> simp_all [Ty.wt, Ty.isPtr, Ty.isMap, emptyCalls, emptyQ, lower, Q.calls, qcallsL, qcallsKV]

theorem cv_lslice (k : Toks) (u : Ty) (hwf : (Ty.lslice u).wf) (hs : descShape u = true) (h : CVal k u) :
    CVal k (.lslice u) := by
  intro v hty _ _
  cases v with
  | slice vs =>
    simp only [Ty.wf] at hwf
    simp only [Ty.hasTy] at hty
    rw [toCalls_lslice, toQ_lslice]
    simp only [Q.calls, qcallsL_map, List.map_cons, List.map_append, lower_flatMap, lower, List.map_nil,
      List.cons_append]
    congr 2
    apply flatMap_congr_mem
    intro a ha
    by_cases hnil : a = .ptr none
    · subst hnil
      cases u with
      | ptr w =>
        simp only [Ty.wf] at hwf
        simp only [descShape, Bool.and_eq_true, Bool.not_eq_true'] at hs
        show (emptyCalls w).map (lower k) = (emptyQ k w).calls
        exact empty_calls k w (by simpa [Ty.wt] using hwf.2.1) hs.1 hwf.1.2
      | _ => exact absurd (hty _ ha) (by simp [Ty.hasTy])
    · rw [elemCalls_present u a hnil, elemQ_present k u a hnil]
      exact h a (hty a ha) hnil (ne_map_none_of_not_map u hwf.2.2.1 a (hty a ha))
  | _ => simp [Ty.hasTy] at hty

theorem fields_calls (k : Toks) : ∀ (fs : Fields) (vs : List Val), (∀ f ∈ fs, CVal k f.2.2) →
    fieldsHaveTy fs vs → (fieldsCalls fs vs).map (lower k) = qcallsKV false (fieldsQ k fs vs)
  | [], vs, _, _ => by simp [fieldsCalls, fieldsQ, qcallsKV]
  | (i, nm, t) :: r, [], _, hty => by simp [fieldsHaveTy] at hty
  | (i, nm, t) :: r, v :: vs, hall, hty => by
      simp only [fieldsHaveTy] at hty
      have ihr := fields_calls k r vs (fun f hf => hall f (by simp [hf])) hty.2
      simp only [fieldsCalls, fieldsQ, List.map_append, qcallsKV_append, ihr]
      congr 1
      cases ho : v.omit with
      | true => simp [qcallsKV]
      | false =>
        have := hall (i, nm, t) (by simp) v hty.1 (ne_ptr_none_of_not_omit v ho) (ne_map_none_of_not_omit v ho)
        simp only [Bool.false_eq_true, ↓reduceIte, List.map_cons, lower, qcallsKV, keyCall, List.append_nil]
        rw [this]

theorem cv_struct (k : Toks) (nm : String) (fs : Fields) (hall : ∀ f ∈ fs, CVal k f.2.2) :
    CVal k (.struct nm fs) := by
  intro v hty _ _
  cases v with
  | struct vs =>
    simp only [Ty.hasTy] at hty
    simp only [toCalls, toQ, Q.calls, List.map_cons, List.map_append, lower, List.map_nil,
      fields_calls k fs vs hall hty, List.cons_append]
  | _ => simp [Ty.hasTy] at hty


/-! ### maps -/

theorem zero_calls (k : Toks) (t : Ty) : (zeroCalls t).map (lower k) = (zeroQ k t).calls := by
  cases t with
  | map kt vt p =>
    simp only [zeroCalls, zeroQ]
    split <;> simp [lower, Q.calls, qcallsL, qcallsKV]
  | _ => simp [zeroCalls, zeroQ, lower, Q.calls, qcallsL, qcallsKV]

theorem strKeyed_ptr (u : Ty) : strKeyed (.ptr u) = strKeyed u := by simp [strKeyed, descriptor]

theorem key_calls0 (kt : Ty) (hp : kt.isPtr = false) (hk : strKeyed kt = true) (x : Val)
    (hty : kt.hasTy x) : toCalls kt x = [.str (keyOf kt x)] := by
  cases kt <;> simp [strKeyed, descriptor, mapDesc] at hk <;> simp [Ty.isPtr] at hp <;>
    cases x <;> simp [Ty.hasTy] at hty <;> simp [toCalls, keyOf]

/-- a present key of a string-keyed map is one `String` call. -/
theorem key_calls (kt : Ty) (hs : descShape kt = true) (hk : strKeyed kt = true) (x : Val)
    (hty : kt.hasTy x) (hx : x ≠ .ptr none) : toCalls kt x = [.str (keyOf kt x)] := by
  cases kt with
  | ptr u =>
    simp only [descShape, Bool.and_eq_true, Bool.not_eq_true'] at hs
    rw [strKeyed_ptr] at hk
    cases x with
    | ptr o =>
      cases o with
      | none => exact absurd rfl hx
      | some y =>
        simp only [Ty.hasTy] at hty
        simp only [toCalls, keyOf]
        exact key_calls0 u hs.1 hk y hty
    | _ => simp [Ty.hasTy] at hty
  | _ => exact key_calls0 _ rfl hk x hty

/-- one entry of a string-keyed map: key and value. -/
def entryKVQ (k : Toks) (kt vt : Ty) (e : Val × Val) : Bytes × Q :=
  (if e.1.omit then [] else keyOf kt e.1, if e.2.omit then zeroQ k vt else toQ k vt e.2)

/-- one entry of another map: the `{"key":…,"value":…}` object. -/
def entryObjQ (k : Toks) (kt vt : Ty) (e : Val × Val) : Q :=
  .obj false ((if e.1.omit then [] else [(strBytes "key", toQ k kt e.1)])
    ++ (if e.2.omit then [] else [(strBytes "value", toQ k vt e.2)]))

theorem toQ_map_str (k : Toks) (kt vt : Ty) (p : Bool) (es : List (Val × Val)) (h : strKeyed kt = true) :
    toQ k (.map kt vt p) (.map (some es)) = .obj true (es.map (entryKVQ k kt vt)) := by
  simp only [toQ, h, ↓reduceIte]; rfl

theorem toQ_map_list (k : Toks) (kt vt : Ty) (p : Bool) (es : List (Val × Val)) (h : strKeyed kt = false) :
    toQ k (.map kt vt p) (.map (some es)) = .arr (es.map (entryObjQ k kt vt)) := by
  simp only [toQ, h, Bool.false_eq_true, ↓reduceIte]; rfl

theorem entryObjQ_fields (k : Toks) (kt vt : Ty) (e : Val × Val) :
    entryObjQ k kt vt e = .obj false (fieldsQ k (entryFields kt vt) [e.1, e.2]) := by
  simp [entryObjQ, entryFields, fieldsQ]

theorem cv_map (k : Toks) (kt vt : Ty) (p : Bool) (hks : descShape kt = true)
    (ihk : CVal k kt) (ihv : CVal k vt) : CVal k (.map kt vt p) := by
  intro x hty _ hx
  cases x with
  | map o =>
    cases o with
    | none => exact absurd rfl hx
    | some es =>
      simp only [Ty.hasTy] at hty
      rw [toCalls_map]
      cases hstr : strKeyed kt with
      | true =>
        rw [toQ_map_str k kt vt p es hstr]
        simp only [↓reduceIte, Q.calls, qcallsKV_map, List.map_cons, List.map_append, lower_flatMap, lower,
          List.map_nil, List.cons_append]
        congr 2
        apply flatMap_congr_mem
        intro e he
        have hte := hty.1 e he
        have hkey : (if e.1.omit then [OCall.str []] else toCalls kt e.1)
            = [.str (if e.1.omit then [] else keyOf kt e.1)] := by
          cases ho : e.1.omit with
          | true => rfl
          | false =>
            simp only [Bool.false_eq_true, ↓reduceIte]
            exact key_calls kt hks hstr e.1 hte.1 (ne_ptr_none_of_not_omit _ ho)
        have hval : (if e.2.omit then zeroCalls vt else toCalls vt e.2).map (lower k)
            = (if e.2.omit then zeroQ k vt else toQ k vt e.2).calls := by
          cases ho : e.2.omit with
          | true => exact zero_calls k vt
          | false =>
            simp only [Bool.false_eq_true, ↓reduceIte]
            exact ihv e.2 hte.2 (ne_ptr_none_of_not_omit _ ho) (ne_map_none_of_not_omit _ ho)
        simp only [entryCalls, hstr, ↓reduceIte, hkey, hval, entryKVQ, keyCall,
          List.map_cons, lower, List.cons_append, List.nil_append]
      | false =>
        rw [toQ_map_list k kt vt p es hstr]
        simp only [Bool.false_eq_true, ↓reduceIte, Q.calls, qcallsL_map, List.map_cons, List.map_append,
          lower_flatMap, lower, List.map_nil, List.cons_append]
        congr 2
        apply flatMap_congr_mem
        intro e he
        have hte := hty.1 e he
        have hall : ∀ f ∈ entryFields kt vt, CVal k f.2.2 := by
          intro f hf
          simp only [entryFields, List.mem_cons, List.not_mem_nil, or_false] at hf
          rcases hf with rfl | rfl
          · exact ihk
          · exact ihv
        have hf := fields_calls k (entryFields kt vt) [e.1, e.2] hall
          (by simp [entryFields, fieldsHaveTy, hte.1, hte.2])
        simp only [entryCalls, hstr, Bool.false_eq_true, ↓reduceIte, entryObjQ_fields, Q.calls,
          List.map_cons, List.map_append, List.map_nil, lower, hf, List.cons_append]
  | _ => simp [Ty.hasTy] at hty

/-! ### assembly: the same mutual induction over the codec tree as `C13.pp_ty` -/

def PC (k : Toks) (t : Ty) : Prop := t.wf → descShape t = true → CVal k t

mutual
theorem pc_ty (k : Toks) : (t : Ty) → PC k t
  | .bool => fun _ _ => cv_bool k
  | .int w => fun _ _ => cv_int k w
  | .uint w => fun _ _ => cv_uint k w
  | .flat w => fun _ _ => cv_flat k w
  | .f32 => fun _ _ => cv_f32 k
  | .f64 => fun _ _ => cv_f64 k
  | .str b => fun _ _ => cv_str k b
  | .bytes => fun _ _ => cv_bytes k
  | .time c => fun _ _ => cv_time k c
  | .ptr u => fun hwf hs => by
      simp only [Ty.wf] at hwf
      simp only [descShape, Bool.and_eq_true, Bool.not_eq_true'] at hs
      exact cv_ptr k u hs.1 hwf.2 (pc_ty k u hwf.1 hs.2)
  | .vslice u => fun hwf hs => by
      simp only [descShape] at hs
      exact cv_vslice k u hwf.2.2 (pc_ty k u hwf.1 hs)
  | .fslice u => fun hwf _ => by
      have hu : CVal k u := by
        rcases hwf with rfl | rfl
        · exact cv_f32 k
        · exact cv_f64 k
      exact cv_fslice k u hwf hu
  | .lslice u => fun hwf hs => by
      simp only [descShape] at hs
      exact cv_lslice k u hwf hs (pc_ty k u hwf.1 hs)
  | .pslice _ => fun _ hs => by simp [descShape] at hs
  | .struct nm fs => fun hwf hs => by
      simp only [descShape] at hs
      exact cv_struct k nm fs (fun f hf =>
        pc_fields k fs f hf (fieldsWf_mem fs hwf.2.2 f hf) (fieldsDescShape_mem fs hs f hf))
  | .map kt vt p => fun hwf hs => by
      simp only [descShape, Bool.and_eq_true] at hs
      exact cv_map k kt vt p hs.2.1 (pc_ty k kt hwf.1 hs.2.1) (pc_ty k vt hwf.2.1 hs.2.2)
theorem pc_fields (k : Toks) : (fs : Fields) → ∀ f ∈ fs, PC k f.2.2
  | [] => by intro f hf; simp at hf
  | (_, _, t) :: r => by
      intro f hf
      rcases List.mem_cons.mp hf with rfl | hf
      · exact pc_ty k t
      · exact pc_fields k r f hf
end


/-! ## 7. the theorems -/

/-- (b) for every accepted codec tree in the walker's shapes and every present
value of its type, the lowered calls the value denotes are the calls of its tree
— with `String` for the keys of string-keyed maps. -/
theorem lowered_calls (k : Toks) (t : Ty) (v : Val) (hwf : t.wf) (hshape : descShape t = true)
    (hty : t.hasTy v) (hp : v ≠ .ptr none) (hm : v ≠ .map none) :
    (toCalls t v).map (lower k) = (toQ k t v).calls :=
  pc_ty k t hwf hshape v hty hp hm

/-! ### the normalisation, on call sequences

`normKeys st cs` replaces every `String` call made where the outputter expects
an object key by `NameField`; `st` is the outputter's stack (what kind of thing
is expected at each open container), maintained as `punctuate` does. -/

/-- `punctuate` on the stack. -/
def advance : List St → List St
  | .key :: r => .objValue :: r
  | .objValue :: r => .key :: r
  | s => s

def normKeys : List St → List Call → List Call
  | _, [] => []
  | st, .startObj :: cs => .startObj :: normKeys (.key :: st) cs
  | st, .startArr :: cs => .startArr :: normKeys (.value :: st) cs
  | st, .endObj :: cs => .endObj :: normKeys (advance st.tail) cs
  | st, .endArr :: cs => .endArr :: normKeys (advance st.tail) cs
  | st, .str s :: cs =>
      (match st with | .key :: _ => Call.name s | _ => Call.str s) :: normKeys (advance st) cs
  | st, .name s :: cs => .name s :: normKeys (advance st) cs
  | st, .tok t :: cs => .tok t :: normKeys (advance st) cs

/-- the stack the normaliser keeps is the machine's. -/
theorem normKeys_stack (o : Out) (c : Call) (h : c ≠ .endObj ∧ c ≠ .endArr ∨ o.depth ≠ 0) :
    (step o c).stack = match c with
      | .startObj => .key :: o.stack
      | .startArr => .value :: o.stack
      | .endObj | .endArr => advance o.stack.tail
      | _ => advance o.stack := by
  have hp : ∀ o : Out, o.punct.stack = advance o.stack := by
    intro o; unfold Out.punct advance; split <;> simp_all
  cases c with
  | startObj => simp [step, pre_stack]
  | startArr => simp [step, pre_stack]
  | endObj =>
    have hd : o.depth ≠ 0 := by rcases h with h | h; exact absurd rfl h.1; exact h
    simp [step, hp, pre_stack, Out.fin, hd]
  | endArr =>
    have hd : o.depth ≠ 0 := by rcases h with h | h; exact absurd rfl h.2; exact h
    simp [step, hp, pre_stack, Out.fin, hd]
  | name s => simp [step, hp, pre_stack]
  | str s => simp [step, hp, pre_stack]
  | tok t => simp [step, hp, pre_stack]

/-- a value is expected: the top of the stack is not `key`. -/
def valueExpected : List St → Prop
  | .key :: _ => False
  | _ => True

theorem normKeys_leaf (st : List St) (hv : valueExpected st) (s : Bytes) (rest : List Call) :
    normKeys st (.str s :: rest) = .str s :: normKeys (advance st) rest := by
  cases st with
  | nil => simp [normKeys]
  | cons a r => cases a <;> simp [valueExpected] at hv <;> simp [normKeys]

mutual
theorem normKeys_value : (t : Q) → ∀ (st : List St) (rest : List Call), valueExpected st →
    normKeys st (t.calls ++ rest) = t.erase.calls ++ normKeys (advance st) rest
  | .str s, st, rest, hv => by
      simp only [Q.calls, Q.erase, J.calls, List.cons_append, List.nil_append]
      exact normKeys_leaf st hv s rest
  | .tok t, st, rest, _ => by simp [Q.calls, Q.erase, J.calls, normKeys]
  | .arr xs, st, rest, _ => by
      simp only [Q.calls, Q.erase, J.calls, List.cons_append, List.append_assoc, normKeys, List.nil_append]
      rw [normKeys_elems xs st (Call.endArr :: rest)]
      simp [normKeys]
  | .obj q kvs, st, rest, _ => by
      simp only [Q.calls, Q.erase, J.calls, List.cons_append, List.append_assoc, normKeys, List.nil_append]
      rw [normKeys_kvs q kvs st (Call.endObj :: rest)]
      simp [normKeys]
theorem normKeys_elems : (xs : List Q) → ∀ (r : List St) (rest : List Call),
    normKeys (.value :: r) (qcallsL xs ++ rest) = callsL (eraseL xs) ++ normKeys (.value :: r) rest
  | [], r, rest => by simp [qcallsL, eraseL, callsL]
  | x :: xs, r, rest => by
      simp only [qcallsL, eraseL, callsL, List.append_assoc]
      rw [normKeys_value x (.value :: r) _ trivial]
      simp only [advance]
      rw [normKeys_elems xs r rest]
theorem normKeys_kvs : (q : Bool) → (kvs : List (Bytes × Q)) → ∀ (r : List St) (rest : List Call),
    normKeys (.key :: r) (qcallsKV q kvs ++ rest) = callsKV (eraseKV kvs) ++ normKeys (.key :: r) rest
  | _, [], r, rest => by simp [qcallsKV, eraseKV, callsKV]
  | q, (k, x) :: kvs, r, rest => by
      simp only [qcallsKV, eraseKV, callsKV, List.append_assoc, List.cons_append]
      have hkey : ∀ cs, normKeys (.key :: r) (keyCall q k :: cs) = .name k :: normKeys (.objValue :: r) cs := by
        intro cs; cases q <;> simp [keyCall, normKeys, advance]
      rw [hkey, normKeys_value x (.objValue :: r) _ trivial]
      simp only [advance]
      rw [normKeys_kvs q kvs r rest]
end

/-- normalising the calls of a tree gives the calls of the erased tree. -/
theorem normKeys_calls (t : Q) : normKeys [] t.calls = t.erase.calls := by
  have := normKeys_value t [] [] trivial
  simpa [normKeys] using this

/-- (b), as an equation between call sequences: the lowered calls of a value,
with key-position `String` calls normalised to `NameField`, are exactly the
calls of the JSON tree the value denotes. -/
theorem lowered_calls_norm (k : Toks) (t : Ty) (v : Val) (hwf : t.wf) (hshape : descShape t = true)
    (hty : t.hasTy v) (hp : v ≠ .ptr none) (hm : v ≠ .map none) :
    normKeys [] ((toCalls t v).map (lower k)) = (toJ k t v).calls := by
  rw [lowered_calls k t v hwf hshape hty hp hm, normKeys_calls, erase_toQ]


/-! ### what the two sequences do to the outputter -/

/-- the un-normalised and the normalised sequence, run from ANY state: both act
like one scalar; the scalars are `renderQ` and `render` of the same tree. -/
theorem run_both (t : Q) (o : Out) :
    run o t.calls = step o (.tok (renderQ o.depth t)) ∧
    run o t.erase.calls = step o (.tok (render o.depth t.erase)) :=
  ⟨run_treeQ t o, C15.run_tree t.erase o⟩

theorem tok_control (o : Out) (a b : Bytes) :
    (step o (.tok a)).depth = (step o (.tok b)).depth ∧
    (step o (.tok a)).inField = (step o (.tok b)).inField ∧
    (step o (.tok a)).stack = (step o (.tok b)).stack := by
  cases o with
  | mk d dp f st =>
    cases f <;> cases st with
    | nil => simp [step, Out.pre, Out.punct]
    | cons x r => cases x <;> simp [step, Out.pre, Out.punct]

/-- so they leave the outputter in the same control state (depth, inField,
stack) — only the buffers differ, by the `keyPad`s. -/
theorem run_same_control (t : Q) (o : Out) :
    (run o t.calls).depth = (run o t.erase.calls).depth ∧
    (run o t.calls).inField = (run o t.erase.calls).inField ∧
    (run o t.calls).stack = (run o t.erase.calls).stack := by
  rw [(run_both t o).1, (run_both t o).2]
  exact tok_control o _ _

/-- the buffers DO differ (so no statement "same `Done()` bytes" holds):
`{"a": 1}` written with `String("a")` has two more spaces. -/
example :
    jsonOutRun (Q.obj true [([97], .tok [49])]).calls
      = [123, 10, 32, 32, 34, 97, 34, 58, 32, 32, 32, 49, 10, 125, 10] ∧
    jsonOutRun (Q.obj true [([97], .tok [49])]).erase.calls
      = [123, 10, 32, 32, 34, 97, 34, 58, 32, 49, 10, 125, 10] := by decide

/-- but both documents parse to the same JSON value. -/
theorem done_parses_both (t : Q) (o : Out) (hg : t.erase.Good) :
    parseDoc ((run o.reset t.calls).done) = some (toJV t.erase) ∧
    parseDoc ((run o.reset t.erase.calls).done) = some (toJV t.erase) :=
  ⟨done_parsesQ t o hg, C15.done_parses t.erase o hg⟩

/-! ### a time is a JSON string -/

theorem escByte_plain (c : UInt8) (h : 32 ≤ c.toNat ∧ c ≠ 34 ∧ c ≠ 92) : escByte c = [c] := by
  have h10 : c ≠ 10 := by intro e; subst e; exact absurd h.1 (by decide)
  have h13 : c ≠ 13 := by intro e; subst e; exact absurd h.1 (by decide)
  have h9 : c ≠ 9 := by intro e; subst e; exact absurd h.1 (by decide)
  have hlt : ¬ c < 32 := by
    simp only [UInt8.lt_iff_toNat_lt]
    have : (32 : UInt8).toNat = 32 := rfl
    omega
  simp [escByte, h.2.1, h.2.2, h10, h13, h9, hlt]

theorem escapeString_plain (s : Bytes) (h : ∀ b ∈ s, 32 ≤ b.toNat ∧ b ≠ 34 ∧ b ≠ 92) :
    escapeString s = 34 :: (s ++ [34]) := by
  have : s.flatMap escByte = s := by
    induction s with
    | nil => rfl
    | cons c s ih =>
      rw [List.flatMap_cons, escByte_plain c (h c (by simp)), ih (fun b hb => h b (by simp [hb]))]
      rfl
  simp [escapeString, this]

/-- `Time` (one quoted token) does to the outputter exactly what `String` of the
formatted text would, when the text needs no escaping; and the value it denotes
is that string. -/
theorem time_as_string (k : Toks) (s : Int) (n : Nat)
    (h : ∀ b ∈ k.time s n, 32 ≤ b.toNat ∧ b ≠ 34 ∧ b ≠ 92) (o : Out) :
    step o (lower k (.time s n)) = step o (.str (k.time s n)) ∧
    toJV (.tok (timeTok k s n)) = .str (k.time s n) := by
  refine ⟨?_, ?_⟩
  · simp only [lower, step, timeTok, escapeString_plain _ h]
  · simp [toJV, tokJV, timeTok]

/-! ### (c) end to end -/

/-- `Descriptor.Read(&JSONOutput, data)` then `Done()`, on a Reset (or new)
outputter: the composition of the walker and the outputter. -/
def descJSON (k : Toks) (o : Out) (t : Ty) (data : Bytes) : Res Bytes :=
  match descCalls t data with
  | .ok cs => .ok (run o.reset (cs.map (lower k))).done
  | .err => .err | .panic => .panic | .hang => .hang

/-- the exact bytes: the rendering of the value's tree, indentation after the
keys of string-keyed maps included, and the final newline. -/
theorem desc_json_bytes (k : Toks) (o : Out) (t : Ty) (v : Val) (hwf : t.wf) (hshape : descShape t = true)
    (hty : t.hasTy v) (hok : descOK t v) (hp : v ≠ .ptr none) (hm : v ≠ .map none)
    (hsz : (t.app v []).length < 2 ^ 63) :
    descJSON k o t (t.app v []) = .ok (renderQ 0 (toQ k t v) ++ [10]) := by
  unfold descJSON
  rw [descRead_calls t v hwf hshape hty hok hp hm hsz]
  simp only [lowered_calls k t v hwf hshape hty hp hm, done_eqQ]

/-- C13 ∘ C15: descriptor-driven decoding of the encoding of a value into the
JSON outputter yields one valid JSON document, and its parse is the JSON tree
the value denotes. Hypotheses: those of `C13.descRead_calls`, and well-formed
tokens in the tree (`toJ_good`: implied by well-formed formatting). -/
theorem desc_json (k : Toks) (o : Out) (t : Ty) (v : Val) (hwf : t.wf) (hshape : descShape t = true)
    (hty : t.hasTy v) (hok : descOK t v) (hp : v ≠ .ptr none) (hm : v ≠ .map none)
    (hsz : (t.app v []).length < 2 ^ 63) (hg : (toJ k t v).Good) :
    ∃ doc, descJSON k o t (t.app v []) = .ok doc ∧ parseDoc doc = some (toJV (toJ k t v)) := by
  refine ⟨_, desc_json_bytes k o t v hwf hshape hty hok hp hm hsz, ?_⟩
  rw [← done_eqQ (toQ k t v) o, ← erase_toQ k t v]
  exact done_parsesQ _ o (by rw [erase_toQ]; exact hg)

/-- the same, in terms of the call list alone. -/
theorem desc_json_calls (k : Toks) (o : Out) (t : Ty) (v : Val) (hwf : t.wf) (hshape : descShape t = true)
    (hty : t.hasTy v) (hok : descOK t v) (hp : v ≠ .ptr none) (hm : v ≠ .map none)
    (hsz : (t.app v []).length < 2 ^ 63) (hg : (toJ k t v).Good) :
    ∃ cs, descCalls t (t.app v []) = .ok cs ∧
      parseDoc ((run o.reset (cs.map (lower k))).done) = some (toJV (toJ k t v)) := by
  refine ⟨toCalls t v, descRead_calls t v hwf hshape hty hok hp hm hsz, ?_⟩
  rw [lowered_calls k t v hwf hshape hty hp hm, ← erase_toQ k t v]
  exact done_parsesQ _ o (by rw [erase_toQ]; exact hg)

/-- the tokens of the tree are well formed when the formatting is. -/
theorem toJ_good (k : Toks) (hk : k.Good) (t : Ty) (v : Val) : (toJ k t v).Good := good_toJ k hk t v

/-- through `Marshal`, with the formatting assumption. -/
theorem desc_json_marshal (k : Toks) (hk : k.Good) (o : Out) (t : Ty) (v : Val) (hwf : t.wf)
    (hshape : descShape t = true) (hty : t.hasTy v) (hok : descOK t v) (hom : v.omit = false)
    (hsz : (marshal t v).length < 2 ^ 63) :
    ∃ doc, descJSON k o t (marshal t v) = .ok doc ∧ parseDoc doc = some (toJV (toJ k t v)) := by
  unfold marshal at hsz ⊢
  simp only [hom, Bool.false_eq_true, ↓reduceIte] at hsz ⊢
  exact desc_json k o t v hwf hshape hty hok (ne_ptr_none_of_not_omit v hom)
    (ne_map_none_of_not_omit v hom) hsz (toJ_good k hk t v)


/-! ## 8. non-vacuity -/

/-- the formatting hypothesis is satisfiable (trivially: every number is `0`,
every time the empty text)… -/
example : Toks.Good ⟨fun _ => [48], fun _ => [48], fun _ => [48], fun _ => [48], fun _ _ => []⟩ := by
  have h0 : NumberToken [48] := ⟨[], [48], [], [], rfl, Or.inl rfl, Or.inl rfl, Or.inl rfl, Or.inl rfl⟩
  exact ⟨fun _ => h0, fun _ => h0, fun _ => h0, fun _ => h0, fun _ _ b hb => by simp at hb⟩

/-- …and here is a formatting that prints integers in decimal (floats and times
do not occur in the number positions of the example below; the time text is the
constant `1970-01-01T00:00:00Z`). -/
def cxDigits (n : Nat) : Bytes := (Nat.toDigits 10 n).map (fun c => c.toNat.toUInt8)

def cxToks : Toks where
  int := fun i => if i < 0 then 45 :: cxDigits i.natAbs else cxDigits i.natAbs
  uint := cxDigits
  f32 := fun _ => [48]
  f64 := fun _ => [48]
  time := fun _ _ => strBytes "1970-01-01T00:00:00Z"

/-- a struct with a string-keyed map of integer pointers, a slice of strings, a
packed slice of integers, a map with integer keys, and a time. -/
def cxTy : Ty :=
  .struct "S" [(1, "M", .map (.str false) (.ptr (.int 64)) false), (2, "L", .lslice (.str false)),
    (3, "N", .vslice (.uint 8)), (4, "P", .map (.int 32) .bool false), (5, "T", .time false)]

def cxVal : Val :=
  .struct [.map (some [(.str [97], .ptr (some (.int (-12)))), (.str [], .ptr none)]),
    .slice [.str [104, 105], .str []], .slice [.uint 7, .uint 200],
    .map (some [(.int 3, .bool true), (.int 0, .bool false)]), .time 0 0]

theorem cx_hyps : cxTy.wf ∧ descShape cxTy = true ∧ cxTy.hasTy cxVal ∧ descOK cxTy cxVal
    ∧ cxVal.omit = false ∧ (marshal cxTy cxVal).length < 2 ^ 63 := by
  refine ⟨?_, by decide, ?_, ?_, rfl, by decide +kernel⟩
  · simp [cxTy, Ty.wf, fieldsWf, validWidth, Ty.wt, Ty.isMap, Ty.isProtoSlice]
  · simp [cxTy, cxVal, Ty.hasTy, fieldsHaveTy, intRange, keysDistinct, Val.beq]
  · simp [cxTy, cxVal, descOK, fieldsDescOK]

/-- `{"M": {"a": -12, "": null}, "L": ["hi", ""], "N": [7, 200],
     "P": [{"key": 3, "value": true}, {}], "T": "1970-01-01T00:00:00Z"}` -/
def cxTree : J :=
  .obj [(strBytes "M", .obj [([97], .tok [45, 49, 50]), ([], .tok nullTok)]),
        (strBytes "L", .arr [.str [104, 105], .str []]),
        (strBytes "N", .arr [.tok [55], .tok [50, 48, 48]]),
        (strBytes "P", .arr [.obj [(strBytes "key", .tok [51]), (strBytes "value", .tok tTrue)], .obj []]),
        (strBytes "T", .tok (34 :: (strBytes "1970-01-01T00:00:00Z" ++ [34])))]

/-- the tree equation on the example. -/
theorem cx_toJ : toJ cxToks cxTy cxVal = cxTree := by rfl

theorem allDigits_of (ds : Bytes) (h : ds.all isDigit = true) : AllDigits ds := by
  intro b hb; exact List.all_eq_true.mp h b hb

theorem cx_good : cxTree.Good := by
  have d1 : ∀ (h : UInt8) (tl : Bytes), 49 ≤ h.toNat → h.toNat ≤ 57 → AllDigits tl → NumberToken (h :: tl) :=
    fun h tl h1 h2 h3 => ⟨[], h :: tl, [], [], by simp, Or.inl rfl, Or.inr ⟨h, tl, rfl, h1, h2, h3⟩,
      Or.inl rfl, Or.inl rfl⟩
  have n12 : NumberToken [45, 49, 50] :=
    ⟨[45], [49, 50], [], [], rfl, Or.inr rfl, Or.inr ⟨49, [50], rfl, by decide, by decide, allDigits_of _ (by decide)⟩,
      Or.inl rfl, Or.inl rfl⟩
  simp only [cxTree, J.Good, GoodKV, GoodL, and_true, true_and]
  refine ⟨⟨good_num n12, good_null⟩, ⟨good_num (d1 55 [] (by decide) (by decide) (allDigits_of _ (by decide))),
    good_num (d1 50 [48, 48] (by decide) (by decide) (allDigits_of _ (by decide)))⟩,
    ⟨good_num (d1 51 [] (by decide) (by decide) (allDigits_of _ (by decide))), Or.inl (Or.inr (Or.inl rfl))⟩, ?_⟩
  exact Or.inr ⟨strBytes "1970-01-01T00:00:00Z", rfl, by decide⟩

/-- (d) the end-to-end theorem applies to the example: walking `Marshal(v)` with
the descriptor into the JSON outputter gives a document that parses to… -/
theorem cx_desc_json : ∃ doc, descJSON cxToks fresh cxTy (marshal cxTy cxVal) = .ok doc ∧
    parseDoc doc = some (toJV cxTree) := by
  have h := cx_hyps
  have hm : marshal cxTy cxVal = cxTy.app cxVal [] := by
    unfold marshal; simp only [h.2.2.2.2.1, Bool.false_eq_true, ↓reduceIte]
  rw [hm, ← cx_toJ]
  exact desc_json cxToks fresh cxTy cxVal h.1 h.2.1 h.2.2.1 h.2.2.2.1
    (ne_ptr_none_of_not_omit _ h.2.2.2.2.1) (ne_map_none_of_not_omit _ h.2.2.2.2.1)
    (by rw [← hm]; exact h.2.2.2.2.2) (by rw [cx_toJ]; exact cx_good)

/-- …this value. -/
example : toJV cxTree =
    .obj [(strBytes "M", .obj [([97], .num [45, 49, 50]), ([], .null)]),
          (strBytes "L", .arr [.str [104, 105], .str []]),
          (strBytes "N", .arr [.num [55], .num [50, 48, 48]]),
          (strBytes "P", .arr [.obj [(strBytes "key", .num [51]), (strBytes "value", .bool true)], .obj []]),
          (strBytes "T", .str (strBytes "1970-01-01T00:00:00Z"))] := by rfl

/-- the same by evaluation, independently of the theorems; the bytes show the
indentation after the keys `"a"` and `""` of the string-keyed map (and none
after the struct's field names). -/
example : descJSON cxToks fresh cxTy (marshal cxTy cxVal) = .ok (strBytes
    "{\n  \"M\": {\n    \"a\":     -12,\n    \"\":     null\n  },\n  \"L\": [\n    \"hi\",\n    \"\"\n  ],\n  \"N\": [\n    7,\n    200\n  ],\n  \"P\": [\n    {\n      \"key\": 3,\n      \"value\": true\n    },\n    {\n    }\n  ],\n  \"T\": \"1970-01-01T00:00:00Z\"\n}\n") := by
  decide +kernel

/-- the normalised call sequence on the example (`lowered_calls_norm`). -/
example : normKeys [] ((toCalls cxTy cxVal).map (lower cxToks)) = cxTree.calls := by
  have h := cx_hyps
  rw [← cx_toJ]
  exact lowered_calls_norm cxToks cxTy cxVal h.1 h.2.1 h.2.2.1
    (ne_ptr_none_of_not_omit _ h.2.2.2.2.1) (ne_map_none_of_not_omit _ h.2.2.2.2.1)

end C13
