import Proofs.Merge
/-
  C10 — Re-used targets and instances never leak stale state.

  Unmarshal into a variable that already holds data follows fixed merge rules:
  fields present in the data are overwritten (nested structs and non-nil
  pointers recursively), fields absent from it keep their prior value, a decoded
  slice holds exactly the encoded elements (appended to the existing ones only
  for the protobuf repeated-field form), map entries are merged by key. Decoding
  into a fresh variable is independent of history.

  The merge SPEC (`Merge.mergeVal`, `Merge.mergeFields`, `Merge.mergePos`,
  Proofs/Merge.lean) is written from these rules, not from `Ty.read`; the rule
  lemmas below (`rule_*`) restate each rule as an equation of the spec, and
  `read_merge` says the model's `unmarshal` computes exactly the spec.

  Hypotheses of `read_merge` (the C01 ones plus the prior's shape):
  `wf` = "accepted"; `rtShape false` excludes the known findings (repeated forms
  outside a struct field, pointer to pointer) and asks for `keySafe` map keys;
  `isPtr = false` excludes the top-level-pointer finding; `hasTy`; `Total.Shape
  t prior`: struct priors have one value per field, recursively (any Go variable
  of the target type has it); `hsz`: every length prefix fits.
-/
namespace C10
open Merge

/-- C10, all sixteen codec constructors: decoding the encoding of `v` into a
target that holds `prior` yields the merge of `v` into `prior`. -/
theorem read_merge (t : Ty) (v prior : Val) (hwf : t.wf) (hshape : Ty.rtShape false t)
    (hnp : t.isPtr = false) (hty : t.hasTy v) (hprior : Total.Shape t prior)
    (hsz : (marshal t v).length < 2 ^ 63) :
    unmarshal t (marshal t v) prior = .ok (mergePos t prior v) :=
  Merge.read_merge t v prior hwf hshape hnp hty hprior hsz

/-- the struct-rooted form: the result is the field-wise merge. -/
theorem read_merge_struct (nm : String) (fs : Fields) (vs ps : List Val)
    (hwf : (Ty.struct nm fs).wf) (hshape : Ty.rtShape false (.struct nm fs))
    (hty : fieldsHaveTy fs vs) (hprior : Total.ShapeL fs ps)
    (hsz : (marshal (.struct nm fs) (.struct vs)).length < 2 ^ 63) :
    unmarshal (.struct nm fs) (marshal (.struct nm fs) (.struct vs)) (.struct ps)
      = .ok (.struct (mergeFields fs ps vs)) := by
  have := read_merge (.struct nm fs) (.struct vs) (.struct ps) hwf hshape rfl
    (by simpa [Ty.hasTy] using hty) (by simpa [Total.Shape] using hprior) hsz
  simpa [mergePos, Val.omit, mergeVal_struct, Total.structPrior] using this

/-- for a fresh target the merge is the round-trip normalisation (C01). -/
theorem merge_zero (t : Ty) (v : Val) (b : Bool) (hshape : Ty.rtShape b t) (hty : t.hasTy v) :
    mergePos t t.zero v = t.normPos v :=
  Merge.merge_zero t v b hshape hty

/-! ### the rules, as equations of the spec -/

/-- a field absent from the data keeps its prior value. -/
theorem rule_absent_field (i : Nat) (nm : String) (t : Ty) (r : Fields) (p v : Val) (ps vs : List Val)
    (h : v.omit = true) :
    mergeFields ((i, nm, t) :: r) (p :: ps) (v :: vs) = p :: mergeFields r ps vs := by
  simp [mergeFields, h]

/-- a field present in the data is overwritten by the merge of the encoded value
into its prior value. -/
theorem rule_present_field (i : Nat) (nm : String) (t : Ty) (r : Fields) (p v : Val) (ps vs : List Val)
    (h : v.omit = false) :
    mergeFields ((i, nm, t) :: r) (p :: ps) (v :: vs) = mergeVal t p v :: mergeFields r ps vs := by
  simp [mergeFields, h]

/-- scalars, strings, byte strings, times and the three plenc slice forms: the
decoded value replaces the prior — a decoded slice holds exactly the encoded
(normalised) elements. -/
theorem rule_replace (t : Ty) (h : Merge.Ty.priorFree t = true) (p v : Val) : mergeVal t p v = t.norm v :=
  mergeVal_priorFree t h p v

/-- nested struct: recursively field-wise. -/
theorem rule_struct (nm : String) (fs : Fields) (ps vs : List Val) :
    mergeVal (.struct nm fs) (.struct ps) (.struct vs) = .struct (mergeFields fs ps vs) := by
  simp [mergeVal_struct, Total.structPrior]

/-- non-nil pointer: merge into the pointee. -/
theorem rule_ptr_nonnil (t : Ty) (p x : Val) :
    mergeVal (.ptr t) (.ptr (some p)) (.ptr (some x)) = .ptr (some (mergeVal t p x)) := by
  simp [mergeVal_ptr, Total.ptrPrior]

/-- nil pointer: a new pointee, merged into the zero value. -/
theorem rule_ptr_nil (t : Ty) (x : Val) :
    mergeVal (.ptr t) (.ptr none) (.ptr (some x)) = .ptr (some (mergeVal t t.zero x)) := by
  simp [mergeVal_ptr, Total.ptrPrior]

/-- the protobuf repeated-field form appends to the existing elements. -/
theorem rule_pslice_append (t : Ty) (ps vs : List Val) :
    mergeVal (.pslice t) (.slice ps) (.slice vs) = .slice (ps ++ vs.map (RT.elemNorm t)) := by
  simp [mergeVal_pslice, slicePrior]

/-- maps (either form, at least one encoded entry): the encoded entries are
merged one by one, by key, into the existing entries. -/
theorem rule_map (k v : Ty) (pr : Bool) (ps : List (Val × Val)) (e : Val × Val) (es : List (Val × Val)) :
    mergeVal (.map k v pr) (.map (some ps)) (.map (some (e :: es)))
      = .map (some ((e :: es).foldl (mergeEntry k v) ps)) := by
  simp [mergeVal_map, Total.mapPrior]

/-- one entry: the value is merged into the value stored under the key (into
zero if there is none) and stored — in place for an existing key, appended for a
new one (`mapSet`). -/
theorem rule_map_entry (k v : Ty) (acc : List (Val × Val)) (x y : Val) (h : y.omit = false) :
    mergeEntry k v acc (x, y)
      = mapSet (k.normPos x) (mergeVal v ((mapLookup (k.normPos x) acc).getD v.zero) y) acc := by
  simp [mergeEntry, h]

/-! ### history independence -/

/-- a history of earlier `Unmarshal` calls on one instance: codec, data, target. -/
abbrev History := List (Ty × Bytes × Val)

/-- run a history, then one more call; the outcome of every call is recorded. -/
def runThen (h : History) (t : Ty) (d : Bytes) (prior : Val) : List (Res Val) × Res Val :=
  (h.map fun c => unmarshal c.1 c.2.1 c.2.2, unmarshal t d prior)

/-- For the record: the model's `unmarshal` is a function of (codec, data, prior)
only — there is no instance state in the value-level model — so the result of a
call is the same after any two histories.  Trivial by purity.  Pools (`kPool`,
the struct-pointer pools), intern tables and scratch buffers are below the value
abstraction; that they do not leak into results is covered by the correspondence
run, which drives all calls of a stream through one shared `Plenc` instance. -/
theorem fresh_history_independent (h₁ h₂ : History) (t : Ty) (d : Bytes) (prior : Val) :
    (runThen h₁ t d prior).2 = (runThen h₂ t d prior).2 := rfl

/-- …in particular decoding into a fresh variable gives the round-trip result
whatever was decoded before. -/
theorem fresh_after_history (h : History) (t : Ty) (v : Val) (hwf : t.wf) (hshape : Ty.rtShape false t)
    (hnp : t.isPtr = false) (hty : t.hasTy v) (hsz : (marshal t v).length < 2 ^ 63) :
    (runThen h t (marshal t v) t.zero).2 = .ok (t.normPos v) :=
  RT.roundtrip t v hwf hshape hnp hty hsz

/-! ### non-vacuity -/

def exTy : Ty :=
  .struct "S" [(1, "A", .int 64), (2, "B", .str false), (3, "C", .pslice (.str false)),
    (4, "D", .lslice (.str false)), (5, "E", .struct "T" [(1, "X", .uint 8), (2, "Y", .uint 8)]),
    (6, "F", .ptr (.struct "T" [(1, "X", .uint 8), (2, "Y", .uint 8)])),
    (7, "G", .map (.str false) (.struct "T" [(1, "X", .uint 8), (2, "Y", .uint 8)]) false),
    (8, "H", .map (.int 32) (.int 32) true), (9, "I", .vslice (.int 32))]

/-- the encoded value: A and D absent; B, C, E.X, F.Y, two G entries, one H entry, I present. -/
def exVal : Val :=
  .struct [.int 0, .str [104], .slice [.str [1]], .slice [],
    .struct [.uint 7, .uint 0], .ptr (some (.struct [.uint 0, .uint 9])),
    .map (some [(.str [97], .struct [.uint 5, .uint 0]), (.str [99], .struct [.uint 0, .uint 0])]),
    .map (some [(.int 2, .int 0)]), .slice [.int 3]]

def exPrior : Val :=
  .struct [.int 42, .str [1, 2], .slice [.str [9]], .slice [.str [8]],
    .struct [.uint 1, .uint 2], .ptr (some (.struct [.uint 3, .uint 4])),
    .map (some [(.str [97], .struct [.uint 1, .uint 2]), (.str [98], .struct [.uint 3, .uint 4])]),
    .map (some [(.int 2, .int 5), (.int 1, .int 6)]), .slice [.int 1, .int 2]]

/-- A keeps 42; B overwritten; C appended; D (absent) keeps its element; E.X
overwritten, E.Y kept; F merged into the pointee; G["a"] merged field-wise,
G["b"] kept, G["c"] added; H[2] reset to the zero value in place; I replaced. -/
def exMerged : Val :=
  .struct [.int 42, .str [104], .slice [.str [9], .str [1]], .slice [.str [8]],
    .struct [.uint 7, .uint 2], .ptr (some (.struct [.uint 3, .uint 9])),
    .map (some [(.str [97], .struct [.uint 5, .uint 2]), (.str [98], .struct [.uint 3, .uint 4]),
      (.str [99], .struct [.uint 0, .uint 0])]),
    .map (some [(.int 2, .int 0), (.int 1, .int 6)]), .slice [.int 3]]

theorem ex_hyps : exTy.wf ∧ Ty.rtShape false exTy ∧ exTy.isPtr = false ∧ exTy.hasTy exVal
    ∧ Total.Shape exTy exPrior ∧ (marshal exTy exVal).length < 2 ^ 63 := by
  refine ⟨?_, ?_, rfl, ?_, ?_, by decide +kernel⟩
  · simp [exTy, Ty.wf, fieldsWf, validWidth, Ty.wt, Ty.isMap, Ty.isProtoSlice]
  · simp [exTy, Ty.rtShape, fieldsRtShape, Ty.isPtr, Ty.keySafe]
  · simp [exTy, exVal, Ty.hasTy, fieldsHaveTy, intRange, keysDistinct, Val.beq]
  · simp [exTy, exPrior, Total.Shape, Total.ShapeL]

theorem ex_spec : mergePos exTy exPrior exVal = exMerged := by
  simp [exTy, exPrior, exVal, exMerged, mergePos, Val.omit, mergeVal, mergeFields, Total.structPrior,
    Total.ptrPrior, Total.mapPrior, slicePrior, RT.elemNorm, Ty.norm, Ty.normPos, Ty.zero, zeros,
    mapSet, mapLookup, Val.beq]

/-- the theorem applies to the example, with a non-trivial prior. -/
example : unmarshal exTy (marshal exTy exVal) exPrior = .ok exMerged :=
  ex_spec ▸ read_merge exTy exVal exPrior ex_hyps.1 ex_hyps.2.1 ex_hyps.2.2.1 ex_hyps.2.2.2.1
    ex_hyps.2.2.2.2.1 ex_hyps.2.2.2.2.2

end C10
