import Plenc.Plenctag
/-
  Proofs.Plenctag — helper lemmas about the plenctag / structtag model
  (Plenc/Plenctag.lean) used by Props/C20.lean.
-/
namespace Plenctag

/-! ## strings.Split / strings.Join on commas -/


theorem splitCommaAll_ne_nil (v : List Char) : splitCommaAll v ≠ [] := by
  induction v with
  | nil => simp [splitCommaAll]
  | cons c r ih =>
    unfold splitCommaAll
    split
    · simp
    · split <;> simp

theorem joinComma_cons_cons (a b : List Char) (r) : joinComma (a :: b :: r) = a ++ ',' :: joinComma (b :: r) := rfl

theorem joinComma_cons_of_ne_nil (a : List Char) (l) (h : l ≠ []) : joinComma (a :: l) = a ++ ',' :: joinComma l := by
  cases l with
  | nil => exact absurd rfl h
  | cons b r => rfl

theorem joinComma_splitCommaAll (v : List Char) : joinComma (splitCommaAll v) = v := by
  induction v with
  | nil => rfl
  | cons c r ih =>
    unfold splitCommaAll
    split
    · rename_i h
      rw [joinComma_cons_of_ne_nil _ _ (splitCommaAll_ne_nil r), ih, h]; rfl
    · split
      · rename_i h t heq
        rw [heq] at ih
        cases t with
        | nil => simp [joinComma] at ih ⊢; exact ih
        | cons b t' => simp [joinComma] at ih ⊢; exact ih
      · rename_i heq
        exact absurd heq (splitCommaAll_ne_nil r)

theorem splitCommaAll_noComma_append (a : List Char) (ha : ',' ∉ a) (r : List Char) :
    splitCommaAll (a ++ ',' :: r) = a :: splitCommaAll r := by
  induction a with
  | nil => simp [splitCommaAll]
  | cons c a ih =>
    have hc : c ≠ ',' := by intro h; apply ha; simp [h]
    have ha' : ',' ∉ a := by intro h; apply ha; simp [h]
    simp only [List.cons_append]
    rw [splitCommaAll]
    simp only [hc, ↓reduceIte, ih ha']

theorem splitCommaAll_noComma (a : List Char) (ha : ',' ∉ a) : splitCommaAll a = [a] := by
  induction a with
  | nil => rfl
  | cons c a ih =>
    have hc : c ≠ ',' := by intro h; apply ha; simp [h]
    have ha' : ',' ∉ a := by intro h; apply ha; simp [h]
    rw [splitCommaAll]
    simp only [hc, ↓reduceIte, ih ha']

theorem splitCommaAll_joinComma (l : List (List Char)) (h : l ≠ []) (hnc : ∀ x ∈ l, ',' ∉ x) :
    splitCommaAll (joinComma l) = l := by
  induction l with
  | nil => exact absurd rfl h
  | cons a r ih =>
    cases r with
    | nil => simpa [joinComma] using splitCommaAll_noComma a (hnc a (by simp))
    | cons b r' =>
      rw [joinComma_cons_cons, splitCommaAll_noComma_append a (hnc a (by simp))]
      rw [ih (by simp) (fun x hx => hnc x (by simp [hx]))]

theorem splitCommaAll_mem (v : List Char) : ∀ x ∈ splitCommaAll v, ',' ∉ x ∧ ∀ c ∈ x, c ∈ v := by
  induction v with
  | nil => simp [splitCommaAll]
  | cons c r ih =>
    unfold splitCommaAll
    split
    · intro x hx
      simp only [List.mem_cons] at hx
      rcases hx with rfl | hx
      · simp
      · have := ih x hx
        exact ⟨this.1, fun d hd => by simp [this.2 d hd]⟩
    · rename_i hc
      split
      · rename_i h t heq
        rw [heq] at ih
        intro x hx
        simp only [List.mem_cons] at hx
        rcases hx with rfl | hx
        · have := ih h (by simp)
          refine ⟨?_, ?_⟩
          · simp only [List.mem_cons, not_or]; exact ⟨fun e => hc e.symm, this.1⟩
          · intro d hd
            simp only [List.mem_cons] at hd ⊢
            rcases hd with rfl | hd
            · simp
            · exact Or.inr (this.2 d hd)
        · have := ih x (by simp [hx])
          exact ⟨this.1, fun d hd => by simp [this.2 d hd]⟩
      · rename_i heq
        exact absurd heq (splitCommaAll_ne_nil r)

/-! ## %q and strconv.Unquote on the modelled fragment -/

/-- characters a parsed value can consist of: anything but a newline -/
def ValChar (c : Char) : Prop := c ≠ '\n'
def ValChars (v : List Char) : Prop := ∀ c ∈ v, ValChar c

theorem ValChars.tail {c : Char} {v} (h : ValChars (c :: v)) : ValChars v := fun d hd => h d (by simp [hd])
theorem ValChars.head {c : Char} {v} (h : ValChars (c :: v)) : ValChar c := h c (by simp)
theorem ValChars.nil : ValChars [] := fun c hc => by simp at hc
theorem ValChars.cons {c : Char} {v} (hc : ValChar c) (h : ValChars v) : ValChars (c :: v) := by
  intro d hd
  simp only [List.mem_cons] at hd
  rcases hd with rfl | hd
  · exact hc
  · exact h d hd
theorem ValChars.append {a b} (ha : ValChars a) (hb : ValChars b) : ValChars (a ++ b) := by
  intro d hd
  simp only [List.mem_append] at hd
  rcases hd with hd | hd
  · exact ha d hd
  · exact hb d hd

theorem Unq.cons_ok {c : Char} {u : Unq} {v} (h : u.cons c = .ok v) : ∃ v', u = .ok v' ∧ v = c :: v' := by
  cases u with
  | ok v' => simp [Unq.cons] at h; exact ⟨v', rfl, h.symm⟩
  | bad => simp [Unq.cons] at h
  | unsupported => simp [Unq.cons] at h

theorem unq_ok_chars : ∀ (b : List Char) (esc : Bool) (v : List Char), unq esc b = .ok v → ValChars v := by
  intro b
  induction b with
  | nil =>
    intro esc v h
    cases esc
    · simp [unq] at h; subst h; exact ValChars.nil
    · simp [unq] at h
  | cons c r ih =>
    intro esc v h
    cases esc
    · rw [unq] at h
      split at h
      · exact ih true v h
      · split at h
        · simp at h
        · rename_i hp
          obtain ⟨v', hv, rfl⟩ := Unq.cons_ok h
          exact ValChars.cons hp (ih false v' hv)
    · rw [unq] at h
      split at h
      · rename_i hd
        obtain ⟨v', hv, rfl⟩ := Unq.cons_ok h
        refine ValChars.cons ?_ (ih false v' hv)
        rcases hd with h | h <;> (rw [h]; unfold ValChar; decide)
      · simp at h

theorem unquoteBody_ok_chars {b v : List Char} (h : unquoteBody b = .ok v) : ValChars v :=
  unq_ok_chars b false v h

theorem unquoteBody_quoteChars : ∀ v, ValChars v → unquoteBody (quoteChars v) = .ok v := by
  intro v
  unfold unquoteBody
  induction v with
  | nil => intro _; rfl
  | cons c r ih =>
    intro h
    have ihr := ih h.tail
    unfold quoteChars
    split
    · rename_i hc
      rw [unq]
      simp only [↓reduceIte]
      rw [unq]
      simp only [hc, ↓reduceIte, ihr, Unq.cons]
    · rename_i hc
      have hnl : c ≠ '\n' := h.head
      simp only [not_or] at hc
      rw [unq]
      simp only [hc.2, hnl, ↓reduceIte, ihr, Unq.cons]

theorem scanQuoted_quoteChars (rest : List Char) : ∀ v, ValChars v →
    scanQuoted (quoteChars v ++ '"' :: rest) = some (quoteChars v, rest) := by
  intro v
  unfold scanQuoted
  induction v with
  | nil => intro _; simp [quoteChars, scanQ]
  | cons c r ih =>
    intro h
    have ihr := ih h.tail
    unfold quoteChars
    split
    · rename_i hc
      have : ¬ ('\\' : Char) = '"' := by decide
      simp only [List.cons_append]
      rw [scanQ]
      simp only [this, ↓reduceIte]
      rw [scanQ]
      simp [ihr]
    · rename_i hc
      simp only [not_or] at hc
      simp only [List.cons_append]
      rw [scanQ]
      simp [hc.1, hc.2, ihr]

/-- the scan consumes at least the closing quote. -/
theorem scanQ_length : ∀ (cs : List Char) (esc : Bool) (b rest : List Char),
    scanQ esc cs = some (b, rest) → rest.length < cs.length := by
  intro cs
  induction cs with
  | nil => intro esc b rest h; simp [scanQ] at h
  | cons c r ih =>
    intro esc b rest h
    cases esc
    · rw [scanQ] at h
      split at h
      · injection h with h; injection h with h1 h2; subst h2; simp
      · split at h
        · simp only [Option.map_eq_some_iff] at h
          obtain ⟨p, hp, he⟩ := h
          injection he with h1 h2
          have := ih true p.1 p.2 hp
          subst h2; simp; omega
        · simp only [Option.map_eq_some_iff] at h
          obtain ⟨p, hp, he⟩ := h
          injection he with h1 h2
          have := ih false p.1 p.2 hp
          subst h2; simp; omega
    · rw [scanQ] at h
      simp only [Option.map_eq_some_iff] at h
      obtain ⟨p, hp, he⟩ := h
      injection he with h1 h2
      have := ih false p.1 p.2 hp
      subst h2; simp; omega

/-! ## the pair scanner -/

def KeyChars (k : List Char) : Prop := k ≠ [] ∧ ∀ c ∈ k, keyChar c = true

theorem keyChar_ne_space {c : Char} (h : keyChar c = true) : c ≠ ' ' := by
  rintro rfl
  revert h; decide

theorem scanPair_nil : scanPair [] = .done := rfl

theorem scanPair_space (cs : List Char) : scanPair (' ' :: cs) = scanPair cs := by
  simp [scanPair]

theorem takeWhile_mem {α} (p : α → Bool) : ∀ (l : List α) (a : α), a ∈ l.takeWhile p → p a = true := by
  intro l
  induction l with
  | nil => intro a h; simp at h
  | cons x r ih =>
    intro a h
    rw [List.takeWhile_cons] at h
    split at h
    · simp only [List.mem_cons] at h
      rcases h with rfl | h
      · assumption
      · exact ih a h
    · simp at h

theorem scanAfterKey_pair {key t k b rest} (h : scanAfterKey key t = .pair k b rest) :
    k = key ∧ rest.length < t.length := by
  unfold scanAfterKey at h
  split at h
  · simp at h
  · simp at h
  · rename_i c d r
    split at h
    · simp at h
    · split at h
      · simp at h
      · split at h
        · simp at h
        · rename_i body rest' hq
          injection h with h1 h2 h3
          have := scanQ_length r false body rest' hq
          subst h3
          exact ⟨h1.symm, by simp; omega⟩

theorem scanPair_pair {cs k b rest} (h : scanPair cs = .pair k b rest) :
    KeyChars k ∧ rest.length < cs.length := by
  unfold scanPair at h
  simp only at h
  split at h
  · simp at h
  · unfold scanKey at h
    simp only at h
    split at h
    · simp at h
    · rename_i hne
      obtain ⟨hk, hl⟩ := scanAfterKey_pair h
      subst hk
      refine ⟨⟨?_, fun c hc => takeWhile_mem _ _ c hc⟩, ?_⟩
      · intro e; rw [e] at hne; simp at hne
      · have h1 := (List.dropWhile_suffix (l := List.dropWhile (fun c => decide (c = ' ')) cs) keyChar).length_le
        have h2 := (List.dropWhile_suffix (l := cs) (fun c => decide (c = ' '))).length_le
        omega

theorem scanPair_rendered {key : List Char} (hk : KeyChars key) (v rest : List Char) (hv : ValChars v) :
    scanPair (key ++ ':' :: '"' :: (quoteChars v ++ '"' :: rest)) = .pair key (quoteChars v) rest := by
  obtain ⟨hne, hall⟩ := hk
  cases key with
  | nil => exact absurd rfl hne
  | cons k0 kr =>
    have hk0 : keyChar k0 = true := hall k0 (by simp)
    have hsp : ¬ k0 = ' ' := keyChar_ne_space hk0
    unfold scanPair
    simp only [List.cons_append, List.dropWhile_cons, hsp, decide_false, Bool.false_eq_true,
      ↓reduceIte, List.isEmpty_cons]
    unfold scanKey
    have hcolon : keyChar ':' = false := by decide
    have htw : List.takeWhile keyChar (k0 :: (kr ++ ':' :: '"' :: (quoteChars v ++ '"' :: rest))) = k0 :: kr := by
      rw [← List.cons_append, List.takeWhile_append_of_pos hall, List.takeWhile_cons]
      simp [hcolon]
    have hdw : List.dropWhile keyChar (k0 :: (kr ++ ':' :: '"' :: (quoteChars v ++ '"' :: rest))) =
        ':' :: '"' :: (quoteChars v ++ '"' :: rest) := by
      rw [← List.cons_append, List.dropWhile_append_of_pos hall, List.dropWhile_cons]
      simp [hcolon]
    simp only [htw, hdw, List.isEmpty_cons, Bool.false_eq_true, ↓reduceIte]
    unfold scanAfterKey
    simp [scanQuoted_quoteChars rest v hv]

/-! ## well-formed tags; Parse ∘ String -/

structure WFTag (t : Tag) : Prop where
  key : KeyChars t.key.toList
  name : ValChars t.name.toList ∧ ',' ∉ t.name.toList
  opts : ∀ o ∈ t.options, ValChars o.toList ∧ ',' ∉ o.toList

def WFTags (ts : Tags) : Prop := ∀ t ∈ ts, WFTag t

theorem valChar_comma : ValChar ',' := by unfold ValChar; decide

theorem joinComma_valChars : ∀ (l : List (List Char)), (∀ x ∈ l, ValChars x) → ValChars (joinComma l) := by
  intro l
  induction l with
  | nil => intro _; exact ValChars.nil
  | cons a r ih =>
    intro h
    cases r with
    | nil => simpa [joinComma] using h a (by simp)
    | cons b r' =>
      rw [joinComma_cons_cons]
      exact ValChars.append (h a (by simp))
        (ValChars.cons valChar_comma (ih (fun x hx => h x (by simp [hx]))))

theorem joinComma_eq_nil : ∀ (l : List (List Char)), joinComma l = [] → l = [] ∨ l = [[]] := by
  intro l h
  cases l with
  | nil => exact Or.inl rfl
  | cons a r =>
    cases r with
    | nil => simp [joinComma] at h; subst h; exact Or.inr rfl
    | cons b r' => rw [joinComma_cons_cons] at h; simp at h

theorem toList_eq_nil {s : String} (h : s.toList = []) : s = "" := by
  have := String.ofList_toList (s := s)
  rw [h] at this
  exact this.symm

theorem Tag.value_valChars {t : Tag} (ht : WFTag t) : ValChars t.value := by
  unfold Tag.value
  simp only
  have hj : ValChars (joinComma (t.options.map String.toList)) := by
    apply joinComma_valChars
    intro x hx
    simp only [List.mem_map] at hx
    obtain ⟨o, ho, rfl⟩ := hx
    exact (ht.opts o ho).1
  split
  · exact ht.name.1
  · exact ValChars.append ht.name.1 (ValChars.cons valChar_comma hj)

theorem Tag.split_value {t : Tag} (ht : WFTag t) :
    splitCommaAll t.value = t.norm.name.toList :: t.norm.options.map String.toList := by
  unfold Tag.value
  simp only
  split
  · rename_i he
    have he' : joinComma (t.options.map String.toList) = [] := by
      simpa [List.isEmpty_iff] using he
    rw [splitCommaAll_noComma _ ht.name.2]
    rcases joinComma_eq_nil _ he' with h | h
    · have : t.options = [] := by simpa using h
      unfold Tag.norm
      simp [this]
    · have : t.options = [""] := by
        cases ho : t.options with
        | nil => rw [ho] at h; simp at h
        | cons o r =>
          rw [ho] at h
          simp only [List.map_cons, List.cons.injEq, List.map_eq_nil_iff] at h
          rw [h.2, toList_eq_nil h.1]
      unfold Tag.norm
      simp [this]
  · rename_i he
    have hne : t.options ≠ [""] := by
      intro h; apply he; rw [h]; rfl
    have hne2 : t.options.map String.toList ≠ [] := by
      intro h; apply he; rw [h]; rfl
    have : t.norm = t := by unfold Tag.norm; simp [hne]
    rw [this, ← joinComma_cons_of_ne_nil _ _ hne2]
    apply splitCommaAll_joinComma _ (by simp)
    intro x hx
    simp only [List.mem_cons, List.mem_map] at hx
    rcases hx with rfl | ⟨o, ho, rfl⟩
    · exact ht.name.2
    · exact (ht.opts o ho).2

theorem Tag.norm_key (t : Tag) : t.norm.key = t.key := by
  unfold Tag.norm; split <;> rfl
theorem Tag.norm_name (t : Tag) : t.norm.name = t.name := by
  unfold Tag.norm; split <;> rfl

theorem map_ofList_toList (l : List String) : (l.map String.toList).map String.ofList = l := by
  induction l with
  | nil => rfl
  | cons a r ih => simp [String.ofList_toList]

/-- the text between two rendered tags -/
def sep : Tags → List Char
  | [] => []
  | t :: r => ' ' :: renderChars (t :: r)

theorem renderChars_cons (t : Tag) (r : Tags) :
    renderChars (t :: r) = t.key.toList ++ ':' :: '"' :: (quoteChars t.value ++ '"' :: sep r) := by
  cases r with
  | nil => simp [renderChars, Tag.render, sep]
  | cons u r' => simp [renderChars, Tag.render, sep]

theorem parseLoop_space (n : Nat) (cs : List Char) : parseLoop n (' ' :: cs) = parseLoop n cs := by
  cases n with
  | zero => rfl
  | succ n => rw [parseLoop, parseLoop, scanPair_space]

theorem parseLoop_sep (n : Nat) (r : Tags) : parseLoop n (sep r) = parseLoop n (renderChars r) := by
  cases r with
  | nil => rfl
  | cons t r' => exact parseLoop_space _ _

theorem sep_length (r : Tags) : (renderChars r).length ≤ (sep r).length := by
  cases r with
  | nil => simp [sep, renderChars]
  | cons t r' => simp [sep]

/-- `structtag.Parse(tags.String())` returns the tags, a lone empty option dropped. -/
theorem parseLoop_render : ∀ (ts : Tags), WFTags ts → ∀ fuel, (renderChars ts).length < fuel →
    parseLoop fuel (renderChars ts) = .ok (ts.map Tag.norm) := by
  intro ts
  induction ts with
  | nil =>
    intro _ fuel hf
    cases fuel with
    | zero => simp at hf
    | succ n => simp [renderChars, parseLoop, scanPair_nil]
  | cons t r ih =>
    intro hwf fuel hf
    have ht : WFTag t := hwf t (by simp)
    have hr : WFTags r := fun x hx => hwf x (by simp [hx])
    cases fuel with
    | zero => simp at hf
    | succ n =>
      rw [renderChars_cons] at hf ⊢
      rw [parseLoop, scanPair_rendered ht.key _ _ (Tag.value_valChars ht)]
      simp only [unquoteBody_quoteChars _ (Tag.value_valChars ht), Tag.split_value ht]
      have hlen : (renderChars r).length < n := by
        have := sep_length r
        simp at hf
        omega
      rw [parseLoop_sep, ih hr n hlen]
      simp only [List.map_cons, String.ofList_toList, map_ofList_toList]
      congr 2
      rw [← Tag.norm_key t]

theorem parseLoop_wf : ∀ (fuel : Nat) (cs : List Char) (ts : Tags),
    parseLoop fuel cs = .ok ts → WFTags ts := by
  intro fuel
  induction fuel with
  | zero => intro cs ts h; simp [parseLoop] at h
  | succ n ih =>
    intro cs ts h
    rw [parseLoop] at h
    split at h
    · injection h with h; subst h; intro t ht; simp at ht
    · simp at h
    · rename_i key body rest hs
      split at h
      · simp at h
      · simp at h
      · rename_i v hv
        split at h
        · simp at h
        · rename_i name opts hsp
          split at h
          · rename_i ts' hts'
            injection h with h; subst h
            have hmem := splitCommaAll_mem v
            rw [hsp] at hmem
            have hvc := unquoteBody_ok_chars hv
            intro t ht
            simp only [List.mem_cons] at ht
            rcases ht with rfl | ht
            · refine ⟨?_, ?_, ?_⟩
              · simpa [String.toList_ofList] using (scanPair_pair hs).1
              · simp only [String.toList_ofList]
                have := hmem name (by simp)
                exact ⟨fun c hc => hvc c (this.2 c hc), this.1⟩
              · intro o ho
                simp only [List.mem_map] at ho
                obtain ⟨x, hx, rfl⟩ := ho
                simp only [String.toList_ofList]
                have := hmem x (by simp [hx])
                exact ⟨fun c hc => hvc c (this.2 c hc), this.1⟩
            · exact ih rest ts' hts' t ht
          · rename_i hne
            cases hp : parseLoop n rest with
            | ok ts' => exact absurd hp (hne ts')
            | _ => rw [hp] at h; simp at h

theorem parseLoop_no_crash : ∀ (fuel : Nat) (cs : List Char), cs.length < fuel →
    parseLoop fuel cs ≠ .hang ∧ parseLoop fuel cs ≠ .panic := by
  intro fuel
  induction fuel with
  | zero => intro cs h; simp at h
  | succ n ih =>
    intro cs hl
    rw [parseLoop]
    split
    · simp
    · simp
    · rename_i key body rest hs
      have hlt := (scanPair_pair hs).2
      have := ih rest (by omega)
      split
      · simp
      · simp
      · split
        · rename_i heq
          exact absurd heq (splitCommaAll_ne_nil _)
        · split
          · simp
          · rename_i e hne
            exact this

/-! ## strconv.Itoa / strconv.Atoi -/

def InRange (v : Int) : Prop := -(2 ^ 63 : Int) ≤ v ∧ v < (2 ^ 63 : Int)

theorem foldDigits_toDigits (n : Nat) :
    (Nat.toDigits 10 n).foldl (fun a c => a * 10 + (c.toNat - 48)) 0 = n := by
  induction n using Nat.strongRecOn with
  | _ n ih =>
    rw [Nat.toDigits_eq_if (by decide)]
    split
    · rename_i h
      simp [Nat.toNat_digitChar_sub_48_of_lt_ten h]
    · rename_i h
      rw [List.foldl_append, ih (n / 10) (by omega)]
      simp [Nat.toNat_digitChar_sub_48_of_lt_ten (Nat.mod_lt n (by decide : 0 < 10))]
      omega

theorem toDigits_all_digit (n : Nat) : (Nat.toDigits 10 n).all Char.isDigit = true := by
  rw [List.all_eq_true]
  intro c hc
  exact Nat.isDigit_of_mem_toDigits (by decide) (by decide) hc

theorem atoi_digits (ds : List Char) (hne : ds ≠ []) (hd : ds.all Char.isDigit = true) :
    atoi (String.ofList ds) =
      (let n : Nat := ds.foldl (fun a c => a * 10 + (c.toNat - 48)) 0
       if (n : Int) < -(2 ^ 63 : Int) ∨ (n : Int) ≥ (2 ^ 63 : Int) then none else some (n : Int)) := by
  cases ds with
  | nil => exact absurd rfl hne
  | cons d r =>
    have hdd : d.isDigit = true := by
      rw [List.all_eq_true] at hd; exact hd d (by simp)
    have h1 : d ≠ '-' := by rintro rfl; revert hdd; decide
    have h2 : d ≠ '+' := by rintro rfl; revert hdd; decide
    unfold atoi
    simp only [String.toList_ofList]
    split
    · rename_i r' hc; injection hc with hc _; exact absurd hc h1
    · rename_i r' hc; injection hc with hc _; exact absurd hc h2
    · simp only [List.isEmpty_cons, Bool.false_eq_true, ↓reduceIte, hd]

theorem atoi_neg_digits (ds : List Char) (hne : ds ≠ []) (hd : ds.all Char.isDigit = true) :
    atoi (String.ofList ('-' :: ds)) =
      (let n : Nat := ds.foldl (fun a c => a * 10 + (c.toNat - 48)) 0
       if -(n : Int) < -(2 ^ 63 : Int) ∨ -(n : Int) ≥ (2 ^ 63 : Int) then none else some (-(n : Int))) := by
  unfold atoi
  simp only [String.toList_ofList]
  have : ds.isEmpty = false := by cases ds <;> simp_all
  simp only [this, Bool.false_eq_true, ↓reduceIte, hd]

theorem itoa_nonneg {v : Int} (h : 0 ≤ v) : itoa v = String.ofList (Nat.toDigits 10 v.toNat) := by
  unfold itoa
  simp only [show ¬ v < 0 by omega, ↓reduceIte]
  rfl

theorem itoa_neg {v : Int} (h : v < 0) : itoa v = String.ofList ('-' :: Nat.toDigits 10 (-v).toNat) := by
  unfold itoa
  simp only [h, ↓reduceIte]
  rw [← String.toList_inj]
  simp [String.toList_append]

theorem atoi_itoa {v : Int} (h : InRange v) : atoi (itoa v) = some v := by
  by_cases hv : v < 0
  · rw [itoa_neg hv, atoi_neg_digits _ Nat.toDigits_ne_nil (toDigits_all_digit _)]
    simp only [foldDigits_toDigits]
    have : ((-v).toNat : Int) = -v := by omega
    rw [this]
    have h1 := h.1; have h2 := h.2
    simp only [Int.neg_neg]
    split
    · omega
    · rfl
  · rw [itoa_nonneg (by omega), atoi_digits _ Nat.toDigits_ne_nil (toDigits_all_digit _)]
    simp only [foldDigits_toDigits]
    have : (v.toNat : Int) = v := by omega
    rw [this]
    have h1 := h.1; have h2 := h.2
    split
    · omega
    · rfl

theorem atoi_inRange_aux (neg : Bool) (ds : List Char) (v : Int)
    (h : (if ds.isEmpty = true then none else
          if ds.all Char.isDigit = true then
            if (if neg = true then -((ds.foldl (fun a c => a * 10 + (c.toNat - 48)) 0 : Nat) : Int)
                else ((ds.foldl (fun a c => a * 10 + (c.toNat - 48)) 0 : Nat) : Int)) < -(2 ^ 63 : Int) ∨
               (if neg = true then -((ds.foldl (fun a c => a * 10 + (c.toNat - 48)) 0 : Nat) : Int)
                else ((ds.foldl (fun a c => a * 10 + (c.toNat - 48)) 0 : Nat) : Int)) ≥ (2 ^ 63 : Int)
            then none
            else some (if neg = true then -((ds.foldl (fun a c => a * 10 + (c.toNat - 48)) 0 : Nat) : Int)
                else ((ds.foldl (fun a c => a * 10 + (c.toNat - 48)) 0 : Nat) : Int))
          else none) = some v) : InRange v := by
  split at h
  · simp at h
  · split at h
    · cases neg
      · simp only [Bool.false_eq_true, ↓reduceIte] at h
        split at h
        · simp at h
        · rename_i hr
          injection h with h
          rw [h] at hr
          simp only [not_or, Int.not_lt, ge_iff_le, Int.not_le] at hr
          exact hr
      · simp only [↓reduceIte] at h
        split at h
        · simp at h
        · rename_i hr
          injection h with h
          rw [h] at hr
          simp only [not_or, Int.not_lt, ge_iff_le, Int.not_le] at hr
          exact hr
    · simp at h

theorem atoi_inRange {s : String} {v : Int} (h : atoi s = some v) : InRange v := by
  unfold atoi at h
  simp only at h
  split at h <;> exact atoi_inRange_aux _ _ _ h

theorem atoi_empty : atoi "" = none := by decide +kernel
theorem atoi_dash : atoi "-" = none := by decide +kernel

/-- the runes `Itoa` prints -/
theorem itoa_chars (v : Int) : ∀ c ∈ (itoa v).toList, c.isDigit = true ∨ c = '-' := by
  intro c hc
  by_cases hv : v < 0
  · rw [itoa_neg hv, String.toList_ofList] at hc
    simp only [List.mem_cons] at hc
    rcases hc with rfl | hc
    · exact Or.inr rfl
    · exact Or.inl (Nat.isDigit_of_mem_toDigits (by decide) (by decide) hc)
  · rw [itoa_nonneg (by omega), String.toList_ofList] at hc
    exact Or.inl (Nat.isDigit_of_mem_toDigits (by decide) (by decide) hc)

theorem isDigit_plain {c : Char} (h : c.isDigit = true) : ValChar c ∧ c ≠ ',' := by
  unfold ValChar
  constructor <;> (rintro rfl; revert h; decide)

theorem itoa_wf (v : Int) : ValChars (itoa v).toList ∧ ',' ∉ (itoa v).toList := by
  refine ⟨?_, ?_⟩
  · intro c hc
    rcases itoa_chars v c hc with h | rfl
    · exact (isDigit_plain h).1
    · unfold ValChar; decide
  · intro hc
    rcases itoa_chars v _ hc with h | h
    · exact (isDigit_plain h).2 rfl
    · revert h; decide

theorem itoa_ne_dash (v : Int) : itoa v ≠ "-" := by
  intro h
  by_cases hv : v < 0
  · rw [itoa_neg hv, ← String.toList_inj, String.toList_ofList] at h
    have : Nat.toDigits 10 (-v).toNat = [] := by
      have : ("-" : String).toList = ['-'] := by decide
      rw [this] at h
      simp at h
    exact Nat.toDigits_ne_nil this
  · rw [itoa_nonneg (by omega), ← String.toList_inj, String.toList_ofList] at h
    have hd := toDigits_all_digit v.toNat
    rw [h] at hd
    revert hd; decide

theorem itoa_ne_empty (v : Int) : itoa v ≠ "" := by
  intro h
  have := atoi_empty
  by_cases hv : v < 0
  · rw [itoa_neg hv, ← String.toList_inj, String.toList_ofList] at h
    simp at h
  · rw [itoa_nonneg (by omega), ← String.toList_inj, String.toList_ofList] at h
    simp at h

/-! ## extractTags -/

theorem extractTags_some (raw : String) :
    extractTags (some raw) = parseLoop (raw.toList.length + 1) raw.toList := by
  show (match structtagParse raw with
    | Out.ok none => (Out.ok [] : Out Tags)
    | Out.ok (some ts) => Out.ok ts
    | e => e.cast) = _
  unfold structtagParse
  generalize parseLoop (raw.toList.length + 1) raw.toList = p
  cases p with
  | ok ts =>
    simp only
    by_cases hc : raw ≠ "" ∧ ts.isEmpty = true
    · have : ts = [] := by simpa [List.isEmpty_iff] using hc.2
      simp [hc, this]
    · rw [if_neg hc]
  | err e => rfl
  | panic => rfl
  | hang => rfl
  | unsupported => rfl

theorem extractTags_wf {raw : Option String} {ts : Tags} (h : extractTags raw = .ok ts) : WFTags ts := by
  cases raw with
  | none => simp [extractTags] at h; subst h; intro t ht; simp at ht
  | some raw => rw [extractTags_some] at h; exact parseLoop_wf _ _ _ h

theorem extractTags_no_crash (raw : Option String) :
    extractTags raw ≠ .hang ∧ extractTags raw ≠ .panic := by
  cases raw with
  | none => simp [extractTags]
  | some raw => rw [extractTags_some]; exact parseLoop_no_crash _ _ (Nat.lt_succ_self _)

theorem extractTags_render {ts : Tags} (h : WFTags ts) :
    extractTags (some (Tags.render ts)) = .ok (ts.map Tag.norm) := by
  rw [extractTags_some]
  unfold Tags.render
  rw [String.toList_ofList]
  exact parseLoop_render ts h _ (Nat.lt_succ_self _)

/-! ## Tags.get / Tags.set -/

theorem Tags.get_map_norm (ts : Tags) (k : String) :
    Tags.get (ts.map Tag.norm) k = (Tags.get ts k).map Tag.norm := by
  unfold Tags.get
  rw [List.find?_map]
  congr 2
  funext t
  simp [Function.comp, Tag.norm_key]

theorem Tags.get_append_single (ts : Tags) (x : Tag) (k : String) :
    Tags.get (ts ++ [x]) k = (Tags.get ts k).or (if x.key = k then some x else none) := by
  unfold Tags.get
  rw [List.find?_append]
  congr 1
  simp only [List.find?_cons, List.find?_nil]
  split <;> simp_all

theorem Tags.get_key {ts : Tags} {k : String} {t : Tag} (h : Tags.get ts k = some t) : t.key = k ∧ t ∈ ts := by
  unfold Tags.get at h
  have h1 := List.find?_some h
  have h2 := List.mem_of_find?_eq_some h
  exact ⟨by simpa using h1, h2⟩

theorem Tags.set_of_get_none {ts : Tags} {t : Tag} (hk : t.key ≠ "") (h : Tags.get ts t.key = none) :
    Tags.set ts t = ts ++ [t] := by
  unfold Tags.set
  have : ts.any (fun x => x.key == t.key) = false := by
    rw [List.any_eq_false]
    unfold Tags.get at h
    rw [List.find?_eq_none] at h
    exact h
  simp [hk, this]

theorem plencTag_key (n : String) : (plencTag n).key = "plenc" := rfl

theorem plenc_keyChars : KeyChars ("plenc" : String).toList := by
  have : ("plenc" : String).toList = ['p', 'l', 'e', 'n', 'c'] := by decide
  rw [this]
  refine ⟨by simp, ?_⟩
  decide

theorem wf_plencTag_dash : WFTag (plencTag "-") := by
  have : ("-" : String).toList = ['-'] := by decide
  refine ⟨plenc_keyChars, ?_, ?_⟩
  · show ValChars ("-" : String).toList ∧ ',' ∉ ("-" : String).toList
    rw [this]
    refine ⟨?_, by decide⟩
    intro c hc
    simp only [List.mem_cons, List.not_mem_nil, or_false] at hc
    subst hc
    unfold ValChar; decide
  · intro o ho; simp [plencTag] at ho

theorem wf_plencTag_itoa (v : Int) : WFTag (plencTag (itoa v)) := by
  refine ⟨plenc_keyChars, itoa_wf v, ?_⟩
  intro o ho; simp [plencTag] at ho

theorem plencTag_norm (n : String) : (plencTag n).norm = plencTag n := by
  unfold Tag.norm plencTag; simp

theorem plenc_ne_empty : ("plenc" : String) ≠ "" := by decide


/-! ## Parse on the old text followed by a further tag (main.go `appendTag`) -/

def AllSpace (l : List Char) : Prop := ∀ c ∈ l, c = ' '

theorem dropWhile_eq_nil {α} (p : α → Bool) : ∀ (l : List α), l.dropWhile p = [] → ∀ x ∈ l, p x = true := by
  intro l
  induction l with
  | nil => intro _ x hx; simp at hx
  | cons a r ih =>
    intro h x hx
    rw [List.dropWhile_cons] at h
    split at h
    · rename_i hp
      simp only [List.mem_cons] at hx
      rcases hx with rfl | hx
      · exact hp
      · exact ih h x hx
    · simp at h

theorem dropWhile_head {α} (p : α → Bool) : ∀ (l : List α) (a : α) (t : List α),
    l.dropWhile p = a :: t → p a = false := by
  intro l
  induction l with
  | nil => intro a t h; simp at h
  | cons x r ih =>
    intro a t h
    rw [List.dropWhile_cons] at h
    split at h
    · exact ih a t h
    · rename_i hp
      injection h with h1 _
      subst h1
      simpa using hp

theorem scanPair_spaces_append {sp : List Char} (h : AllSpace sp) (rest : List Char) :
    scanPair (sp ++ rest) = scanPair rest := by
  unfold scanPair
  rw [List.dropWhile_append_of_pos (fun c hc => by simp [h c hc])]

/-- the canonical fuel -/
def parseFull (cs : List Char) : Out Tags := parseLoop (cs.length + 1) cs

theorem parseLoop_fuel : ∀ (n n' : Nat) (cs : List Char), cs.length < n → cs.length < n' →
    parseLoop n cs = parseLoop n' cs := by
  intro n
  induction n with
  | zero => intro n' cs h; simp at h
  | succ n ih =>
    intro n' cs h h'
    cases n' with
    | zero => simp at h'
    | succ n' =>
      rw [parseLoop, parseLoop]
      split
      · rfl
      · rfl
      · rename_i k b rest hs
        have := (scanPair_pair hs).2
        rw [ih n' rest (by omega) (by omega)]

theorem parseLoop_eq_full {n : Nat} {cs : List Char} (h : cs.length < n) : parseLoop n cs = parseFull cs :=
  parseLoop_fuel _ _ _ h (Nat.lt_succ_self _)

theorem extractTags_eq_full (raw : String) : extractTags (some raw) = parseFull raw.toList :=
  extractTags_some raw

theorem parseFull_spaces_append {sp : List Char} (h : AllSpace sp) (rest : List Char) :
    parseFull (sp ++ rest) = parseFull rest := by
  unfold parseFull
  rw [parseLoop, parseLoop, scanPair_spaces_append h]
  split
  · rfl
  · rfl
  · rename_i k b rest' hs
    have := (scanPair_pair hs).2
    rw [parseLoop_fuel (sp ++ rest).length rest.length rest' (by simp; omega) this]

theorem parseFull_done {cs : List Char} (h : scanPair cs = .done) : parseFull cs = .ok [] := by
  unfold parseFull; rw [parseLoop, h]

theorem parseFull_pair {cs k b rest v name : List Char} {opts : List (List Char)} {ts : Tags}
    (hs : scanPair cs = .pair k b rest) (hv : unquoteBody b = .ok v)
    (hsp : splitCommaAll v = name :: opts) (hr : parseFull rest = .ok ts) :
    parseFull cs = .ok (⟨String.ofList k, String.ofList name, opts.map String.ofList⟩ :: ts) := by
  unfold parseFull
  rw [parseLoop, hs]
  simp only [hv, hsp]
  rw [parseLoop_eq_full (scanPair_pair hs).2, hr]

theorem parseFull_inv {cs : List Char} {ts : Tags} (h : parseFull cs = .ok ts) :
    (scanPair cs = .done ∧ ts = []) ∨
    ∃ k b rest v name opts ts', scanPair cs = .pair k b rest ∧ unquoteBody b = .ok v ∧
      splitCommaAll v = name :: opts ∧ parseFull rest = .ok ts' ∧
      ts = ⟨String.ofList k, String.ofList name, opts.map String.ofList⟩ :: ts' := by
  unfold parseFull at h
  rw [parseLoop] at h
  split at h
  · rename_i hs; injection h with h; exact Or.inl ⟨hs, h.symm⟩
  · simp at h
  · rename_i k b rest hs
    split at h
    · simp at h
    · simp at h
    · rename_i v hv
      split at h
      · simp at h
      · rename_i name opts hsp
        split at h
        · rename_i ts' hts'
          injection h with h
          rw [parseLoop_eq_full (scanPair_pair hs).2] at hts'
          exact Or.inr ⟨k, b, rest, v, name, opts, ts', hs, hv, hsp, hts', h.symm⟩
        · rename_i hne
          cases hp : parseLoop cs.length rest with
          | ok ts' => exact absurd hp (hne ts')
          | _ => rw [hp] at h; simp at h

theorem scanKey_ne_done (t : List Char) : scanKey t ≠ .done := by
  unfold scanKey
  simp only
  split
  · simp
  · unfold scanAfterKey
    split
    · simp
    · simp
    · split
      · simp
      · split
        · simp
        · split <;> simp

theorem scanPair_done {cs : List Char} (h : scanPair cs = .done) : AllSpace cs := by
  unfold scanPair at h
  simp only at h
  split at h
  · rename_i he
    have : List.dropWhile (fun c => decide (c = ' ')) cs = [] := by simpa [List.isEmpty_iff] using he
    intro c hc
    simpa using dropWhile_eq_nil _ cs this c hc
  · exact absurd h (scanKey_ne_done _)

/-- the quoted-string scan only looks at the text up to the closing quote. -/
theorem scanQ_local : ∀ (r : List Char) (esc : Bool) (b rest : List Char),
    scanQ esc r = some (b, rest) →
    ∃ q, r = q ++ '"' :: rest ∧ ∀ y, scanQ esc (q ++ '"' :: y) = some (b, y) := by
  intro r
  induction r with
  | nil => intro esc b rest h; simp [scanQ] at h
  | cons c r ih =>
    intro esc b rest h
    cases esc
    · rw [scanQ] at h
      split at h
      · rename_i hc
        injection h with h; injection h with h1 h2
        subst h1; subst h2; subst hc
        exact ⟨[], rfl, fun y => by simp [scanQ]⟩
      · rename_i hc
        split at h
        · rename_i hb
          simp only [Option.map_eq_some_iff] at h
          obtain ⟨p, hp, he⟩ := h
          injection he with h1 h2
          obtain ⟨q, hq, hy⟩ := ih true p.1 p.2 hp
          subst h2
          refine ⟨c :: q, by rw [hq]; rfl, fun y => ?_⟩
          simp only [List.cons_append]
          rw [scanQ]
          rw [if_neg hc, if_pos hb, hy y]
          simp only [Option.map_some, h1]
        · rename_i hb
          simp only [Option.map_eq_some_iff] at h
          obtain ⟨p, hp, he⟩ := h
          injection he with h1 h2
          obtain ⟨q, hq, hy⟩ := ih false p.1 p.2 hp
          subst h2
          refine ⟨c :: q, by rw [hq]; rfl, fun y => ?_⟩
          simp only [List.cons_append]
          rw [scanQ]
          simp only [hc, hb, ↓reduceIte, hy y, Option.map_some, h1]
    · rw [scanQ] at h
      simp only [Option.map_eq_some_iff] at h
      obtain ⟨p, hp, he⟩ := h
      injection he with h1 h2
      obtain ⟨q, hq, hy⟩ := ih false p.1 p.2 hp
      subst h2
      refine ⟨c :: q, by rw [hq]; rfl, fun y => ?_⟩
      simp only [List.cons_append]
      rw [scanQ]
      simp only [hy y, Option.map_some, h1]

theorem scanPair_key_colon {key : List Char} (hk : KeyChars key) {r b rest : List Char}
    (hq : scanQuoted r = some (b, rest)) :
    scanPair (key ++ ':' :: '"' :: r) = .pair key b rest := by
  obtain ⟨hne, hall⟩ := hk
  cases key with
  | nil => exact absurd rfl hne
  | cons k0 kr =>
    have hk0 : keyChar k0 = true := hall k0 (by simp)
    have hsp : ¬ k0 = ' ' := keyChar_ne_space hk0
    unfold scanPair
    simp only [List.cons_append, List.dropWhile_cons, hsp, decide_false, Bool.false_eq_true,
      ↓reduceIte, List.isEmpty_cons]
    unfold scanKey
    have hcolon : keyChar ':' = false := by decide
    have htw : List.takeWhile keyChar (k0 :: (kr ++ ':' :: '"' :: r)) = k0 :: kr := by
      rw [← List.cons_append, List.takeWhile_append_of_pos hall, List.takeWhile_cons]
      simp [hcolon]
    have hdw : List.dropWhile keyChar (k0 :: (kr ++ ':' :: '"' :: r)) = ':' :: '"' :: r := by
      rw [← List.cons_append, List.dropWhile_append_of_pos hall, List.dropWhile_cons]
      simp [hcolon]
    simp only [htw, hdw, List.isEmpty_cons, Bool.false_eq_true, ↓reduceIte]
    unfold scanAfterKey
    simp [hq]

theorem scanAfterKey_pair' {key t k b rest : List Char} (h : scanAfterKey key t = .pair k b rest) :
    k = key ∧ ∃ r, t = ':' :: '"' :: r ∧ scanQuoted r = some (b, rest) := by
  unfold scanAfterKey at h
  split at h
  · simp at h
  · simp at h
  · rename_i c d r
    split at h
    · simp at h
    · rename_i hc
      split at h
      · simp at h
      · rename_i hd
        split at h
        · simp at h
        · rename_i body rest' hq
          injection h with h1 h2 h3
          subst h2; subst h3
          simp only [ne_eq, Decidable.not_not] at hc hd
          subst hc; subst hd
          exact ⟨h1.symm, r, rfl, hq⟩

/-- one round of the scanner only looks at the text up to the closing quote of the pair. -/
theorem scanPair_local {cs k b rest : List Char} (h : scanPair cs = .pair k b rest) :
    ∃ pre, cs = pre ++ '"' :: rest ∧ ∀ y, scanPair (pre ++ '"' :: y) = .pair k b y := by
  have hk := (scanPair_pair h).1
  unfold scanPair at h
  simp only at h
  split at h
  · simp at h
  · unfold scanKey at h
    simp only at h
    split at h
    · simp at h
    · obtain ⟨hkey, r, hr, hq⟩ := scanAfterKey_pair' h
      obtain ⟨q, hq1, hq2⟩ := scanQ_local r false b rest hq
      have hsps : AllSpace (List.takeWhile (fun c => decide (c = ' ')) cs) :=
        fun c hc => of_decide_eq_true (takeWhile_mem _ cs c hc)
      have e1 : cs = List.takeWhile (fun c => decide (c = ' ')) cs ++
          List.dropWhile (fun c => decide (c = ' ')) cs := (List.takeWhile_append_dropWhile).symm
      have e2 : List.dropWhile (fun c => decide (c = ' ')) cs = k ++ ':' :: '"' :: (q ++ '"' :: rest) := by
        rw [← hq1, ← hr, hkey]
        exact (List.takeWhile_append_dropWhile).symm
      refine ⟨List.takeWhile (fun c => decide (c = ' ')) cs ++ k ++ ':' :: '"' :: q, ?_, ?_⟩
      · rw [e2] at e1
        simp only [List.append_assoc, List.cons_append]
        exact e1
      · intro y
        have : List.takeWhile (fun c => decide (c = ' ')) cs ++ k ++ ':' :: '"' :: q ++ '"' :: y =
            List.takeWhile (fun c => decide (c = ' ')) cs ++ (k ++ ':' :: '"' :: (q ++ '"' :: y)) := by
          simp
        rw [this, scanPair_spaces_append hsps]
        exact scanPair_key_colon hk (hq2 y)

def NoTrail (o : List Char) : Prop := ∀ o', o ≠ o' ++ [' ']

theorem quote_ne_space : ('"' : Char) ≠ ' ' := by decide

/-- structtag reads the old text (trailing spaces removed) followed by a space
and more tags as the old tags followed by the new ones. -/
theorem parseFull_append_tail : ∀ (N : Nat) (cs : List Char), cs.length < N → ∀ (ts : Tags),
    parseFull cs = .ok ts → ∀ (o sp : List Char), cs = o ++ sp → AllSpace sp → NoTrail o →
    ∀ (tail : List Char) (ts2 : Tags), parseFull tail = .ok ts2 →
    parseFull (o ++ ' ' :: tail) = .ok (ts ++ ts2) := by
  intro N
  induction N with
  | zero => intro cs hl; exact absurd hl (Nat.not_lt_zero _)
  | succ N ih =>
    intro cs hl ts h o sp hcs hsp hnt tail ts2 ht
    rcases parseFull_inv h with ⟨hd, e⟩ | ⟨k, b, rest, v, name, opts, ts', hs, hv, hsplit, hr, e⟩
    · subst e
      have hall := scanPair_done hd
      have ho : o = [] := by
        rcases List.eq_nil_or_concat o with ho | ⟨o', c, ho⟩
        · exact ho
        · exfalso
          rw [List.concat_eq_append] at ho
          have hc : c = ' ' := hall c (by
            rw [hcs, ho]
            exact List.mem_append_left _ (List.mem_append_right _ (List.mem_singleton.mpr rfl)))
          exact hnt o' (by rw [ho, hc])
      subst ho
      have : parseFull ([] ++ ' ' :: tail) = parseFull tail :=
        parseFull_spaces_append (sp := [' ']) (fun c hc => List.mem_singleton.mp hc) tail
      rw [this, ht]; rfl
    · obtain ⟨pre, hpre, hloc⟩ := scanPair_local hs
      have hlen := (scanPair_pair hs).2
      rw [hcs] at hpre
      rcases List.append_eq_append_iff.mp hpre with ⟨a', _, hsp'⟩ | ⟨c', ho, hrest⟩
      · exfalso
        have := hsp '"' (by rw [hsp']; exact List.mem_append_right _ (List.mem_cons_self ..))
        exact quote_ne_space this
      · cases c' with
        | nil =>
          exfalso
          simp only [List.nil_append] at hrest
          have := hsp '"' (by rw [← hrest]; exact List.mem_cons_self ..)
          exact quote_ne_space this
        | cons x c'' =>
          simp only [List.cons_append, List.cons.injEq] at hrest
          obtain ⟨hx, hrest⟩ := hrest
          subst hx
          have hnt' : NoTrail c'' := by
            intro o' e
            exact hnt (pre ++ '"' :: o') (by rw [ho, e]; simp)
          have ih' := ih rest (by omega) ts' hr c'' sp hrest hsp hnt' tail ts2 ht
          have hgoal : o ++ ' ' :: tail = pre ++ '"' :: (c'' ++ ' ' :: tail) := by rw [ho]; simp
          rw [hgoal, parseFull_pair (hloc _) hv hsplit ih', e]
          rfl

theorem trim_spec (cs : List Char) :
    ∃ sp, cs = trimRightSpaces cs ++ sp ∧ AllSpace sp ∧ NoTrail (trimRightSpaces cs) := by
  unfold trimRightSpaces
  refine ⟨(cs.reverse.takeWhile (fun c => decide (c = ' '))).reverse, ?_, ?_, ?_⟩
  · rw [← List.reverse_append, List.takeWhile_append_dropWhile, List.reverse_reverse]
  · intro c hc
    exact of_decide_eq_true (takeWhile_mem _ cs.reverse c (List.mem_reverse.mp hc))
  · intro o' e
    have : List.dropWhile (fun c => decide (c = ' ')) cs.reverse = ' ' :: o'.reverse := by
      have := congrArg List.reverse e
      simpa using this
    have := dropWhile_head _ _ _ _ this
    simp at this

theorem goIsSpace_quote : goIsSpace '"' = false := by decide

/-- a tag whose text is blank in the sense of `strings.TrimSpace` has no pair. -/
theorem parseFull_blank {o sp : List Char} {ts : Tags} (h : parseFull (o ++ sp) = .ok ts)
    (hsp : AllSpace sp) (hb : o.all goIsSpace = true) : ts = [] := by
  rcases parseFull_inv h with ⟨_, e⟩ | ⟨k, b, rest, _, _, _, _, hs, _⟩
  · exact e
  · exfalso
    obtain ⟨pre, hpre, _⟩ := scanPair_local hs
    have hm : '"' ∈ o ++ sp := by rw [hpre]; simp
    simp only [List.mem_append] at hm
    rcases hm with hm | hm
    · have := List.all_eq_true.mp hb _ hm
      rw [goIsSpace_quote] at this; simp at this
    · exact quote_ne_space (hsp _ hm)

theorem parse_plencTag {n : String} (hn : WFTag (plencTag n)) :
    parseFull (Tags.render [plencTag n]).toList = .ok [plencTag n] := by
  have h := extractTags_render (ts := [plencTag n]) (fun t ht => by
    simp only [List.mem_cons, List.not_mem_nil, or_false] at ht; subst ht; exact hn)
  rw [extractTags_eq_full] at h
  simpa [plencTag_norm] using h

/-- re-reading a tag literal the tool has just extended: the old tags, then the plenc tag. -/
theorem extractTags_setTag {f : Field} {tags : Tags} {n : String}
    (hts : extractTags f.rawTag = .ok tags) (hn : WFTag (plencTag n)) :
    extractTags (setTag f n).rawTag = .ok (tags ++ [plencTag n]) := by
  show extractTags (some (appendTag f.rawTag (Tags.render [plencTag n]))) = _
  cases hr : f.rawTag with
  | none =>
    rw [hr] at hts
    simp only [extractTags, Out.ok.injEq] at hts
    subst hts
    simp only [appendTag, List.nil_append]
    rw [extractTags_eq_full]
    exact parse_plencTag hn
  | some old =>
    rw [hr, extractTags_eq_full] at hts
    obtain ⟨sp, hcs, hsp, hnt⟩ := trim_spec old.toList
    unfold appendTag
    simp only
    by_cases hb : (trimRightSpaces old.toList).all goIsSpace = true
    · rw [if_pos hb]
      rw [hcs] at hts
      have := parseFull_blank hts hsp hb
      subst this
      rw [extractTags_eq_full]
      exact parse_plencTag hn
    · rw [if_neg hb, extractTags_eq_full, String.toList_ofList]
      exact parseFull_append_tail (old.toList.length + 1) old.toList (Nat.lt_succ_self _) tags hts
        _ sp hcs hsp hnt _ _ (parse_plencTag hn)

theorem get_plenc_after {tags : Tags} {n : String} (hg : Tags.get tags "plenc" = none) :
    Tags.get (tags ++ [plencTag n]) "plenc" = some (plencTag n) := by
  rw [Tags.get_append_single, hg]
  simp [plencTag]

/-- the old text is kept byte for byte, up to trailing spaces: the new literal is
the plenc tag alone (no or blank old text) or the old text without its trailing
spaces, one space, the plenc tag. -/
theorem setTag_text (f : Field) (n : String) :
    (setTag f n).names = f.names ∧ (setTag f n).embeddedName = f.embeddedName ∧
    ∃ new, (setTag f n).rawTag = some new ∧
      (((f.rawTag = none ∨ ∃ old, f.rawTag = some old ∧ (trimRightSpaces old.toList).all goIsSpace = true) ∧
          new = Tags.render [plencTag n]) ∨
       (∃ old sp, f.rawTag = some old ∧ old.toList = trimRightSpaces old.toList ++ sp ∧ AllSpace sp ∧
          new.toList = trimRightSpaces old.toList ++ ' ' :: (Tags.render [plencTag n]).toList)) := by
  refine ⟨rfl, rfl, _, rfl, ?_⟩
  cases hr : f.rawTag with
  | none => exact Or.inl ⟨Or.inl rfl, rfl⟩
  | some old =>
    obtain ⟨sp, hcs, hsp, _⟩ := trim_spec old.toList
    by_cases hb : (trimRightSpaces old.toList).all goIsSpace = true
    · left
      refine ⟨Or.inr ⟨old, rfl, hb⟩, ?_⟩
      simp only [appendTag, hb, ↓reduceIte]
    · right
      refine ⟨old, sp, rfl, hcs, hsp, ?_⟩
      simp only [appendTag, hb, Bool.false_eq_true, ↓reduceIte, String.toList_ofList]

/-- `plenc:"N"` as the tool prints it -/
theorem render_plencTag (n : String) :
    (Tags.render [plencTag n]).toList = "plenc".toList ++ ':' :: '"' :: (quoteChars n.toList ++ ['"']) := by
  unfold Tags.render
  rw [String.toList_ofList]
  simp [renderChars, Tag.render, Tag.value, plencTag, joinComma]
/-! ## what can be observed on a field -/

/-- the field carries a readable tag with a `plenc` key -/
def hasPlenc (f : Field) : Bool :=
  match extractTags f.rawTag with
  | .ok ts => (Tags.get ts "plenc").isSome
  | _ => false

/-- the plenc index written on the field, if any (`-` is not an index) -/
def plencIndex (f : Field) : Option Int :=
  match extractTags f.rawTag with
  | .ok ts =>
    match Tags.get ts "plenc" with
    | some t => if t.name = "-" then none else atoi t.name
    | none => none
  | _ => none

/-- element-wise relation of two lists of the same length -/
def Pointwise {α β : Type} (R : α → β → Prop) : List α → List β → Prop
  | [], [] => True
  | a :: as, b :: bs => R a b ∧ Pointwise R as bs
  | _, _ => False

theorem Pointwise.length {α β : Type} {R : α → β → Prop} : ∀ {l₁ : List α} {l₂ : List β},
    Pointwise R l₁ l₂ → l₁.length = l₂.length
  | [], [], _ => rfl
  | _ :: _, _ :: _, h => by simp [Pointwise.length h.2]
  | [], _ :: _, h => h.elim
  | _ :: _, [], h => h.elim

theorem Pointwise.imp {α β : Type} {R S : α → β → Prop} (hrs : ∀ a b, R a b → S a b) :
    ∀ {l₁ : List α} {l₂ : List β}, Pointwise R l₁ l₂ → Pointwise S l₁ l₂
  | [], [], _ => trivial
  | _ :: _, _ :: _, h => ⟨hrs _ _ h.1, Pointwise.imp hrs h.2⟩
  | [], _ :: _, h => h.elim
  | _ :: _, [], h => h.elim

/-- the same with the knowledge that the left element is a member -/
theorem Pointwise.imp_mem {α β : Type} {R S : α → β → Prop} :
    ∀ {l₁ : List α} {l₂ : List β}, (∀ a b, a ∈ l₁ → R a b → S a b) → Pointwise R l₁ l₂ → Pointwise S l₁ l₂
  | [], [], _, _ => trivial
  | a :: as, _ :: _, hrs, h =>
    ⟨hrs _ _ (by simp) h.1, Pointwise.imp_mem (fun x y hx => hrs x y (by simp [hx])) h.2⟩
  | [], _ :: _, _, h => h.elim
  | _ :: _, [], _, h => h.elim

theorem Pointwise.getElem {α β : Type} {R : α → β → Prop} : ∀ {l₁ : List α} {l₂ : List β},
    Pointwise R l₁ l₂ → ∀ (i : Nat) (h₁ : i < l₁.length) (h₂ : i < l₂.length), R l₁[i] l₂[i]
  | [], [], _, i, h₁, _ => by simp at h₁
  | _ :: _, _ :: _, h, 0, _, _ => h.1
  | _ :: _, _ :: _, h, i + 1, h₁, h₂ => by
      simpa using Pointwise.getElem h.2 i (by simpa using h₁) (by simpa using h₂)
  | [], _ :: _, h, _, _, _ => h.elim
  | _ :: _, [], h, _, _, _ => h.elim

/-! ## the loop body -/

theorem fieldName_ok (f : Field) : ∃ name, fieldName f = .ok name := by
  unfold fieldName
  split
  · exact ⟨_, rfl⟩
  · rename_i h
    cases hn : f.names with
    | nil => rw [hn] at h; simp at h
    | cons a r => exact ⟨_, rfl⟩

theorem Out.status_fine {α} {e : Out α} (h : e.status = .fine) : ∃ a, e = .ok a := by
  cases e <;> simp [Out.status] at h
  exact ⟨_, rfl⟩

theorem classify_add {fl : Flags} {f : Field} {tags : Tags} {ex : Bool}
    (h : classify fl f = .add tags ex) :
    f.names.length ≤ 1 ∧ extractTags f.rawTag = .ok tags ∧ Tags.get tags "plenc" = none ∧
    ex = isExcluded fl tags ∧
    ∃ name, fieldName f = .ok name ∧ (fl.priv && lowerFirst fl name) = false := by
  unfold classify at h
  split at h
  · rename_i name hn
    split at h
    · simp at h
    · rename_i hp
      split at h
      · split at h
        · simp at h
        · split at h
          · split at h <;> simp at h
          · simp at h
          · simp at h
      · rename_i hl
        split at h
        · rename_i ts hts
          split at h
          · simp at h
          · rename_i hg
            injection h with h1 h2
            subst h1
            refine ⟨by omega, hts, ?_, h2.symm, name, hn, by simpa using hp⟩
            simpa using hg
        · simp at h
  · simp at h

theorem classify_skip {fl : Flags} {f : Field} (h : classify fl f = .skip) :
    (∃ name, fieldName f = .ok name ∧ fl.priv = true ∧ lowerFirst fl name = true) ∨ hasPlenc f = true := by
  unfold classify at h
  split at h
  · rename_i name hn
    split at h
    · rename_i hp
      simp only [Bool.and_eq_true] at hp
      exact Or.inl ⟨name, hn, hp.1, hp.2⟩
    · split at h
      · split at h
        · simp at h
        · rename_i raw hraw
          split at h
          · rename_i ts hts
            split at h
            · rename_i hg
              right
              unfold hasPlenc
              rw [hraw, hts]
              exact hg
            · simp at h
          · simp at h
          · simp at h
      · split at h
        · rename_i ts hts
          split at h
          · rename_i hg
            right
            unfold hasPlenc
            rw [hts]
            exact hg
          · simp at h
        · simp at h
  · simp at h

/-- a recorded status is never "fine", a panic or a hang. -/
theorem classify_stop {fl : Flags} {f : Field} {s : Status} (h : classify fl f = .stop s) :
    s ≠ .fine ∧ s ≠ .crash ∧ s ≠ .hang := by
  have key : ∀ (raw : Option String), (∀ ts, extractTags raw = .ok ts → False) →
      (extractTags raw).status ≠ .fine ∧ (extractTags raw).status ≠ .crash ∧
      (extractTags raw).status ≠ .hang := by
    intro raw hno
    have hc := extractTags_no_crash raw
    cases he : extractTags raw with
    | ok ts => exact (hno ts he).elim
    | err e => simp [Out.status]
    | panic => exact absurd he hc.2
    | hang => exact absurd he hc.1
    | unsupported => simp [Out.status]
  unfold classify at h
  split at h
  · rename_i name hn
    split at h
    · simp at h
    · split at h
      · split at h
        · injection h with h; subst h; simp
        · rename_i raw hraw
          split at h
          · split at h
            · simp at h
            · injection h with h; subst h; simp
          · injection h with h; subst h; simp
          · rename_i hno1 hno2
            injection h with h; subst h
            exact key (some raw) hno1
      · split at h
        · split at h <;> simp at h
        · rename_i hno
          injection h with h; subst h
          exact key _ hno
  · rename_i hno
    obtain ⟨name, hn⟩ := fieldName_ok f
    exact (hno name hn).elim

theorem classify_fine {fl : Flags} {f : Field} (h : (classify fl f).status = .fine) :
    classify fl f = .skip ∨ ∃ tags ex, classify fl f = .add tags ex := by
  cases hc : classify fl f with
  | skip => exact Or.inl rfl
  | add tags ex => exact Or.inr ⟨tags, ex, rfl⟩
  | stop s =>
    rw [hc] at h
    exact absurd h (classify_stop hc).1

/-- a field the tool has just tagged is left alone by the next run. -/
theorem classify_setTag {fl : Flags} {f : Field} {tags : Tags} {ex : Bool} {n : String}
    (h : classify fl f = .add tags ex) (hn : WFTag (plencTag n)) :
    classify fl (setTag f n) = .skip := by
  obtain ⟨hl, hts, hg, _, name, hname, hp⟩ := classify_add h
  have hfn : fieldName (setTag f n) = .ok name := hname
  have hnames : (setTag f n).names = f.names := rfl
  have hx := extractTags_setTag hts hn
  unfold classify
  rw [hfn]
  simp only [hp, Bool.false_eq_true, ↓reduceIte, hnames, show ¬ f.names.length > 1 by omega, hx,
    get_plenc_after hg, Option.isSome_some]

theorem hasPlenc_setTag {f : Field} {tags : Tags} {n : String}
    (hts : extractTags f.rawTag = .ok tags) (hg : Tags.get tags "plenc" = none)
    (hn : WFTag (plencTag n)) : hasPlenc (setTag f n) = true := by
  unfold hasPlenc
  simp only [extractTags_setTag hts hn, get_plenc_after hg, Option.isSome_some]

theorem plencIndex_setTag_dash {f : Field} {tags : Tags}
    (hts : extractTags f.rawTag = .ok tags) (hg : Tags.get tags "plenc" = none) :
    plencIndex (setTag f "-") = none := by
  unfold plencIndex
  simp only [extractTags_setTag hts wf_plencTag_dash, get_plenc_after hg]
  simp [plencTag]

theorem plencIndex_setTag_itoa {f : Field} {tags : Tags} {v : Int}
    (hts : extractTags f.rawTag = .ok tags) (hg : Tags.get tags "plenc" = none) (hv : InRange v) :
    plencIndex (setTag f (itoa v)) = some v := by
  unfold plencIndex
  simp only [extractTags_setTag hts (wf_plencTag_itoa v), get_plenc_after hg]
  simp [plencTag, itoa_ne_dash, atoi_itoa hv]

/-! ## the first loop -/

theorem plencValue_inRange {raw : String} {v : Int} (h : plencValue raw = .ok v) : InRange v := by
  unfold plencValue at h
  split at h
  · split at h
    · injection h with h; subst h; unfold InRange; omega
    · split at h
      · injection h with h; subst h; unfold InRange; omega
      · split at h
        · rename_i hv; injection h with h; subst h; exact atoi_inRange hv
        · simp at h
  · rename_i hne
    cases he : extractTags (some raw) with
    | ok a => exact (hne a he).elim
    | _ => rw [he] at h; simp [Out.cast] at h

theorem plencValue_no_crash (raw : String) : plencValue raw ≠ .panic ∧ plencValue raw ≠ .hang := by
  have hc := extractTags_no_crash (some raw)
  unfold plencValue
  split
  · split
    · simp
    · split
      · simp
      · split <;> simp
  · rename_i hne
    cases he : extractTags (some raw) with
    | ok a => exact (hne a he).elim
    | err e => simp [Out.cast]
    | panic => exact absurd he hc.2
    | hang => exact absurd he hc.1
    | unsupported => simp [Out.cast]

theorem status1_no_crash (f : Field) : status1 f ≠ .crash ∧ status1 f ≠ .hang := by
  unfold status1
  split
  · simp
  · rename_i raw _
    have := plencValue_no_crash raw
    cases h : plencValue raw <;> simp_all [Out.status]

theorem plencIndex_value {f : Field} {v : Int} (h : plencIndex f = some v) :
    ∃ raw, f.rawTag = some raw ∧ plencValue raw = .ok v := by
  unfold plencIndex at h
  cases hr : f.rawTag with
  | none => rw [hr] at h; simp [extractTags, Tags.get] at h
  | some raw =>
    refine ⟨raw, rfl, ?_⟩
    rw [hr] at h
    unfold plencValue
    split at h
    · rename_i ts hts
      rw [hts]
      simp only
      split at h
      · rename_i t ht
        simp only [ht]
        split at h
        · simp at h
        · rename_i hd
          simp only [hd, ↓reduceIte, h]
      · simp at h
    · simp at h

theorem maxStep_mono (m : Int) (f : Field) : m ≤ maxStep m f := by
  unfold maxStep
  split
  · omega
  · split
    · split <;> omega
    · omega

theorem foldl_maxStep_mono (fs : List Field) : ∀ m, m ≤ fs.foldl maxStep m := by
  induction fs with
  | nil => intro m; simp
  | cons f r ih =>
    intro m
    simp only [List.foldl_cons]
    exact Int.le_trans (maxStep_mono m f) (ih _)

theorem foldl_maxStep_ge (fs : List Field) : ∀ m f v, f ∈ fs → plencIndex f = some v →
    v ≤ fs.foldl maxStep m := by
  induction fs with
  | nil => intro m f v hf; simp at hf
  | cons g r ih =>
    intro m f v hf hv
    simp only [List.foldl_cons]
    simp only [List.mem_cons] at hf
    rcases hf with rfl | hf
    · obtain ⟨raw, hraw, hval⟩ := plencIndex_value hv
      have : v ≤ maxStep m f := by
        unfold maxStep
        rw [hraw]
        simp only [hval]
        split <;> omega
      exact Int.le_trans this (foldl_maxStep_mono r _)
    · exact ih _ f v hf hv

/-- every index present before the run is at most `maxPlenc`. -/
theorem le_maxPlenc {fs : List Field} {f : Field} {v : Int} (hf : f ∈ fs) (hv : plencIndex f = some v) :
    v ≤ maxPlenc fs := foldl_maxStep_ge fs 0 f v hf hv

theorem maxStep_inRange {m : Int} (f : Field) (h : InRange m) : InRange (maxStep m f) := by
  unfold maxStep
  split
  · exact h
  · split
    · rename_i v hv
      split
      · exact plencValue_inRange hv
      · exact h
    · exact h

theorem maxPlenc_inRange (fs : List Field) : InRange (maxPlenc fs) := by
  unfold maxPlenc
  have : ∀ (l : List Field) m, InRange m → InRange (l.foldl maxStep m) := by
    intro l
    induction l with
    | nil => intro m h; exact h
    | cons f r ih => intro m h; exact ih _ (maxStep_inRange f h)
  exact this fs 0 (by unfold InRange; omega)

theorem maxPlenc_nonneg (fs : List Field) : 0 ≤ maxPlenc fs := foldl_maxStep_mono fs 0

/-! ## statuses -/

theorem Status.merge_fine {a b : Status} : a.merge b = .fine ↔ a = .fine ∧ b = .fine := by
  cases a <;> cases b <;> simp [Status.merge]

theorem Status.merge_crash {a b : Status} (h : a.merge b = .crash) : a = .crash ∨ b = .crash := by
  cases a <;> cases b <;> simp [Status.merge] at h ⊢

theorem Status.merge_hang {a b : Status} (h : a.merge b = .hang) : a = .hang ∨ b = .hang := by
  cases a <;> cases b <;> simp [Status.merge] at h ⊢

theorem foldl_merge_fine (l : List Status) : ∀ a, l.foldl Status.merge a = .fine ↔ a = .fine ∧ ∀ s ∈ l, s = .fine := by
  induction l with
  | nil => intro a; simp
  | cons x r ih =>
    intro a
    simp only [List.foldl_cons, ih, Status.merge_fine, List.mem_cons, forall_eq_or_imp]
    constructor
    · rintro ⟨⟨h1, h2⟩, h3⟩; exact ⟨h1, h2, h3⟩
    · rintro ⟨h1, h2, h3⟩; exact ⟨⟨h1, h2⟩, h3⟩

theorem foldl_merge_no_crash (l : List Status) : ∀ a, a ≠ .crash → a ≠ .hang →
    (∀ s ∈ l, s ≠ .crash ∧ s ≠ .hang) →
    l.foldl Status.merge a ≠ .crash ∧ l.foldl Status.merge a ≠ .hang := by
  induction l with
  | nil => intro a h1 h2 _; exact ⟨h1, h2⟩
  | cons x r ih =>
    intro a h1 h2 hl
    simp only [List.foldl_cons]
    have hx := hl x (by simp)
    apply ih
    · intro h; rcases Status.merge_crash h with h | h
      · exact h1 h
      · exact hx.1 h
    · intro h; rcases Status.merge_hang h with h | h
      · exact h2 h
      · exact hx.2 h
    · intro s hs; exact hl s (by simp [hs])

theorem classify_no_crash (fl : Flags) (f : Field) :
    (classify fl f).status ≠ .crash ∧ (classify fl f).status ≠ .hang := by
  cases hc : classify fl f with
  | skip => simp [Act.status]
  | add tags ex => simp [Act.status]
  | stop s => exact ⟨(classify_stop hc).2.1, (classify_stop hc).2.2⟩

theorem pass2_all_skip (fl : Flags) (fs : List Field) (h : ∀ f ∈ fs, classify fl f = .skip) :
    ∀ m, pass2 fl m fs = fs := by
  induction fs with
  | nil => intro m; rfl
  | cons f r ih =>
    intro m
    unfold pass2
    rw [h f (by simp)]
    simp only
    rw [ih (fun g hg => h g (by simp [hg]))]

/-- `m+1, m+2, …, m+k` -/
def countUp (m : Int) : Nat → List Int
  | 0 => []
  | k + 1 => (m + 1) :: countUp (m + 1) k

theorem countUp_gt : ∀ (k : Nat) (m v : Int), v ∈ countUp m k → m < v := by
  intro k
  induction k with
  | zero => intro m v h; simp [countUp] at h
  | succ k ih =>
    intro m v h
    simp only [countUp, List.mem_cons] at h
    rcases h with rfl | h
    · omega
    · have := ih _ _ h; omega

theorem countUp_pairwise : ∀ (k : Nat) (m : Int), (countUp m k).Pairwise (· < ·) := by
  intro k
  induction k with
  | zero => intro m; simp [countUp]
  | succ k ih =>
    intro m
    simp only [countUp, List.pairwise_cons]
    exact ⟨fun v hv => countUp_gt _ _ _ hv, ih _⟩

theorem countUp_length (k : Nat) : ∀ m, (countUp m k).length = k := by
  induction k with
  | zero => intro m; rfl
  | succ k ih => intro m; simp [countUp, ih]

/-- the indexes the run has assigned, in field order: those of the fields that
had no plenc tag before. -/
def assigned : List Field → List Field → List Int
  | f :: r, f' :: r' =>
    if hasPlenc f then assigned r r'
    else match plencIndex f' with
      | some v => v :: assigned r r'
      | none => assigned r r'
  | _, _ => []

theorem hasPlenc_false_index {f : Field} (h : hasPlenc f = false) : plencIndex f = none := by
  unfold hasPlenc at h
  unfold plencIndex
  split at h
  · rename_i ts hts
    cases hg : Tags.get ts "plenc" with
    | none => simp
    | some t => rw [hg] at h; simp at h
  · rfl


/-! ## the second loop -/

/-- nothing is recorded by the second loop started at `m` -/
def Fine2 (fl : Flags) (m : Int) (fs : List Field) : Prop := ∀ s ∈ status2 fl m fs, s = .fine

theorem fine2_cons {fl : Flags} {m : Int} {f : Field} {r : List Field} (h : Fine2 fl m (f :: r)) :
    (classify fl f = .skip ∧ Fine2 fl m r) ∨
    (∃ tags, classify fl f = .add tags true ∧ Fine2 fl m r) ∨
    (∃ tags, classify fl f = .add tags false ∧ m < maxFieldIndex ∧ Fine2 fl (m + 1) r) := by
  unfold Fine2 at h
  rw [status2] at h
  cases hc : classify fl f with
  | skip =>
    rw [hc] at h
    exact Or.inl ⟨rfl, fun s hs => h s (by simp [hs])⟩
  | stop st =>
    rw [hc] at h
    have := h st (by simp [Act.status])
    exact absurd this (classify_stop hc).1
  | add tags ex =>
    rw [hc] at h
    cases ex with
    | true => exact Or.inr (Or.inl ⟨tags, rfl, fun s hs => h s (by simp [hs])⟩)
    | false =>
      simp only at h
      by_cases hm : m ≥ maxFieldIndex
      · rw [if_pos hm] at h
        have := h (.failed .noIndexLeft) (by simp)
        simp at this
      · rw [if_neg hm] at h
        exact Or.inr (Or.inr ⟨tags, rfl, by omega, fun s hs => h s (by simp [hs])⟩)

theorem fine2_classify {fl : Flags} (fs : List Field) : ∀ m, Fine2 fl m fs →
    ∀ f ∈ fs, (classify fl f).status = .fine := by
  induction fs with
  | nil => intro m _ f hf; simp at hf
  | cons g r ih =>
    intro m h f hf
    simp only [List.mem_cons] at hf
    rcases fine2_cons h with ⟨hc, hr⟩ | ⟨tags, hc, hr⟩ | ⟨tags, hc, _, hr⟩
    · rcases hf with rfl | hf
      · rw [hc]; rfl
      · exact ih m hr f hf
    · rcases hf with rfl | hf
      · rw [hc]; rfl
      · exact ih m hr f hf
    · rcases hf with rfl | hf
      · rw [hc]; rfl
      · exact ih _ hr f hf

theorem fine2_all_skip {fl : Flags} (fs : List Field) (h : ∀ f ∈ fs, classify fl f = .skip) :
    ∀ m, Fine2 fl m fs := by
  induction fs with
  | nil => intro m s hs; simp [status2] at hs
  | cons f r ih =>
    intro m s hs
    rw [status2, h f (by simp)] at hs
    simp only [List.mem_cons] at hs
    rcases hs with rfl | hs
    · rfl
    · exact ih (fun g hg => h g (by simp [hg])) m s hs

theorem status2_no_crash (fl : Flags) (fs : List Field) : ∀ m, ∀ s ∈ status2 fl m fs,
    s ≠ .crash ∧ s ≠ .hang := by
  induction fs with
  | nil => intro m s hs; simp [status2] at hs
  | cons f r ih =>
    intro m s hs
    rw [status2] at hs
    split at hs
    · simp only [List.mem_cons] at hs
      rcases hs with rfl | hs
      · simp
      · exact ih m s hs
    · split at hs
      · simp only [List.mem_cons] at hs
        rcases hs with rfl | hs
        · simp
        · exact ih m s hs
      · simp only [List.mem_cons] at hs
        rcases hs with rfl | hs
        · simp
        · exact ih _ s hs
    · simp only [List.mem_cons] at hs
      rcases hs with rfl | hs
      · exact classify_no_crash fl f
      · exact ih m s hs

theorem structStatus_fine {fl : Flags} {fs : List Field} :
    structStatus fl fs = .fine ↔
      (∀ f ∈ fs, status1 f = .fine) ∧ Fine2 fl (maxPlenc fs) fs := by
  unfold structStatus Fine2
  rw [foldl_merge_fine]
  simp only [true_and, List.mem_append, List.mem_map]
  constructor
  · intro h
    exact ⟨fun f hf => h _ (Or.inl ⟨f, hf, rfl⟩), fun s hs => h s (Or.inr hs)⟩
  · rintro ⟨h1, h2⟩ s (⟨f, hf, rfl⟩ | hs)
    · exact h1 f hf
    · exact h2 s hs

theorem structStatus_no_crash (fl : Flags) (fs : List Field) :
    structStatus fl fs ≠ .crash ∧ structStatus fl fs ≠ .hang := by
  unfold structStatus
  apply foldl_merge_no_crash _ _ (by simp) (by simp)
  intro s hs
  simp only [List.mem_append, List.mem_map] at hs
  rcases hs with ⟨f, _, rfl⟩ | hs
  · exact status1_no_crash f
  · exact status2_no_crash fl fs _ s hs

theorem rewriteStructX_ok {fl : Flags} {fs fs' : List Field} :
    rewriteStructX fl fs = .ok fs' ↔ structStatus fl fs = .fine ∧ fs' = pass2 fl (maxPlenc fs) fs := by
  unfold rewriteStructX
  cases h : structStatus fl fs <;> simp [Status.toOut, eq_comm]

theorem rewriteStruct_ok {fl : Flags} {fs fs' : List Field} :
    rewriteStruct fl fs = .ok fs' ↔ structStatus fl fs = .fine ∧ fs' = pass2 fl (maxPlenc fs) fs := by
  rw [← rewriteStructX_ok]
  unfold rewriteStruct
  cases rewriteStructX fl fs <;> simp [Out.toRes]

theorem inRange_of_bounds {lo v : Int} (h0 : 0 ≤ lo) (h1 : lo < v) (h2 : v ≤ maxFieldIndex) : InRange v := by
  unfold maxFieldIndex at h2
  unfold InRange
  omega

/-- what the second loop (started above `lo ≥ 0`, nothing recorded) does to one field -/
inductive Step (fl : Flags) (lo : Int) (f f' : Field) : Prop where
  | same (h : ∀ tags ex, classify fl f ≠ .add tags ex) (e : f' = f)
  | dash (tags : Tags) (h : classify fl f = .add tags true) (e : f' = setTag f "-")
  | num (tags : Tags) (v : Int) (h : classify fl f = .add tags false) (e : f' = setTag f (itoa v))
      (hv : InRange v) (hlo : lo < v) (hhi : v ≤ maxFieldIndex)

theorem Step.mono {fl : Flags} {lo lo' : Int} (h1 : lo' ≤ lo) {f f' : Field}
    (h : Step fl lo f f') : Step fl lo' f f' := by
  cases h with
  | same h e => exact .same h e
  | dash tags h e => exact .dash tags h e
  | num tags v h e hv hlo hhi => exact .num tags v h e hv (by omega) hhi

theorem pass2_step (fl : Flags) (fs : List Field) : ∀ m, 0 ≤ m → Fine2 fl m fs →
    Pointwise (Step fl m) fs (pass2 fl m fs) := by
  induction fs with
  | nil => intro m _ _; exact trivial
  | cons f r ih =>
    intro m hm hf
    rw [pass2]
    rcases fine2_cons hf with ⟨hc, hr⟩ | ⟨tags, hc, hr⟩ | ⟨tags, hc, hlt, hr⟩
    · rw [hc]
      exact ⟨Step.same (fun tags ex e => by rw [hc] at e; simp at e) rfl, ih m hm hr⟩
    · rw [hc]
      exact ⟨Step.dash tags hc rfl, ih m hm hr⟩
    · rw [hc]
      simp only [show ¬ m ≥ maxFieldIndex by omega, ↓reduceIte]
      refine ⟨Step.num tags _ hc rfl (inRange_of_bounds hm (by omega) (by omega)) (by omega) (by omega), ?_⟩
      exact Pointwise.imp (fun _ _ => Step.mono (by omega)) (ih (m + 1) (by omega) hr)

theorem pass2_assigned (fl : Flags) (fs : List Field) : ∀ m, 0 ≤ m → Fine2 fl m fs →
    ∃ k, k ≤ fs.length ∧ assigned fs (pass2 fl m fs) = countUp m k := by
  induction fs with
  | nil => intro m _ _; exact ⟨0, by simp, rfl⟩
  | cons f r ih =>
    intro m hm hf
    rw [pass2]
    rcases fine2_cons hf with ⟨hc, hr⟩ | ⟨tags, hc, hr⟩ | ⟨tags, hc, hlt, hr⟩
    · obtain ⟨k, hk, hkk⟩ := ih m hm hr
      refine ⟨k, by simp; omega, ?_⟩
      rw [hc]
      simp only [assigned]
      split
      · exact hkk
      · rename_i hh
        rw [hasPlenc_false_index (by simpa using hh)]
        exact hkk
    · obtain ⟨_, hts, hg, _, _⟩ := classify_add hc
      have hnp : hasPlenc f = false := by
        unfold hasPlenc; rw [hts]; simp [hg]
      obtain ⟨k, hk, hkk⟩ := ih m hm hr
      refine ⟨k, by simp; omega, ?_⟩
      rw [hc]
      simp only [assigned, hnp, Bool.false_eq_true, ↓reduceIte, plencIndex_setTag_dash hts hg, hkk]
    · obtain ⟨_, hts, hg, _, _⟩ := classify_add hc
      have hnp : hasPlenc f = false := by
        unfold hasPlenc; rw [hts]; simp [hg]
      have hm1 : InRange (m + 1) := inRange_of_bounds hm (by omega) (by omega)
      obtain ⟨k, hk, hkk⟩ := ih (m + 1) (by omega) hr
      refine ⟨k + 1, by simp; omega, ?_⟩
      rw [hc]
      simp only [show ¬ m ≥ maxFieldIndex by omega, ↓reduceIte, assigned, hnp, Bool.false_eq_true,
        plencIndex_setTag_itoa hts hg hm1, hkk, countUp]

/-- all plenc indexes written in a struct, in field order -/
def idxs (fs : List Field) : List Int := fs.filterMap plencIndex

/-- the rewritten struct has pairwise different indexes if the original had. -/
theorem pass2_idxs_distinct (fl : Flags) (fs : List Field) : ∀ m, 0 ≤ m → Fine2 fl m fs →
      (∀ f ∈ fs, ∀ w, plencIndex f = some w → w ≤ m) →
      (idxs fs).Pairwise (· ≠ ·) →
      (idxs (pass2 fl m fs)).Pairwise (· ≠ ·) ∧
      ∀ v ∈ idxs (pass2 fl m fs), v ∈ idxs fs ∨ m < v := by
  induction fs with
  | nil => intro m _ _ _ _; simp [idxs, pass2]
  | cons f r ih =>
    intro m hm hf hle hpw
    have hler : ∀ g ∈ r, ∀ w, plencIndex g = some w → w ≤ m := fun g hg => hle g (by simp [hg])
    have hpwr : (idxs r).Pairwise (· ≠ ·) := by
      unfold idxs at hpw ⊢
      rw [List.filterMap_cons] at hpw
      split at hpw
      · exact hpw
      · exact (List.pairwise_cons.mp hpw).2
    rw [pass2]
    rcases fine2_cons hf with ⟨hc, hr⟩ | ⟨tags, hc, hr⟩ | ⟨tags, hc, hlt, hr⟩
    · -- left alone
      obtain ⟨h1, h2⟩ := ih m hm hr hler hpwr
      rw [hc]
      simp only
      cases hp : plencIndex f with
      | none =>
        have e1 : idxs (f :: r) = idxs r := by unfold idxs; rw [List.filterMap_cons, hp]
        have e2 : idxs (f :: pass2 fl m r) = idxs (pass2 fl m r) := by
          unfold idxs; rw [List.filterMap_cons, hp]
        rw [e1, e2]
        exact ⟨h1, h2⟩
      | some w =>
        have e1 : idxs (f :: r) = w :: idxs r := by unfold idxs; rw [List.filterMap_cons, hp]
        have e2 : idxs (f :: pass2 fl m r) = w :: idxs (pass2 fl m r) := by
          unfold idxs; rw [List.filterMap_cons, hp]
        rw [e1] at hpw
        rw [e1, e2]
        have hpw' := List.pairwise_cons.mp hpw
        refine ⟨List.pairwise_cons.mpr ⟨?_, h1⟩, ?_⟩
        · intro v hv
          rcases h2 v hv with h | h
          · exact hpw'.1 v h
          · have := hle f (by simp) w hp; omega
        · intro v hv
          simp only [List.mem_cons] at hv ⊢
          rcases hv with rfl | hv
          · exact Or.inl (Or.inl rfl)
          · rcases h2 v hv with h | h
            · exact Or.inl (Or.inr h)
            · exact Or.inr h
    · -- excluded
      obtain ⟨_, hts, hg, _, _⟩ := classify_add hc
      have hnone : plencIndex f = none := by
        apply hasPlenc_false_index
        unfold hasPlenc; rw [hts]; simp [hg]
      have hidx : idxs (f :: r) = idxs r := by
        unfold idxs; rw [List.filterMap_cons, hnone]
      obtain ⟨h1, h2⟩ := ih m hm hr hler hpwr
      rw [hc]
      simp only
      rw [hidx]
      unfold idxs at h1 h2 ⊢
      rw [List.filterMap_cons, plencIndex_setTag_dash hts hg]
      exact ⟨h1, h2⟩
    · -- a number
      obtain ⟨_, hts, hg, _, _⟩ := classify_add hc
      have hnone : plencIndex f = none := by
        apply hasPlenc_false_index
        unfold hasPlenc; rw [hts]; simp [hg]
      have hidx : idxs (f :: r) = idxs r := by
        unfold idxs; rw [List.filterMap_cons, hnone]
      have hm1 : InRange (m + 1) := inRange_of_bounds hm (by omega) (by omega)
      obtain ⟨h1, h2⟩ := ih (m + 1) (by omega) hr
        (fun g hg w hw => by have := hler g hg w hw; omega) hpwr
      rw [hc]
      simp only [show ¬ m ≥ maxFieldIndex by omega, ↓reduceIte]
      rw [hidx]
      unfold idxs at h1 h2 ⊢
      rw [List.filterMap_cons, plencIndex_setTag_itoa hts hg hm1]
      simp only
      refine ⟨List.pairwise_cons.mpr ⟨?_, h1⟩, ?_⟩
      · intro v hv
        rcases h2 v hv with h | h
        · obtain ⟨g, hg', hgv⟩ := List.mem_filterMap.mp h
          have := hler g hg' v hgv
          omega
        · omega
      · intro v hv
        simp only [List.mem_cons] at hv
        rcases hv with rfl | hv
        · exact Or.inr (by omega)
        · rcases h2 v hv with h | h
          · exact Or.inl h
          · exact Or.inr (by omega)

theorem pairwise_filterMap_of_lift {α} (g : α → Option Nat) (h : α → Option Int) :
    ∀ (l : List α), (∀ x ∈ l, ∀ i, g x = some i → h x = some (i : Int)) →
      (l.filterMap h).Pairwise (· ≠ ·) → (l.filterMap g).Pairwise (· ≠ ·) := by
  intro l
  induction l with
  | nil => intro _ _; simp
  | cons a r ih =>
    intro hl hp
    have ihr := ih (fun x hx => hl x (by simp [hx]))
    rw [List.filterMap_cons] at hp ⊢
    cases hg : g a with
    | none =>
      simp only
      split at hp
      · exact ihr hp
      · exact ihr (List.pairwise_cons.mp hp).2
    | some i =>
      simp only
      have hh := hl a (by simp) i hg
      rw [hh] at hp
      simp only at hp
      have hp' := List.pairwise_cons.mp hp
      refine List.pairwise_cons.mpr ⟨?_, ihr hp'.2⟩
      intro j hj
      obtain ⟨x, hx, hxj⟩ := List.mem_filterMap.mp hj
      have := hl x (by simp [hx]) j hxj
      have hne := hp'.1 (j : Int) (List.mem_filterMap.mpr ⟨x, hx, this⟩)
      intro e; apply hne; rw [e]

/-! ## reflect.StructTag.Lookup agrees with structtag on tags structtag accepts -/

theorem Tag.rawValue_mk (k name : List Char) (opts : List (List Char)) :
    Tag.rawValue ⟨String.ofList k, String.ofList name, opts.map String.ofList⟩ =
      String.ofList (joinComma (name :: opts)) := by
  unfold Tag.rawValue
  simp only [String.toList_ofList, List.map_map]
  congr 3
  induction opts with
  | nil => rfl
  | cons a r ih => simp

theorem reflectLoop_agrees (key : String) : ∀ (fuel : Nat) (cs : List Char) (ts : Tags),
    parseLoop fuel cs = .ok ts → reflectLoop key fuel cs = (Tags.get ts key).map Tag.rawValue := by
  intro fuel
  induction fuel with
  | zero => intro cs ts h; simp [parseLoop] at h
  | succ n ih =>
    intro cs ts h
    rw [parseLoop] at h
    rw [reflectLoop]
    split at h
    · injection h with h; subst h
      rename_i hs
      simp [hs, Tags.get]
    · simp at h
    · rename_i k body rest hs
      simp only [hs]
      split at h
      · simp at h
      · simp at h
      · rename_i v hv
        split at h
        · simp at h
        · rename_i name opts hsp
          split at h
          · rename_i ts' hts'
            injection h with h; subst h
            unfold Tags.get
            by_cases hk : String.ofList k = key
            · subst hk
              simp only [↓reduceIte, hv, List.find?_cons, BEq.rfl, Option.map_some, Tag.rawValue_mk]
              rw [← hsp, joinComma_splitCommaAll]
            · have hk' : (String.ofList k == key) = false := by simpa using hk
              simp only [hk, ↓reduceIte, List.find?_cons, hk']
              exact ih rest ts' hts'
          · rename_i hne
            cases hp : parseLoop n rest with
            | ok ts' => exact absurd hp (hne ts')
            | _ => rw [hp] at h; simp at h

/-- `reflect.StructTag.Lookup` returns the value of the first tag with the key
that structtag found, exactly as written. -/
theorem reflectLookup_agrees {raw : String} {ts : Tags} (key : String)
    (h : extractTags (some raw) = .ok ts) :
    reflectLookup raw key = (Tags.get ts key).map Tag.rawValue := by
  rw [extractTags_some] at h
  exact reflectLoop_agrees key _ _ _ h

/-! ## the builder's view of a plenc tag (`strings.IndexByte(tag, ',')`) -/

theorem span_loop_eq {α} (p : α → Bool) : ∀ (l acc : List α),
    List.span.loop p l acc = (acc.reverse ++ l.takeWhile p, l.dropWhile p) := by
  intro l
  induction l with
  | nil => intro acc; simp [List.span.loop]
  | cons a r ih =>
    intro acc
    rw [List.span.loop]
    cases hp : p a with
    | true => simp [ih, hp]
    | false => simp [hp]

theorem span_eq {α} (p : α → Bool) (l : List α) : l.span p = (l.takeWhile p, l.dropWhile p) := by
  unfold List.span
  rw [span_loop_eq]
  simp

theorem splitComma_fst_of_noComma (a : List Char) (ha : ',' ∉ a) (rest : List Char)
    (hr : rest = [] ∨ ∃ r, rest = ',' :: r) :
    (splitComma (String.ofList (a ++ rest))).1 = String.ofList a := by
  have hall : ∀ c ∈ a, (decide (c ≠ ',')) = true := by
    intro c hc
    simp only [ne_eq, decide_not, Bool.not_eq_eq_eq_not, Bool.not_true, decide_eq_false_iff_not]
    rintro rfl
    exact ha hc
  unfold splitComma
  rw [String.toList_ofList, span_eq]
  rcases hr with rfl | ⟨r, rfl⟩
  · have h1 : List.takeWhile (fun x => decide (x ≠ ',')) (a ++ []) = a := by
      rw [List.takeWhile_append_of_pos hall]; simp
    have h2 : List.dropWhile (fun x => decide (x ≠ ',')) (a ++ []) = [] := by
      rw [List.dropWhile_append_of_pos hall]; simp
    simp only [h1, h2]
  · have h1 : List.takeWhile (fun x => decide (x ≠ ',')) (a ++ ',' :: r) = a := by
      rw [List.takeWhile_append_of_pos hall]; simp
    have h2 : List.dropWhile (fun x => decide (x ≠ ',')) (a ++ ',' :: r) = ',' :: r := by
      rw [List.dropWhile_append_of_pos hall]; simp
    simp only [h1, h2]

/-- the text before the first comma of a tag's value is its name. -/
theorem splitComma_rawValue {t : Tag} (ht : WFTag t) : (splitComma t.rawValue).1 = t.name := by
  unfold Tag.rawValue
  cases ho : t.options.map String.toList with
  | nil =>
    have := splitComma_fst_of_noComma t.name.toList ht.name.2 [] (Or.inl rfl)
    simpa [joinComma, String.ofList_toList] using this
  | cons o r =>
    rw [joinComma_cons_cons]
    have := splitComma_fst_of_noComma t.name.toList ht.name.2 (',' :: joinComma (o :: r)) (Or.inr ⟨_, rfl⟩)
    simpa [String.ofList_toList] using this

theorem rawValue_plencTag (n : String) : (plencTag n).rawValue = n := by
  unfold Tag.rawValue plencTag
  simp [joinComma, String.ofList_toList]

theorem rawValue_of_no_options {t : Tag} (h : t.options = []) : t.rawValue = t.name := by
  unfold Tag.rawValue
  simp [h, joinComma, String.ofList_toList]

theorem rawValue_ne_dash_of_name {t : Tag} (ht : WFTag t) (h : t.name ≠ "-") : t.rawValue ≠ "-" := by
  intro he
  have := splitComma_rawValue ht
  rw [he] at this
  have h2 : (splitComma "-").1 = "-" := by decide +kernel
  rw [h2] at this
  exact h this.symm

theorem rawValue_ne_empty_of_name {t : Tag} (ht : WFTag t) (h : t.name ≠ "") : t.rawValue ≠ "" := by
  intro he
  have := splitComma_rawValue ht
  rw [he] at this
  have h2 : (splitComma "").1 = "" := by decide +kernel
  rw [h2] at this
  exact h this.symm

/-! ## facts used by the property file -/

theorem Pointwise.map_eq {α β γ : Type} {R : α → β → Prop} {g : α → γ} {g' : β → γ}
    (hR : ∀ a b, R a b → g a = g' b) : ∀ {l₁ : List α} {l₂ : List β},
    Pointwise R l₁ l₂ → l₁.map g = l₂.map g'
  | [], [], _ => rfl
  | _ :: _, _ :: _, h => by simp [hR _ _ h.1, Pointwise.map_eq hR h.2]
  | [], _ :: _, h => h.elim
  | _ :: _, [], h => h.elim

theorem Pointwise.exists_left {α β : Type} {R : α → β → Prop} : ∀ {l₁ : List α} {l₂ : List β},
    Pointwise R l₁ l₂ → ∀ b ∈ l₂, ∃ a ∈ l₁, R a b
  | [], [], _, b, hb => by simp at hb
  | a :: as, b' :: bs, h, b, hb => by
      simp only [List.mem_cons] at hb
      rcases hb with rfl | hb
      · exact ⟨a, by simp, h.1⟩
      · obtain ⟨x, hx, hr⟩ := Pointwise.exists_left h.2 b hb
        exact ⟨x, by simp [hx], hr⟩
  | [], _ :: _, h, _, _ => h.elim
  | _ :: _, [], h, _, _ => h.elim

theorem Pointwise.and {α β : Type} {R S : α → β → Prop} : ∀ {l₁ : List α} {l₂ : List β},
    Pointwise R l₁ l₂ → Pointwise S l₁ l₂ → Pointwise (fun a b => R a b ∧ S a b) l₁ l₂
  | [], [], _, _ => trivial
  | _ :: _, _ :: _, h, h' => ⟨⟨h.1, h'.1⟩, Pointwise.and h.2 h'.2⟩
  | [], _ :: _, h, _ => h.elim
  | _ :: _, [], h, _ => h.elim

theorem Pointwise.map_right {α β : Type} (g : α → β) : ∀ (l : List α),
    Pointwise (fun a b => b = g a) l (l.map g)
  | [] => trivial
  | _ :: r => ⟨rfl, Pointwise.map_right g r⟩

theorem Pointwise.eq_map {α β : Type} {g : α → β} : ∀ {l : List α} {l' : List β},
    Pointwise (fun a b => b = g a) l l' → l' = l.map g
  | [], [], _ => rfl
  | _ :: _, _ :: _, h => by simp [h.1, Pointwise.eq_map h.2]
  | [], _ :: _, h => h.elim
  | _ :: _, [], h => h.elim

theorem setTag_names (f : Field) (n : String) :
    (setTag f n).names = f.names ∧ (setTag f n).embeddedName = f.embeddedName := ⟨rfl, rfl⟩

theorem classify_eligible {fl : Flags} {f : Field} {name : String} {tags : Tags}
    (hn : fieldName f = .ok name) (hp : (fl.priv && lowerFirst fl name) = false)
    (hl : f.names.length ≤ 1) (hts : extractTags f.rawTag = .ok tags)
    (hg : Tags.get tags "plenc" = none) :
    classify fl f = .add tags (isExcluded fl tags) := by
  unfold classify
  rw [hn]
  simp only [hp, Bool.false_eq_true, ↓reduceIte, show ¬ f.names.length > 1 by omega, hts, hg,
    Option.isSome_none]

theorem classify_private {fl : Flags} {f : Field} {name : String}
    (hn : fieldName f = .ok name) (hpriv : fl.priv = true) (hlow : lowerFirst fl name = true) :
    classify fl f = .skip := by
  unfold classify
  rw [hn]
  simp [hpriv, hlow]

theorem status1_some {f : Field} {raw : String} (h : f.rawTag = some raw) :
    status1 f = (plencValue raw).status := by
  unfold status1; rw [h]

theorem status1_setTag {f : Field} {tags : Tags} {n : String}
    (hts : extractTags f.rawTag = .ok tags) (hg : Tags.get tags "plenc" = none)
    (hn : WFTag (plencTag n)) (hv : n = "-" ∨ ∃ v, atoi n = some v) :
    status1 (setTag f n) = .fine := by
  have hx := extractTags_setTag hts hn
  have hraw : (setTag f n).rawTag = some (appendTag f.rawTag (Tags.render [plencTag n])) := rfl
  rw [status1_some hraw]
  rw [hraw] at hx
  unfold plencValue
  simp only [hx, get_plenc_after hg]
  rcases hv with rfl | ⟨v, hv⟩
  · simp [plencTag, Out.status]
  · by_cases hd : n = "-"
    · simp [plencTag, hd, Out.status]
    · simp [plencTag, hd, hv, Out.status]

/-- after one run every field is left alone by the next one and its tag is readable. -/
theorem step_next {fl : Flags} {lo : Int} {f f' : Field} (hs : Step fl lo f f')
    (h1 : status1 f = .fine) (h2 : (classify fl f).status = .fine) :
    classify fl f' = .skip ∧ status1 f' = .fine := by
  cases hs with
  | same h e =>
    subst e
    rcases classify_fine h2 with hc | ⟨tags, ex, hc⟩
    · exact ⟨hc, h1⟩
    · exact absurd hc (h tags ex)
  | dash tags h e =>
    subst e
    obtain ⟨_, hts, hg, _, _⟩ := classify_add h
    exact ⟨classify_setTag h wf_plencTag_dash, status1_setTag hts hg wf_plencTag_dash (Or.inl rfl)⟩
  | num tags v h e hv =>
    subst e
    obtain ⟨_, hts, hg, _, _⟩ := classify_add h
    exact ⟨classify_setTag h (wf_plencTag_itoa v),
      status1_setTag hts hg (wf_plencTag_itoa v) (Or.inr ⟨v, atoi_itoa hv⟩)⟩

theorem foldl_append_toList (rest : List String) : ∀ (n0 : String),
    ∃ s, (rest.foldl (fun a n => a ++ ", " ++ n) n0).toList = n0.toList ++ s := by
  induction rest with
  | nil => intro n0; exact ⟨[], by simp⟩
  | cons x r ih =>
    intro n0
    obtain ⟨s, hs⟩ := ih (n0 ++ ", " ++ x)
    refine ⟨(", " : String).toList ++ x.toList ++ s, ?_⟩
    simp only [List.foldl_cons, hs, String.toList_append, List.append_assoc]

/-- the rune the private test looks at is the first rune of the first name. -/
theorem lowerFirst_fieldName (fl : Flags) (f : Field) (n : String) (rest : List String)
    (hn : f.names = n :: rest) (hne : n ≠ "") :
    ∃ name, fieldName f = .ok name ∧ lowerFirst fl name = lowerFirst fl n := by
  unfold fieldName
  rw [hn]
  simp only [List.length_cons, Nat.add_eq_zero_iff, Nat.succ_ne_self, and_false, ↓reduceIte, index0,
    List.tail_cons]
  refine ⟨_, rfl, ?_⟩
  obtain ⟨s, hs⟩ := foldl_append_toList rest n
  unfold lowerFirst
  rw [hs]
  cases hl : n.toList with
  | nil => exact absurd (toList_eq_nil hl) hne
  | cons c r => rfl

theorem fieldName_embedded (f : Field) (h : f.names = []) : fieldName f = .ok f.embeddedName := by
  unfold fieldName; simp [h]

theorem fieldName_single (f : Field) (n : String) (h : f.names = [n]) : fieldName f = .ok n := by
  unfold fieldName; simp [h, index0]
end Plenctag
