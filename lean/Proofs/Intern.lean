import Plenc.Intern
import Plenc.Codec
/-
  Proofs.Intern — helper lemmas about the interning model (Plenc/Intern.lean):
  table operations, the sequential machine, the invariant of the concurrent
  protocol, schedules; and, on the codec model (Plenc/Codec.lean), erasure of the
  `intern` option from a whole codec tree.
-/
namespace Intern

/-! ### table operations -/

theorem lookup_some_mem {m : Table} {d : Bytes} {v : Str} (h : lookup m d = some v) : (d, v) ∈ m := by
  induction m with
  | nil => simp [lookup] at h
  | cons p r ih =>
    obtain ⟨k, w⟩ := p
    simp only [lookup] at h
    split at h
    · rename_i hk
      injection h with h
      simp [hk, h]
    · exact List.mem_cons_of_mem _ (ih h)

theorem lookup_none_iff {m : Table} {d : Bytes} : lookup m d = none ↔ d ∉ m.map (·.1) := by
  induction m with
  | nil => simp [lookup]
  | cons p r ih =>
    obtain ⟨k, w⟩ := p
    simp only [lookup, List.map_cons, List.mem_cons, not_or]
    split
    · rename_i hk
      simp [hk]
    · rename_i hk
      rw [ih]
      exact ⟨fun h => ⟨fun e => hk e.symm, h⟩, fun h => h.2⟩

theorem lookup_of_mem {m : Table} {d : Bytes} {v : Str} (hn : (m.map (·.1)).Nodup)
    (h : (d, v) ∈ m) : lookup m d = some v := by
  induction m with
  | nil => simp at h
  | cons p r ih =>
    obtain ⟨k, w⟩ := p
    simp only [List.map_cons, List.nodup_cons] at hn
    simp only [List.mem_cons] at h
    simp only [lookup]
    rcases h with h | h
    · injection h with h1 h2
      simp [h1, h2]
    · have hk : k ≠ d := by
        intro e
        apply hn.1
        rw [e]
        exact List.mem_map.2 ⟨(d, v), h, rfl⟩
      simp [hk, ih hn.2 h]

/-- with distinct keys an entry is determined by its key. -/
theorem mem_unique {m : Table} {d : Bytes} {a b : Str} (hn : (m.map (·.1)).Nodup)
    (ha : (d, a) ∈ m) (hb : (d, b) ∈ m) : a = b := by
  have h1 := lookup_of_mem hn ha
  have h2 := lookup_of_mem hn hb
  rw [h1] at h2
  injection h2

theorem lookup_append_of_some {m e : Table} {d : Bytes} {v : Str} (h : lookup m d = some v) :
    lookup (m ++ e) d = some v := by
  induction m with
  | nil => simp [lookup] at h
  | cons p r ih =>
    obtain ⟨k, w⟩ := p
    simp only [lookup, List.cons_append] at h ⊢
    split
    · rename_i hk; simpa [hk] using h
    · rename_i hk; simp only [hk, if_false] at h; exact ih h

theorem insert_of_not_mem {m : Table} {k : Bytes} {v : Str} (h : k ∉ m.map (·.1)) :
    insert m k v = m ++ [(k, v)] := by
  induction m with
  | nil => simp [insert]
  | cons p r ih =>
    obtain ⟨k', w⟩ := p
    simp only [List.map_cons, List.mem_cons, not_or] at h
    have hk : k' ≠ k := fun e => h.1 e.symm
    simp [insert, hk, ih h.2]

theorem foldl_insert_eq (m acc : Table) (hn : ((acc ++ m).map (·.1)).Nodup) :
    m.foldl (fun m2 kv => insert m2 kv.1 kv.2) acc = acc ++ m := by
  induction m generalizing acc with
  | nil => simp
  | cons p r ih =>
    obtain ⟨k, w⟩ := p
    simp only [List.foldl_cons]
    have hk : k ∉ acc.map (·.1) := by
      intro hmem
      simp only [List.map_append, List.map_cons] at hn
      have := (List.nodup_append.1 hn).2.2 k hmem k (by simp)
      exact this rfl
    rw [insert_of_not_mem hk, ih]
    · simp
    · simpa using hn

/-- copying a table with distinct keys entry by entry gives the same table. -/
theorem copyTable_eq {m : Table} (hn : (m.map (·.1)).Nodup) : copyTable m = m := by
  unfold copyTable
  rw [foldl_insert_eq m [] (by simpa using hn)]
  simp

theorem addEntry_eq {m : Table} {d : Bytes} (hn : (m.map (·.1)).Nodup) (hl : lookup m d = none) :
    addEntry m d = (strCopy m.length d, m ++ [(d, strCopy m.length d)]) := by
  unfold addEntry
  simp only [copyTable_eq hn]
  rw [insert_of_not_mem]
  · rfl
  · exact lookup_none_iff.1 hl

/-! ### the table invariant -/

theorem Inv.nil : Inv [] :=
  ⟨fun _ _ h => by simp at h, fun _ _ _ h => by simp at h, by simp⟩

theorem Inv.fresh {m : Table} (h : Inv m) {k : Bytes} {s : Str} (hm : (k, s) ∈ m) :
    ∃ id, s.prov = .fresh id := by
  obtain ⟨i, hi⟩ := List.mem_iff_getElem?.1 hm
  exact ⟨i, h.fresh_idx i k s hi⟩

theorem Inv.lookup_bytes {m : Table} (h : Inv m) {d : Bytes} {v : Str} (hl : lookup m d = some v) :
    v.bytes = d := h.val_eq_key d v (lookup_some_mem hl)

/-- two entries with the same allocation number are the same entry. -/
theorem Inv.ids_distinct {m : Table} (h : Inv m) {i j : Nat} {k k' : Bytes} {s s' : Str}
    (hi : m[i]? = some (k, s)) (hj : m[j]? = some (k', s')) (hp : s.prov = s'.prov) : i = j := by
  have h1 := h.fresh_idx i k s hi
  have h2 := h.fresh_idx j k' s' hj
  rw [hp, h2] at h1
  injection h1 with h1
  exact h1.symm

theorem Inv.append {m : Table} (h : Inv m) {d : Bytes} (hl : lookup m d = none) :
    Inv (m ++ [(d, strCopy m.length d)]) := by
  refine ⟨?_, ?_, ?_⟩
  · intro k s hm
    simp only [List.mem_append, List.mem_singleton] at hm
    rcases hm with hm | hm
    · exact h.val_eq_key k s hm
    · injection hm with h1 h2
      rw [h1, h2]; rfl
  · intro i k s hi
    by_cases hlt : i < m.length
    · rw [List.getElem?_append_left hlt] at hi
      exact h.fresh_idx i k s hi
    · rw [List.getElem?_append_right (by omega)] at hi
      have : i - m.length = 0 := by
        cases hx : i - m.length with
        | zero => rfl
        | succ n => rw [hx] at hi; simp at hi
      rw [this] at hi
      simp only [List.getElem?_cons_zero, Option.some.injEq, Prod.mk.injEq] at hi
      have : i = m.length := by omega
      rw [← hi.2, this]; rfl
  · simp only [List.map_append, List.map_cons, List.map_nil]
    refine List.nodup_append.2 ⟨h.keys_nodup, by simp, ?_⟩
    intro a ha b hb
    simp only [List.mem_singleton] at hb
    rw [hb]
    intro e
    exact lookup_none_iff.1 hl (e ▸ ha)

/-- the miss branch, evaluated: the table grows by exactly one entry at the end. -/
theorem addEntry_spec {m : Table} {d : Bytes} (h : Inv m) (hl : lookup m d = none) :
    (addEntry m d).2 = m ++ [(d, (addEntry m d).1)] ∧ (addEntry m d).1 = strCopy m.length d ∧
    Inv (addEntry m d).2 := by
  rw [addEntry_eq h.keys_nodup hl]
  exact ⟨rfl, rfl, h.append hl⟩

/-! ### the sequential machine -/

/-- what one `Read` does to a table satisfying the invariant. -/
theorem internRead_spec {tbl : Table} (h : Inv tbl) (d : Bytes) :
    Inv (internRead tbl d).2 ∧ tbl <+: (internRead tbl d).2 ∧
    (d, (internRead tbl d).1) ∈ (internRead tbl d).2 := by
  cases hl : lookup tbl d with
  | some v =>
    simp only [internRead, hl]
    exact ⟨h, List.prefix_refl _, lookup_some_mem hl⟩
  | none =>
    simp only [internRead, addString, hl]
    obtain ⟨h1, _, h3⟩ := addEntry_spec h hl
    refine ⟨h3, ?_, ?_⟩
    · show tbl <+: (addEntry tbl d).2
      rw [h1]; exact List.prefix_append _ _
    · show (d, (addEntry tbl d).1) ∈ (addEntry tbl d).2
      rw [h1]; simp

theorem internRead_hit {tbl : Table} {d : Bytes} {v : Str} (hl : lookup tbl d = some v) :
    internRead tbl d = (v, tbl) := by
  simp [internRead, hl]

theorem internRun_spec {tbl : Table} (h : Inv tbl) (ds : List Bytes) :
    Inv (internRun tbl ds).2 ∧ tbl <+: (internRun tbl ds).2 ∧
    (internRun tbl ds).1.map (·.bytes) = ds ∧
    (∀ p, p ∈ ds.zip (internRun tbl ds).1 → p ∈ (internRun tbl ds).2) := by
  induction ds generalizing tbl with
  | nil => exact ⟨h, List.prefix_refl _, rfl, fun p hp => by simp [internRun] at hp⟩
  | cons d ds ih =>
    obtain ⟨h1, h2, h3⟩ := internRead_spec h d
    obtain ⟨i1, i2, i3, i4⟩ := ih h1
    simp only [internRun]
    refine ⟨i1, List.IsPrefix.trans h2 i2, ?_, ?_⟩
    · simp only [List.map_cons, i3]
      rw [h1.val_eq_key d _ h3]
    · intro p hp
      simp only [List.zip_cons_cons, List.mem_cons] at hp
      rcases hp with hp | hp
      · rw [hp]; exact i2.subset h3
      · exact i4 p hp

/-- every string returned by a run is, with its own contents as key, an entry of
the final table. -/
theorem internRun_mem {tbl : Table} (h : Inv tbl) (ds : List Bytes) :
    ∀ s, s ∈ (internRun tbl ds).1 → (s.bytes, s) ∈ (internRun tbl ds).2 := by
  induction ds generalizing tbl with
  | nil => intro s hs; simp [internRun] at hs
  | cons d ds ih =>
    obtain ⟨h1, _, h3⟩ := internRead_spec h d
    obtain ⟨_, i2, _, _⟩ := internRun_spec h1 ds
    intro s hs
    simp only [internRun, List.mem_cons] at hs ⊢
    rcases hs with hs | hs
    · rw [hs, h1.val_eq_key d _ h3]; exact i2.subset h3
    · exact ih h1 s hs

/-- entries are never changed: what an old table maps a key to, every extension
satisfying the invariant maps it to as well. -/
theorem lookup_of_prefix {m m' : Table} (h' : Inv m') (hp : m <+: m') {k : Bytes} {v : Str}
    (hm : (k, v) ∈ m) : lookup m' k = some v :=
  lookup_of_mem h'.keys_nodup (hp.subset hm)

theorem internRun_append (tbl : Table) (ds es : List Bytes) :
    internRun tbl (ds ++ es) =
      ((internRun tbl ds).1 ++ (internRun (internRun tbl ds).2 es).1, (internRun (internRun tbl ds).2 es).2) := by
  induction ds generalizing tbl with
  | nil => simp [internRun]
  | cons d ds ih => simp [internRun, ih]

theorem plainRun_bytes (n : Nat) (ds : List Bytes) : (plainRun n ds).map (·.bytes) = ds := by
  induction ds generalizing n with
  | nil => rfl
  | cons d ds ih => simp [plainRun, plainRead, strCopy, ih]

theorem observe_fresh {s : Str} {id : Nat} (h : s.prov = .fresh id) (buf : Bytes) : s.observe buf = s.bytes := by
  simp [Str.observe, h]

/-! ### the step function and the step relation agree -/

theorem step_of_stepThreadL {s s' : State} {i : Nat} {l : Label}
    (h : stepThreadL s i = some (l, s')) : Step s i l s' := by
  unfold stepThreadL at h
  split at h
  · cases h
  · rename_i t ht
    split at h
    · split at h
      · cases h
      · rename_i hpc _ d ds htodo
        cases h; exact .begin ht hpc htodo
    · rename_i d hpc
      cases h; exact .load ht hpc
    · rename_i d m hpc
      split at h
      · rename_i v hl; cases h; exact .hit ht hpc hl
      · rename_i hl; cases h; exact .miss ht hpc hl
    · rename_i d hpc
      split at h
      · rename_i hlk; cases h; exact .lock ht hpc hlk
      · cases h
    · rename_i d hpc
      cases h; exact .reload ht hpc
    · rename_i d m hpc
      split at h
      · rename_i v hl; cases h; exact .rehit ht hpc hl
      · rename_i hl; cases h; exact .remiss ht hpc hl
    · rename_i d m2 v hpc
      cases h; exact .store ht hpc
    · rename_i d v hpc
      cases h; exact .unlock ht hpc
    · rename_i d v hpc
      cases h; exact .ret ht hpc

theorem stepThreadL_of_step {s s' : State} {i : Nat} {l : Label} (h : Step s i l s') :
    stepThreadL s i = some (l, s') := by
  cases h <;> simp [stepThreadL, *]

/-- the executable step function and the rule-form relation are the same thing. -/
theorem step_iff {s s' : State} {i : Nat} {l : Label} :
    stepThreadL s i = some (l, s') ↔ Step s i l s' :=
  ⟨step_of_stepThreadL, stepThreadL_of_step⟩

theorem stepThread_iff {s s' : State} {i : Nat} : stepThread s i = some s' ↔ ∃ l, Step s i l s' := by
  unfold stepThread
  constructor
  · intro h
    cases hs : stepThreadL s i with
    | none => simp [hs] at h
    | some p =>
      obtain ⟨l, s1⟩ := p
      simp only [hs, Option.map_some, Option.some.injEq] at h
      exact ⟨l, step_iff.1 (h ▸ hs)⟩
  · rintro ⟨l, h⟩
    simp [step_iff.2 h]

/-! ### reachability and schedules -/

theorem Reach.trans {s0 s1 s2 : State} (h1 : Reach s0 s1) (h2 : Reach s1 s2) : Reach s0 s2 := by
  induction h2 with
  | refl => exact h1
  | step _ st ih => exact .step ih st

theorem Reach.single {s s' : State} {i : Nat} {l : Label} (h : Step s i l s') : Reach s s' :=
  .step .refl h

theorem runSchedule_reach {s s' : State} {sched : List Nat} (h : runSchedule s sched = some s') :
    Reach s s' := by
  induction sched generalizing s with
  | nil => simp only [runSchedule, Option.some.injEq] at h; exact h ▸ .refl
  | cons i is ih =>
    simp only [runSchedule] at h
    split at h
    · cases h
    · rename_i s1 hs
      obtain ⟨l, st⟩ := stepThread_iff.1 hs
      exact (Reach.single st).trans (ih h)

theorem runSchedule_append {s s1 : State} {a b : List Nat} (h : runSchedule s a = some s1) :
    runSchedule s (a ++ b) = runSchedule s1 b := by
  induction a generalizing s with
  | nil => simp only [runSchedule, Option.some.injEq] at h; rw [h]; rfl
  | cons i is ih =>
    simp only [runSchedule, List.cons_append] at h ⊢
    split at h
    · cases h
    · rename_i s2 hs
      exact ih h

/-- every reachable state is reached by replaying some schedule. -/
theorem reach_runSchedule {s s' : State} (h : Reach s s') : ∃ sched, runSchedule s sched = some s' := by
  induction h with
  | refl => exact ⟨[], rfl⟩
  | @step s1 s2 i l _ st ih =>
    obtain ⟨sched, hs⟩ := ih
    refine ⟨sched ++ [i], ?_⟩
    rw [runSchedule_append hs]
    simp [runSchedule, stepThread_iff.2 ⟨l, st⟩]

theorem runTrace_runSchedule {s s' : State} {tr : List (Nat × Label)} (h : runTrace s tr = some s') :
    runSchedule s (tr.map (·.1)) = some s' := by
  induction tr generalizing s with
  | nil => simpa [runTrace, runSchedule] using h
  | cons p r ih =>
    obtain ⟨i, l⟩ := p
    simp only [runTrace] at h
    split at h
    · cases h
    · rename_i l' s1 hs
      split at h
      · simp only [List.map_cons, runSchedule, stepThread, hs, Option.map_some]
        exact ih h
      · cases h

/-! ### the invariant of the concurrent protocol -/

/-- what a thread knows about the published table `tbl`, by program counter. -/
def ThreadInv (tbl : Table) (t : Thread) : Prop :=
  (∀ p, p ∈ t.done → p ∈ tbl) ∧
  match t.pc with
  | .lookup _ m => m <+: tbl
  | .relookup _ m => m = tbl
  | .store d m2 v => lookup tbl d = none ∧ v = strCopy tbl.length d ∧ m2 = tbl ++ [(d, v)]
  | .unlock d v => (d, v) ∈ tbl
  | .ret d v => (d, v) ∈ tbl
  | _ => True

structure SysInv (s : State) : Prop where
  tbl : Inv s.tbl
  /-- a thread between Lock and Unlock is the owner of the mutex -/
  owner : ∀ (i : Nat) (t : Thread), s.threads[i]? = some t → t.pc.holds = true → s.lock = some i
  /-- the owner of the mutex is a thread between Lock and Unlock -/
  owned : ∀ (i : Nat), s.lock = some i → ∃ t : Thread, s.threads[i]? = some t ∧ t.pc.holds = true
  thr : ∀ (i : Nat) (t : Thread), s.threads[i]? = some t → ThreadInv s.tbl t

theorem getElem?_set_some {l : List Thread} {i j : Nat} {t t' x : Thread} (hi : l[i]? = some t)
    (h : (l.set i t')[j]? = some x) : (j = i ∧ x = t') ∨ (j ≠ i ∧ l[j]? = some x) := by
  rw [List.getElem?_set] at h
  have hlt : i < l.length := by
    rcases Nat.lt_or_ge i l.length with h' | h'
    · exact h'
    · rw [List.getElem?_eq_none h'] at hi; cases hi
  by_cases hij : i = j
  · simp only [hij, if_true] at h
    subst hij
    simp only [hlt, if_true, Option.some.injEq] at h
    exact Or.inl ⟨rfl, h.symm⟩
  · simp only [hij, if_false] at h
    exact Or.inr ⟨fun e => hij e.symm, h⟩

theorem getElem?_set_self {l : List Thread} {i : Nat} {t t' : Thread} (hi : l[i]? = some t) :
    (l.set i t')[i]? = some t' := by
  have hlt : i < l.length := by
    rcases Nat.lt_or_ge i l.length with h' | h'
    · exact h'
    · rw [List.getElem?_eq_none h'] at hi; cases hi
  simp [hlt]

theorem getElem?_set_ne {l : List Thread} {i j : Nat} {t' : Thread} (h : j ≠ i) :
    (l.set i t')[j]? = l[j]? := by
  rw [List.getElem?_set, if_neg (fun e : i = j => h e.symm)]

theorem init_inv (reqs : List (List Bytes)) : SysInv (init reqs) := by
  refine ⟨Inv.nil, ?_, ?_, ?_⟩
  · intro i t hi hh
    simp only [init, List.getElem?_map] at hi
    cases hr : reqs[i]? with
    | none => simp [hr] at hi
    | some r => simp only [hr, Option.map_some, Option.some.injEq] at hi; subst hi; simp [PC.holds] at hh
  · intro i hl; simp [init] at hl
  · intro i t hi
    simp only [init, List.getElem?_map] at hi
    cases hr : reqs[i]? with
    | none => simp [hr] at hi
    | some r =>
      simp only [hr, Option.map_some, Option.some.injEq] at hi; subst hi
      exact ⟨fun p hp => by simp at hp, trivial⟩

/-- a step of thread `i` that touches neither the table nor the mutex. -/
theorem inv_local {s : State} {i : Nat} {t t' : Thread} (h : SysInv s) (hi : s.threads[i]? = some t)
    (hh : t'.pc.holds = t.pc.holds) (ht : ThreadInv s.tbl t') : SysInv (s.setThread i t') := by
  refine ⟨h.tbl, ?_, ?_, ?_⟩
  · intro j x hx hhx
    rcases getElem?_set_some hi hx with ⟨rfl, rfl⟩ | ⟨_, hx⟩
    · exact h.owner _ t hi (hh ▸ hhx)
    · exact h.owner j x hx hhx
  · intro j hl
    obtain ⟨x, hx, hhx⟩ := h.owned j hl
    by_cases hj : j = i
    · subst hj
      rw [hi] at hx; injection hx with hx; subst hx
      exact ⟨t', getElem?_set_self hi, hh ▸ hhx⟩
    · exact ⟨x, by simp only [State.setThread]; rw [getElem?_set_ne hj]; exact hx, hhx⟩
  · intro j x hx
    rcases getElem?_set_some hi hx with ⟨rfl, rfl⟩ | ⟨_, hx⟩
    · exact ht
    · exact h.thr j x hx

/-- a thread outside the critical section keeps its knowledge when the table grows. -/
theorem threadInv_mono {tbl ext : Table} {t : Thread} (hh : t.pc.holds = false)
    (h : ThreadInv tbl t) : ThreadInv (tbl ++ ext) t := by
  obtain ⟨h1, h2⟩ := h
  refine ⟨fun p hp => List.mem_append_left _ (h1 p hp), ?_⟩
  cases hpc : t.pc with
  | lookup d m =>
    simp only [hpc] at h2 ⊢
    exact List.IsPrefix.trans h2 (List.prefix_append _ _)
  | ret d v =>
    simp only [hpc] at h2 ⊢
    exact List.mem_append_left _ h2
  | idle => trivial
  | load d => trivial
  | lock d => trivial
  | reload d => simp [hpc, PC.holds] at hh
  | relookup d m => simp [hpc, PC.holds] at hh
  | store d m2 v => simp [hpc, PC.holds] at hh
  | unlock d v => simp [hpc, PC.holds] at hh

theorem step_inv {s s' : State} {i : Nat} {l : Label} (h : SysInv s) (st : Step s i l s') : SysInv s' := by
  cases st with
  | begin hi hpc htodo =>
    rename_i t d ds
    exact inv_local h hi (by simp [hpc, PC.holds]) ⟨(h.thr i t hi).1, trivial⟩
  | load hi hpc =>
    rename_i t d
    exact inv_local h hi (by simp [hpc, PC.holds]) ⟨(h.thr i t hi).1, List.prefix_refl _⟩
  | hit hi hpc hl =>
    rename_i t d m v
    have ht := h.thr i t hi
    have hp : m <+: s.tbl := by have := ht.2; simpa only [hpc] using this
    exact inv_local h hi (by simp [hpc, PC.holds]) ⟨ht.1, hp.subset (lookup_some_mem hl)⟩
  | miss hi hpc hl =>
    rename_i t d m
    exact inv_local h hi (by simp [hpc, PC.holds]) ⟨(h.thr i t hi).1, trivial⟩
  | reload hi hpc =>
    rename_i t d
    exact inv_local h hi (by simp [hpc, PC.holds]) ⟨(h.thr i t hi).1, rfl⟩
  | rehit hi hpc hl =>
    rename_i t d m v
    have ht := h.thr i t hi
    have hp : m = s.tbl := by have := ht.2; simpa only [hpc] using this
    exact inv_local h hi (by simp [hpc, PC.holds]) ⟨ht.1, hp ▸ lookup_some_mem hl⟩
  | remiss hi hpc hl =>
    rename_i t d m
    have ht := h.thr i t hi
    have hp : m = s.tbl := by have := ht.2; simpa only [hpc] using this
    subst hp
    obtain ⟨e1, e2, _⟩ := addEntry_spec h.tbl hl
    exact inv_local h hi (by simp [hpc, PC.holds]) ⟨ht.1, hl, e2, e1⟩
  | ret hi hpc =>
    rename_i t d v
    have ht := h.thr i t hi
    have hp : (d, v) ∈ s.tbl := by have := ht.2; simpa only [hpc] using this
    refine inv_local h hi (by simp [hpc, PC.holds]) ⟨?_, trivial⟩
    intro p hp'
    simp only [List.mem_cons] at hp'
    rcases hp' with rfl | hp'
    · exact hp
    · exact ht.1 p hp'
  | lock hi hpc hlk =>
    rename_i t d
    refine ⟨h.tbl, ?_, ?_, ?_⟩
    · intro j x hx hhx
      rcases getElem?_set_some hi hx with ⟨rfl, rfl⟩ | ⟨_, hx⟩
      · rfl
      · have := h.owner j x hx hhx
        rw [hlk] at this; cases this
    · intro j hl
      simp only [Option.some.injEq] at hl
      subst hl
      exact ⟨_, getElem?_set_self hi, by simp [PC.holds]⟩
    · intro j x hx
      rcases getElem?_set_some hi hx with ⟨rfl, rfl⟩ | ⟨_, hx⟩
      · exact ⟨(h.thr _ t hi).1, trivial⟩
      · exact h.thr j x hx
  | unlock hi hpc =>
    rename_i t d v
    have ht := h.thr i t hi
    have hown := h.owner i t hi (by simp [hpc, PC.holds])
    have hp : (d, v) ∈ s.tbl := by have := ht.2; simpa only [hpc] using this
    refine ⟨h.tbl, ?_, ?_, ?_⟩
    · intro j x hx hhx
      rcases getElem?_set_some hi hx with ⟨rfl, rfl⟩ | ⟨hne, hx⟩
      · simp [PC.holds] at hhx
      · have := h.owner j x hx hhx
        rw [hown] at this; injection this with this
        exact absurd this.symm hne
    · intro j hl; cases hl
    · intro j x hx
      rcases getElem?_set_some hi hx with ⟨rfl, rfl⟩ | ⟨_, hx⟩
      · exact ⟨ht.1, hp⟩
      · exact h.thr j x hx
  | store hi hpc =>
    rename_i t d m2 v
    have ht := h.thr i t hi
    have hown := h.owner i t hi (by simp [hpc, PC.holds])
    obtain ⟨hl, hv, hm2⟩ : lookup s.tbl d = none ∧ v = strCopy s.tbl.length d ∧ m2 = s.tbl ++ [(d, v)] := by
      have := ht.2; simpa only [hpc] using this
    subst hm2
    refine ⟨?_, ?_, ?_, ?_⟩
    · show Inv (s.tbl ++ [(d, v)])
      rw [hv]; exact h.tbl.append hl
    · intro j x hx hhx
      rcases getElem?_set_some hi hx with ⟨rfl, rfl⟩ | ⟨_, hx⟩
      · exact hown
      · exact h.owner j x hx hhx
    · intro j hlk
      have hlk' : s.lock = some j := hlk
      rw [hown] at hlk'; injection hlk' with hlk'; subst hlk'
      exact ⟨_, getElem?_set_self hi, by simp [PC.holds]⟩
    · intro j x hx
      show ThreadInv (s.tbl ++ [(d, v)]) x
      rcases getElem?_set_some hi hx with ⟨rfl, rfl⟩ | ⟨hne, hx⟩
      · exact ⟨fun p hp => List.mem_append_left _ (ht.1 p hp), by simp⟩
      · refine threadInv_mono ?_ (h.thr j x hx)
        cases hhx : x.pc.holds with
        | false => rfl
        | true =>
          have := h.owner j x hx hhx
          rw [hown] at this; injection this with this
          exact absurd this.symm hne

theorem reach_inv {s0 s : State} (h0 : SysInv s0) (hr : Reach s0 s) : SysInv s := by
  induction hr with
  | refl => exact h0
  | step _ st ih => exact step_inv ih st

/-- a step either leaves the published table alone or replaces it by an extension. -/
theorem step_prefix {s s' : State} {i : Nat} {l : Label} (h : SysInv s) (st : Step s i l s') :
    s.tbl <+: s'.tbl := by
  cases st with
  | store hi hpc =>
    rename_i t d m2 v
    have := (h.thr i t hi).2
    simp only [hpc] at this
    show s.tbl <+: m2
    rw [this.2.2]; exact List.prefix_append _ _
  | _ => exact List.prefix_refl _

theorem reach_prefix {s s' : State} (h : SysInv s) (hr : Reach s s') : s.tbl <+: s'.tbl := by
  induction hr with
  | refl => exact List.prefix_refl _
  | step r st ih => exact List.IsPrefix.trans ih (step_prefix (reach_inv h r) st)

/-! ### request accounting -/

theorem map_set_of_eq {β : Type} (f : Thread → β) {l : List Thread} {i : Nat} {t t' : Thread}
    (hi : l[i]? = some t) (hf : f t' = f t) : (l.set i t').map f = l.map f := by
  apply List.ext_getElem?
  intro j
  simp only [List.getElem?_map]
  by_cases hj : j = i
  · subst hj
    rw [getElem?_set_self hi, hi]; simp [hf]
  · rw [getElem?_set_ne hj]

/-- no step drops, reorders or invents a request. -/
theorem step_requests {s s' : State} {i : Nat} {l : Label} (st : Step s i l s') :
    s'.threads.map Thread.requests = s.threads.map Thread.requests := by
  cases st with
  | begin hi hpc htodo => apply map_set_of_eq _ hi; simp [Thread.requests, PC.cur, hpc, htodo]
  | load hi hpc => apply map_set_of_eq _ hi; simp [Thread.requests, PC.cur, hpc]
  | hit hi hpc _ => apply map_set_of_eq _ hi; simp [Thread.requests, PC.cur, hpc]
  | miss hi hpc _ => apply map_set_of_eq _ hi; simp [Thread.requests, PC.cur, hpc]
  | lock hi hpc _ => apply map_set_of_eq _ hi; simp [Thread.requests, PC.cur, hpc]
  | reload hi hpc => apply map_set_of_eq _ hi; simp [Thread.requests, PC.cur, hpc]
  | rehit hi hpc _ => apply map_set_of_eq _ hi; simp [Thread.requests, PC.cur, hpc]
  | remiss hi hpc _ => apply map_set_of_eq _ hi; simp [Thread.requests, PC.cur, hpc]
  | store hi hpc => apply map_set_of_eq _ hi; simp [Thread.requests, PC.cur, hpc]
  | unlock hi hpc => apply map_set_of_eq _ hi; simp [Thread.requests, PC.cur, hpc]
  | ret hi hpc => apply map_set_of_eq _ hi; simp [Thread.requests, PC.cur, hpc]

theorem reach_requests {s0 s : State} (hr : Reach s0 s) :
    s.threads.map Thread.requests = s0.threads.map Thread.requests := by
  induction hr with
  | refl => rfl
  | step _ st ih => rw [step_requests st, ih]

theorem init_requests (reqs : List (List Bytes)) : (init reqs).threads.map Thread.requests = reqs := by
  simp only [init, List.map_map]
  induction reqs with
  | nil => rfl
  | cons r rs ih => simp [Thread.requests, PC.cur, ih]

/-! ### progress -/

theorem enabled_of_not_holding_lock_free {s : State} {i : Nat} {t : Thread}
    (hi : s.threads[i]? = some t) (hf : t.finished = false) (hl : s.lock = none) : enabled s i = true := by
  unfold enabled stepThreadL
  simp only [hi]
  cases hpc : t.pc with
  | idle =>
    cases htodo : t.todo with
    | nil => simp [Thread.finished, hpc, htodo] at hf
    | cons d ds => simp
  | lookup d m => cases hlk : lookup m d <;> simp [hlk]
  | relookup d m => cases hlk : lookup m d <;> simp [hlk]
  | lock d => simp [hl]
  | _ => simp

theorem enabled_of_holds {s : State} {i : Nat} {t : Thread}
    (hi : s.threads[i]? = some t) (hh : t.pc.holds = true) : enabled s i = true := by
  unfold enabled stepThreadL
  simp only [hi]
  cases hpc : t.pc with
  | relookup d m => cases hlk : lookup m d <;> simp [hlk]
  | reload d => simp
  | store d m2 v => simp
  | unlock d v => simp
  | _ => simp [hpc, PC.holds] at hh

/-! ### the sequential machine is the concurrent one run without interruption -/

theorem runThread_step {s s' : State} {i n : Nat} {l : Label} {t' : Thread}
    (st : Step s i l s') (hi' : s'.threads[i]? = some t') :
    runThread (n + 1) s i = if t'.pc = .idle then s' else runThread n s' i := by
  simp only [runThread, stepThread_iff.2 ⟨l, st⟩, hi']

/-- an uninterrupted `Read` by thread `i` from a quiescent state is the
sequential `internRead`. -/
theorem runThread_eq_internRead {s : State} {i : Nat} {t : Thread} {d : Bytes} {ds : List Bytes}
    (hi : s.threads[i]? = some t) (hpc : t.pc = .idle) (htodo : t.todo = d :: ds)
    (hl : s.lock = none) :
    runThread 9 s i =
      { tbl := (internRead s.tbl d).2, lock := none,
        threads := s.threads.set i ⟨.idle, ds, (d, (internRead s.tbl d).1) :: t.done⟩ } := by
  obtain ⟨tbl, lock, threads⟩ := s
  simp only at hi hl
  subst hl
  have nth : ∀ a : Thread, (threads.set i a)[i]? = some a := fun a => getElem?_set_self hi
  have nth2 : ∀ a b : Thread, ((threads.set i a).set i b)[i]? = some b := fun a b => getElem?_set_self (nth a)
  rw [runThread_step (.begin hi hpc htodo) (nth _)]
  simp only [State.setThread, reduceCtorEq, if_false]
  rw [runThread_step (.load (nth _) rfl) (nth2 _ _)]
  simp only [State.setThread, List.set_set, reduceCtorEq, if_false]
  cases hlk : lookup tbl d with
  | some v =>
    rw [runThread_step (.hit (nth _) rfl hlk) (nth2 _ _)]
    simp only [State.setThread, List.set_set, reduceCtorEq, if_false]
    rw [runThread_step (.ret (nth _) rfl) (nth2 _ _)]
    simp [State.setThread, internRead, hlk]
  | none =>
    rw [runThread_step (.miss (nth _) rfl hlk) (nth2 _ _)]
    simp only [State.setThread, List.set_set, reduceCtorEq, if_false]
    rw [runThread_step (.lock (nth _) rfl rfl) (nth2 _ _)]
    simp only [State.setThread, List.set_set, reduceCtorEq, if_false]
    rw [runThread_step (.reload (nth _) rfl) (nth2 _ _)]
    simp only [State.setThread, List.set_set, reduceCtorEq, if_false]
    rw [runThread_step (.remiss (nth _) rfl hlk) (nth2 _ _)]
    simp only [State.setThread, List.set_set, reduceCtorEq, if_false]
    rw [runThread_step (.store (nth _) rfl) (nth2 _ _)]
    simp only [State.setThread, List.set_set, reduceCtorEq, if_false]
    rw [runThread_step (.unlock (nth _) rfl) (nth2 _ _)]
    simp only [State.setThread, List.set_set, reduceCtorEq, if_false]
    rw [runThread_step (.ret (nth _) rfl) (nth2 _ _)]
    simp [State.setThread, internRead, addString, hlk]

/-- a goroutine running its reads without interruption from a quiescent state
is the sequential machine `internRun`. -/
theorem runReads_eq_internRun {tbl : Table} {threads : List Thread} {i : Nat} {ds : List Bytes}
    {done : List (Bytes × Str)} (hi : threads[i]? = some ⟨.idle, ds, done⟩) :
    runReads ds.length ⟨tbl, none, threads⟩ i =
      ⟨(internRun tbl ds).2, none,
        threads.set i ⟨.idle, [], (ds.zip (internRun tbl ds).1).reverse ++ done⟩⟩ := by
  induction ds generalizing tbl threads done with
  | nil =>
    simp only [runReads, internRun, List.length_nil, List.zip_nil_left, List.reverse_nil, List.nil_append]
    congr 1
    apply List.ext_getElem?
    intro j
    by_cases hj : j = i
    · subst hj; rw [getElem?_set_self hi, hi]
    · rw [getElem?_set_ne hj]
  | cons d ds ih =>
    simp only [List.length_cons, runReads]
    rw [runThread_eq_internRead hi rfl rfl rfl]
    rw [ih (getElem?_set_self hi)]
    simp [internRun, List.set_set]

theorem runThread_reach (n : Nat) (s : State) (i : Nat) : Reach s (runThread n s i) := by
  induction n generalizing s with
  | zero => exact .refl
  | succ n ih =>
    simp only [runThread]
    split
    · exact .refl
    · rename_i s' hs
      obtain ⟨l, st⟩ := stepThread_iff.1 hs
      split
      · split
        · exact Reach.single st
        · exact (Reach.single st).trans (ih s')
      · exact Reach.single st

theorem runReads_reach (n : Nat) (s : State) (i : Nat) : Reach s (runReads n s i) := by
  induction n generalizing s with
  | zero => exact .refl
  | succ n ih => exact (runThread_reach 9 s i).trans (ih _)

end Intern

/-! ### the `intern` option in the codec model

`Ty.unintern` erases every `intern` option in a codec tree (the codec the same
Go type gets without the struct tags).  Size, Append, wire type, zero value and
Read are unchanged, at every depth. -/

mutual
def Ty.unintern : Ty → Ty
  | .bool => .bool
  | .int w => .int w
  | .uint w => .uint w
  | .flat w => .flat w
  | .f32 => .f32
  | .f64 => .f64
  | .str _ => .str false
  | .bytes => .bytes
  | .time c => .time c
  | .ptr t => .ptr t.unintern
  | .vslice t => .vslice t.unintern
  | .fslice t => .fslice t.unintern
  | .lslice t => .lslice t.unintern
  | .pslice t => .pslice t.unintern
  | .struct n fs => .struct n (uninternFields fs)
  | .map k v p => .map k.unintern v.unintern p
def uninternFields : Fields → Fields
  | [] => []
  | (i, n, t) :: r => (i, n, t.unintern) :: uninternFields r
end

mutual
theorem unintern_wt : ∀ t : Ty, t.unintern.wt = t.wt
  | .bool | .int _ | .uint _ | .flat _ | .f32 | .f64 | .str _ | .bytes | .time _ => by simp [Ty.unintern, Ty.wt]
  | .ptr t => by simp [Ty.unintern, Ty.wt, unintern_wt t]
  | .vslice _ | .fslice _ | .lslice _ | .pslice _ => by simp [Ty.unintern, Ty.wt]
  | .struct _ _ => by simp [Ty.unintern, Ty.wt]
  | .map _ _ p => by cases p <;> simp [Ty.unintern, Ty.wt]
end

mutual
theorem unintern_zero : ∀ t : Ty, t.unintern.zero = t.zero
  | .bool | .int _ | .uint _ | .flat _ | .f32 | .f64 | .str _ | .bytes | .time _ => by simp [Ty.unintern, Ty.zero]
  | .ptr _ | .vslice _ | .fslice _ | .lslice _ | .pslice _ | .map _ _ _ => by simp [Ty.unintern, Ty.zero]
  | .struct _ fs => by simp [Ty.unintern, Ty.zero, unintern_zeros fs]
theorem unintern_zeros : ∀ fs : Fields, zeros (uninternFields fs) = zeros fs
  | [] => by simp [uninternFields, zeros]
  | (_, _, t) :: r => by simp [uninternFields, zeros, unintern_zero t, unintern_zeros r]
end

mutual
theorem unintern_size : ∀ (t : Ty) (v : Val) (tag : Bytes), t.unintern.size v tag = t.size v tag
  | .bool, v, tag | .int _, v, tag | .uint _, v, tag | .flat _, v, tag | .f32, v, tag | .f64, v, tag
  | .str _, v, tag | .bytes, v, tag | .time _, v, tag => by cases v <;> simp [Ty.unintern, Ty.size]
  | .ptr t, v, tag => by
      cases v with
      | ptr o => cases o <;> simp [Ty.unintern, Ty.size, unintern_size t]
      | _ => simp [Ty.unintern, Ty.size]
  | .vslice t, v, tag => by
      cases v <;> simp [Ty.unintern, Ty.size, unintern_size t]
  | .fslice t, v, tag => by
      cases v <;> simp [Ty.unintern, Ty.size, unintern_size t, unintern_zero t]
  | .lslice t, v, tag => by
      cases v <;> simp [Ty.unintern, Ty.size, unintern_size t]
  | .pslice t, v, tag => by
      cases v <;> simp [Ty.unintern, Ty.size, unintern_size t]
  | .struct _ fs, v, tag => by
      cases v <;> simp [Ty.unintern, Ty.size, unintern_fieldsSize fs]
  | .map k w p, v, tag => by
      cases p <;> cases v with
      | map o => cases o <;> simp [Ty.unintern, Ty.size, unintern_size k, unintern_size w, unintern_wt k, unintern_wt w]
      | _ => simp [Ty.unintern, Ty.size]
theorem unintern_fieldsSize : ∀ (fs : Fields) (vs : List Val), fieldsSize (uninternFields fs) vs = fieldsSize fs vs
  | [], vs => by simp [uninternFields, fieldsSize]
  | (i, _, t) :: r, [] => by simp [uninternFields, fieldsSize]
  | (i, _, t) :: r, v :: vs => by
      simp [uninternFields, fieldsSize, unintern_size t, unintern_wt t, unintern_fieldsSize r vs]
end

mutual
theorem unintern_app : ∀ (t : Ty) (v : Val) (tag : Bytes), t.unintern.app v tag = t.app v tag
  | .bool, v, tag | .int _, v, tag | .uint _, v, tag | .flat _, v, tag | .f32, v, tag | .f64, v, tag
  | .str _, v, tag | .bytes, v, tag | .time _, v, tag => by cases v <;> simp [Ty.unintern, Ty.app]
  | .ptr t, v, tag => by
      cases v with
      | ptr o => cases o <;> simp [Ty.unintern, Ty.app, unintern_app t]
      | _ => simp [Ty.unintern, Ty.app]
  | .vslice t, v, tag => by
      cases v <;> simp [Ty.unintern, Ty.app, unintern_app t, unintern_size t]
  | .fslice t, v, tag => by
      cases v <;> simp [Ty.unintern, Ty.app, unintern_app t, unintern_size t, unintern_zero t]
  | .lslice t, v, tag => by
      cases v <;> simp [Ty.unintern, Ty.app, unintern_app t, unintern_size t]
  | .pslice t, v, tag => by
      cases v <;> simp [Ty.unintern, Ty.app, unintern_app t]
  | .struct _ fs, v, tag => by
      cases v <;> simp [Ty.unintern, Ty.app, unintern_fieldsApp fs, unintern_fieldsSize fs]
  | .map k w p, v, tag => by
      cases p <;> cases v with
      | map o => cases o <;> simp [Ty.unintern, Ty.app, unintern_app k, unintern_app w, unintern_size k, unintern_size w, unintern_wt k, unintern_wt w]
      | _ => simp [Ty.unintern, Ty.app]
theorem unintern_fieldsApp : ∀ (fs : Fields) (vs : List Val), fieldsApp (uninternFields fs) vs = fieldsApp fs vs
  | [], vs => by simp [uninternFields, fieldsApp]
  | (i, _, t) :: r, [] => by simp [uninternFields, fieldsApp]
  | (i, _, t) :: r, v :: vs => by
      simp [uninternFields, fieldsApp, unintern_app t, unintern_wt t, unintern_fieldsApp r vs]
end

theorem unintern_marshal (t : Ty) (v : Val) : marshal t.unintern v = marshal t v := by
  simp [marshal, unintern_app]


mutual
theorem unintern_read : ∀ (t : Ty) (wt : WT) (d : Bytes) (p : Val), t.unintern.read wt d p = t.read wt d p
  | .bool, wt, d, p | .int _, wt, d, p | .uint _, wt, d, p | .flat _, wt, d, p | .f32, wt, d, p | .f64, wt, d, p
  | .str _, wt, d, p | .bytes, wt, d, p | .time _, wt, d, p => by simp [Ty.unintern, Ty.read]
  | .ptr t, wt, d, p => by simp [Ty.unintern, Ty.read, unintern_read t, unintern_zero t]
  | .vslice t, wt, d, p => by simp [Ty.unintern, Ty.read, unintern_read t, unintern_zero t]
  | .fslice t, wt, d, p => by
      simp [Ty.unintern, Ty.read, unintern_read t, unintern_zero t, unintern_size t, unintern_wt t]
  | .lslice t, wt, d, p => by simp [Ty.unintern, Ty.read, unintern_read t, unintern_zero t]
  | .pslice t, wt, d, p => by simp [Ty.unintern, Ty.read, unintern_read t, unintern_zero t]
  | .struct _ fs, wt, d, p => by
      simp [Ty.unintern, Ty.read, unintern_readField fs, unintern_zeros fs]
  | .map k w pr, wt, d, p => by
      cases pr <;> simp [Ty.unintern, Ty.read, unintern_read k, unintern_read w, unintern_zero k, unintern_zero w]
theorem unintern_readField : ∀ (fs : Fields) (acc : List Val) (idx : Nat) (wt : WT) (body : Bytes),
    readField (uninternFields fs) acc idx wt body = readField fs acc idx wt body
  | [], acc, idx, wt, body => by simp [uninternFields, readField]
  | (i, _, t) :: r, [], idx, wt, body => by simp [uninternFields, readField]
  | (i, _, t) :: r, a :: as, idx, wt, body => by
      simp [uninternFields, readField, unintern_read t, unintern_readField r as]
end

theorem unintern_unmarshal (t : Ty) (d : Bytes) (p : Val) : unmarshal t.unintern d p = unmarshal t d p := by
  simp [unmarshal, unintern_read, unintern_wt]

